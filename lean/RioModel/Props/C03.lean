/-
C03 — body filtering is invariant under chunking of the response stream.

Full statement: `ChunkInvariant tk ev ch` — for every way of cutting a valid UTF-8 body into chunks (empty chunks, the
empty list of chunks and cuts inside multi-byte characters included), the concatenated output equals the output for the
body delivered as one chunk.

Before fe7eac6 it was FALSE of the code for html filters (finding D4: the tokenizer context was lost at a chunk cut inside
a raw-text zone / comment / declaration / CDATA).  Since fe7eac6 `HtmlFilterBodyAction` carries the tokenizer context
across chunks (`last_context`, `Tokenizer::new_fragment`) and keeps every token that was ended by the end of the data.

`chunk_invariant` proves the FULL statement for the chain `FilterBodyAction::new` builds from any html and text filters
(no `Content-Encoding`), under the laws of the stream tokenizer stated in Proofs/FilterStreamLaws.lean (`LosslessAll`,
`TokValidAll`, `RestartLaw`, no token out of nothing) — every schedule, no safe-cut hypothesis.  The laws are discharged
for the tokenizer model in Props/C03tok.lean.  The former D4 witness is pinned as `witness_fixed`.
-/
import RioModel.Proofs.FilterText
import RioModel.Proofs.FilterTotal
import RioModel.Proofs.FilterPipe
import RioModel.Proofs.FilterNoFail
import RioModel.Model.FilterHtml
import RioModel.Props.C04
set_option linter.unusedSimpArgs false
set_option linter.unusedVariables false

namespace Rio.C03
open Rio.Filter

variable {D E : Type}

/-- the body is valid UTF-8 (the quantifier of the property) -/
def ValidBody (b : Bytes) : Prop := utf8Scan b = .ok

/-- **Full statement** of C03 for a chain `ch` (as built by `Chain.new`), tokenizer `tk`, selector oracle `ev`. -/
def ChunkInvariant (tk : Tokenize) (ev : Bytes → Bytes → Bool) (codec : Codec D E) (ch : Chain D E) : Prop :=
  ∀ cs : List Bytes, ValidBody cs.flatten → ch.run tk ev codec cs = ch.run tk ev codec [cs.flatten]

theorem V_of_validBody {b : Bytes} (h : ValidBody b) : V b := by
  have : utf8Split b = some (b, []) := by unfold utf8Split; rw [h]
  exact V_utf8Split this

/-! ### the former D4 witness -/

/-- `<textarea><p></textarea>` -/
def witnessBody : Bytes :=
  [60, 116, 101, 120, 116, 97, 114, 101, 97, 62, 60, 112, 62, 60, 47, 116, 101, 120, 116, 97, 114, 101, 97, 62]

/-- one filter: prepend_child on path [p], no selector, value `$` -/
def witnessChain : Chain Unit Unit :=
  Chain.new noCodec id [.html "prepend_child" [[112]] none [36]] []

/-- the cut: `<textarea><p>` ‖ `</textarea>` -/
def witnessChunks : List Bytes := [witnessBody.take 13, witnessBody.drop 13]

/-- **The D4 witness is repaired** (kernel-evaluated on the tokenizer model; the same input is pinned against the real
code in corpus/C03).  Before fe7eac6 the two-chunk run inserted `$` after `<p>`, re-tokenised as a start tag because the
raw-text context was not carried across the cut; now both runs leave the body unchanged (`<p>` is text of the
textarea). -/
theorem witness_fixed :
    witnessChain.run htmlTokenize evalStandIn noCodec [witnessBody] = witnessBody ∧
    witnessChain.run htmlTokenize evalStandIn noCodec witnessChunks = witnessBody := by
  decide +kernel

/-- **The other three D4 witnesses are repaired too** (same filter; cut inside a comment `<!-` ‖ `-<p>-->`, inside a CDATA
section `<![C` ‖ `DATA[<p>]]>`, inside a declaration `<?x` ‖ ` <p>?>`): every run leaves the body unchanged.  The same
inputs are replayed against the real code from corpus/C03/d4-witnesses.jsonl on every run. -/
theorem d4_witnesses_fixed :
    (witnessChain.run htmlTokenize evalStandIn noCodec [[60, 33, 45], [45, 60, 112, 62, 45, 45, 62]] =
      [60, 33, 45, 45, 60, 112, 62, 45, 45, 62]) ∧
    (witnessChain.run htmlTokenize evalStandIn noCodec [[60, 33, 91, 67], [68, 65, 84, 65, 91, 60, 112, 62, 93, 93, 62]] =
      [60, 33, 91, 67, 68, 65, 84, 65, 91, 60, 112, 62, 93, 93, 62]) ∧
    (witnessChain.run htmlTokenize evalStandIn noCodec [[60, 63, 120], [32, 60, 112, 62, 63, 62]] =
      [60, 63, 120, 32, 60, 112, 62, 63, 62]) := by
  decide +kernel

/-! ### text filters: unconditional -/

/-- **Chains of text filters are invariant under chunking**: for arbitrary bytes (no UTF-8 hypothesis), every
chunking, including the `break` of `do_filter` on an empty intermediate result and the feeding order of `do_end`.
The output has the closed form `textTotal` (each stage: append = stream ++ content, prepend = content ++ stream,
replace = content). -/
theorem text_chunk_invariant (tk : Tokenize) (ev : Bytes → Bytes → Bool) (codec : Codec D E)
    (ch : Chain D E) (hall : AllText ch.items) (herr : ch.inError = false) (cs : List Bytes) :
    ch.run tk ev codec cs = ch.run tk ev codec [cs.flatten] :=
  text_chunk_invariant' tk ev codec ch hall herr cs

/-- the closed form itself -/
theorem text_closed_form (tk : Tokenize) (ev : Bytes → Bytes → Bool) (codec : Codec D E)
    (ch : Chain D E) (hall : AllText ch.items) (herr : ch.inError = false) (cs : List Bytes) :
    ch.run tk ev codec cs = textTotal ch.items cs.flatten :=
  run_text tk ev codec ch hall herr cs

/-- a chain built from text filters only consists of text stages, whatever the headers' content type -/
theorem new_text_only (lower : String → String) (fs : List BodyFilter) (headers : List (String × String))
    (henc : headerValue lower Rio.Consts.filterHeaderContentEncoding headers = none)
    (htext : ∀ f ∈ fs, ∃ a c, f = .text a c) :
    AllText (Chain.new noCodec lower fs headers).items ∧ (Chain.new noCodec lower fs headers).inError = false := by
  have hitems : (Chain.new noCodec lower fs headers) =
      { items := fs.filterMap fun f => Stage.new f (headerValue lower Rio.Consts.filterHeaderContentType headers) } := by
    simp only [Chain.new, henc]
    split <;> rfl
  rw [hitems]
  refine ⟨?_, rfl⟩
  intro st hst
  simp only [List.mem_filterMap] at hst
  obtain ⟨f, hf, hnew⟩ := hst
  obtain ⟨a, c, rfl⟩ := htext f hf
  simp only [Stage.new] at hnew
  injection hnew with hnew
  exact ⟨_, hnew.symm⟩

/-- C03 for text filters, stated on `FilterBodyAction::new`. -/
theorem text_filters_chunk_invariant (tk : Tokenize) (ev : Bytes → Bytes → Bool) (lower : String → String)
    (fs : List BodyFilter) (headers : List (String × String))
    (henc : headerValue lower Rio.Consts.filterHeaderContentEncoding headers = none)
    (htext : ∀ f ∈ fs, ∃ a c, f = .text a c) (cs : List Bytes) :
    (Chain.new noCodec lower fs headers).run tk ev noCodec cs =
      (Chain.new noCodec lower fs headers).run tk ev noCodec [cs.flatten] := by
  obtain ⟨h1, h2⟩ := new_text_only lower fs headers henc htext
  exact text_chunk_invariant tk ev noCodec _ h1 h2 cs

/-! ### html filters: every cut -/

/-- **Splitting lemma** (one html stage, every cut): the total output — outputs of the `filter` calls followed by
`end()` — on `x ++ r` is the output of `filter(x)` followed by the total of the new state on `r`.  From the restart law
of the stream tokenizer (`RestartLaw`): up to splitting of text tokens, the tokens of `data ++ more` in the remembered
context are the tokens processed for `data` followed by the tokens of `kept tail ++ more` in the context remembered
after the call. -/
theorem split_lemma (tk : Tokenize) (ev : Bytes → Bytes → Bool) (hr : RestartLaw tk) (s s1 : HtmlSt) (x r o1 : Bytes)
    (hc : Ctx s.ctx) (h1 : filterHtml tk ev s x = some (s1, o1)) :
    htmlTotal tk ev s (x ++ r) = (htmlTotal tk ev s1 r).map fun t => o1 ++ t :=
  total_split tk ev hr s s1 x r o1 hc h1

/-- **Chunk invariance of one html stage, every schedule**: for every non-empty schedule on which no call fails, the
outputs of the calls followed by `end()` are what the stage emits for the concatenation delivered as one chunk. -/
theorem html_stage_chunk_invariant (tk : Tokenize) (ev : Bytes → Bytes → Bool) (codec : Codec D E) (hr : RestartLaw tk)
    (s : HtmlSt) (hc : Ctx s.ctx) (cs : List Bytes) (hne : cs ≠ []) (hok : seqRun tk ev s cs ≠ none) :
    ({ items := [.html s] } : Chain D E).run tk ev codec cs =
      ({ items := [.html s] } : Chain D E).run tk ev codec [cs.flatten] := by
  cases hr' : seqRun tk ev s cs with
  | none => exact absurd hr' hok
  | some r =>
    obtain ⟨s', o⟩ := r
    have ht := seqRun_total tk ev hr cs s s' o hne hc hr'
    rw [run_single_html tk ev codec cs s s' o hr']
    unfold htmlTotal at ht
    cases hf : filterHtml tk ev s cs.flatten with
    | none => simp [hf] at ht
    | some rb =>
      obtain ⟨sb, ob⟩ := rb
      simp only [hf, Option.map_some] at ht
      injection ht with ht
      have hs : seqRun tk ev s [cs.flatten] = some (sb, ob) := by simp [seqRun, hf]
      rw [run_single_html tk ev codec [cs.flatten] s sb ob hs, ht]

/-- **Chunk invariance for a chain of any number of fresh html and text stages, every schedule** (the empty list of
chunks included), when no call fails.  The chain is a pipeline: each stage receives the NON-EMPTY outputs of the previous
one (the `break` of `do_filter`) and, at end of stream, what the previous stage emits at end as one piece; each stage is
chunk-invariant on whatever pieces it receives. -/
theorem chain_chunk_invariant (tk : Tokenize) (ev : Bytes → Bytes → Bool) (codec : Codec D E)
    (hl : LosslessS tk) (hr : RestartLaw tk)
    (items : List (Stage D E)) (hp : AllPlain items) (hinit : ∀ st ∈ items, StageInit tk st) (cs : List Bytes)
    (hok : runG tk ev codec items cs none ≠ none) (hok1 : runG tk ev codec items [cs.flatten] none ≠ none) :
    ({ items := items } : Chain D E).run tk ev codec cs =
      ({ items := items } : Chain D E).run tk ev codec [cs.flatten] := by
  cases h : runG tk ev codec items cs none with
  | none => exact absurd h hok
  | some out =>
    cases h1 : runG tk ev codec items [cs.flatten] none with
    | none => exact absurd h1 hok1
    | some out1 =>
      rw [run_of_runG tk ev codec cs items out h, run_of_runG tk ev codec [cs.flatten] items out1 h1]
      exact runG_stream tk ev codec hl hr items cs none [cs.flatten] none out out1 hp hinit (by simp) h h1

/-- the stages `FilterBodyAction::new` builds are fresh: nothing held, no context -/
theorem stage_new_init (tk : Tokenize) (hnil : (tk.stream [] []).1 = []) (f : BodyFilter) (ct : Option String)
    (st : Stage Unit Unit) (h : Stage.new f ct = some st) : StageInit tk st := by
  cases f with
  | html action path sel value =>
    simp only [Stage.new] at h
    split at h
    · simp only [Option.map_eq_some_iff] at h
      obtain ⟨v, _, rfl⟩ := h
      exact ⟨Or.inl rfl, rfl, hnil⟩
    · simp at h
  | text a c =>
    simp only [Stage.new] at h
    injection h with h; subst h
    trivial

/-- **C03, the full statement.**  For the chain `FilterBodyAction::new` builds from ANY list of html and text filters
whose values are valid UTF-8 (they are Rust `String`s), without `Content-Encoding`: for every valid UTF-8 body and EVERY
way of cutting it into chunks — inside tags, comments, declarations, CDATA, raw-text elements, multi-byte characters,
with empty chunks or no chunk at all — the concatenated output is byte-identical to the output for the body delivered as
one chunk.  Hypotheses: the laws of the tokenizer only (`LosslessAll`, `TokValidAll`, `RestartLaw`, no token out of
nothing), discharged for the tokenizer model in Props/C03tok.lean; no call fails by `runG_ok` (valid body). -/
theorem chunk_invariant {tk : Tokenize} (hl : LosslessAll tk) (hv : TokValidAll tk) (hr : RestartLaw tk)
    (hnil : (tk.stream [] []).1 = []) (ev : Bytes → Bytes → Bool) (lower : String → String)
    (fs : List BodyFilter) (headers : List (String × String))
    (henc : headerValue lower Rio.Consts.filterHeaderContentEncoding headers = none)
    (hval : ∀ f ∈ fs, V (Rio.C04.filterValue f)) :
    ChunkInvariant tk ev noCodec (Chain.new noCodec lower fs headers) := by
  intro cs hbody
  have hvb : V cs.flatten := V_of_validBody hbody
  rw [Rio.C04.new_plain noCodec lower fs headers henc]
  generalize headerValue lower Rio.Consts.filterHeaderContentType headers = ct
  have hdown : Down (fs.filterMap fun f => (Stage.new f ct : Option (Stage Unit Unit))) := by
    intro st hst
    simp only [List.mem_filterMap] at hst
    obtain ⟨f, hf, hnew⟩ := hst
    exact Rio.C04.stage_new_down f ct st (hval f hf) hnew
  have hinit : ∀ st ∈ (fs.filterMap fun f => (Stage.new f ct : Option (Stage Unit Unit))), StageInit tk st := by
    intro st hst
    simp only [List.mem_filterMap] at hst
    obtain ⟨f, hf, hnew⟩ := hst
    exact stage_new_init tk hnil f ct st hnew
  have hplain : AllPlain (fs.filterMap fun f => (Stage.new f ct : Option (Stage Unit Unit))) := by
    intro st hst
    have := hdown st hst
    cases st <;> simp_all [DStage, isPlain]
  apply chain_chunk_invariant tk ev noCodec hl.stream hr _ hplain hinit cs
  · obtain ⟨out, h, _⟩ := runG_ok hl hv ev noCodec _ cs none hdown (by simpa using hvb)
    rw [h]; simp
  · obtain ⟨out, h, _⟩ := runG_ok hl hv ev noCodec _ [cs.flatten] none hdown (by simpa using hvb)
    rw [h]; simp

/-! ### what the repair costs: an unfinished construct is kept until it is finished

Since fe7eac6 a comment / declaration / CDATA section / raw-text content (`<script>`, `<style>`, `<textarea>`, …) / tag
that is still open at the end of a chunk is kept whole in `last_buffer` until the chunk that closes it (or `end()`)
arrives; before, raw text and comments were emitted progressively (and mis-tokenised: D4).  What is kept is exactly the
unprocessed suffix of the data, and it starts at the first token that was ended by the end of the data: -/

theorem dropWhile_head_false {α : Type} (p : α → Bool) : ∀ (l : List α) (c : α) (rest : List α),
    l.dropWhile p = c :: rest → p c = false
  | [], _, _, h => by simp at h
  | a :: l, c, rest, h => by
    rw [List.dropWhile_cons] at h
    split at h
    · exact dropWhile_head_false p l c rest h
    · rename_i hp
      injection h with h1 _
      subst h1
      simpa using hp

/-- **What one call keeps**: `last_buffer` after the call is the suffix of the validated data that follows the processed
tokens, then the incomplete character; and that suffix is (a) the remainder reported at the `ErrorToken` (an unfinished
tag), or (b) a last text token containing `<` followed by that remainder, or (c) begins with the first token cut by the
end of the data (`isCut`: the open comment / declaration / raw text / tag) — nothing before it is kept. -/
theorem held_bytes {tk : Tokenize} (hl : LosslessS tk) (ev : Bytes → Bytes → Bool) (s s' : HtmlSt) (x o : Bytes)
    (h : filterHtml tk ev s x = some (s', o)) :
    ∃ data pending, utf8Split (s.last ++ x) = some (data, pending) ∧
      s'.last = (view tk s.ctx data).tail ++ pending ∧
      rawsOf (view tk s.ctx data).todo ++ (view tk s.ctx data).tail = data ∧
      ((view tk s.ctx data).tail = (tk.stream s.ctx data).2.1 ∨
       (∃ t : Tok, t.kind = .text ∧ hasLt t.raw = true ∧ (view tk s.ctx data).tail = t.raw ++ (tk.stream s.ctx data).2.1) ∨
       (∃ c rest, (cutSplit (tk.stream s.ctx data).1).2 = c :: rest ∧ isCut c = true ∧
          (view tk s.ctx data).tail = c.tok.raw ++ (rawsOf (toksOf rest) ++ (tk.stream s.ctx data).2.1))) := by
  rw [filterHtml_view] at h
  cases hsp : utf8Split (s.last ++ x) with
  | none => simp [hsp] at h
  | some ap =>
    obtain ⟨data, pending⟩ := ap
    simp only [hsp] at h
    injection h with h
    injection h with h1 _
    subst h1
    refine ⟨data, pending, rfl, rfl, view_todo_tail tk hl s.ctx data, ?_⟩
    unfold view
    simp only
    cases hpost : (cutSplit (tk.stream s.ctx data).1).2 with
    | nil =>
      simp only [List.isEmpty_nil, if_true, toksOf, List.map_nil, rawsOf, List.flatMap_nil, List.append_nil]
      unfold splitHeld
      split
      · rename_i t ht
        split
        · rename_i hc
          right; left
          exact ⟨t, hc.1, hc.2, rfl⟩
        · left; simp
      · left; simp
    | cons c rest =>
      right; right
      refine ⟨c, rest, rfl, ?_, ?_⟩
      · unfold cutSplit at hpost
        simp only at hpost
        have := dropWhile_head_false _ _ _ _ hpost
        simpa using this
      · simp [toksOf, rawsOf, List.append_assoc]

/-! ### non-vacuity -/

example (cs : List Bytes) :
    (Chain.new noCodec id [.text .prepend [80], .text .append [65], .text .replace [88]] []).run htmlTokenize evalStandIn noCodec cs =
    (Chain.new noCodec id [.text .prepend [80], .text .append [65], .text .replace [88]] []).run htmlTokenize evalStandIn noCodec [cs.flatten] :=
  text_filters_chunk_invariant _ _ id _ [] rfl (by
    intro f hf; simp at hf; rcases hf with rfl | rfl | rfl <;> exact ⟨_, _, rfl⟩) cs

end Rio.C03
