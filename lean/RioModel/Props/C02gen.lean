/-
C02 (W16) — the per-layer COUNTERS and the pruning of the host and the path layer, for the definitions TRANSLATED from the
Rust source on every run (`Rio.Consts.genHost*`, `genPath*`; tools/consts_dev/w16_count.py → Generated/DevW16.lean):
`insert`, `remove`, `batch_remove`, `len`, `is_empty` of `HostMatcher` and `PathAndQueryMatcher`.

Property theorems only (helper lemmas and the instantiation of the abstract parameters: Proofs/RouterCountGen.lean).
A translated `&mut self` function returns `Option (result × mutable fields)`; `none` is a Rust panic (`unwrap` of `None`,
`self.count -= 1` at 0 under overflow checks).  Parameters are instantiated with the model's operations: `I : MOps` (any
inner matcher) for `IpMatcher`, `CountGen.map*` (a `HashMap` as the list of its entries) for `static_hosts` /
`static_rules` and the inner maps, the radix-tree model (`Item.insert / remove / retain / modifyAt`, `uGet`, `uInsert`) for
`regex_tree_rule`, `CountGen.treeRetain` for a `retain` whose closure writes a captured cell.

* host layer: translated = `HostT.*` (Model/RouterTreeLayers.lean) for EVERY state, no hypothesis, up to the panic exit;
  the panic exit is dead under the representation relation `HTRepr`;
* path layer: the code's map of maps is kept nested on the translated side (`PathFields`), `PathFields.abs` flattens it
  into the model's `(path, id)` list: `remove` / `batch_remove` commute with `abs` exactly, `insert` up to the order of
  entries of DIFFERENT paths (`SEquiv`: same entries per path in the same order — all `match_request` / `trace` read);
  the model keeps the old tree when `regex_tree_rule.remove` finds nothing, the code what `remove` left: equal under the
  tree invariant (`gen_path_remove_eq_model`), which `PTRepr` contains.
-/
import RioModel.Proofs.RouterCountGen

set_option linter.unusedSimpArgs false
set_option linter.unusedVariables false
set_option linter.unusedSectionVars false

namespace Rio.C02
open Rio.Router Rio.Router.CountGen Rio.Consts Rio.Tree Rio.Regex

/-! ## HostMatcher -/

section
variable (T : TEnv) (I : MOps)

/-- The translated `HostMatcher::insert` with the model's operations for its parameters. -/
@[reducible] def hostInsertG (r : Route) (s : HostTState I) :=
  genHostInsert (fun r => r.host.map sod) T.render (fun h => decide (h = "")) I.empty I.insert
    mapContainsKey mapInsert mapModify treeContains treeModify (fun k v t => uInsert t k v)
    s.statics s.tree s.any s.count r

/-- The translated `HostMatcher::remove` with the model's operations for its parameters. -/
@[reducible] def hostRemoveG (id : String) (s : HostTState I) :=
  genHostRemove I.remove I.isEmpty mapRetain treeRetain s.statics s.tree s.any s.count id

/-- The translated `HostMatcher::batch_remove` with the model's operations for its parameters. -/
@[reducible] def hostBatchRemoveG (ids : List String) (s : HostTState I) :=
  genHostBatchRemove I.batchRemove I.isEmpty mapRetain List.isEmpty treeRetain Item.isEmpty
    s.statics s.tree s.any s.count ids

/-- **translated = model, `HostMatcher::insert`** (every state, every route, no hypothesis): never panics (the
`get_mut(..).unwrap()` follows the `contains_key` / `insert` that makes the key present), `count += 1` on every path
including the early `return` of the empty static host, and the new fields are the model's. -/
theorem gen_host_insert_eq_model (r : Route) (s : HostTState I) :
    hostInsertG T I r s = some ((), (HostT.insert T I r s).fields) :=
  genHostInsert_eq T I r s

/-- **closed form of the translated `HostMatcher::remove`** (every state, no hypothesis): it panics exactly when the
model's `remove` finds the route while `count = 0` (either decrement site); otherwise it returns the model's route
and leaves the model's fields (both `retain`s prune the buckets whose count dropped to 0; the static buckets are ALL
visited, a hit in the static map wins over a hit in the tree). -/
theorem gen_host_remove_closed_form (id : String) (s : HostTState I) :
    hostRemoveG I id s =
      if (HostT.remove I id s).2.isSome && s.count == 0 then none
      else some ((HostT.remove I id s).2, (HostT.remove I id s).1.fields) :=
  genHostRemove_eq I id s

/-- **translated = model, `HostMatcher::batch_remove`** (no hypothesis): `count` is NOT touched, buckets are pruned by
`is_empty()` of the (stale) inner counts, the Boolean is the conjunction of the three emptiness tests. -/
theorem gen_host_batch_remove_eq_model (ids : List String) (s : HostTState I) :
    hostBatchRemoveG I ids s =
      some ((I.isEmpty (HostT.batchRemove I ids s).any && (HostT.batchRemove I ids s).statics.isEmpty
              && (HostT.batchRemove I ids s).tree.isEmpty), (HostT.batchRemove I ids s).fields) :=
  genHostBatchRemove_eq I ids s

/-- **translated = model, `len` / `is_empty`** of both layers: the `count` field / `count == 0`. -/
theorem gen_len_eq_model (s : HostTState I) (p : PathTState) :
    genHostLen s.count = (hostTOps T I).len s ∧ genHostIsEmpty s.count = (hostTOps T I).isEmpty s ∧
    genPathLen p.count = (pathTOps T).len p ∧ genPathIsEmpty p.count = (pathTOps T).isEmpty p :=
  ⟨rfl, rfl, rfl, rfl⟩

variable (Good : List Char → Prop) {I} (IL : MLaws I) (hPS : PrefixSound T.engine Good)

include hPS in
/-- **no translated `count -= 1` of `HostMatcher::remove` underflows, and translated = model** under the
representation relation: in a state that represents a rule list the panic exit is dead. -/
theorem gen_host_remove_eq_model (id : String) (s : HostTState I) (L : List Route) (h : HTRepr T Good IL s L) :
    hostRemoveG I id s = some ((HostT.remove I id s).2, (HostT.remove I id s).1.fields) := by
  rw [gen_host_remove_closed_form]
  cases hr : (HostT.remove I id s).2.isSome
  · simp
  · have hpos : 0 < s.count := (hostTLaws T Good IL hPS).remove_pos s L id h hr
    have : (s.count == 0) = false := by simp; omega
    simp [this]

include hPS in
/-- **`len_remove`, restated for the translated `HostMatcher`**: removing a live (well-formed) rule returns that very
rule, the translated `len` drops by exactly one, and the new fields represent the remaining rules. -/
theorem len_remove_gen_host (s : HostTState I) (L : List Route) (r : Route) (h : HTRepr T Good IL s L)
    (hU : UIds L) (hr : r ∈ L) (hwf : (hostTLaws T Good IL hPS).wf r) :
    ∃ s' : HostTState I, hostRemoveG I r.id s = some (some r, s'.fields) ∧
      genHostLen s'.count + 1 = genHostLen s.count ∧
      HTRepr T Good IL s' (L.filter (fun x => x.id != r.id)) := by
  have hsome : (HostT.remove I r.id s).2 = some r := (hostTLaws T Good IL hPS).remove_some s L r.id r h hU hr hwf rfl
  have hpos : 0 < s.count := (hostTLaws T Good IL hPS).remove_pos s L r.id h
      (by show (HostT.remove I r.id s).2.isSome = true; rw [hsome]; rfl)
  refine ⟨(HostT.remove I r.id s).1, ?_, ?_, (hostTLaws T Good IL hPS).repr_remove s L r.id h hU⟩
  · rw [gen_host_remove_eq_model T Good IL hPS r.id s L h, hsome]
  · have hc : (HostT.remove I r.id s).1.count = s.count - 1 := by
      unfold HostT.remove at hsome ⊢
      by_cases ha : (I.remove r.id s.any).2.isSome
      · simp [ha]
      · simp only [ha] at hsome ⊢
        simp only [Bool.false_eq_true, if_false] at hsome ⊢
        simp [hsome]
    simp only [genHostLen, hc]; omega

include hPS in
/-- **the translated counter bounds the number of routes below** (`insert` adds one, a successful `remove` takes one,
`batch_remove` leaves it: `L.length ≤ count`, with equality as long as no batch removal emptied a rule out). -/
theorem gen_host_count_ge (s : HostTState I) (L : List Route) (h : HTRepr T Good IL s L) :
    L.length ≤ genHostLen s.count := h.repr.len

end

/-! ## PathAndQueryMatcher -/

section
variable (T : TEnv)

/-- The translated `PathAndQueryMatcher::insert` with the model's operations for its parameters. -/
@[reducible] def pathInsertG (r : Route) (n : PathFields) :=
  genPathInsert (fun r => sod r.path) T.render (fun r => r.id) ([] : List (String × Route))
    (fun id r m => mapInsert id r m) mapContainsKey mapInsert mapModify (fun p id r t => Item.insert t p id r)
    n.1 n.2.1 n.2.2 r

/-- The translated `PathAndQueryMatcher::remove` with the model's operations for its parameters. -/
@[reducible] def pathRemoveG (id : String) (n : PathFields) :=
  genPathRemove imapRemove List.isEmpty mapRetain (fun id t => Item.remove t id) n.1 n.2.1 n.2.2 id

/-- The translated `PathAndQueryMatcher::batch_remove` with the model's operations for its parameters. -/
@[reducible] def pathBatchRemoveG (ids : List String) (n : PathFields) :=
  genPathBatchRemove (fun (ids : List String) id => ids.contains id) mapRetain List.isEmpty mapRetain List.isEmpty
    treeRetain Item.isEmpty n.1 n.2.1 n.2.2 ids

/-- **translated = model, `PathAndQueryMatcher::insert`** (every state, no hypothesis): never panics, `count += 1`
first, and the new fields stand for the model's new state — tree and count equal; a marker path leaves the statics
alone; a static path upserts `(id ↦ route)` in the inner map of that path, created on demand. -/
theorem gen_path_insert_eq_model (r : Route) (n : PathFields) :
    ∃ n' : PathFields, pathInsertG T r n = some ((), n') ∧
      n'.abs.tree = (PathT.insert T r n.abs).tree ∧ n'.abs.count = (PathT.insert T r n.abs).count ∧
      (∀ p, r.path = .dyn p → n'.abs = PathT.insert T r n.abs) ∧
      (∀ p, r.path = .static p → n'.2.1 = aupsert (fun m => mapInsert r.id r m) [] p n.2.1) := by
  refine ⟨_, genPathInsert_eq T r n, ?_⟩
  cases hp : r.path <;> simp [PathFields.abs, PathT.insert, hp]

/-- **closed form of the translated `PathAndQueryMatcher::remove`** (every state, no hypothesis): it panics exactly
when the model's `remove` finds the route while `count = 0`; otherwise the returned route and the new count are the
model's and the new `static_rules`, flattened, is the model's list (`entryRemove`: the first inner map holding the
id loses it, an inner map emptied this way is pruned, the maps after a hit are not visited). -/
theorem gen_path_remove_closed_form (id : String) (n : PathFields) :
    (pathRemoveG id n = none ↔ ((PathT.remove id n.abs).2.isSome = true ∧ n.2.2 = 0)) ∧
    ∀ res (n' : PathFields), pathRemoveG id n = some (res, n') →
      res = (PathT.remove id n.abs).2 ∧ n'.1 = (n.1.remove id).1 ∧
      n'.abs.statics = (PathT.remove id n.abs).1.statics ∧ n'.abs.count = (PathT.remove id n.abs).1.count := by
  have h := genPathRemove_eq id n
  have hs := genPathRemove_statics id n
  constructor
  · rw [show pathRemoveG id n = _ from h]
    by_cases hc : ((PathT.remove id n.abs).2.isSome && n.2.2 == 0) = true
    · simp only [hc, if_true, true_iff]
      simpa using hc
    · simp only [hc, if_false]
      simp only [Bool.and_eq_true, beq_iff_eq] at hc
      simp [hc]
  · intro res n' he
    rw [show pathRemoveG id n = _ from h] at he
    by_cases hc : ((PathT.remove id n.abs).2.isSome && n.2.2 == 0) = true
    · simp [hc] at he
    · simp only [hc, if_false] at he
      cases he
      exact ⟨rfl, rfl, hs, rfl⟩

/-- **translated = model, `PathAndQueryMatcher::remove`** under the two facts the representation relation `PTRepr`
provides — the tree invariant, and "found ⇒ `0 < count`": no `count -= 1` underflows, and the new fields stand for
EXACTLY the model's new state. -/
theorem gen_path_remove_eq_model (Good : List Char → Prop) (hPS : PrefixSound T.engine Good)
    (id : String) (n : PathFields) (L : List Route) (h : PTRepr T Good n.abs L) :
    ∃ n' : PathFields, pathRemoveG id n = some ((PathT.remove id n.abs).2, n') ∧
      n'.abs = (PathT.remove id n.abs).1 := by
  have hcf := genPathRemove_eq id n
  have hnp : ((PathT.remove id n.abs).2.isSome && n.2.2 == 0) = false := by
    cases hr : (PathT.remove id n.abs).2.isSome
    · rfl
    · have hpos : 0 < n.abs.count := (pathTLaws T Good hPS).remove_pos n.abs L id h hr
      have : (n.2.2 == 0) = false := by
        have : 0 < n.2.2 := hpos
        simp; omega
      simp [this]
  refine ⟨_, by rw [show pathRemoveG id n = _ from hcf, hnp]; rfl, ?_⟩
  have h1 := genPathRemove_tree id n T.icPath h.inv
  have h2 := genPathRemove_statics id n
  show PathTState.mk _ _ _ = _
  rw [h1, h2]

/-- **translated = model, `PathAndQueryMatcher::batch_remove`** (every state, no hypothesis): never panics, `count` is
not touched, and the new fields stand for EXACTLY the model's new state (inner maps filtered, emptied ones pruned,
tree retained by the same predicate). -/
theorem gen_path_batch_remove_eq_model (ids : List String) (n : PathFields) :
    ∃ (b : Bool) (n' : PathFields), pathBatchRemoveG ids n = some (b, n') ∧
      n'.abs = PathT.batchRemove ids n.abs := by
  refine ⟨_, _, genPathBatchRemove_eq ids n, ?_⟩
  show PathTState.mk _ _ _ = _
  rw [nestedBatch_flat]
  rfl

/-- **`len_remove`, restated for the translated `PathAndQueryMatcher`**: removing a live rule returns that very rule,
the translated `len` drops by exactly one, and the new fields represent the remaining rules. -/
theorem len_remove_gen_path (Good : List Char → Prop) (hPS : PrefixSound T.engine Good)
    (n : PathFields) (L : List Route) (r : Route) (h : PTRepr T Good n.abs L) (hU : UIds L) (hr : r ∈ L) :
    ∃ n' : PathFields, pathRemoveG r.id n = some (some r, n') ∧
      genPathLen n'.2.2 + 1 = genPathLen n.2.2 ∧
      PTRepr T Good n'.abs (L.filter (fun x => x.id != r.id)) := by
  have hsome : (PathT.remove r.id n.abs).2 = some r :=
    (pathTLaws T Good hPS).remove_some n.abs L r.id r h hU hr trivial rfl
  have hpos : 0 < n.abs.count := (pathTLaws T Good hPS).remove_pos n.abs L r.id h
      (by show (PathT.remove r.id n.abs).2.isSome = true; rw [hsome]; rfl)
  obtain ⟨n', he, ha⟩ := gen_path_remove_eq_model T Good hPS r.id n L h
  refine ⟨n', by rw [he, hsome], ?_, ?_⟩
  · have hc : n'.abs.count = n.abs.count - 1 := by
      rw [ha]
      unfold PathT.remove at hsome ⊢
      cases ht : (n.abs.tree.remove r.id).2 with
      | some r0 => simp [ht]
      | none =>
        simp only [ht] at hsome ⊢
        simp [hsome]
    have : n'.2.2 = n.2.2 - 1 := hc
    have hp : 0 < n.2.2 := hpos
    simp only [genPathLen, this]; omega
  · rw [ha]; exact (pathTLaws T Good hPS).repr_remove n.abs L r.id h hU

/-- **the translated counter bounds the number of routes below.** -/
theorem gen_path_count_ge (Good : List Char → Prop) (n : PathFields) (L : List Route) (h : PTRepr T Good n.abs L) :
    L.length ≤ genPathLen n.2.2 := h.len

/-! ### The path layer under the representation relation `PathRel` (nested `static_rules` ↔ the model's flat list)

`PathRel n s`: same tree, same count, `SEquiv (flatN n.static_rules) s.statics` (same entries per path in the same order:
all that `match_request` / `trace` read), one entry per key in the outer map.  The three translated operations preserve it
against the model's operations and return the model's results: translated = model for every pair of related states. -/

/-- the nested fields are related to their own flattening -/
theorem path_rel_abs (n : PathFields) (hk : (akeys n.2.1).Nodup) : PathRel n n.abs :=
  ⟨rfl, rfl, SEquiv.refl _, hk⟩

/-- **translated ≃ model, `insert`, every related pair of states** (no further hypothesis). -/
theorem gen_path_insert_rel (r : Route) (n : PathFields) (s : PathTState) (h : PathRel n s) :
    ∃ n' : PathFields, pathInsertG T r n = some ((), n') ∧ PathRel n' (PathT.insert T r s) := by
  refine ⟨_, genPathInsert_eq T r n, ?_⟩
  unfold PathT.insert
  cases hp : r.path with
  | static p =>
    refine ⟨h.tree, by simp [h.count], ?_, akeys_aupsert_nodup _ _ _ _ h.keys⟩
    intro p'
    exact ((nestedInsert_flat p r.id r n.2.1 h.keys) p').trans ((SEquiv.aupsert h.statics (fun _ => r) r p r.id) p')
  | dyn p => exact ⟨by simp [h.tree], by simp [h.count], h.statics, h.keys⟩

/-- **translated ≃ model, `remove`, every related pair of states** in which the tree invariant holds, a found route
implies a positive counter, and at most one entry of the static list carries the id (all three follow from `PTRepr` and
unique live ids: `gen_path_remove_rel_repr`): no underflow, the model's route, related new states. -/
theorem gen_path_remove_rel (id : String) (n : PathFields) (s : PathTState) (h : PathRel n s) (ic : Bool)
    (hinv : s.tree.inv ic = true) (hpos : (PathT.remove id s).2.isSome = true → 0 < s.count)
    (hu : ∀ e1 ∈ s.statics, ∀ e2 ∈ s.statics, e1.1.2 = id → e2.1.2 = id → e1 = e2) :
    ∃ n' : PathFields, pathRemoveG id n = some ((PathT.remove id s).2, n') ∧ PathRel n' (PathT.remove id s).1 := by
  obtain ⟨r1, r2, r3, r4⟩ := pathT_remove_rel id n s h hu
  have hcf := genPathRemove_eq id n
  have hnp : ((PathT.remove id n.abs).2.isSome && n.2.2 == 0) = false := by
    cases hr : (PathT.remove id n.abs).2.isSome
    · rfl
    · have : 0 < n.2.2 := by rw [h.count]; exact hpos (by rw [← r1]; exact hr)
      have : (n.2.2 == 0) = false := by simp; omega
      simp [this]
  refine ⟨_, by rw [show pathRemoveG id n = _ from hcf, hnp, r1]; rfl, ?_⟩
  refine ⟨?_, ?_, ?_, ?_⟩
  · show (n.1.remove id).1 = _
    rw [genPathRemove_tree id n ic (by rw [h.tree]; exact hinv), r3]
  · exact r2
  · show SEquiv (flatN _) _
    rw [genPathRemove_statics id n]
    exact r4
  · show (akeys (match (n.1.remove id).2 with
         | some _ => n.2.1
         | none => (mapRetain (pathRemoveClos id) n.2.1 none).1)).Nodup
    cases (n.1.remove id).2 with
    | some _ => exact h.keys
    | none => exact (akeys_mapRetain_sublist _ _ _).nodup h.keys

/-- … in particular whenever the model state represents a list of rules with unique ids. -/
theorem gen_path_remove_rel_repr (Good : List Char → Prop) (hPS : PrefixSound T.engine Good)
    (id : String) (n : PathFields) (s : PathTState) (h : PathRel n s) (L : List Route) (hR : PTRepr T Good s L)
    (hU : UIds L) :
    ∃ n' : PathFields, pathRemoveG id n = some ((PathT.remove id s).2, n') ∧ PathRel n' (PathT.remove id s).1 :=
  gen_path_remove_rel id n s h T.icPath hR.inv
    (fun hs => (pathTLaws T Good hPS).remove_pos s L id hR hs)
    (erepr_unique_id staticOf s.statics L hR.statics hU id)

/-- **translated ≃ model, `batch_remove`, every related pair of states** (no further hypothesis). -/
theorem gen_path_batch_remove_rel (ids : List String) (n : PathFields) (s : PathTState) (h : PathRel n s) :
    ∃ (b : Bool) (n' : PathFields), pathBatchRemoveG ids n = some (b, n') ∧ PathRel n' (PathT.batchRemove ids s) := by
  refine ⟨_, _, genPathBatchRemove_eq ids n, ?_⟩
  refine ⟨?_, h.count, ?_, (akeys_mapRetain_sublist _ _ _).nodup h.keys⟩
  · show (PathT.batchRemove ids n.abs).tree = _
    simp [PathT.batchRemove, PathFields.abs, h.tree]
  · show SEquiv (flatN _) _
    rw [nestedBatch_flat]
    exact SEquiv.filter h.statics _

/-- The relation is what the observers need: related states answer `match_request` alike. -/
theorem path_rel_match (n : PathFields) (s : PathTState) (h : PathRel n s) (q : Req) :
    PathT.matchReq T n.abs q = PathT.matchReq T s q := by
  unfold PathT.matchReq PathFields.abs
  simp only [h.tree]
  have := h.statics q.path
  rw [this]

/-- the two `retain` closures of the translated `HostMatcher::remove` (any closure with their specification) keep /
update a bucket independently of the captured `removed` cell — what `CountGen.treeRetain` relies on. -/
theorem hit_closure_state_independent (I : MOps) {κ : Type} (id : String)
    (f : κ → I.M → Option Route → Bool × I.M × Option Route) (hf : IsHitClosure I id f) (k : κ) (v : I.M)
    (s s' : Option Route) : (f k v s).1 = (f k v s').1 ∧ (f k v s).2.1 = (f k v s').2.1 := by
  rw [hf, hf]; exact ⟨rfl, rfl⟩

end

/-! ## Non-vacuity, evaluated examples, and the finding about the model's `remove` -/

section
variable (T : TEnv) (Good : List Char → Prop) (hPS : PrefixSound T.engine Good)

/-- a rule with a static path and no other trigger -/
def genExRoute : Route := { (default : Route) with id := "a", path := .static "/x" }

/-- the translated `insert` evaluated: counter 1, one inner map with one entry -/
example : pathInsertG T genExRoute (Item.empty T.icPath, [], 0) =
    some ((), (Item.empty T.icPath, [("/x", [("a", genExRoute)])], 1)) := by
  rw [show pathInsertG T genExRoute _ = _ from genPathInsert_eq T genExRoute _]
  simp [genExRoute, aupsert, mapInsert]

/-- the translated `remove` evaluated on that state: the rule comes back, the emptied inner map is pruned, counter 0 -/
example : pathRemoveG "a" (Item.empty T.icPath, [("/x", [("a", genExRoute)])], 1) =
    some (some genExRoute, (Item.empty T.icPath, [], 0)) := by
  simp [genPathRemove, Item.remove, mapRetain, imapRemove]

/-- the panic exit is LIVE outside the representation relation: a stored rule under a zero counter -/
example : pathRemoveG "a" (Item.empty T.icPath, [("/x", [("a", genExRoute)])], 0) = none := by
  simp [genPathRemove, Item.remove, mapRetain, imapRemove]

include hPS in
/-- non-vacuity of the hypotheses of `len_remove_gen_path` / `gen_path_remove_eq_model`: the flattened fields after that
insert represent `[genExRoute]` -/
example : PTRepr T Good (PathFields.abs (Item.empty T.icPath, [("/x", [("a", genExRoute)])], 1)) [genExRoute] := by
  have h0 := (pathTLaws T Good hPS).repr_empty
  have : PTRepr T Good (PathT.insert T genExRoute (PathT.empty T)) [genExRoute] :=
    (pathTLaws T Good hPS).repr_insert _ [] genExRoute h0
    (by intro a ha b hb _; simp at ha hb; rw [ha, hb]) (by intro p hp; simp [dynOf, genExRoute] at hp)
  simpa [PathT.insert, PathT.empty, PathFields.abs, flatN, genExRoute, aupsert] using this


/-- "the translated `remove` leaves EXACTLY the model's state" without the tree invariant -/
def PathRemoveEqUnrestricted : Prop :=
  ∀ (id : String) (n n' : PathFields) (res : Option Route),
    pathRemoveG id n = some (res, n') → n'.abs = (PathT.remove id n.abs).1

/-- a node with a single child (never built by `insert` / `remove` / `retain`: the tree invariant excludes it) -/
def genExBadTree : Item String Route :=
  .node (LazyRegex.newNode [] false) [.leaf (LazyRegex.newNode ['a'] false) [("k", genExRoute)]]

/-- **the unrestricted equivalence is FALSE** (a finding about the hand-written MODEL, not the code): when
`regex_tree_rule.remove(id)` finds nothing the code keeps the tree `remove` left, the model (`PathT.remove`) keeps the
old tree; on a tree that violates the invariant `remove` collapses the single-child node although nothing was removed.
Under the invariant (part of `PTRepr`) the two agree: `gen_path_remove_eq_model` / `gen_path_remove_rel` are the
partial forms that hold. -/
theorem gen_path_remove_eq_model_unrestricted_fails : ¬ PathRemoveEqUnrestricted := by
  intro h
  have he : pathRemoveG "z" (genExBadTree, [], 0) =
      some (none, ((Item.leaf (LazyRegex.newNode ['a'] false) [("k", genExRoute)] : Item String Route), [], 0)) := by
    simp [genPathRemove, genExBadTree, Item.remove, removeL, leafRemove, lookupKey, keepNonEmpty, Item.isEmpty, collapse1,
      mapRetain]
  have := h "z" _ _ _ he
  simp [PathFields.abs, PathT.remove, genExBadTree, Item.remove, removeL, leafRemove, lookupKey, keepNonEmpty, Item.isEmpty,
    collapse1, flatN, entryRemove] at this

end
/-! ## Histories on one `PathAndQueryMatcher`: the translated code never panics and stays related to the model -/

/-- an operation on one matcher layer -/
inductive LOp where
  | insert (r : Route)
  | remove (id : String)
  | batchRemove (ids : List String)

/-- its effect on the list of rules the matcher holds -/
def LOp.live : LOp → List Route → List Route
  | .insert r, L => r :: L
  | .remove id, L => L.filter (fun r => r.id != id)
  | .batchRemove ids, L => L.filter (fun r => !ids.contains r.id)

section
variable (T : TEnv) (Good : List Char → Prop)

/-- ids stay unique and inserted marker paths are in the domain of C08 (as `ValidHistory` / `TreeGood` of Props/C02) -/
def LOp.Valid : LOp → List Route → Prop
  | .insert r, L => UIds (r :: L) ∧ PathGood T Good r
  | _, _ => True

def ValidL : List LOp → List Route → Prop
  | [], _ => True
  | op :: ops, L => op.Valid T Good L ∧ ValidL ops (op.live L)

/-- one operation executed by the TRANSLATED code (`none` = panic) -/
def pathStepG : LOp → PathFields → Option PathFields
  | .insert r, n => (pathInsertG T r n).map (·.2)
  | .remove id, n => (pathRemoveG id n).map (·.2)
  | .batchRemove ids, n => (pathBatchRemoveG ids n).map (·.2)

def pathRunG : List LOp → PathFields → Option PathFields
  | [], n => some n
  | op :: ops, n => (pathStepG T op n).bind (pathRunG ops)

/-- one operation executed by the hand-written model -/
def pathStepM : LOp → PathTState → PathTState
  | .insert r, s => PathT.insert T r s
  | .remove id, s => (PathT.remove id s).1
  | .batchRemove ids, s => PathT.batchRemove ids s

theorem uids_filter (L : List Route) (g : Route → Bool) (h : UIds L) : UIds (L.filter g) :=
  h.mono (fun x hx => (List.mem_filter.1 hx).1)

variable (hPS : PrefixSound T.engine Good)

include hPS in
/-- **every valid history, translated vs model**: started in related states that represent a rule list with unique ids,
the translated code runs through the whole history WITHOUT a panic (no `unwrap` of `None`, no counter underflow), ends in
fields related to the model's state, which represents the live rules; the translated counter bounds their number. -/
theorem gen_path_run_rel (ops : List LOp) (n : PathFields) (s : PathTState) (L : List Route)
    (h : PathRel n s) (hR : PTRepr T Good s L) (hU : UIds L) (hv : ValidL T Good ops L) :
    ∃ n' : PathFields, pathRunG T ops n = some n' ∧
      PathRel n' (ops.foldl (fun s op => pathStepM T op s) s) ∧
      PTRepr T Good (ops.foldl (fun s op => pathStepM T op s) s) (ops.foldl (fun L op => op.live L) L) ∧
      (ops.foldl (fun L op => op.live L) L).length ≤ genPathLen n'.2.2 := by
  induction ops generalizing n s L with
  | nil => exact ⟨n, rfl, h, hR, by rw [show genPathLen n.2.2 = s.count from h.count]; exact hR.len⟩
  | cons op ops ih =>
    obtain ⟨hv1, hv2⟩ := hv
    cases op with
    | insert r =>
      obtain ⟨n1, e1, h1⟩ := gen_path_insert_rel T r n s h
      have hR1 : PTRepr T Good (PathT.insert T r s) (r :: L) := (pathTLaws T Good hPS).repr_insert s L r hR hv1.1 hv1.2
      obtain ⟨n', e', r'⟩ := ih n1 _ (r :: L) h1 hR1 hv1.1 hv2
      exact ⟨n', by simp only [pathRunG, pathStepG, e1, Option.map_some, Option.bind_some]; exact e', r'⟩
    | remove id =>
      obtain ⟨n1, e1, h1⟩ := gen_path_remove_rel_repr T Good hPS id n s h L hR hU
      have hR1 : PTRepr T Good (PathT.remove id s).1 (L.filter (fun r => r.id != id)) :=
        (pathTLaws T Good hPS).repr_remove s L id hR hU
      obtain ⟨n', e', r'⟩ := ih n1 _ _ h1 hR1 (uids_filter L _ hU) hv2
      exact ⟨n', by simp only [pathRunG, pathStepG, e1, Option.map_some, Option.bind_some]; exact e', r'⟩
    | batchRemove ids =>
      obtain ⟨b, n1, e1, h1⟩ := gen_path_batch_remove_rel ids n s h
      have hR1 : PTRepr T Good (PathT.batchRemove ids s) (L.filter (fun r => !ids.contains r.id)) :=
        (pathTLaws T Good hPS).repr_batch s L ids hR
      obtain ⟨n', e', r'⟩ := ih n1 _ _ h1 hR1 (uids_filter L _ hU) hv2
      exact ⟨n', by simp only [pathRunG, pathStepG, e1, Option.map_some, Option.bind_some]; exact e', r'⟩

include hPS in
/-- … in particular from the empty matcher (`PathAndQueryMatcher::new`). -/
theorem gen_path_run_from_empty (ops : List LOp) (hv : ValidL T Good ops []) :
    ∃ n' : PathFields, pathRunG T ops (Item.empty T.icPath, [], 0) = some n' ∧
      PathRel n' (ops.foldl (fun s op => pathStepM T op s) (PathT.empty T)) ∧
      (ops.foldl (fun L op => op.live L) []).length ≤ genPathLen n'.2.2 := by
  have h0 : PathRel (Item.empty T.icPath, [], 0) (PathT.empty T) := ⟨rfl, rfl, SEquiv.refl _, by simp [akeys]⟩
  obtain ⟨n', e, r, _, l⟩ := gen_path_run_rel T Good hPS ops _ _ [] h0 (pathTLaws T Good hPS).repr_empty
    (by intro a ha; simp at ha) hv
  exact ⟨n', e, r, l⟩


/-- non-vacuity of `ValidL`: insert the example rule, remove it, insert it again -/
example : ValidL T Good [.insert genExRoute, .remove "a", .insert genExRoute] [] := by
  refine ⟨⟨?_, ?_⟩, trivial, ⟨?_, ?_⟩, trivial⟩
  · intro a ha b hb _; simp at ha hb; rw [ha, hb]
  · intro p hp; simp [dynOf, genExRoute] at hp
  · intro a ha b hb _
    simp [LOp.live, genExRoute] at ha hb
    rw [ha, hb]
  · intro p hp; simp [dynOf, genExRoute] at hp

end

/-! ## Histories on one `HostMatcher` (over any inner matcher with laws) -/

section
variable (T : TEnv) (Good : List Char → Prop) {I : MOps} (IL : MLaws I) (hPS : PrefixSound T.engine Good)

/-- the state with the given fields -/
def HostTState.ofFields (f : List (String × I.M) × Item (List Char) I.M × I.M × Nat) : HostTState I :=
  ⟨f.1, f.2.1, f.2.2.1, f.2.2.2⟩

def LOp.ValidH : LOp → List Route → Prop
  | .insert r, L => UIds (r :: L) ∧ (hostTLaws T Good IL hPS).okIns r
  | _, _ => True

def ValidLH : List LOp → List Route → Prop
  | [], _ => True
  | op :: ops, L => op.ValidH T Good IL hPS L ∧ ValidLH ops (op.live L)

/-- one operation executed by the TRANSLATED `HostMatcher` (`none` = panic) -/
def hostStepG : LOp → HostTState I → Option (HostTState I)
  | .insert r, s => (hostInsertG T I r s).map (fun x => HostTState.ofFields x.2)
  | .remove id, s => (hostRemoveG I id s).map (fun x => HostTState.ofFields x.2)
  | .batchRemove ids, s => (hostBatchRemoveG I ids s).map (fun x => HostTState.ofFields x.2)

def hostRunG : List LOp → HostTState I → Option (HostTState I)
  | [], s => some s
  | op :: ops, s => (hostStepG T op s).bind (hostRunG ops)

/-- one operation executed by the hand-written model -/
def hostStepM : LOp → HostTState I → HostTState I
  | .insert r, s => HostT.insert T I r s
  | .remove id, s => (HostT.remove I id s).1
  | .batchRemove ids, s => HostT.batchRemove I ids s

include hPS in
/-- **every valid history on a `HostMatcher`, translated = model**: from a state that represents a rule list with unique
ids the translated code runs through the whole history without a panic and ends in EXACTLY the model's state, which
represents the live rules; the translated counter bounds their number. -/
theorem gen_host_run_eq_model (ops : List LOp) (s : HostTState I) (L : List Route)
    (hR : HTRepr T Good IL s L) (hU : UIds L) (hv : ValidLH T Good IL hPS ops L) :
    hostRunG T ops s = some (ops.foldl (fun s op => hostStepM T op s) s) ∧
      HTRepr T Good IL (ops.foldl (fun s op => hostStepM T op s) s) (ops.foldl (fun L op => op.live L) L) ∧
      (ops.foldl (fun L op => op.live L) L).length ≤ genHostLen (ops.foldl (fun s op => hostStepM T op s) s).count := by
  induction ops generalizing s L with
  | nil => exact ⟨rfl, hR, hR.repr.len⟩
  | cons op ops ih =>
    obtain ⟨hv1, hv2⟩ := hv
    cases op with
    | insert r =>
      have hR1 : HTRepr T Good IL (HostT.insert T I r s) (r :: L) :=
        (hostTLaws T Good IL hPS).repr_insert s L r hR hv1.1 hv1.2
      obtain ⟨e', r'⟩ := ih _ (r :: L) hR1 hv1.1 hv2
      refine ⟨?_, r'⟩
      simp only [hostRunG, hostStepG, gen_host_insert_eq_model, Option.map_some, Option.bind_some]
      exact e'
    | remove id =>
      have hR1 : HTRepr T Good IL (HostT.remove I id s).1 (L.filter (fun r => r.id != id)) :=
        (hostTLaws T Good IL hPS).repr_remove s L id hR hU
      obtain ⟨e', r'⟩ := ih _ _ hR1 (uids_filter L _ hU) hv2
      refine ⟨?_, r'⟩
      simp only [hostRunG, hostStepG, gen_host_remove_eq_model T Good IL hPS id s L hR, Option.map_some, Option.bind_some]
      exact e'
    | batchRemove ids =>
      have hR1 : HTRepr T Good IL (HostT.batchRemove I ids s) (L.filter (fun r => !ids.contains r.id)) :=
        (hostTLaws T Good IL hPS).repr_batch s L ids hR
      obtain ⟨e', r'⟩ := ih _ _ hR1 (uids_filter L _ hU) hv2
      refine ⟨?_, r'⟩
      simp only [hostRunG, hostStepG, gen_host_batch_remove_eq_model, Option.map_some, Option.bind_some]
      exact e'

end
end Rio.C02
