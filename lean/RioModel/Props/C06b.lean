/-
C06 ∘ C05 — every action the library computes survives the JSON round trip.

`Rio.C06.action_roundtrip` (W4) holds for every action satisfying the representation invariant
`Action.WF` (its two `LinkedHashSet`s are duplicate-free).  Here the invariant is DISCHARGED for every
action the C05 model of `Action::from_routes_rule` builds, and for every state the use-time observers
(`get_status_code`, `filter_headers`, `create_filter_body`, `should_log_request`,
`get_final_status_code_with_fallback`) leave behind — so the round trip holds of what an agent really
sends and of what a proxy really holds, for all matched rules, requests, draws, response codes and
observer sequences.  `toJsonAction showId` translates the action model into the serde model field by
field (Proofs/ActionJsonBridge.lean); `showId` renders an id and only has to be injective.
-/
import RioModel.Props.C05
import RioModel.Props.C06
import RioModel.Proofs.ActionJsonBridge
import RioModel.Proofs.ActionBridge
set_option linter.unusedSimpArgs false

namespace Rio.C06
open Rio.Action Rio.Action.Spec

/-- The computed action is well-formed for serialisation. -/
theorem model_action_wf (showId : RuleId → String) (hinj : Function.Injective showId)
    (R : List Rule) (q : Req) (draw : Rule → Nat) :
    (toJsonAction showId (fromRoutesRule R q draw)).WF := by
  have e : fromRoutesRule R q draw =
      withApplied (Spec.action q (contributing q draw (sortRules R))) (dedupLast []) :=
    Rio.C05.action_eq_spec R q draw
  rw [e]
  exact withApplied_spec_wf showId hinj q _ []

/-- **Round trip of every computed action** (value level): `from_value(to_value(action)) = action`. -/
theorem model_action_roundtrip (showId : RuleId → String) (hinj : Function.Injective showId)
    (R : List Rule) (q : Req) (draw : Rule → Nat) :
    Rio.Json.deAction (Rio.Json.serAction (toJsonAction showId (fromRoutesRule R q draw))) =
      some (toJsonAction showId (fromRoutesRule R q draw)) :=
  action_roundtrip _ (model_action_wf showId hinj R q draw)

/-- … and on the text level: `from_str(to_string(action)) = action`. -/
theorem model_action_text_roundtrip (showId : RuleId → String) (hinj : Function.Injective showId)
    (R : List Rule) (q : Req) (draw : Rule → Nat) :
    Rio.Json.deActionText
        (Rio.Json.print (Rio.Json.serAction (toJsonAction showId (fromRoutesRule R q draw)))).toList =
      some (toJsonAction showId (fromRoutesRule R q draw)) :=
  action_text_roundtrip _ (model_action_wf showId hinj R q draw)

/-- The action a proxy holds after any sequence of observer calls (its `rules_applied` set has grown)
is well-formed too … -/
theorem observed_action_wf (showId : RuleId → String) (hinj : Function.Injective showId)
    (R : List Rule) (q : Req) (draw : Rule → Nat) (allowLog : Bool) (c : Nat) (ops : List Op) :
    (toJsonAction showId (stateAfter allowLog c (fromRoutesRule R q draw) ops)).WF := by
  have e : fromRoutesRule R q draw =
      withApplied (Spec.action q (contributing q draw (sortRules R))) (dedupLast []) :=
    Rio.C05.action_eq_spec R q draw
  rw [e, stateAfter_spec]
  exact withApplied_spec_wf showId hinj q _ _

/-- … hence round-trips (e.g. when it is logged or handed over after use). -/
theorem observed_action_roundtrip (showId : RuleId → String) (hinj : Function.Injective showId)
    (R : List Rule) (q : Req) (draw : Rule → Nat) (allowLog : Bool) (c : Nat) (ops : List Op) :
    Rio.Json.deAction (Rio.Json.serAction
        (toJsonAction showId (stateAfter allowLog c (fromRoutesRule R q draw) ops))) =
      some (toJsonAction showId (stateAfter allowLog c (fromRoutesRule R q draw) ops)) :=
  action_roundtrip _ (observed_action_wf showId hinj R q draw allowLog c ops)

/-- The restored action behaves like the original under every observer: translated states are equal,
so any function of them is. -/
theorem model_action_behaviour {β : Type} (obs : Rio.Json.Action → β) (showId : RuleId → String)
    (hinj : Function.Injective showId) (R : List Rule) (q : Req) (draw : Rule → Nat) :
    ∃ a', Rio.Json.deAction (Rio.Json.serAction (toJsonAction showId (fromRoutesRule R q draw))) = some a' ∧
      obs a' = obs (toJsonAction showId (fromRoutesRule R q draw)) :=
  ⟨_, model_action_roundtrip showId hinj R q draw, rfl⟩

/-- The two independently written models of `LinkedHashSet::insert` (this package's `lhsInsert`, W4's
`insertBack`) build the same sets: the `rules_applied` of any observer sequence, rendered, is W4's
fold of `insertBack` over the rendered insertions — the list `linked_hash_set_nodup` speaks about. -/
theorem linked_hash_set_models_agree (showId : RuleId → String) (hinj : Function.Injective showId)
    (inserted : List RuleId) :
    (inserted.foldl lhsInsert []).map showId = (inserted.map showId).foldl Rio.Json.insertBack [] :=
  foldl_lhsInsert_map showId hinj inserted [] List.nodup_nil

/-! ### Non-vacuity -/

/-- An injective rendering exists (so the hypothesis of the theorems above can be met): each byte `n`
as `n` letters `a` followed by `b`.  (The driver renders ids by UTF-8 decoding, which is injective on
the ids that occur: they are the UTF-8 bytes of Rust `String`s, `Rio.Action.utf8_inj`.) -/
def unary : RuleId → List Char
  | [] => []
  | n :: l => List.replicate n 'a' ++ 'b' :: unary l

theorem unary_head (n m : Nat) (x y : List Char)
    (h : List.replicate n 'a' ++ 'b' :: x = List.replicate m 'a' ++ 'b' :: y) : n = m ∧ x = y := by
  induction n generalizing m with
  | zero =>
    cases m with
    | zero => simpa using h
    | succ m => simp [List.replicate_succ] at h
  | succ n ih =>
    cases m with
    | zero => simp [List.replicate_succ] at h
    | succ m =>
      simp only [List.replicate_succ, List.cons_append, List.cons.injEq, true_and] at h
      obtain ⟨h1, h2⟩ := ih m h
      exact ⟨by omega, h2⟩

theorem unary_injective : Function.Injective unary := by
  intro l1
  induction l1 with
  | nil =>
    intro l2 h
    cases l2 with
    | nil => rfl
    | cons m t => simp [unary] at h
  | cons n l ih =>
    intro l2 h
    cases l2 with
    | nil => simp [unary] at h
    | cons m t =>
      simp only [unary] at h
      obtain ⟨h1, h2⟩ := unary_head n m _ _ h
      rw [h1, ih h2]

def showUnary (l : RuleId) : String := String.ofList (unary l)

theorem showUnary_injective : Function.Injective showUnary := by
  intro a b h
  unfold showUnary at h
  exact unary_injective (String.ofList_injective h)

private def mk (id : RuleId) (rank : Nat) (status : Option Nat) : Rule :=
  { id := id, rank := rank, statusCode := status, target := some "/t", responseStatusCodes := some [404],
    excludeResponseStatusCodes := none, sampling := none, headerFilters := none, bodyFilters := none,
    logOverride := some true, reset := none, stop := none, redirectUnitId := none,
    configurationLogUnitId := none, targetHash := none }

/-- The theorems applied to a concrete pair of matched rules and a concrete injective rendering. -/
example :
    let a := toJsonAction showUnary
      (fromRoutesRule [mk [97] 1 (some 301), mk [98] 2 none] ⟨none, none⟩ (fun _ => 1))
    Rio.Json.deAction (Rio.Json.serAction a) = some a ∧ a.WF :=
  ⟨model_action_roundtrip showUnary showUnary_injective _ _ _,
   model_action_wf showUnary showUnary_injective _ _ _⟩

end Rio.C06
