/-
C19 — project-level analyses: the redirect-chain clause

  "redirect-chain analysis stops within the hop limit reporting a loop exactly when a
   (URL, method) repeats"

Property theorems only (lemmas: Proofs/Loop.lean, model: Model/Loop.lean).  All theorems hold for
EVERY router step function `step` (what one evaluation of the real pipeline answers for a
`(url, method)`), every project-domain predicate `ext`, every `max_hops`, url and method: nothing is
assumed about the router.  Termination for every step function is the totality of `compute`
(structural recursion on the number of remaining values of `i`); `router_evaluations_bounded`
states it quantitatively.

The clauses "project ≡ standalone" and "response == live pipeline" are decided by the oracles of the
harness (c19) on the implementation; the abstract-router extensionality theorem is a separate
module (Props/C19b.lean, another work package).
-/
import RioModel.Proofs.Loop

set_option linter.unusedSimpArgs false
set_option linter.unusedSectionVars false

namespace Rio.C19
open Rio.Loop

variable {U M : Type} [DecidableEq U] [DecidableEq M]
variable (step : U → M → StepOut U) (ext : U → Bool) (get : M) (maxHops : Nat) (url : U) (method : M)

/-- **Bound.**  The chain has at most `max_hops + 1` entries (the start plus one per value of `i`)
and at least the start. -/
theorem loop_bounded :
    1 ≤ (compute step ext get maxHops url method).hops.length ∧
    (compute step ext get maxHops url method).hops.length ≤ maxHops + 1 :=
  ⟨(compute_post step ext get maxHops url method).len_pos,
   (compute_post step ext get maxHops url method).bound⟩

/-- **Termination, quantitatively.**  `compute` evaluates the router at most `max_hops` times,
whatever the router answers (the instrumented copy returns the same state). -/
theorem router_evaluations_bounded :
    (computeCount step ext get maxHops url method).1 = compute step ext get maxHops url method ∧
    (computeCount step ext get maxHops url method).2 ≤ maxHops := by
  have := runCount_spec step ext get maxHops maxHops 1 (init url method) 0
  exact ⟨this.1, by simpa [computeCount] using this.2⟩

/-- **Loop iff repeat.**  `error = Loop` exactly when the `(url, method)` of the last hop occurs
among the earlier hops. -/
theorem loop_iff_repeat :
    (compute step ext get maxHops url method).error = some Err.loop ↔
      LastRepeats (compute step ext get maxHops url method).hops :=
  (compute_post step ext get maxHops url method).loop_iff

/-- Only the last hop can be a repeat: the hops before it have pairwise distinct `(url, method)`. -/
theorem earlier_hops_distinct :
    (keys (compute step ext get maxHops url method).hops.dropLast).Nodup :=
  (compute_post step ext get maxHops url method).prefix_nodup

/-- Equivalent reading: `error = Loop` iff some `(url, method)` occurs twice in the chain. -/
theorem loop_iff_not_nodup :
    (compute step ext get maxHops url method).error = some Err.loop ↔
      ¬ (keys (compute step ext get maxHops url method).hops).Nodup := by
  rw [loop_iff_repeat]
  constructor
  · intro h hnd; exact not_lastRepeats_of_nodup hnd h
  · intro hnd
    have hp := earlier_hops_distinct step ext get maxHops url method
    have hpos := (loop_bounded step ext get maxHops url method).1
    generalize (compute step ext get maxHops url method).hops = hs at *
    rcases List.eq_nil_or_concat hs with rfl | ⟨pre, l, rfl⟩
    · simp at hpos
    · refine ⟨pre, l, by simp, ?_⟩
      apply Classical.byContradiction
      intro hnm
      apply hnd
      simp only [List.concat_eq_append, List.dropLast_concat] at hp ⊢
      rw [keys_append, List.nodup_append]
      refine ⟨hp, by simp [keys], ?_⟩
      intro a ha b hb
      simp only [keys, List.map_cons, List.map_nil, List.mem_singleton] at hb
      subst hb
      intro h; subst h; exact hnm ha

/-- **TooManyHops iff the limit was reached.**  `error = TooManyHops` exactly when `max_hops ≥ 1`,
all `max_hops` turns pushed a hop, no `(url, method)` repeats and the last target is inside the
project domains (`ext = false`). -/
theorem too_many_iff :
    (compute step ext get maxHops url method).error = some Err.tooManyHops ↔
      (1 ≤ maxHops ∧ (compute step ext get maxHops url method).hops.length = maxHops + 1 ∧
        (keys (compute step ext get maxHops url method).hops).Nodup ∧
        ∃ pre l, (compute step ext get maxHops url method).hops = pre ++ [l] ∧ ext l.url = false) :=
  (compute_post step ext get maxHops url method).too_many_iff

/-- The two remaining values of `error`: `AtLeastOneHop` iff at least two redirects were followed,
`None` otherwise; and a walk that stopped below the limit without error stopped for a reason
(target outside the project, request not buildable, status not a redirect, or no Location). -/
theorem other_errors
    (h1 : (compute step ext get maxHops url method).error ≠ some Err.loop)
    (h2 : (compute step ext get maxHops url method).error ≠ some Err.tooManyHops) :
    (compute step ext get maxHops url method).error =
        (if 3 ≤ (compute step ext get maxHops url method).hops.length then some Err.atLeastOneHop else none) ∧
      ((compute step ext get maxHops url method).hops.length ≤ maxHops →
        Stuck step ext (compute step ext get maxHops url method).hops) :=
  (compute_post step ext get maxHops url method).other h1 h2

/-- **The chain is a path of the router.**  Every hop after the first is what the router answered
for the previous hop: a redirect status, the joined Location, and the method rewritten to GET by
301/302 only. -/
theorem hops_follow_router :
    Chained step get (compute step ext get maxHops url method).hops :=
  (compute_post step ext get maxHops url method).chain

/-- The chain starts at the example's url and method with status 0. -/
theorem first_hop :
    (compute step ext get maxHops url method).hops.head? = some ⟨url, 0, method⟩ := by
  obtain ⟨l, hl⟩ := run_prefix step ext get maxHops maxHops 1 (init url method)
  unfold compute
  rw [hl]
  simp [init]

/-! ### Non-vacuity: concrete step functions exercising every outcome -/

section Examples

/-- urls are numbers; `n ↦ n + 1` by a 302 until 3, which answers 200. -/
def stepLine : Nat → Nat → StepOut Nat := fun u _ => if u < 3 then .resp 302 (some (u + 1)) else .resp 200 none

/-- a 2-cycle `0 → 1 → 0` with 307 (method kept). -/
def stepCycle : Nat → Nat → StepOut Nat := fun u _ => .resp 307 (some (1 - u))

example : (compute stepLine (fun _ => false) 0 10 0 7).hops.map (·.url) = [0, 1, 2, 3] ∧
    (compute stepLine (fun _ => false) 0 10 0 7).hops.map (·.method) = [7, 0, 0, 0] ∧
    (compute stepLine (fun _ => false) 0 10 0 7).error = some Err.atLeastOneHop := by decide

example : (compute stepLine (fun _ => false) 0 2 0 7).error = some Err.tooManyHops ∧
    (compute stepLine (fun _ => false) 0 2 0 7).hops.length = 3 := by decide

example : (compute stepCycle (fun _ => false) 0 10 0 7).error = some Err.loop ∧
    (compute stepCycle (fun _ => false) 0 10 0 7).hops.map (·.url) = [0, 1, 0] := by decide

example : LastRepeats (compute stepCycle (fun _ => false) 0 10 0 7).hops :=
  (loop_iff_repeat stepCycle (fun _ => false) 0 10 0 7).1 (by decide)

/-- the project-domain break: target 1 is outside the project → one hop, no error. -/
example : (compute stepCycle (fun u => u == 1) 0 10 0 7).error = none ∧
    (compute stepCycle (fun u => u == 1) 0 10 0 7).hops.length = 2 := by decide

/-- max_hops = 0: the loop body never runs. -/
example : (compute stepCycle (fun _ => false) 0 0 0 7).hops.length = 1 ∧
    (compute stepCycle (fun _ => false) 0 0 0 7).error = none := by decide

end Examples

end Rio.C19
