/-
C04-2 (review C): insert filters — the tighter count bound and the POSITION of the copies.

  `insert_one_tight_final`     one append_child / prepend_child filter (with or without selector), valid UTF-8 body, every
                               schedule: `InsN value k body out` with k ≤ the number of tokens at which the visitor CAN insert
                               (`insTok`): openers named on the path for prepend_child without selector, closers named on the
                               path otherwise — the bound the harness checks on the implementation.
  `insert_one_position_final`  without selector: the output renders the token stream of the body keeping EVERY token in place,
                               each copy of the value immediately AFTER an opener (prepend_child) / immediately BEFORE a
                               closer (append_child) named on the path (`IScript`), followed by the unfinished tail verbatim.
"Named on the path", not "named by the last path element": observation O7 (append_child acts on the parent when the last
path element is absent).  With a selector the element is buffered and re-tokenised by `append_child` / `prepend_child`
(body_append.rs / body_prepend.rs): the position inside the buffered element is C15's business, only the count is proved.
-/
import RioModel.Props.C04strong
import RioModel.Proofs.FilterInsPos
set_option linter.unusedSimpArgs false
set_option linter.unusedVariables false

namespace Rio.C04
open Rio.Filter

section
variable {tk : Tokenize} (hl : LosslessAll tk) (ev : Bytes → Bytes → Bool)
include hl

/-- the tighter length bound of an insert stage on a whole valid stream -/
theorem stage_one_len2 (v : Visitor) (hb : v.before = []) (a b : Bytes) (ha : V a)
    (h : stOne tk ev (.html (HtmlSt.new v) : Stage Unit Unit) a = some b) :
    b.length ≤ a.length + v.content.length * ((view tk [] a).all.filter (insTok v (pathOf v))).length := by
  have hsp : utf8Split ((HtmlSt.new v).last ++ a) = some (a, []) := by
    simpa [HtmlSt.new] using utf8Split_of_V ha
  simp only [stOne] at h
  rw [total_formula tk ev (HtmlSt.new v) a a [] hsp] at h
  injection h with h
  have hP : PInv (pathOf v) (HtmlSt.new v) := by
    refine ⟨rfl, ?_, ?_⟩
    · intro x hx
      simp only [HtmlSt.new, Visitor.first, hb, List.reverse_nil] at hx
      injection hx with hx
      subst hx
      exact cur_mem_path v
    · intro x hx; simp [HtmlSt.new] at hx
  have hlen := fold_len2 hl.plain ev (view tk [] a).all (HtmlSt.new v) [] hP
  have hrem := congrArg List.length (view_all_rem tk hl.stream [] a)
  have hc : (HtmlSt.new v).ctx = [] := rfl
  rw [hc] at h
  rw [← h]
  simp only [List.length_append, List.length_nil] at hrem ⊢
  have h0 : (ledger (HtmlSt.new v) []).length = 0 := by simp [ledger, HtmlSt.new]
  have hcv : (HtmlSt.new v).visitor = v := rfl
  rw [h0, hcv] at hlen
  omega

omit hl in
/-- where an insert stage WITHOUT selector puts its copies, on a whole valid stream -/
theorem stage_one_position (v : Visitor) (hk : v.kind ≠ .replace) (hb : v.before = []) (hnb : v.isBuffering = false)
    (hs : v.hasSel = false) (a b : Bytes) (ha : V a)
    (h : stOne tk ev (.html (HtmlSt.new v) : Stage Unit Unit) a = some b) :
    ∃ o', IScript v.content (v.kind == .prepend) (pathOf v) (view tk [] a).all o' ∧ b = o' ++ (view tk [] a).rem := by
  have hsp : utf8Split ((HtmlSt.new v).last ++ a) = some (a, []) := by
    simpa [HtmlSt.new] using utf8Split_of_V ha
  simp only [stOne] at h
  rw [total_formula tk ev (HtmlSt.new v) a a [] hsp] at h
  injection h with h
  have hc : (HtmlSt.new v).ctx = [] := rfl
  rw [hc] at h
  obtain ⟨i1, i2⟩ := fold_insert_nosel_strong tk ev v hk hb hnb hs (view tk [] a).all
  refine ⟨_, i1, ?_⟩
  rw [← h]
  simp [ledger, i2]

end

/-- **One insert filter (with or without selector), valid UTF-8 body, every schedule, tokenizer model**: `k` whole copies of
the value are inserted, `k` at most the number of OPENERS (prepend_child without selector) resp. CLOSERS (append_child;
prepend_child with a selector) of the body's token stream that are named on the filter's path. -/
theorem insert_one_tight_final (ev : Bytes → Bytes → Bool) (lower : String → String) (headers : List (String × String))
    (action : String) (hact : action = Rio.Consts.filterActionAppend ∨ action = Rio.Consts.filterActionPrepend)
    (p : Bytes) (ps : List Bytes) (sel : Option Bytes) (value : Bytes) (hne : value ≠ [])
    (henc : headerValue lower Rio.Consts.filterHeaderContentEncoding headers = none)
    (hct : htmlAllowed (headerValue lower Rio.Consts.filterHeaderContentType headers) = true)
    (hval : V value) (cs : List Bytes) (hbody : Rio.C03.ValidBody cs.flatten) :
    ∃ (v : Visitor) (k : Nat), Visitor.new action (p :: ps) sel value = some v ∧
      k ≤ ((view htmlTokenize [] cs.flatten).all.filter (insTok v (p :: ps))).length ∧
      InsN value k cs.flatten
        ((Chain.new noCodec lower [.html action (p :: ps) sel value] headers).run htmlTokenize ev noCodec cs) := by
  have hvb : V cs.flatten := Rio.C03.V_of_validBody hbody
  have key : ∀ kd : VKind, kd ≠ .replace →
      Visitor.new action (p :: ps) sel value = some { kind := kd, cur := p, after := ps, sel := sel, content := value } →
      ∃ (v : Visitor) (k : Nat), Visitor.new action (p :: ps) sel value = some v ∧
        k ≤ ((view htmlTokenize [] cs.flatten).all.filter (insTok v (p :: ps))).length ∧
        InsN value k cs.flatten
          ((Chain.new noCodec lower [.html action (p :: ps) sel value] headers).run htmlTokenize ev noCodec cs) := by
    intro kd hkd hnew
    have hpipe := run_closed_form htmlTokenize_losslessAll tokenizer_tokValid htmlTokenize_restartLaw htmlStream_nil_nil ev
      lower [.html action (p :: ps) sel value] headers henc (by intro f hf; simp at hf; subst hf; exact hval) cs hbody
    have hspec := conservative_strong_final ev lower [.html action (p :: ps) sel value] headers henc
      (by intro f hf; simp at hf; subst hf; exact hval) cs hbody
    rw [chain_of_one_html lower headers action p ps sel value kd henc hct hnew] at hpipe hspec
    obtain ⟨b, h1, _, h3⟩ := hpipe
    simp only [PipeOne] at h3
    obtain ⟨b', s1, _, s3⟩ := hspec
    simp only [PipeSpec] at s3
    have hlen := stage_one_len2 htmlTokenize_losslessAll ev
      { kind := kd, cur := p, after := ps, sel := sel, content := value } rfl cs.flatten _ hvb h1
    have hedit : Edit [value] [] cs.flatten b' := by
      cases kd with
      | replace => exact absurd rfl hkd
      | append => simp only [StageSpec, HtmlSt.new] at s1; exact s1.1
      | prepend => simp only [StageSpec, HtmlSt.new] at s1; exact s1.1
    rw [s3] at hedit
    rw [h3] at hlen
    obtain ⟨k, hk1, hk2⟩ := count_of_len hne hedit (by simpa [pathOf] using hlen)
    exact ⟨_, k, hnew, by simpa [pathOf] using hk1, hk2⟩
  rcases hact with rfl | rfl
  · exact key .append (by simp) (by simp [Visitor.new, Rio.Consts.filterActionReplace, Rio.Consts.filterActionAppend, Rio.Consts.filterActionPrepend])
  · exact key .prepend (by simp) (by simp [Visitor.new, Rio.Consts.filterActionReplace, Rio.Consts.filterActionAppend, Rio.Consts.filterActionPrepend])

/-- **One insert filter WITHOUT selector, valid UTF-8 body, every schedule, tokenizer model — the positions.**  With
`T ++ rem` the tokenization of the body: the output is `o' ++ rem` where `o'` keeps EVERY token of `T` in place and puts each
copy of the value immediately after an opener (`prepend_child`: a start / self-closing tag) resp. immediately before a
closer (`append_child`: an end / self-closing / void start tag) whose name is on the filter's path. -/
theorem insert_one_position_final (ev : Bytes → Bytes → Bool) (lower : String → String) (headers : List (String × String))
    (action : String) (hact : action = Rio.Consts.filterActionAppend ∨ action = Rio.Consts.filterActionPrepend)
    (p : Bytes) (ps : List Bytes) (sel : Option Bytes) (hsel : sel = none ∨ sel = some []) (value : Bytes)
    (henc : headerValue lower Rio.Consts.filterHeaderContentEncoding headers = none)
    (hct : htmlAllowed (headerValue lower Rio.Consts.filterHeaderContentType headers) = true)
    (hval : V value) (cs : List Bytes) (hbody : Rio.C03.ValidBody cs.flatten) :
    ∃ o', IScript value (action == Rio.Consts.filterActionPrepend) (p :: ps) (view htmlTokenize [] cs.flatten).all o' ∧
      (Chain.new noCodec lower [.html action (p :: ps) sel value] headers).run htmlTokenize ev noCodec cs =
        o' ++ (view htmlTokenize [] cs.flatten).rem := by
  have hvb : V cs.flatten := Rio.C03.V_of_validBody hbody
  have hnosel : ∀ kd : VKind, ({ kind := kd, cur := p, after := ps, sel := sel, content := value } : Visitor).hasSel = false := by
    intro kd
    rcases hsel with rfl | rfl <;> simp [Visitor.hasSel]
  have key : ∀ kd : VKind, kd ≠ .replace → (kd == .prepend) = (action == Rio.Consts.filterActionPrepend) →
      Visitor.new action (p :: ps) sel value = some { kind := kd, cur := p, after := ps, sel := sel, content := value } →
      ∃ o', IScript value (action == Rio.Consts.filterActionPrepend) (p :: ps) (view htmlTokenize [] cs.flatten).all o' ∧
        (Chain.new noCodec lower [.html action (p :: ps) sel value] headers).run htmlTokenize ev noCodec cs =
          o' ++ (view htmlTokenize [] cs.flatten).rem := by
    intro kd hkd hpre hnew
    have hpipe := run_closed_form htmlTokenize_losslessAll tokenizer_tokValid htmlTokenize_restartLaw htmlStream_nil_nil ev
      lower [.html action (p :: ps) sel value] headers henc (by intro f hf; simp at hf; subst hf; exact hval) cs hbody
    rw [chain_of_one_html lower headers action p ps sel value kd henc hct hnew] at hpipe
    obtain ⟨b, h1, _, h3⟩ := hpipe
    simp only [PipeOne] at h3
    subst h3
    obtain ⟨o', i1, i2⟩ := stage_one_position ev
      { kind := kd, cur := p, after := ps, sel := sel, content := value } hkd rfl rfl (hnosel kd) cs.flatten _ hvb h1
    refine ⟨o', ?_, i2⟩
    rw [← hpre]
    simpa [pathOf] using i1
  rcases hact with rfl | rfl
  · exact key .append (by simp) (by decide) (by simp [Visitor.new, Rio.Consts.filterActionReplace, Rio.Consts.filterActionAppend, Rio.Consts.filterActionPrepend])
  · exact key .prepend (by simp) (by decide) (by simp [Visitor.new, Rio.Consts.filterActionReplace, Rio.Consts.filterActionAppend, Rio.Consts.filterActionPrepend])

/-! ### non-vacuity (review D, item 6) -/

/-- `<div><p>a</p><br></div>` in two chunks (cut inside `</p>`) -/
def insChunks : List Bytes :=
  [[60, 100, 105, 118, 62, 60, 112, 62, 97, 60, 47], [112, 62, 60, 98, 114, 62, 60, 47, 100, 105, 118, 62]]

/-- `insert_one_position_final` and `insert_one_tight_final` instantiated (prepend_child of `$` into `div`, no selector,
`content-type: text/html`): every hypothesis is a decidable fact -/
example :=
  insert_one_position_final evalStandIn id [("content-type", "text/html")] Rio.Consts.filterActionPrepend (Or.inr rfl)
    [100, 105, 118] [] none (Or.inl rfl) [36] (by decide) (by decide) (by unfold V; decide) insChunks (by unfold Rio.C03.ValidBody; decide +kernel)

example :=
  insert_one_tight_final evalStandIn id [("content-type", "text/html")] Rio.Consts.filterActionAppend (Or.inl rfl)
    [100, 105, 118] [[112]] (some [42]) [36] (by decide) (by decide) (by decide) (by unfold V; decide) insChunks
    (by unfold Rio.C03.ValidBody; decide +kernel)

/-- the evaluated run: the copy sits immediately after the opener `<div>`, every token is in place -/
theorem insert_position_run :
    (Chain.new noCodec id [.html Rio.Consts.filterActionPrepend [[100, 105, 118]] none [36]] [("content-type", "text/html")]).run
        htmlTokenize evalStandIn noCodec insChunks =
      [60, 100, 105, 118, 62] ++ [36] ++ [60, 112, 62, 97, 60, 47, 112, 62, 60, 98, 114, 62, 60, 47, 100, 105, 118, 62] := by
  decide +kernel

end Rio.C04
