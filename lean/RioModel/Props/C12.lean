/-
C12 — regex caching is transparent (tree level; the router-level statement belongs to the router model).

Property theorems only.  `cache` is `RegexTreeMap::cache(limit, level)` = `treeCache` (with
`Item::cache`, `Node::cache`, `Leaf::cache`, and the level loop when `level = None`); its result is an
`Option` in the model because the `u64` subtractions `left - 1` would panic on underflow — `cache_total`
proves they never do and that the level loop terminates.

Domain: `LeafPatternsNonEmpty` — no stored pattern is the empty string.  It holds for every pattern a
rule can produce; at the raw tree API the empty pattern is a real anomaly (DESIGN §6-O3):
`cache_visible_empty_pattern` is the kernel-checked witness.
-/
import RioModel.Proofs.TreeCacheSim
import RioModel.Proofs.RegexTok
import RioModel.Props.C08
set_option linter.unusedSimpArgs false
set_option linter.unusedVariables false
set_option linter.unusedSectionVars false

namespace Rio.C12
open Rio.Scan Rio.Regex Rio.Tree Rio.C08

variable {ι V : Type} [DecidableEq ι]

/-- No stored pattern is empty. -/
def LeafPatternsNonEmpty (t : Item ι V) : Prop := ∀ e ∈ t.contents, e.pat ≠ []

/-! ### One regex -/

/-- `LazyRegex::is_match` gives the same answer before and after `compile()` – whether or not the
compilation succeeded – except for a leaf regex with the empty pattern. -/
theorem is_match_cache_indep (E : Engine) (rx : LazyRegex) (h : rx.original ≠ [] ∨ rx.isLeaf = false)
    (s : List Char) : (rx.compile E).isMatch E s = rx.isMatch E s := by
  have h' : rx.isLeaf = false ∨ rx.original ≠ [] := h.symm
  rw [← isMatch_strip E (rx.compile E) h', compile_strip, isMatch_strip E rx h']

/-! ### cache never fails -/

/-- No `u64` underflow at the `left - 1` sites, the level loop terminates, and the returned budget is
at most the given one. -/
theorem cache_total (E : Engine) (t : Item ι V) (limit : Nat) (level : Option Nat) :
    ∃ t' n, treeCache E t limit level = some (t', n) ∧ n ≤ limit := by
  obtain ⟨t', n, h, _, hn⟩ := treeCache_spec E t limit level
  exact ⟨t', n, h, hn⟩

/-- Same for the recursive `Item::cache(left, cache_level, current_level)` at any position. -/
theorem item_cache_total (E : Engine) (t : Item ι V) (left lvl cur : Nat) :
    ∃ t' n, t.cache E left lvl cur = some (t', n) ∧ n ≤ left := by
  obtain ⟨t', n, h, _, hn⟩ := cache_spec E t left lvl cur
  exact ⟨t', n, h, hn⟩

/-! ### cache changes no answer -/

/-- **find_cache.** -/
theorem find_cache (E : Engine) {ic : Bool} (t : Item ι V) (hinv : Inv ic t) (hne : LeafPatternsNonEmpty t)
    (limit : Nat) (level : Option Nat) {t' : Item ι V} {n : Nat}
    (h : treeCache E t limit level = some (t', n)) (s : List Char) : t'.find E s = t.find E s := by
  obtain ⟨t'', n', h', hs, _⟩ := treeCache_spec E t limit level
  rw [h] at h'; simp only [Option.some.injEq, Prod.mk.injEq] at h'
  obtain ⟨rfl, rfl⟩ := h'
  have hinv' : t'.inv ic = true := by rw [← inv_strip, hs, inv_strip]; exact hinv
  have hne' : ∀ e ∈ t'.contents, e.pat ≠ [] := by
    rw [← contents_strip, hs, contents_strip]; exact hne
  rw [← find_strip E t' hinv' hne' s, hs, find_strip E t hinv hne s]

/-- What is stored, `get`, `len` and the invariant are unchanged (no hypothesis needed). -/
theorem observations_cache (E : Engine) (t : Item ι V) (limit : Nat) (level : Option Nat)
    {t' : Item ι V} {n : Nat} (h : treeCache E t limit level = some (t', n)) :
    t'.contents = t.contents ∧ (∀ p, t'.get p = t.get p) ∧ t'.len = t.len ∧
    (∀ ic, t'.inv ic = t.inv ic) := by
  obtain ⟨t'', n', h', hs, _⟩ := treeCache_spec E t limit level
  rw [h] at h'; simp only [Option.some.injEq, Prod.mk.injEq] at h'
  obtain ⟨rfl, rfl⟩ := h'
  refine ⟨by rw [← contents_strip, hs, contents_strip], fun p => by rw [← get_strip, hs, get_strip],
    by rw [← len_strip, hs, len_strip], fun ic => by rw [← inv_strip, hs, inv_strip]⟩

/-! ### Interleaved with updates -/

/-- **Transparency over histories, exact.**  For *every* history over {insert, remove, retain, cache} whose
inserted patterns are non-empty – no other hypothesis: any strings as patterns, ids re-used at will – the
history and the same history with every `cache` call removed (`dropCache`) both run to completion (no
`cache` call underflows or loops), the two final trees are equal up to `compiled` flags, both satisfy the
invariant, and they give identical `find` answers for every haystack, identical `get`, `len` and
contents.  Since `dropCache` is idempotent and forgets limits, levels, number and position of the
cache calls, any two ways of interleaving warm-ups with the same updates are observationally identical. -/
theorem cache_transparent (E : Engine) (ic : Bool) (ops : List (Op ι V))
    (hne : ∀ p ∈ insertedPats ops, p ≠ []) :
    ∃ t t0 : Item ι V, treeRun E (.empty ic) ops = some t ∧
      treeRun E (.empty ic) (dropCache ops) = some t0 ∧
      t.strip = t0.strip ∧ Inv ic t ∧ Inv ic t0 ∧
      (∀ s, t.find E s = t0.find E s) ∧ t.contents = t0.contents ∧ (∀ p, t.get p = t0.get p) ∧
      t.len = t0.len := by
  obtain ⟨t, t0, h1, h2, hs⟩ := run_drop_cache E ops (.empty ic : Item ι V) (.empty ic) rfl
  obtain ⟨hinv, hP⟩ := run_reachable E (fun p => p ≠ []) ops (.empty ic : Item ι V) (inv_empty ic)
    (by simp) hne t h1
  have hinv0 : t0.inv ic = true := by rw [← inv_strip, ← hs, inv_strip]; exact hinv
  have hP0 : ∀ e ∈ t0.contents, e.pat ≠ [] := by rw [← contents_strip, ← hs, contents_strip]; exact hP
  refine ⟨t, t0, h1, h2, hs, hinv, hinv0, fun s => ?_, ?_, fun p => ?_, ?_⟩
  · rw [← find_strip E t hinv hP s, hs, find_strip E t0 hinv0 hP0 s]
  · rw [← contents_strip, hs, contents_strip]
  · rw [← get_strip, hs, get_strip]
  · rw [← len_strip, hs, len_strip]

theorem refRun_drop_cache (L : List (Entry ι V)) (ops : List (Op ι V)) :
    refRun L (dropCache ops) = refRun L ops := by
  induction ops generalizing L with
  | nil => rfl
  | cons op ops ih => cases op <;> simp [dropCache, refRun, refStep, ih]

theorem histOk_drop_cache (good : List Char → Bool) (L : List (Entry ι V)) (ops : List (Op ι V)) :
    histOk good L (dropCache ops) = histOk good L ops := by
  induction ops generalizing L with
  | nil => rfl
  | cons op ops ih => cases op <;> simp [dropCache, histOk, refStep, ih]

/-- Transparency relative to the *specification*: for a history in the domain of C08, the history and its
cache-free twin both answer `find` with the linear scan of the same live entries (a corollary of
`history_spec`; `cache_transparent` above is stronger on the tree-vs-tree comparison and needs no
domain). -/
theorem cache_transparent_history {E : Engine} {Good : List Char → Prop} (hPS : PrefixSound E Good)
    {good : List Char → Bool} (hgood : ∀ p, good p = true → Good p ∧ p ≠ [])
    (ic : Bool) (ops : List (Op ι V)) (hok : histOk good [] ops = true) :
    ∃ t t0 : Item ι V, treeRun E (.empty ic) ops = some t ∧
      treeRun E (.empty ic) (dropCache ops) = some t0 ∧
      (∀ s, (t.find E s).Perm (t0.find E s)) ∧ t.len = t0.len ∧ (∀ p, (t.get p).Perm (t0.get p)) := by
  obtain ⟨t, h1, _, _, hf, hl, hg⟩ := history_spec hPS hgood ic ops hok
  obtain ⟨t0, h2, _, _, hf0, hl0, hg0⟩ :=
    history_spec hPS hgood ic (dropCache ops) (by rw [histOk_drop_cache]; exact hok)
  rw [refRun_drop_cache] at hf0 hl0 hg0
  exact ⟨t, t0, h1, h2, fun s => (hf s).trans (hf0 s).symm, by rw [hl, hl0],
    fun p => (hg p).trans (hg0 p).symm⟩

/-- … for the concrete engine family and rule-shaped patterns. -/
theorem cache_transparent_history_rule (G : List Char → Option Re) (ic : Bool) (ops : List (Op ι V))
    (hok : histOk rulePatB [] ops = true) :
    ∃ t t0 : Item ι V, treeRun (engineOf G) (.empty ic) ops = some t ∧
      treeRun (engineOf G) (.empty ic) (dropCache ops) = some t0 ∧
      (∀ s, (t.find (engineOf G) s).Perm (t0.find (engineOf G) s)) ∧ t.len = t0.len ∧
      (∀ p, (t.get p).Perm (t0.get p)) :=
  cache_transparent_history (prefix_sound G) (fun p hp => (rulePatB_iff p).1 hp) ic ops hok

/-! ### Outside the domain (DESIGN §6-O3) -/

/-- The statement of `find_cache` without `LeafPatternsNonEmpty`. -/
def FindCacheAllPatterns : Prop :=
  ∀ (t t' : Item Nat Nat) (limit n : Nat) (level : Option Nat) (s : List Char), Inv false t →
    treeCache stdEngine t limit level = some (t', n) → t'.find stdEngine s = t.find stdEngine s

/-- The tree with the single pattern `""`. -/
def emptyPatTree : Item Nat Nat := (Item.empty false).insert [] 1 1

set_option maxRecDepth 100000 in
/-- Raw tree API, pattern `""`: uncached it matches every haystack, cached (`^$`) only the empty one. -/
theorem cache_visible_empty_pattern : ¬ FindCacheAllPatterns := by
  intro h
  have hbefore : emptyPatTree.find stdEngine "x".toList = [1] := by decide +kernel
  have hafter : (treeCache stdEngine emptyPatTree 5 none).map (fun r => r.1.find stdEngine "x".toList)
      = some [] := by decide +kernel
  cases hc : treeCache stdEngine emptyPatTree 5 none with
  | none => rw [hc] at hafter; simp at hafter
  | some r =>
    have h1 := h emptyPatTree r.1 5 r.2 none "x".toList (by decide +kernel) (by rw [hc])
    rw [hc] at hafter
    simp only [Option.map_some, Option.some.injEq] at hafter
    rw [hafter, hbefore] at h1
    exact absurd h1 (by decide)

/-! ### Non-vacuity -/

/-- A three-pattern case-insensitive tree. -/
def demoTree : Item Nat Nat :=
  (((Item.empty true).insert "/a(?:x)/b".toList 2 20).insert "/a(?:x)".toList 1 11).insert
    "/b(?:[0-9]+)".toList 3 30

set_option maxRecDepth 100000 in
/-- The hypotheses of `find_cache` hold on it, and partially caching it (`limit = 2` of its 4 regexes)
really changes the tree: 2 regexes compiled, budget used up. -/
example : Inv true demoTree ∧ (demoTree.contents.all fun e => !e.pat.isEmpty) = true ∧
    demoTree.cachedLen = 0 ∧
    (treeCache stdEngine demoTree 2 none).map (fun r => (r.1.cachedLen, r.2)) = some (2, 0) ∧
    (treeCache stdEngine demoTree 2 none).map (fun r => r.1.find stdEngine "/A7".toList) = some [] ∧
    (treeCache stdEngine demoTree 2 none).map (fun r => r.1.find stdEngine "/B7".toList) = some [30] := by
  decide +kernel

end Rio.C12
