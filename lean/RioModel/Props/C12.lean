/-
C12 — regex caching is transparent (tree level; the router-level statement belongs to the router model).

Property theorems only.  `cache` is `RegexTreeMap::cache(limit, level)` = `treeCache` (with
`Item::cache`, `Node::cache`, `Leaf::cache`, and the level loop when `level = None`); its result is an
`Option` in the model because the `u64` subtractions `left - 1` would panic on underflow — `cache_total`
proves they never do and that the level loop terminates.

Domain: `LeafPatternsNonEmpty` — no stored pattern is the empty string.  It holds for every pattern a
rule can produce; at the raw tree API the empty pattern is a real anomaly (DESIGN §6-O3):
`cache_visible_empty_pattern` is the kernel-checked witness.
-/
import RioModel.Proofs.TreeCacheSim
import RioModel.Proofs.RegexTok
import RioModel.Props.C08
set_option linter.unusedSimpArgs false
set_option linter.unusedVariables false
set_option linter.unusedSectionVars false

namespace Rio.C12
open Rio.Scan Rio.Regex Rio.Tree Rio.C08

variable {ι V : Type} [DecidableEq ι]

/-- No stored pattern is empty. -/
def LeafPatternsNonEmpty (t : Item ι V) : Prop := ∀ e ∈ t.contents, e.pat ≠ []

/-! ### One regex -/

/-- A `LazyRegex` of the tree is well-formed: its `regex` string is the one `new_leaf` / `new_node` builds from `original`, and
its cached value – if any – is the value `create_regex()` builds from the CURRENT `regex` and `ignore_case` (consistency);
for a leaf the pattern is non-empty. -/
def WfRegex (rx : LazyRegex) : Prop := rx.nodeWf = true ∨ (rx.leafWf = true ∧ rx.original ≠ [])

/-- `LazyRegex::is_match` gives the same answer before and after `compile()` – whether or not the compilation
succeeded.  In the model `is_match` runs the STORED value when there is one and `compile` stores `create_regex()` of the
current fields, so this is a statement about which inputs the cached value is built from: with a `compile` that built it
from another string or without the case flag, or for a regex holding a stale value, it is false
(`stale_cached_value_is_visible`). -/
theorem is_match_cache_indep (E : Engine) (rx : LazyRegex) (h : WfRegex rx)
    (s : List Char) : (rx.compile E).isMatch E s = rx.isMatch E s := by
  have hc : WfRegex (rx.compile E) := by
    have hcons : (rx.compile E).consistent = true := by
      rw [consistent_iff]
      intro c hc
      simp only [LazyRegex.compile, LazyRegex.createRegex] at hc
      split at hc
      · simp only [Option.some.injEq] at hc; exact hc.symm
      · simp at hc
    rcases h with h | ⟨h, hne⟩
    · exact Or.inl (nodeWf_iff.2 ⟨(nodeWf_iff.1 h).1, hcons⟩)
    · exact Or.inr ⟨leafWf_iff.2 ⟨(leafWf_iff.1 h).1, hcons⟩, hne⟩
  rw [← isMatch_strip E (rx.compile E) hc, compile_strip, isMatch_strip E rx h]

/-- Necessity of consistency: a leaf regex for `a` holding a cached value that was built from `b` answers for `b` – the
cached and the lazily built regex differ, `compile()` (which rebuilds from the current fields) changes the answer. -/
def staleRx : LazyRegex := ⟨['a'], .leaf ['a'], false, some ⟨.leaf ['b'], false⟩⟩

set_option maxRecDepth 100000 in
theorem stale_cached_value_is_visible :
    staleRx.consistent = false ∧ staleRx.isMatch stdEngine ['b'] = true ∧
    (staleRx.compile stdEngine).isMatch stdEngine ['b'] = false ∧
    ({ staleRx with compiled := none } : LazyRegex).isMatch stdEngine ['b'] = false := by decide +kernel

/-- … and of building with the case flag: a value built without `case_insensitive` in a case-insensitive leaf. -/
def noFlagRx : LazyRegex := ⟨['a'], .leaf ['a'], true, some ⟨.leaf ['a'], false⟩⟩

set_option maxRecDepth 100000 in
theorem cached_value_without_flag_is_visible :
    noFlagRx.consistent = false ∧ noFlagRx.isMatch stdEngine ['A'] = false ∧
    (noFlagRx.compile stdEngine).isMatch stdEngine ['A'] = true := by decide +kernel

/-- **The cached value is the lazily built one**, on every reachable tree: after any history (inserts, removes, retains,
updates, warm-ups) every `LazyRegex` of the tree carries the `regex` string its constructor built and a cached value that is
`create_regex()` of its current fields – this is part of `Inv`, established by `new` and preserved by every operation
(`C08.inv_insert` … `C08.inv_cache`); spelled out for one leaf / node of a tree satisfying `Inv`. -/
theorem cached_value_is_created {ic : Bool} {rx : LazyRegex} :
    (∀ vs : List (ι × V), Inv ic (Item.leaf rx vs) → rx.regex = .leaf rx.original ∧
      ∀ c, rx.compiled = some c → c = ⟨rx.regex, rx.ic⟩) ∧
    (∀ cs : List (Item ι V), Inv ic (Item.node rx cs) →
      rx.regex = (if rx.original.isEmpty then RxSrc.any else .node rx.original) ∧
      ∀ c, rx.compiled = some c → c = ⟨rx.regex, rx.ic⟩) := by
  constructor
  · intro vs h
    obtain ⟨h1, _⟩ := inv_leaf_iff.1 h
    exact ⟨(leafWf_iff.1 h1).1, consistent_iff.1 (leafWf_iff.1 h1).2⟩
  · intro cs h
    obtain ⟨h1, _⟩ := inv_node_iff.1 h
    exact ⟨(nodeWf_iff.1 h1).1, consistent_iff.1 (nodeWf_iff.1 h1).2⟩

/-! ### cache never fails -/

/-- No `u64` underflow at the `left - 1` sites, the level loop terminates, and the returned budget is
at most the given one. -/
theorem cache_total (E : Engine) (t : Item ι V) (limit : Nat) (level : Option Nat) :
    ∃ t' n, treeCache E t limit level = some (t', n) ∧ n ≤ limit := by
  obtain ⟨t', n, h, _, hn⟩ := treeCache_spec E t limit level
  exact ⟨t', n, h, hn⟩

/-- Same for the recursive `Item::cache(left, cache_level, current_level)` at any position. -/
theorem item_cache_total (E : Engine) (t : Item ι V) (left lvl cur : Nat) :
    ∃ t' n, t.cache E left lvl cur = some (t', n) ∧ n ≤ left := by
  obtain ⟨t', n, h, _, hn⟩ := cache_spec E t left lvl cur
  exact ⟨t', n, h, hn⟩

/-! ### cache changes no answer -/

/-- **find_cache.** -/
theorem find_cache (E : Engine) {ic : Bool} (t : Item ι V) (hinv : Inv ic t) (hne : LeafPatternsNonEmpty t)
    (limit : Nat) (level : Option Nat) {t' : Item ι V} {n : Nat}
    (h : treeCache E t limit level = some (t', n)) (s : List Char) : t'.find E s = t.find E s := by
  obtain ⟨t'', n', h', hs, _⟩ := treeCache_spec E t limit level
  rw [h] at h'; simp only [Option.some.injEq, Prod.mk.injEq] at h'
  obtain ⟨rfl, rfl⟩ := h'
  have hinv' : t'.inv ic = true := by rw [inv_of_treeCache h]; exact hinv
  have hne' : ∀ e ∈ t'.contents, e.pat ≠ [] := by
    rw [← contents_strip, hs, contents_strip]; exact hne
  rw [← find_strip E t' hinv' hne' s, hs, find_strip E t hinv hne s]

/-- What is stored, `get`, `len` and the invariant are unchanged (no hypothesis needed).  The invariant includes "every
cached value is `create_regex()` of the fields next to it": `cache` preserves it in both directions. -/
theorem observations_cache (E : Engine) (t : Item ι V) (limit : Nat) (level : Option Nat)
    {t' : Item ι V} {n : Nat} (h : treeCache E t limit level = some (t', n)) :
    t'.contents = t.contents ∧ (∀ p, t'.get p = t.get p) ∧ t'.len = t.len ∧
    (∀ ic, t'.inv ic = t.inv ic) := by
  obtain ⟨t'', n', h', hs, _⟩ := treeCache_spec E t limit level
  rw [h] at h'; simp only [Option.some.injEq, Prod.mk.injEq] at h'
  obtain ⟨rfl, rfl⟩ := h'
  refine ⟨by rw [← contents_strip, hs, contents_strip], fun p => by rw [← get_strip, hs, get_strip],
    by rw [← len_strip, hs, len_strip], fun ic => inv_of_treeCache h ic⟩

/-! ### Interleaved with updates -/

/-- **Transparency over histories, exact.**  For *every* history over {insert, remove, retain, cache} whose
inserted patterns are non-empty – no other hypothesis: any strings as patterns, ids re-used at will – the
history and the same history with every `cache` call removed (`dropCache`) both run to completion (no
`cache` call underflows or loops), the two final trees are equal up to `compiled` flags, both satisfy the
invariant, and they give identical `find` answers for every haystack, identical `get`, `len` and
contents.  Since `dropCache` is idempotent and forgets limits, levels, number and position of the
cache calls, any two ways of interleaving warm-ups with the same updates are observationally identical. -/
theorem cache_transparent (E : Engine) (ic : Bool) (ops : List (Op ι V))
    (hne : ∀ p ∈ insertedPats ops, p ≠ []) :
    ∃ t t0 : Item ι V, treeRun E (.empty ic) ops = some t ∧
      treeRun E (.empty ic) (dropCache ops) = some t0 ∧
      t.strip = t0.strip ∧ Inv ic t ∧ Inv ic t0 ∧
      (∀ s, t.find E s = t0.find E s) ∧ t.contents = t0.contents ∧ (∀ p, t.get p = t0.get p) ∧
      t.len = t0.len := by
  obtain ⟨t, t0, h1, h2, hs⟩ := run_drop_cache E ops (.empty ic : Item ι V) (.empty ic) rfl
  obtain ⟨hinv, hP⟩ := run_reachable E (fun p => p ≠ []) ops (.empty ic : Item ι V) (inv_empty ic)
    (by simp) hne t h1
  have hinv0 : t0.inv ic = true :=
    (run_reachable E (fun p => p ≠ []) (dropCache ops) (.empty ic : Item ι V) (inv_empty ic) (by simp)
      (by rw [insertedPats_dropCache]; exact hne) t0 h2).1
  have hP0 : ∀ e ∈ t0.contents, e.pat ≠ [] := by rw [← contents_strip, ← hs, contents_strip]; exact hP
  refine ⟨t, t0, h1, h2, hs, hinv, hinv0, fun s => ?_, ?_, fun p => ?_, ?_⟩
  · rw [← find_strip E t hinv hP s, hs, find_strip E t0 hinv0 hP0 s]
  · rw [← contents_strip, hs, contents_strip]
  · rw [← get_strip, hs, get_strip]
  · rw [← len_strip, hs, len_strip]

theorem refRun_drop_cache (L : List (Entry ι V)) (ops : List (Op ι V)) :
    refRun L (dropCache ops) = refRun L ops := by
  induction ops generalizing L with
  | nil => rfl
  | cons op ops ih => cases op <;> simp [dropCache, refRun, refStep, ih]

theorem histOk_drop_cache (good : List Char → Bool) (L : List (Entry ι V)) (ops : List (Op ι V)) :
    histOk good L (dropCache ops) = histOk good L ops := by
  induction ops generalizing L with
  | nil => rfl
  | cons op ops ih => cases op <;> simp [dropCache, histOk, refStep, ih]

/-- Transparency relative to the *specification*: for a history in the domain of C08, the history and its
cache-free twin both answer `find` with the linear scan of the same live entries (a corollary of
`history_spec`; `cache_transparent` above is stronger on the tree-vs-tree comparison and needs no
domain). -/
theorem cache_transparent_history {E : Engine} {Good : List Char → Prop} (hPS : PrefixSound E Good)
    {good : List Char → Bool} (hgood : ∀ p, good p = true → Good p ∧ p ≠ [])
    (ic : Bool) (ops : List (Op ι V)) (hok : histOk good [] ops = true) :
    ∃ t t0 : Item ι V, treeRun E (.empty ic) ops = some t ∧
      treeRun E (.empty ic) (dropCache ops) = some t0 ∧
      (∀ s, (t.find E s).Perm (t0.find E s)) ∧ t.len = t0.len ∧ (∀ p, (t.get p).Perm (t0.get p)) := by
  obtain ⟨t, h1, _, _, hf, hl, hg⟩ := history_spec hPS hgood ic ops hok
  obtain ⟨t0, h2, _, _, hf0, hl0, hg0⟩ :=
    history_spec hPS hgood ic (dropCache ops) (by rw [histOk_drop_cache]; exact hok)
  rw [refRun_drop_cache] at hf0 hl0 hg0
  exact ⟨t, t0, h1, h2, fun s => (hf s).trans (hf0 s).symm, by rw [hl, hl0],
    fun p => (hg p).trans (hg0 p).symm⟩

/-- … for the concrete engine family and rule-shaped patterns. -/
theorem cache_transparent_history_rule (G : List Char → Option Re) (ic : Bool) (ops : List (Op ι V))
    (hok : histOk rulePatB [] ops = true) :
    ∃ t t0 : Item ι V, treeRun (engineOf G) (.empty ic) ops = some t ∧
      treeRun (engineOf G) (.empty ic) (dropCache ops) = some t0 ∧
      (∀ s, (t.find (engineOf G) s).Perm (t0.find (engineOf G) s)) ∧ t.len = t0.len ∧
      (∀ p, (t.get p).Perm (t0.get p)) :=
  cache_transparent_history (prefix_sound G) (fun p hp => (rulePatB_iff p).1 hp) ic ops hok

/-! ### Outside the domain (DESIGN §6-O3) -/

/-- The statement of `find_cache` without `LeafPatternsNonEmpty`. -/
def FindCacheAllPatterns : Prop :=
  ∀ (t t' : Item Nat Nat) (limit n : Nat) (level : Option Nat) (s : List Char), Inv false t →
    treeCache stdEngine t limit level = some (t', n) → t'.find stdEngine s = t.find stdEngine s

/-- The tree with the single pattern `""`. -/
def emptyPatTree : Item Nat Nat := (Item.empty false).insert [] 1 1

set_option maxRecDepth 100000 in
/-- Raw tree API, pattern `""`: uncached it matches every haystack, cached (`^$`) only the empty one. -/
theorem cache_visible_empty_pattern : ¬ FindCacheAllPatterns := by
  intro h
  have hbefore : emptyPatTree.find stdEngine "x".toList = [1] := by decide +kernel
  have hafter : (treeCache stdEngine emptyPatTree 5 none).map (fun r => r.1.find stdEngine "x".toList)
      = some [] := by decide +kernel
  cases hc : treeCache stdEngine emptyPatTree 5 none with
  | none => rw [hc] at hafter; simp at hafter
  | some r =>
    have h1 := h emptyPatTree r.1 5 r.2 none "x".toList (by decide +kernel) (by rw [hc])
    rw [hc] at hafter
    simp only [Option.map_some, Option.some.injEq] at hafter
    rw [hafter, hbefore] at h1
    exact absurd h1 (by decide)

/-! ### Non-vacuity -/

/-- A three-pattern case-insensitive tree. -/
def demoTree : Item Nat Nat :=
  (((Item.empty true).insert "/a(?:x)/b".toList 2 20).insert "/a(?:x)".toList 1 11).insert
    "/b(?:[0-9]+)".toList 3 30

set_option maxRecDepth 100000 in
/-- The hypotheses of `find_cache` hold on it, and partially caching it (`limit = 2` of its 4 regexes)
really changes the tree: 2 regexes compiled, budget used up. -/
example : Inv true demoTree ∧ (demoTree.contents.all fun e => !e.pat.isEmpty) = true ∧
    demoTree.cachedLen = 0 ∧
    (treeCache stdEngine demoTree 2 none).map (fun r => (r.1.cachedLen, r.2)) = some (2, 0) ∧
    (treeCache stdEngine demoTree 2 none).map (fun r => r.1.find stdEngine "/A7".toList) = some [] ∧
    (treeCache stdEngine demoTree 2 none).map (fun r => r.1.find stdEngine "/B7".toList) = some [30] := by
  decide +kernel

end Rio.C12
