/-
C12 — regex caching is transparent (tree level; the router-level statement belongs to the router model).

Property theorems only.  `cache` is `RegexTreeMap::cache(limit, level)` = `treeCache` (with
`Item::cache`, `Node::cache`, `Leaf::cache`, and the level loop when `level = None`); its result is an
`Option` in the model because the `u64` subtractions `left - 1` would panic on underflow — `cache_total`
proves they never do and that the level loop terminates.

Domain: `LeafPatternsNonEmpty` — no stored pattern is the empty string.  It holds for every pattern a
rule can produce; at the raw tree API the empty pattern is a real anomaly (DESIGN §6-O3):
`cache_visible_empty_pattern` is the kernel-checked witness.
-/
import RioModel.Proofs.TreeHistory
import RioModel.Proofs.RegexTok
import RioModel.Props.C08
set_option linter.unusedSimpArgs false
set_option linter.unusedVariables false
set_option linter.unusedSectionVars false

namespace Rio.C12
open Rio.Scan Rio.Regex Rio.Tree Rio.C08

variable {ι V : Type} [DecidableEq ι]

/-- No stored pattern is empty. -/
def LeafPatternsNonEmpty (t : Item ι V) : Prop := ∀ e ∈ t.contents, e.pat ≠ []

/-! ### One regex -/

/-- `LazyRegex::is_match` gives the same answer before and after `compile()` – whether or not the
compilation succeeded – except for a leaf regex with the empty pattern. -/
theorem is_match_cache_indep (E : Engine) (rx : LazyRegex) (h : rx.original ≠ [] ∨ rx.isLeaf = false)
    (s : List Char) : (rx.compile E).isMatch E s = rx.isMatch E s := by
  have h' : rx.isLeaf = false ∨ rx.original ≠ [] := h.symm
  rw [← isMatch_strip E (rx.compile E) h', compile_strip, isMatch_strip E rx h']

/-! ### cache never fails -/

/-- No `u64` underflow at the `left - 1` sites, the level loop terminates, and the returned budget is
at most the given one. -/
theorem cache_total (E : Engine) (t : Item ι V) (limit : Nat) (level : Option Nat) :
    ∃ t' n, treeCache E t limit level = some (t', n) ∧ n ≤ limit := by
  obtain ⟨t', n, h, _, hn⟩ := treeCache_spec E t limit level
  exact ⟨t', n, h, hn⟩

/-- Same for the recursive `Item::cache(left, cache_level, current_level)` at any position. -/
theorem item_cache_total (E : Engine) (t : Item ι V) (left lvl cur : Nat) :
    ∃ t' n, t.cache E left lvl cur = some (t', n) ∧ n ≤ left := by
  obtain ⟨t', n, h, _, hn⟩ := cache_spec E t left lvl cur
  exact ⟨t', n, h, hn⟩

/-! ### cache changes no answer -/

/-- **find_cache.** -/
theorem find_cache (E : Engine) {ic : Bool} (t : Item ι V) (hinv : Inv ic t) (hne : LeafPatternsNonEmpty t)
    (limit : Nat) (level : Option Nat) {t' : Item ι V} {n : Nat}
    (h : treeCache E t limit level = some (t', n)) (s : List Char) : t'.find E s = t.find E s := by
  obtain ⟨t'', n', h', hs, _⟩ := treeCache_spec E t limit level
  rw [h] at h'; simp only [Option.some.injEq, Prod.mk.injEq] at h'
  obtain ⟨rfl, rfl⟩ := h'
  have hinv' : t'.inv ic = true := by rw [← inv_strip, hs, inv_strip]; exact hinv
  have hne' : ∀ e ∈ t'.contents, e.pat ≠ [] := by
    rw [← contents_strip, hs, contents_strip]; exact hne
  rw [← find_strip E t' hinv' hne' s, hs, find_strip E t hinv hne s]

/-- What is stored, `get`, `len` and the invariant are unchanged (no hypothesis needed). -/
theorem observations_cache (E : Engine) (t : Item ι V) (limit : Nat) (level : Option Nat)
    {t' : Item ι V} {n : Nat} (h : treeCache E t limit level = some (t', n)) :
    t'.contents = t.contents ∧ (∀ p, t'.get p = t.get p) ∧ t'.len = t.len ∧
    (∀ ic, t'.inv ic = t.inv ic) := by
  obtain ⟨t'', n', h', hs, _⟩ := treeCache_spec E t limit level
  rw [h] at h'; simp only [Option.some.injEq, Prod.mk.injEq] at h'
  obtain ⟨rfl, rfl⟩ := h'
  refine ⟨by rw [← contents_strip, hs, contents_strip], fun p => by rw [← get_strip, hs, get_strip],
    by rw [← len_strip, hs, len_strip], fun ic => by rw [← inv_strip, hs, inv_strip]⟩

/-! ### Interleaved with updates -/

def isCacheOp : Op ι V → Bool
  | .cache _ _ => true
  | _ => false

theorem refRun_drop_cache (L : List (Entry ι V)) (ops : List (Op ι V)) :
    refRun L (ops.filter fun o => !isCacheOp o) = refRun L ops := by
  induction ops generalizing L with
  | nil => rfl
  | cons op ops ih => cases op <;> simp [refRun, refStep, isCacheOp, ih]

theorem histOk_drop_cache (good : List Char → Bool) (L : List (Entry ι V)) (ops : List (Op ι V)) :
    histOk good L (ops.filter fun o => !isCacheOp o) = histOk good L ops := by
  induction ops generalizing L with
  | nil => rfl
  | cons op ops ih => cases op <;> simp [histOk, refStep, isCacheOp, ih]

/-- **Transparency over histories.**  Take any history in the domain of C08 and the same history with
every `cache` call removed (any limits, any levels, any number of calls, anywhere between updates).
Both run to completion, and the two trees give the same `find` answers (as multisets), the same `len`
and the same `get`. -/
theorem cache_transparent_history {E : Engine} {Good : List Char → Prop} (hPS : PrefixSound E Good)
    {good : List Char → Bool} (hgood : ∀ p, good p = true → Good p ∧ p ≠ [])
    (ic : Bool) (ops : List (Op ι V)) (hok : histOk good [] ops = true) :
    ∃ t t0 : Item ι V, treeRun E (.empty ic) ops = some t ∧
      treeRun E (.empty ic) (ops.filter fun o => !isCacheOp o) = some t0 ∧
      (∀ s, (t.find E s).Perm (t0.find E s)) ∧ t.len = t0.len ∧ (∀ p, (t.get p).Perm (t0.get p)) := by
  obtain ⟨t, h1, _, _, hf, hl, hg⟩ := history_spec hPS hgood ic ops hok
  obtain ⟨t0, h2, _, _, hf0, hl0, hg0⟩ :=
    history_spec hPS hgood ic (ops.filter fun o => !isCacheOp o) (by rw [histOk_drop_cache]; exact hok)
  rw [refRun_drop_cache] at hf0 hl0 hg0
  exact ⟨t, t0, h1, h2, fun s => (hf s).trans (hf0 s).symm, by rw [hl, hl0],
    fun p => (hg p).trans (hg0 p).symm⟩

/-- … for the concrete engine family and rule-shaped patterns. -/
theorem cache_transparent_history_rule (G : List Char → Option Re) (ic : Bool) (ops : List (Op ι V))
    (hok : histOk rulePatB [] ops = true) :
    ∃ t t0 : Item ι V, treeRun (engineOf G) (.empty ic) ops = some t ∧
      treeRun (engineOf G) (.empty ic) (ops.filter fun o => !isCacheOp o) = some t0 ∧
      (∀ s, (t.find (engineOf G) s).Perm (t0.find (engineOf G) s)) ∧ t.len = t0.len ∧
      (∀ p, (t.get p).Perm (t0.get p)) :=
  cache_transparent_history (prefix_sound G) (fun p hp => (rulePatB_iff p).1 hp) ic ops hok

/-! ### Outside the domain (DESIGN §6-O3) -/

/-- The statement of `find_cache` without `LeafPatternsNonEmpty`. -/
def FindCacheAllPatterns : Prop :=
  ∀ (t t' : Item Nat Nat) (limit n : Nat) (level : Option Nat) (s : List Char), Inv false t →
    treeCache stdEngine t limit level = some (t', n) → t'.find stdEngine s = t.find stdEngine s

set_option maxRecDepth 100000 in
/-- Raw tree API, pattern `""`: uncached it matches every haystack, cached (`^$`) only the empty one. -/
theorem cache_visible_empty_pattern : ¬ FindCacheAllPatterns := by
  intro h
  have := h ((Item.empty false).insert [] 1 1) (.leaf ⟨[], true, false, true⟩ [(1, 1)]) 5 4 none "x".toList
    (by decide +kernel) (by decide +kernel)
  exact absurd this (by decide +kernel)

/-! ### Non-vacuity -/

set_option maxRecDepth 100000 in
/-- A three-pattern tree, partially cached (`limit = 2` of 4 regexes): the hypotheses of `find_cache`
hold and the cached tree is really different from the uncached one. -/
example :
    let t : Item Nat Nat := (((Item.empty true).insert "/a(?:x)/b".toList 2 20).insert "/a(?:x)".toList 1 11).insert
      "/b(?:[0-9]+)".toList 3 30
    Inv true t ∧ (∀ e ∈ t.contents, e.pat ≠ []) ∧
      (∃ t' n, treeCache stdEngine t 2 none = some (t', n) ∧ t'.cachedLen = 2 ∧ t.cachedLen = 0 ∧ n = 0) := by
  decide +kernel

end Rio.C12
