/-
C04 / C15 (HTML body filters) — `enter` and `first` of the three visitors REGENERATED FROM THE SOURCE.

`Rio.Consts.genBodyAppendEnter / genBodyPrependEnter / genBodyReplaceEnter / genBody*First` are translated on every
run from src/filter/html_body_action/body_append.rs, body_prepend.rs, body_replace.rs (tools/consts.d/w4_translate.py,
section `w4_translate_visitor`).  Proofs/VisitorGen.lean relates the code's state (`element_tree`, `position`) to the
zipper of W6's visitor model (`Rep`) and shows that the translated functions compute what `Visitor.enter` /
`Visitor.first` compute and preserve the relation.  Here: that equality as property theorems (`gen_visitor_*`), and
two PINS OF THE GENERATED TEXT (`enter_descends_gen`, `enter_last_level_gen`: the generated definitions with the `if`
resolved — tripwires for a change of the generated text, no knowledge beyond `gen_visitor_enter_eq_model`).
The translation renders `v[i]` as `(v[i]?).getD []` and `opt.as_ref().unwrap()` as `opt.getD []`, i.e. it TOTALISES two
Rust panics; `gen_visitor_index_in_range` shows that under `Rep` the index is in range (the default is never used), and
the `unwrap` is guarded by `is_some() &&` / `is_none() ||` in the source; the two pins carry `pos < tree.length`.
NOT translated: `leave` (an `if` used as a value with a side effect on `position`, `as i32`, `?` / `Ok`, the calls of
`evaluate` / `append_child` / `prepend_child`) — it stays tied by the correspondence only.
-/
import RioModel.Proofs.VisitorGen
set_option linter.unusedSimpArgs false

namespace Rio.C04
open Rio.Consts Rio.Filter Rio.VisitorGen

/-- the translated `first` is the model's, for the three visitors -/
theorem gen_visitor_first_eq_model {tree : List Bytes} {pos : Nat} {v : Visitor} (h : Rep tree pos v) :
    genBodyAppendFirst tree = v.first ∧ genBodyPrependFirst tree = v.first ∧ genBodyReplaceFirst tree = v.first :=
  genFirst_eq h

/-- the translated `enter` is the model's, for the three visitors: same result, related states, same `is_buffering` -/
theorem gen_visitor_enter_eq_model {tree : List Bytes} {pos : Nat} {v : Visitor} (h : Rep tree pos v) (data : Bytes) :
    (v.kind = .append →
      (genBodyAppendEnter tree pos v.sel v.content data).1 = (v.enter data).1 ∧
      Rep tree (genBodyAppendEnter tree pos v.sel v.content data).2 (v.enter data).2) ∧
    (v.kind = .prepend →
      (genBodyPrependEnter tree pos v.sel v.content v.isBuffering data).1 = (v.enter data).1 ∧
      Rep tree (genBodyPrependEnter tree pos v.sel v.content v.isBuffering data).2.1 (v.enter data).2 ∧
      (genBodyPrependEnter tree pos v.sel v.content v.isBuffering data).2.2 = (v.enter data).2.isBuffering) ∧
    (v.kind = .replace →
      (genBodyReplaceEnter tree pos v.sel v.content v.isBuffering data).1 = (v.enter data).1 ∧
      Rep tree (genBodyReplaceEnter tree pos v.sel v.content v.isBuffering data).2.1 (v.enter data).2 ∧
      (genBodyReplaceEnter tree pos v.sel v.content v.isBuffering data).2.2 = (v.enter data).2.isBuffering) :=
  ⟨fun hk => genAppendEnter_eq hk h data, fun hk => genPrependEnter_eq hk h data,
   fun hk => genReplaceEnter_eq hk h data⟩

/-- the state built by `new` (position 0 of a non-empty element tree) is represented, so the theorems apply from the
start and, by preservation, after every further `enter` UNTIL THE FIRST `leave` (`leave` is not translated: that the
code's `leave` preserves `Rep` is not shown here) -/
theorem gen_visitor_initial (kind : VKind) (first : Bytes) (rest : List Bytes) (sel : Option Bytes) (content : Bytes) :
    Rep (first :: rest) 0 { kind := kind, cur := first, after := rest, sel := sel, content := content } :=
  rep_new kind first rest sel content

/-- under the representation invariant every index the translated `enter` / `first` evaluate is in range: the
`getD []` default of the translation is never used (the Rust indexing does not panic there) -/
theorem gen_visitor_index_in_range {tree : List Bytes} {pos : Nat} {v : Visitor} (h : Rep tree pos v) :
    pos < tree.length ∧ tree[pos]? = some v.cur ∧ 0 < tree.length ∧
    (v.after ≠ [] → pos + 1 < tree.length) := by
  have hl := h.len
  refine ⟨by omega, ?_, by omega, fun ha => h.more.mpr ha⟩
  rw [h.tree_eq, h.pos_eq]
  simp [List.getElem?_append_right]

/-- PIN OF THE GENERATED TEXT (not a restated property).  **Descent, closed form for the translated code**
(`pos + 1 < len`, hence `pos` in range): while a deeper element remains (`position + 1 < len`), each of
the three `enter`s asks for that element next, asks to be left at the current one, does not buffer, passes the data
on unchanged and advances `position` by one. -/
theorem enter_descends_gen (tree : List Bytes) (pos : Nat) (sel : Option Bytes) (content data : Bytes) (b : Bool)
    (h : pos + 1 < tree.length) :
    genBodyAppendEnter tree pos sel content data =
      ((some ((tree[pos + 1]?).getD []), some ((tree[pos]?).getD []), false, data), pos + 1) ∧
    genBodyPrependEnter tree pos sel content b data =
      ((some ((tree[pos + 1]?).getD []), some ((tree[pos]?).getD []), false, data), pos + 1, b) ∧
    genBodyReplaceEnter tree pos sel content b data =
      ((some ((tree[pos + 1]?).getD []), some ((tree[pos]?).getD []), false, data), pos + 1, b) := by
  simp [genBodyAppendEnter, genBodyPrependEnter, genBodyReplaceEnter, h]

/-- PIN OF THE GENERATED TEXT (not a restated property).  **At the last level, closed form for the translated code**
(`position + 1 ≥ len`, `position` in range — outside it the Rust code panics): no further `enter`; append
buffers iff it has a non-empty selector; prepend without a (non-empty) selector emits `data ++ content` at once and
keeps its flag, with one it starts buffering; replace always starts buffering.  `position` stays. -/
theorem enter_last_level_gen (tree : List Bytes) (pos : Nat) (sel : Option Bytes) (content data : Bytes) (b : Bool)
    (hp : pos < tree.length) (h : ¬ pos + 1 < tree.length) :
    genBodyAppendEnter tree pos sel content data =
      ((none, some ((tree[pos]?).getD []), (sel.isSome && !(sel.getD []).isEmpty), data), pos) ∧
    genBodyPrependEnter tree pos sel content b data =
      (if sel.isNone || (sel.getD []).isEmpty then ((none, some ((tree[pos]?).getD []), b, data ++ content), pos, b)
       else ((none, some ((tree[pos]?).getD []), true, data), pos, true)) ∧
    genBodyReplaceEnter tree pos sel content b data = ((none, some ((tree[pos]?).getD []), true, data), pos, true) := by
  have hge : pos + 1 ≥ tree.length := by omega
  refine ⟨?_, ?_, ?_⟩
  · simp [genBodyAppendEnter, h, hge]
  · simp only [genBodyPrependEnter, h, hge, decide_true, decide_false, if_true, if_false, Bool.false_eq_true]
    split <;> simp_all
  · simp [genBodyReplaceEnter, h, hge]

/-! ### Non-vacuity -/

example :
    genBodyAppendEnter [[104], [98]] 0 (some [112]) [120] [60] = ((some [98], some [104], false, [60]), 1) ∧
    genBodyAppendEnter [[104], [98]] 1 (some [112]) [120] [60] = ((none, some [98], true, [60]), 1) ∧
    genBodyPrependEnter [[104]] 0 none [120] false [60] = ((none, some [104], false, [60, 120]), 0, false) ∧
    genBodyReplaceEnter [[104]] 0 none [120] false [60] = ((none, some [104], true, [60]), 0, true) ∧
    genBodyReplaceFirst [[104], [98]] = [104] := by
  refine ⟨?_, ?_, ?_, ?_, ?_⟩ <;> rfl

end Rio.C04
