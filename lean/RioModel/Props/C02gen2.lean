/-
Property C02, second tie for the TOP level of the router (W33): the definitions `Rio.Consts.genRouter*` /
`genUpdateExistingRouter` are TRANSLATED on every run from `Router::insert_route`, `get_route_by_id`, `remove`, `batch_remove`,
`len`, `insert`, `apply_change_set` (src/router/mod.rs) and `RuleChangeSet::update_existing_router` (src/api/rules_message.rs) by
tools/consts_dev/w33_router_top.py.  Here: translated = hand-written model (`RouterG O`, Model/RouterLayers.lean) for EVERY
outermost matcher `O : MOps`, every state and every input, with the instantiation of the abstract parameters documented in
Proofs/RouterTopGen.lean; then `len_remove`, the change-set ORDER and `repr_change_set` restated for the translated definitions.
The state of a router is the pair (`matcher`, `routes`) of its mutable fields.
-/
import RioModel.Proofs.RouterTopGen
import RioModel.Props.C02
import RioModel.Props.C02iso

namespace Rio.C02
open Rio.Router Rio.Router.TopGen Rio.Consts

section
variable (O : MOps)

/-- `Router::insert_route`: translated = model.  (Also for an id that is already in the map: the map entry is replaced,
the matcher only gets an `insert` - as in the code.) -/
theorem gen_router_insert_route_eq_model (S : RouterG O) (r : Route) :
    genRouterInsertRoute O.insert Route.id rInsert S.matcher S.routes r
      = ((RouterG.insert O r S).matcher, (RouterG.insert O r S).routes) := tInsertRoute_eq O S r

theorem gen_router_get_route_by_id_eq_model (S : RouterG O) (id : String) :
    genRouterGetRouteById rGet S.routes id = RouterG.getRouteById O S id := rfl

/-- `Router::remove`: translated = model, result and state, for a live and for an absent id. -/
theorem gen_router_remove_eq_model (S : RouterG O) (id : String) :
    genRouterRemove O.remove rContainsKey rRemove S.matcher S.routes id
      = ((RouterG.remove O id S).2, (RouterG.remove O id S).1.matcher, (RouterG.remove O id S).1.routes) :=
  tRemove_eq O S id

theorem gen_router_batch_remove_eq_model (S : RouterG O) (ids : List String) :
    genRouterBatchRemove O.batchRemove rRetain iContains S.matcher S.routes ids
      = ((RouterG.batchRemove O ids S).matcher, (RouterG.batchRemove O ids S).routes) := rfl

theorem gen_router_len_eq_model (S : RouterG O) : genRouterLen rLen S.routes = RouterG.len O S := rfl

/-- `Router::insert(item)` = `insert_route(item.into_route(config))`, for every `into_route`. -/
theorem gen_router_insert_eq_model {τ γ : Type} (conv : τ → γ → Route) (cfg : γ) (S : RouterG O) (x : τ) :
    genRouterInsert O.insert Route.id rInsert conv cfg S.matcher S.routes x
      = ((RouterG.insert O (conv x cfg) S).matcher, (RouterG.insert O (conv x cfg) S).routes) := rfl

/-- `Router::apply_change_set`: translated = model on the converted routes, for every `into_route`. -/
theorem gen_router_apply_change_set_eq_model {τ γ : Type} (conv : τ → γ → Route) (cfg : γ) (S : RouterG O)
    (added updated : List τ) (removed : List String) :
    genRouterApplyChangeSet O.insert O.batchRemove Route.id rInsert rRetain iContains iExtend conv cfg
        S.matcher S.routes added updated removed
      = ((RouterG.applyChangeSet O (added.map (fun x => conv x cfg)) (updated.map (fun x => conv x cfg)) removed S).matcher,
         (RouterG.applyChangeSet O (added.map (fun x => conv x cfg)) (updated.map (fun x => conv x cfg)) removed S).routes) :=
  tApplyChangeSet_eq O conv cfg S added updated removed

/-- `RuleChangeSet::update_existing_router`: the NEW router is the model's change-set applied to (a clone of) the existing
one; the existing router is an input VALUE of the translated function and is not part of its result (the translator
accepts only `.as_ref().clone()` on it). -/
theorem gen_update_existing_router_eq_model {τ γ : Type} (conv : τ → γ → Route) (cfg : γ) (S : RouterG O)
    (added updated : List τ) (removed : List String) :
    genUpdateExistingRouter O.insert O.batchRemove Route.id rInsert rRetain iContains iExtend conv cfg id
        added updated removed (S.matcher, S.routes)
      = ((RouterG.applyChangeSet O (added.map (fun x => conv x cfg)) (updated.map (fun x => conv x cfg)) removed S).matcher,
         (RouterG.applyChangeSet O (added.map (fun x => conv x cfg)) (updated.map (fun x => conv x cfg)) removed S).routes) :=
  tUpdateExisting_eq O conv cfg S added updated removed

/-! ### inserting an id that is already present: the entry of the id map is REPLACED -/

theorem length_aupsert_const (v : Route) (k : String) (m : List (String × Route)) :
    (aupsert (fun _ => v) v k m).length = if (alookup k m).isSome then m.length else m.length + 1 := by
  induction m with
  | nil => simp [aupsert, alookup]
  | cons e m ih =>
    obtain ⟨k', v'⟩ := e
    by_cases h : k' = k
    · simp [aupsert, alookup, h]
    · simp only [aupsert, alookup, h, if_false, List.length_cons, ih]
      split <;> rfl

/-- after the translated `insert_route(r)`: `get_route_by_id(r.id)` is `r`, the other ids are untouched, and `len` grows
exactly when the id was not present. -/
theorem gen_router_insert_replaces (S : RouterG O) (r : Route) (id : String) :
    genRouterGetRouteById rGet (genRouterInsertRoute O.insert Route.id rInsert S.matcher S.routes r).2 id
        = (if id = r.id then some r else genRouterGetRouteById rGet S.routes id)
    ∧ genRouterLen rLen (genRouterInsertRoute O.insert Route.id rInsert S.matcher S.routes r).2
        = (if (genRouterGetRouteById rGet S.routes r.id).isSome then genRouterLen rLen S.routes
           else genRouterLen rLen S.routes + 1) := by
  constructor
  · show alookup id (aupsert (fun _ => r) r r.id S.routes) = _
    rw [alookup_aupsert]; rfl
  · exact length_aupsert_const r r.id S.routes

/-! ### the ORDER of `apply_change_set` -/

theorem runOpsG_inserts (rs : List Route) (S : RouterG O) :
    runOpsG O (rs.map Op.insert) S = rs.foldl (fun S r => RouterG.insert O r S) S := by
  induction rs generalizing S with
  | nil => rfl
  | cons r rs ih => exact ih (RouterG.insert O r S)

/-- **Order of the change-set**, for the translated function: first ONE `batch_remove` of the deleted ids and the ids of
the updated rules, then the updated rules are inserted (in order), then the added ones. -/
theorem gen_router_change_set_order {τ γ : Type} (conv : τ → γ → Route) (cfg : γ) (S : RouterG O)
    (added updated : List τ) (removed : List String) :
    genRouterApplyChangeSet O.insert O.batchRemove Route.id rInsert rRetain iContains iExtend conv cfg
        S.matcher S.routes added updated removed
      = (let S' := runOpsG O
            ([Op.batchRemove (removed ++ updated.map (fun x => (conv x cfg).id))]
              ++ updated.map (fun x => Op.insert (conv x cfg)) ++ added.map (fun x => Op.insert (conv x cfg))) S
         (S'.matcher, S'.routes)) := by
  rw [gen_router_apply_change_set_eq_model]
  have : runOpsG O
      ([Op.batchRemove (removed ++ updated.map (fun x => (conv x cfg).id))]
        ++ updated.map (fun x => Op.insert (conv x cfg)) ++ added.map (fun x => Op.insert (conv x cfg))) S
      = RouterG.applyChangeSet O (added.map (fun x => conv x cfg)) (updated.map (fun x => conv x cfg)) removed S := by
    have h1 : updated.map (fun x => Op.insert (conv x cfg)) = (updated.map (fun x => conv x cfg)).map Op.insert := by simp
    have h2 : added.map (fun x => Op.insert (conv x cfg)) = (added.map (fun x => conv x cfg)).map Op.insert := by simp
    rw [h1, h2]
    unfold runOpsG
    rw [List.foldl_append, List.foldl_append]
    have e1 := runOpsG_inserts O (updated.map (fun x => conv x cfg))
    have e2 := runOpsG_inserts O (added.map (fun x => conv x cfg))
    unfold runOpsG at e1 e2
    rw [e2, e1]
    simp [RouterG.applyChangeSet, Op.runG, List.map_map, Function.comp_def]
  rw [this]

end

/-! ### headline properties of C02 restated for the translated definitions -/

/-- `len_remove` for the translated `remove` / `len`: removing a live rule makes the translated `len` one less. -/
theorem len_remove_gen_router (E : Env) (S : Router E) (L : List Route) (r : Route) (h : RRepr E S L) (hr : r ∈ L) :
    genRouterLen rLen
        (genRouterRemove (towerOps E).remove rContainsKey rRemove S.matcher S.routes r.id).2.2 + 1
      = genRouterLen rLen S.routes := by
  rw [gen_router_remove_eq_model]
  exact len_remove E S L r h hr

/-- the translated `remove` returns the removed rule's entry exactly as the model does (so `remove_returns` transfers) -/
theorem remove_result_gen_router (E : Env) (S : Router E) (id : String) :
    (genRouterRemove (towerOps E).remove rContainsKey rRemove S.matcher S.routes id).1 = (S.remove E id).2 := by
  rw [gen_router_remove_eq_model]

/-- `repr_change_set` for the translated `apply_change_set`: the router it leaves represents `liveChangeSet`. -/
theorem repr_change_set_gen_router {τ γ : Type} (conv : τ → γ → Route) (cfg : γ) (E : Env) (S : Router E)
    (L : List Route) (added updated : List τ) (removed : List String) (h : RRepr E S L)
    (hf : FreshAll (updated.map (fun x => conv x cfg) ++ added.map (fun x => conv x cfg))
      (L.filter (fun r => !(removed ++ (updated.map (fun x => conv x cfg)).map (·.id)).contains r.id))) :
    RRepr E
      ⟨(genRouterApplyChangeSet (towerOps E).insert (towerOps E).batchRemove Route.id rInsert rRetain iContains iExtend
          conv cfg S.matcher S.routes added updated removed).1,
       (genRouterApplyChangeSet (towerOps E).insert (towerOps E).batchRemove Route.id rInsert rRetain iContains iExtend
          conv cfg S.matcher S.routes added updated removed).2⟩
      (liveChangeSet (added.map (fun x => conv x cfg)) (updated.map (fun x => conv x cfg)) removed L) := by
  rw [gen_router_apply_change_set_eq_model]
  exact repr_change_set E S L _ _ removed h hf

/-- the same for `update_existing_router` (clone, then apply): the NEW router represents `liveChangeSet`. -/
theorem repr_update_existing_gen_router {τ γ : Type} (conv : τ → γ → Route) (cfg : γ) (E : Env) (S : Router E)
    (L : List Route) (added updated : List τ) (removed : List String) (h : RRepr E S L)
    (hf : FreshAll (updated.map (fun x => conv x cfg) ++ added.map (fun x => conv x cfg))
      (L.filter (fun r => !(removed ++ (updated.map (fun x => conv x cfg)).map (·.id)).contains r.id))) :
    RRepr E
      ⟨(genUpdateExistingRouter (towerOps E).insert (towerOps E).batchRemove Route.id rInsert rRetain iContains iExtend
          conv cfg id added updated removed (S.matcher, S.routes)).1,
       (genUpdateExistingRouter (towerOps E).insert (towerOps E).batchRemove Route.id rInsert rRetain iContains iExtend
          conv cfg id added updated removed (S.matcher, S.routes)).2⟩
      (liveChangeSet (added.map (fun x => conv x cfg)) (updated.map (fun x => conv x cfg)) removed L) := by
  rw [gen_update_existing_router_eq_model]
  exact repr_change_set E S L _ _ removed h hf

/-! ### `update_existing_router` in the model WITH sharing (W12, Model/RouterShare.lean) -/

open Rio.RouterShare in
open Rio.MarkerCache (RegexLib) in
open Rio.Marker (Str) in
/-- **The shared existing router is not changed, the derived one is the translated function's result.**  In a world of
routers sharing capture-regex cells, `update_existing_router` on router `i` leaves every observation of router `i` as
it was, and the matcher tower / id map of the new router are exactly what the TRANSLATED
`RuleChangeSet::update_existing_router` computes from those of router `i` (`into_route` = the route value of the
rule; the marker templates only allocate fresh cells). -/
theorem update_existing_router_isolated_gen {R : Type} (lib : RegexLib R) {O : MOps} (w : World R O) (hw : w.WF lib)
    (nameEq : Str → Str → Bool) (i : Nat) (S : SRouter O) (hS : w.routers[i]? = some S)
    (added updated : List (Route × RouteTpl)) (removed : List String) :
    (w.updateExisting lib i added updated removed).obs lib nameEq i = w.obs lib nameEq i ∧
    ∃ S', (w.updateExisting lib i added updated removed).routers[w.routers.length]? = some S' ∧
      (S'.core.matcher, S'.core.routes) =
        genUpdateExistingRouter O.insert O.batchRemove Route.id rInsert rRetain iContains iExtend
          (fun (x : Route × RouteTpl) (_ : Unit) => x.1) () id added updated removed (S.core.matcher, S.core.routes) := by
  obtain ⟨h1, S', h2, h3⟩ := update_existing_router_isolated lib w hw nameEq i S hS added updated removed
  refine ⟨h1, S', h2, ?_⟩
  rw [gen_update_existing_router_eq_model, h3]

/-! ### non-vacuity -/

/-- the hypotheses of `len_remove_gen_router` are satisfiable: one live rule in a router built by `insert` -/
example (E : Env) : ∃ (S : Router E) (L : List Route) (r : Route), RRepr E S L ∧ r ∈ L :=
  ⟨(Router.empty E).insert E (exRoute "a" none (.static "/a")), [exRoute "a" none (.static "/a")],
    exRoute "a" none (.static "/a"), repr_insert E _ [] _ (repr_empty E) (by simp), by simp⟩

/-- the freshness hypothesis of `repr_change_set_gen_router` is satisfiable with a non-trivial change-set
(an update of the live id "a" and a new id "c"; `into_route` = identity) -/
example : FreshAll
    ([exRoute "a" (some (.static "h")) (.static "/a")].map (fun x => (fun (x : Route) (_ : Unit) => x) x ()) ++
      [exRoute "c" none (.static "/a")].map (fun x => (fun (x : Route) (_ : Unit) => x) x ()))
    ([exRoute "a" none (.static "/a")].filter (fun r => !(["b"] ++
      ([exRoute "a" (some (.static "h")) (.static "/a")].map (fun x => (fun (x : Route) (_ : Unit) => x) x ())).map (·.id)).contains r.id)) := by
  simp [FreshAll, exRoute]

/-- the translated functions compute: on the list-only matcher "all inserted routes" the translated change-set replaces "a" -/
example :
    let O : MOps := ⟨List Route, [], fun r m => r :: m, fun id m => (m.filter (·.id != id), m.find? (·.id == id)),
      fun ids m => m.filter (fun r => !ids.contains r.id), fun m _ => m, fun _ _ => [], List.length, fun _ _ m => (m, 0)⟩
    let S0 : RouterG O := RouterG.insert O (exRoute "a" none (.static "/a")) (RouterG.empty O)
    let res := genRouterApplyChangeSet O.insert O.batchRemove Route.id rInsert rRetain iContains iExtend
      (fun (x : Route) (_ : Unit) => x) () S0.matcher S0.routes
      [exRoute "c" none (.static "/a")] [exRoute "a" (some (.static "h")) (.static "/a")] ["b"]
    res.2.map Prod.fst = ["a", "c"] ∧ (genRouterGetRouteById rGet res.2 "a").map (·.host) = some (some (.static "h"))
      ∧ genRouterLen rLen res.2 = 2 := by
  decide

/-- the hypotheses of `update_existing_router_isolated_gen` are satisfiable (W12's `tinyWorld`, router 0) -/
example : tinyWorld.WF tinyLib ∧ ∃ S, tinyWorld.routers[0]? = some S := ⟨tinyWorld_wf, _, rfl⟩

end Rio.C02
