/-
C03, final form on the tokenizer model of the real tokenizer: the executable hypothesis `SafeRun` / `SafeG` of
`chunk_invariant_partial` / `chain_chunk_invariant_partial` follows from a SYNTACTIC condition on the buffer the
tokenizer sees at each cut (`synSafeEnd`, W5's Proofs/HtmlStream6.lean: the end of the buffer is not inside a comment /
doctype / `<!…>` / `<?…>` / CDATA token cut by EOF and no raw-text context is pending; allowed: a token boundary, plain
text, a held text containing `<`, a partial start / end tag) through W5's restart law `htmlTokenize_restart`.

The buffer at a cut is `last_buffer ++ chunk` (its valid UTF-8 part): the held tail of the previous calls followed by
the new chunk — by the restart law it ends in the same tokenizer context as the corresponding prefix of the body, which
is the SafeCuts of DESIGN §5 (C03) evaluated where the code evaluates it.
-/
import RioModel.Props.C03
import RioModel.Proofs.HtmlStream6
set_option linter.unusedSimpArgs false
set_option linter.unusedVariables false

namespace Rio.C03
open Rio.Filter

variable {D E : Type}

/-- the syntactic condition at one cut: the valid part of `last_buffer ++ chunk` ends at a safe place -/
def synCutB (L x : Bytes) : Bool :=
  match utf8Split (L ++ x) with
  | none => true
  | some (a1, _) => synSafeEnd a1

/-- **syntactically safe ⇒ safe for the splitting lemma** (W5's restart law) -/
theorem safeCutT_of_syn (L x r : Bytes) (h : synCutB L x = true) : SafeCutT htmlTokenize L x r := by
  intro a1 p1 h1
  have hs : synSafeEnd a1 = true := by simpa [synCutB, h1] using h
  have hv : V a1 := V_utf8Split h1
  refine ⟨(htmlTokenize_restart a1 [] hv V_nil hs).2.2, ?_⟩
  intro a' p' h2
  have hv' : V a' := V_utf8Split h2
  obtain ⟨k1, k2, _⟩ := htmlTokenize_restart a1 a' hv hv' hs
  exact ⟨k1, k2⟩

/-- every cut of the schedule is syntactically safe (nothing is required of the last chunk) -/
def synSafeRunB (ev : Bytes → Bytes → Bool) (s : HtmlSt) : List Bytes → Bool
  | [] => true
  | [_] => true
  | x :: y :: rest =>
    synCutB s.last x &&
      match filterHtml htmlTokenize ev s x with
      | none => true
      | some (s1, _) => synSafeRunB ev s1 (y :: rest)

theorem safeRun_of_syn (ev : Bytes → Bytes → Bool) : ∀ (cs : List Bytes) (s : HtmlSt),
    synSafeRunB ev s cs = true → SafeRun htmlTokenize ev s cs
  | [], _, _ => trivial
  | [_], _, _ => trivial
  | x :: y :: rest, s, h => by
    simp only [synSafeRunB, Bool.and_eq_true] at h
    refine ⟨safeCutT_of_syn _ _ _ h.1, ?_⟩
    cases hf : filterHtml htmlTokenize ev s x with
    | none => trivial
    | some r =>
      obtain ⟨s1, o1⟩ := r
      have := h.2
      rw [hf] at this
      exact safeRun_of_syn ev (y :: rest) s1 this

/-- **C03 at syntactically safe cuts, one html filter, on the tokenizer model — no tokenizer hypothesis.**
For every non-empty schedule of a body on which no call fails (valid UTF-8), if at every cut the buffer the tokenizer
sees ends at a syntactically safe place, the concatenated output equals the output of the single chunk. -/
theorem chunk_invariant_syntactic (ev : Bytes → Bytes → Bool) (codec : Codec D E)
    (s : HtmlSt) (cs : List Bytes) (hne : cs ≠ []) (hsafe : synSafeRunB ev s cs = true)
    (hok : seqRun htmlTokenize ev s cs ≠ none) :
    ({ items := [.html s] } : Chain D E).run htmlTokenize ev codec cs =
      ({ items := [.html s] } : Chain D E).run htmlTokenize ev codec [cs.flatten] :=
  chunk_invariant_partial htmlTokenize ev codec s cs hne (safeRun_of_syn ev cs s hsafe) hok

/-! ### chains -/

def synStageSafeB (ev : Bytes → Bytes → Bool) : Stage D E → List Bytes → Bool
  | .html s, pieces => synSafeRunB ev s pieces
  | _, _ => true

/-- every html stage of the chain is syntactically safe on the pieces it actually receives -/
def synSafeGB (ev : Bytes → Bytes → Bool) (codec : Codec D E) : List (Stage D E) → List Bytes → Option Bytes → Bool
  | [], _, _ => true
  | st :: rest, ps, fin =>
    synStageSafeB ev st (ps ++ fin.toList) &&
      match stFeed htmlTokenize ev codec st ps with
      | none => true
      | some (st1, os) =>
        match st1.endWith htmlTokenize ev codec fin with
        | (_, none) => true
        | (_, some nd) => synSafeGB ev codec rest (nonEmpty os) (optB nd)

theorem safeG_of_syn (ev : Bytes → Bytes → Bool) (codec : Codec D E) :
    ∀ (items : List (Stage D E)) (ps : List Bytes) (fin : Option Bytes),
      synSafeGB ev codec items ps fin = true → SafeG htmlTokenize ev codec items ps fin
  | [], _, _, _ => trivial
  | st :: rest, ps, fin, h => by
    simp only [synSafeGB, Bool.and_eq_true] at h
    refine ⟨?_, ?_⟩
    · cases st with
      | html s => exact safeRun_of_syn ev _ s h.1
      | text s => trivial
      | decode d => trivial
      | encode e => trivial
    · cases hfe : stFeed htmlTokenize ev codec st ps with
      | none => trivial
      | some r =>
        obtain ⟨st1, os⟩ := r
        have h2 := h.2
        simp only [hfe] at h2 ⊢
        cases hw : st1.endWith htmlTokenize ev codec fin with
        | mk st2 x =>
          cases x with
          | none => trivial
          | some nd =>
            simp only [hw] at h2 ⊢
            exact safeG_of_syn ev codec rest _ _ h2

/-- **C03 at syntactically safe cuts for chains of any number of html and text filters, on the tokenizer model.** -/
theorem chain_chunk_invariant_syntactic (ev : Bytes → Bytes → Bool) (codec : Codec D E)
    (items : List (Stage D E)) (hp : AllPlain items) (cs : List Bytes) (hne : cs ≠ [])
    (hsafe : synSafeGB ev codec items cs none = true) (hsafe1 : synSafeGB ev codec items [cs.flatten] none = true)
    (hok : runG htmlTokenize ev codec items cs none ≠ none)
    (hok1 : runG htmlTokenize ev codec items [cs.flatten] none ≠ none) :
    ({ items := items } : Chain D E).run htmlTokenize ev codec cs =
      ({ items := items } : Chain D E).run htmlTokenize ev codec [cs.flatten] :=
  chain_chunk_invariant_partial htmlTokenize ev codec items hp cs hne
    (safeG_of_syn ev codec items cs none hsafe) (safeG_of_syn ev codec items [cs.flatten] none hsafe1) hok hok1

/-- non-vacuity: the schedule of `safe_example` (cuts inside a start tag, plain text, an end tag) is syntactically
safe; the D4 witness is not -/
theorem syntactic_examples :
    synSafeRunB evalStandIn safeStage safeBody = true ∧
    synSafeRunB evalStandIn (HtmlSt.new { kind := .prepend, cur := [112], content := [36] }) witnessChunks = false := by
  decide +kernel

end Rio.C03
