/-
C03, final form on the tokenizer model of the real tokenizer: every tokenizer law of `Rio.C03.chunk_invariant` is
discharged — `LosslessAll` (Proofs/FilterTok.lean, from C16), `TokValid` (W5, Proofs/HtmlStream4.lean), `TokValidS`,
`CtxClosed` (W5, Proofs/HtmlStream8.lean), `RestartLaw` (W5, Proofs/HtmlStream9.lean: the restart law with a context, no
safety hypothesis) — so the FULL chunk-invariance statement holds of the model with no hypothesis besides "the body and
the configured values are valid UTF-8".
-/
import RioModel.Props.C03
import RioModel.Props.C04tok
import RioModel.Proofs.HtmlStream9
set_option linter.unusedSimpArgs false
set_option linter.unusedVariables false

namespace Rio.C03
open Rio.Filter

variable {D E : Type}

/-- the restart law of the stream tokenizer of the model (W5) -/
theorem tokenizer_restart : RestartLaw htmlTokenize := htmlTokenize_restartLaw

/-- on a valid UTF-8 body no call of a plain chain with valid values fails, however the body is cut -/
theorem no_call_fails (ev : Bytes → Bytes → Bool) (codec : Codec D E) (items : List (Stage D E)) (hd : Down items)
    (cs : List Bytes) (hv : V cs.flatten) : runG htmlTokenize ev codec items cs none ≠ none := by
  obtain ⟨out, h, _⟩ := runG_ok htmlTokenize_losslessAll Rio.C04.tokenizer_tokValid ev codec items cs none hd
    (by simpa using hv)
  rw [h]; simp

/-- **C03, the DESIGN statement on the tokenizer model — FULL.**  For the chain `FilterBodyAction::new` builds from any
list of html and text filters whose values are valid UTF-8 (no `Content-Encoding`), every selector oracle, every valid
UTF-8 body and EVERY way of cutting it into chunks (empty chunks, no chunk at all, cuts inside multi-byte characters,
tags, comments, declarations, CDATA sections and raw-text elements included): the concatenated output is byte-identical
to the output for the body delivered as one chunk.  No hypothesis on the cuts, no tokenizer hypothesis, no no-failure
hypothesis. -/
theorem chunk_invariant_final (ev : Bytes → Bytes → Bool) (lower : String → String)
    (fs : List BodyFilter) (headers : List (String × String))
    (henc : headerValue lower Rio.Consts.filterHeaderContentEncoding headers = none)
    (hval : ∀ f ∈ fs, V (Rio.C04.filterValue f)) :
    ChunkInvariant htmlTokenize ev noCodec (Chain.new noCodec lower fs headers) :=
  chunk_invariant htmlTokenize_losslessAll Rio.C04.tokenizer_tokValid htmlTokenize_restartLaw htmlStream_nil_nil
    ev lower fs headers henc hval

/-- the same, spelled out -/
theorem chunk_invariant_final' (ev : Bytes → Bytes → Bool) (lower : String → String)
    (fs : List BodyFilter) (headers : List (String × String))
    (henc : headerValue lower Rio.Consts.filterHeaderContentEncoding headers = none)
    (hval : ∀ f ∈ fs, V (Rio.C04.filterValue f))
    (cs : List Bytes) (hbody : utf8Scan cs.flatten = .ok) :
    (Chain.new noCodec lower fs headers).run htmlTokenize ev noCodec cs =
      (Chain.new noCodec lower fs headers).run htmlTokenize ev noCodec [cs.flatten] :=
  chunk_invariant_final ev lower fs headers henc hval cs hbody

/-- one html stage in any reachable state (accepted context), every non-empty schedule of a stream on which no call
fails -/
theorem html_stage_chunk_invariant_final (ev : Bytes → Bytes → Bool) (codec : Codec D E)
    (s : HtmlSt) (hc : Ctx s.ctx) (cs : List Bytes) (hne : cs ≠ []) (hok : seqRun htmlTokenize ev s cs ≠ none) :
    ({ items := [.html s] } : Chain D E).run htmlTokenize ev codec cs =
      ({ items := [.html s] } : Chain D E).run htmlTokenize ev codec [cs.flatten] :=
  html_stage_chunk_invariant htmlTokenize ev codec htmlTokenize_restartLaw s hc cs hne hok

/-- non-vacuity: a schedule that cuts inside a start tag, inside a raw-text element, inside a comment and inside an end
tag; the filter acts (`$` is prepended in `<p>`), and both runs agree — by the theorem, not by evaluating the two runs -/
def cutBody : List Bytes :=
  [[60, 100, 105], [118, 62, 60, 115, 116, 121, 108, 101, 62, 60, 112], [62, 60, 47, 115, 116, 121, 108, 101, 62, 60, 33, 45],
   [45, 60, 112, 62, 45, 45, 62, 60, 112, 62, 120, 60, 47], [112, 62, 60, 47, 100, 105, 118, 62]]

theorem cut_example :
    (Chain.new noCodec id [.html "prepend_child" [[100, 105, 118], [112]] none [36]] []).run htmlTokenize evalStandIn noCodec cutBody =
      (Chain.new noCodec id [.html "prepend_child" [[100, 105, 118], [112]] none [36]] []).run htmlTokenize evalStandIn noCodec [cutBody.flatten] :=
  chunk_invariant_final' evalStandIn id _ [] rfl (by intro f hf; simp at hf; subst hf; unfold V; decide) cutBody (by decide +kernel)

/-- ... and the filter does act on that input: `<div><style><p></style><!--<p>--><p>$x</p></div>` -/
theorem cut_example_acts :
    (Chain.new noCodec id [.html "prepend_child" [[100, 105, 118], [112]] none [36]] []).run htmlTokenize evalStandIn noCodec [cutBody.flatten] =
      [60, 100, 105, 118, 62, 60, 115, 116, 121, 108, 101, 62, 60, 112, 62, 60, 47, 115, 116, 121, 108, 101, 62] ++
      [60, 33, 45, 45, 60, 112, 62, 45, 45, 62, 60, 112, 62, 36, 120, 60, 47, 112, 62, 60, 47, 100, 105, 118, 62] := by
  decide +kernel

/-- the same schedule through a chain of three stages built by `Chain.new` (two html filters and a text filter) -/
theorem cut_example_multistage :
    (Chain.new noCodec id [.html "prepend_child" [[100, 105, 118], [112]] none [36], .html "append_child" [[100, 105, 118]] none [35],
        .text .append [33]] []).run htmlTokenize evalStandIn noCodec cutBody =
      (Chain.new noCodec id [.html "prepend_child" [[100, 105, 118], [112]] none [36], .html "append_child" [[100, 105, 118]] none [35],
        .text .append [33]] []).run htmlTokenize evalStandIn noCodec [cutBody.flatten] :=
  chunk_invariant_final' evalStandIn id _ [] rfl
    (by intro f hf; simp at hf; rcases hf with rfl | rfl | rfl <;> (unfold V; decide)) cutBody (by decide +kernel)

end Rio.C03
