/-
C03, final form on the tokenizer model of the real tokenizer: the executable hypothesis `SafeRun` / `SafeG` of
`chunk_invariant_partial` / `chain_chunk_invariant_partial` follows from a SYNTACTIC condition on the buffer the
tokenizer sees at each cut (`synSafeEnd`, W5's Proofs/HtmlStream6.lean: the end of the buffer is not inside a comment /
doctype / `<!…>` / `<?…>` / CDATA token cut by EOF and no raw-text context is pending; allowed: a token boundary, plain
text, a held text containing `<`, a partial start / end tag) through W5's restart law `htmlTokenize_restart`.

The buffer at a cut is `last_buffer ++ chunk` (its valid UTF-8 part): the held tail of the previous calls followed by
the new chunk — by the restart law it ends in the same tokenizer context as the corresponding prefix of the body, which
is the SafeCuts of DESIGN §5 (C03) evaluated where the code evaluates it.
-/
import RioModel.Props.C03
import RioModel.Proofs.HtmlStream6
import RioModel.Proofs.FilterNoFail
import RioModel.Props.C04
set_option linter.unusedSimpArgs false
set_option linter.unusedVariables false

namespace Rio.C03
open Rio.Filter

variable {D E : Type}

/-- the syntactic condition at one cut: the valid part of `last_buffer ++ chunk` ends at a safe place -/
def synCutB (L x : Bytes) : Bool :=
  match utf8Split (L ++ x) with
  | none => true
  | some (a1, _) => synSafeEnd a1

/-- **syntactically safe ⇒ safe for the splitting lemma** (W5's restart law) -/
theorem safeCutT_of_syn (L x r : Bytes) (h : synCutB L x = true) : SafeCutT htmlTokenize L x r := by
  intro a1 p1 h1
  have hs : synSafeEnd a1 = true := by simpa [synCutB, h1] using h
  have hv : V a1 := V_utf8Split h1
  refine ⟨(htmlTokenize_restart a1 [] hv V_nil hs).2.2, ?_⟩
  intro a' p' h2
  have hv' : V a' := V_utf8Split h2
  obtain ⟨k1, k2, _⟩ := htmlTokenize_restart a1 a' hv hv' hs
  exact ⟨k1, k2⟩

/-- every cut of the schedule is syntactically safe (nothing is required of the last chunk) -/
def synSafeRunB (ev : Bytes → Bytes → Bool) (s : HtmlSt) : List Bytes → Bool
  | [] => true
  | [_] => true
  | x :: y :: rest =>
    synCutB s.last x &&
      match filterHtml htmlTokenize ev s x with
      | none => true
      | some (s1, _) => synSafeRunB ev s1 (y :: rest)

theorem safeRun_of_syn (ev : Bytes → Bytes → Bool) : ∀ (cs : List Bytes) (s : HtmlSt),
    synSafeRunB ev s cs = true → SafeRun htmlTokenize ev s cs
  | [], _, _ => trivial
  | [_], _, _ => trivial
  | x :: y :: rest, s, h => by
    simp only [synSafeRunB, Bool.and_eq_true] at h
    refine ⟨safeCutT_of_syn _ _ _ h.1, ?_⟩
    cases hf : filterHtml htmlTokenize ev s x with
    | none => trivial
    | some r =>
      obtain ⟨s1, o1⟩ := r
      have := h.2
      rw [hf] at this
      exact safeRun_of_syn ev (y :: rest) s1 this

/-- **C03 at syntactically safe cuts, one html filter, on the tokenizer model — no tokenizer hypothesis.**
For every non-empty schedule of a body on which no call fails (valid UTF-8), if at every cut the buffer the tokenizer
sees ends at a syntactically safe place, the concatenated output equals the output of the single chunk. -/
theorem chunk_invariant_syntactic (ev : Bytes → Bytes → Bool) (codec : Codec D E)
    (s : HtmlSt) (cs : List Bytes) (hne : cs ≠ []) (hsafe : synSafeRunB ev s cs = true)
    (hok : seqRun htmlTokenize ev s cs ≠ none) :
    ({ items := [.html s] } : Chain D E).run htmlTokenize ev codec cs =
      ({ items := [.html s] } : Chain D E).run htmlTokenize ev codec [cs.flatten] :=
  chunk_invariant_partial htmlTokenize ev codec s cs hne (safeRun_of_syn ev cs s hsafe) hok

/-! ### chains -/

def synStageSafeB (ev : Bytes → Bytes → Bool) : Stage D E → List Bytes → Bool
  | .html s, pieces => synSafeRunB ev s pieces
  | _, _ => true

/-- every html stage of the chain is syntactically safe on the pieces it actually receives -/
def synSafeGB (ev : Bytes → Bytes → Bool) (codec : Codec D E) : List (Stage D E) → List Bytes → Option Bytes → Bool
  | [], _, _ => true
  | st :: rest, ps, fin =>
    synStageSafeB ev st (ps ++ fin.toList) &&
      match stFeed htmlTokenize ev codec st ps with
      | none => true
      | some (st1, os) =>
        match st1.endWith htmlTokenize ev codec fin with
        | (_, none) => true
        | (_, some nd) => synSafeGB ev codec rest (nonEmpty os) (optB nd)

theorem safeG_of_syn (ev : Bytes → Bytes → Bool) (codec : Codec D E) :
    ∀ (items : List (Stage D E)) (ps : List Bytes) (fin : Option Bytes),
      synSafeGB ev codec items ps fin = true → SafeG htmlTokenize ev codec items ps fin
  | [], _, _, _ => trivial
  | st :: rest, ps, fin, h => by
    simp only [synSafeGB, Bool.and_eq_true] at h
    refine ⟨?_, ?_⟩
    · cases st with
      | html s => exact safeRun_of_syn ev _ s h.1
      | text s => trivial
      | decode d => trivial
      | encode e => trivial
    · cases hfe : stFeed htmlTokenize ev codec st ps with
      | none => trivial
      | some r =>
        obtain ⟨st1, os⟩ := r
        have h2 := h.2
        simp only [hfe] at h2 ⊢
        cases hw : st1.endWith htmlTokenize ev codec fin with
        | mk st2 x =>
          cases x with
          | none => trivial
          | some nd =>
            simp only [hw] at h2 ⊢
            exact safeG_of_syn ev codec rest _ _ h2

/-- **C03 at syntactically safe cuts for chains of any number of html and text filters, on the tokenizer model.** -/
theorem chain_chunk_invariant_syntactic (ev : Bytes → Bytes → Bool) (codec : Codec D E)
    (items : List (Stage D E)) (hp : AllPlain items) (cs : List Bytes) (hne : cs ≠ [])
    (hsafe : synSafeGB ev codec items cs none = true) (hsafe1 : synSafeGB ev codec items [cs.flatten] none = true)
    (hok : runG htmlTokenize ev codec items cs none ≠ none)
    (hok1 : runG htmlTokenize ev codec items [cs.flatten] none ≠ none) :
    ({ items := items } : Chain D E).run htmlTokenize ev codec cs =
      ({ items := items } : Chain D E).run htmlTokenize ev codec [cs.flatten] :=
  chain_chunk_invariant_partial htmlTokenize ev codec items hp cs hne
    (safeG_of_syn ev codec items cs none hsafe) (safeG_of_syn ev codec items [cs.flatten] none hsafe1) hok hok1

/-- on a valid UTF-8 body no call of a plain chain with valid values fails, however the body is cut -/
theorem no_call_fails (ev : Bytes → Bytes → Bool) (codec : Codec D E) (items : List (Stage D E)) (hd : Down items)
    (cs : List Bytes) (hv : V cs.flatten) : runG htmlTokenize ev codec items cs none ≠ none := by
  obtain ⟨out, h, _⟩ := runG_ok htmlTokenize_lossless htmlTokenize_tokValid ev codec items cs none hd (by simpa using hv)
  rw [h]; simp

/-- **C03, the DESIGN statement on the tokenizer model.**  For the chain `FilterBodyAction::new` builds from any list
of html and text filters whose values are valid UTF-8 (no `Content-Encoding`), every valid UTF-8 body and every way of
cutting it into a non-empty list of chunks (empty chunks and cuts inside multi-byte characters included): if every cut
is syntactically safe — for each html stage, at each cut between the pieces it receives, the buffer the tokenizer sees
does not end inside a comment / doctype / `<!…>` / `<?…>` / CDATA token cut by EOF nor in a raw-text zone
(`synSafeGB`, in the run on the schedule and in the single-chunk run) — the concatenated output is byte-identical to
the output for the body delivered as one chunk.  No other hypothesis. -/
theorem chunk_invariant_final (ev : Bytes → Bytes → Bool) (lower : String → String)
    (fs : List BodyFilter) (headers : List (String × String))
    (henc : headerValue lower Rio.Consts.filterHeaderContentEncoding headers = none)
    (hval : ∀ f ∈ fs, V (Rio.C04.filterValue f))
    (cs : List Bytes) (hne : cs ≠ []) (hbody : V cs.flatten)
    (hsafe : synSafeGB ev noCodec (Chain.new noCodec lower fs headers).items cs none = true)
    (hsafe1 : synSafeGB ev noCodec (Chain.new noCodec lower fs headers).items [cs.flatten] none = true) :
    (Chain.new noCodec lower fs headers).run htmlTokenize ev noCodec cs =
      (Chain.new noCodec lower fs headers).run htmlTokenize ev noCodec [cs.flatten] := by
  rw [Rio.C04.new_plain noCodec lower fs headers henc] at hsafe hsafe1 ⊢
  generalize headerValue lower Rio.Consts.filterHeaderContentType headers = ct at hsafe hsafe1 ⊢
  have hdown : Down (fs.filterMap fun f => (Stage.new f ct : Option (Stage Unit Unit))) := by
    intro st hst
    simp only [List.mem_filterMap] at hst
    obtain ⟨f, hf, hnew⟩ := hst
    exact Rio.C04.stage_new_down f ct st (hval f hf) hnew
  have hplain : AllPlain (fs.filterMap fun f => (Stage.new f ct : Option (Stage Unit Unit))) := by
    intro st hst
    have := hdown st hst
    cases st <;> simp_all [DStage, isPlain]
  exact chain_chunk_invariant_syntactic ev noCodec _ hplain cs hne hsafe hsafe1
    (no_call_fails ev noCodec _ hdown cs hbody)
    (no_call_fails ev noCodec _ hdown [cs.flatten] (by simpa using hbody))

/-- non-vacuity: the schedule of `safe_example` (cuts inside a start tag, plain text, an end tag) is syntactically
safe; the D4 witness is not -/
theorem syntactic_examples :
    synSafeRunB evalStandIn safeStage safeBody = true ∧
    synSafeRunB evalStandIn (HtmlSt.new { kind := .prepend, cur := [112], content := [36] }) witnessChunks = false := by
  decide +kernel

end Rio.C03
