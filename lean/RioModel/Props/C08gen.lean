/-
C08 (mechanism 1: where the regex prefix tree cuts) for the prefix scanner REGENERATED FROM THE SOURCE.

`Rio.Consts.genCommonPrefixCharSize` is translated on every run from `common_prefix_char_size` of
src/regex_radix_tree/prefix.rs (tools/consts.d/w4_translate.py: the `loop`, the `next_char_or_return!`
macro, the counters `prefix_length`, `was_escape`, `group_level`, `i`).  Proofs/ScanGen.lean shows it
equals W1's model; here the scanner theorems behind `common_prefix_boundary` are restated for the
generated definition, so a source change that alters where the scanner cuts breaks a proof.
-/
import RioModel.Props.C08
import RioModel.Proofs.ScanGen
set_option linter.unusedSimpArgs false
set_option linter.unusedVariables false

namespace Rio.C08
open Rio.Scan Rio.Consts Rio.Regex

/-- the translated scanner is the modelled one -/
theorem gen_cpcs_eq_model (l r : List Char) :
    genCommonPrefixCharSize l r = commonPrefixCharSize l r := genCommonPrefixCharSize_eq l r

/-- `common_prefix` with the translated size function (`get_prefix_with_char_size` is the model's) -/
def genCommonPrefix (l r : List Char) : List Char :=
  getPrefixWithCharSize l (genCommonPrefixCharSize l r)

theorem gen_common_prefix_eq_model (l r : List Char) : genCommonPrefix l r = commonPrefix l r := by
  simp only [genCommonPrefix, commonPrefix, gen_cpcs_eq_model]

/-- **The size the translated loop returns is the LARGEST `k` such that the two strings agree on their
first `k` chars and the scanner (group depth, pending backslash) is at a boundary after them.** -/
theorem gen_cpcs_spec (l r : List Char) :
    Common (genCommonPrefixCharSize l r) l r ∧ Bd b0 l (genCommonPrefixCharSize l r) ∧
    ∀ k, Common k l r → Bd b0 l k → k ≤ genCommonPrefixCharSize l r := by
  rw [gen_cpcs_eq_model]
  exact ⟨cpcs_common l r, cpcs_bd l r, fun k hc hb => cpcs_max l r k hc hb⟩

/-- `common_prefix(l, r)` computed with the translated loop is a boundary prefix of both arguments,
and the longest one. -/
theorem gen_common_prefix_boundary (l r : List Char) :
    BPre (genCommonPrefix l r) l ∧ BPre (genCommonPrefix l r) r ∧
    ∀ q, BPre q l → BPre q r → q.length ≤ (genCommonPrefix l r).length := by
  rw [gen_common_prefix_eq_model]
  exact common_prefix_boundary l r

/-- hence, on a rule-shaped pattern, the translated scanner only cuts at token boundaries -/
theorem gen_cut_is_token_boundary (ts : List Tok) (hg : ∀ t ∈ ts, t.good = true) (r : List Char) :
    ∃ pre suf, ts = pre ++ suf ∧ genCommonPrefix (render ts) r = render pre :=
  cut_is_token_boundary ts hg _ (gen_common_prefix_boundary (render ts) r).1

/-- symmetric in its arguments -/
theorem gen_cpcs_comm (l r : List Char) : genCommonPrefixCharSize l r = genCommonPrefixCharSize r l := by
  rw [gen_cpcs_eq_model, gen_cpcs_eq_model, cpcs_comm]

/-! ### Non-vacuity: the translated loop on patterns with a group and an escape -/

example : genCommonPrefixCharSize "/a(?:x)/b".toList "/a(?:x)/c".toList = 8 := by
  simp [genCommonPrefixCharSize, genCommonPrefixCharSizeLoop1]

example : genCommonPrefixCharSize "/a(?:xy)".toList "/a(?:xz)".toList = 2 := by
  simp [genCommonPrefixCharSize, genCommonPrefixCharSizeLoop1]

example : genCommonPrefixCharSize "/a\\(b".toList "/a\\(c".toList = 4 := by
  simp [genCommonPrefixCharSize, genCommonPrefixCharSizeLoop1]

end Rio.C08
