/-
C17 (tree part) — the trace of the regex radix tree agrees with matching.

`regex_radix_tree/trace.rs` (`Item::trace`, `Node::trace`, `Leaf::trace`) is modelled in Model/Tree.lean
(`Item.trace`, `Trace`); the router turns a tree trace into its own trace with `tree_trace_to_trace`
(`router/request_matcher/{path_and_query,host}.rs`): the routes of a node are `values` when `matched`
(else none), children exist only below matched nodes – `Trace.found` is that extraction.

All theorems hold for every engine and every tree (no invariant, no domain hypothesis): the trace and
`find` make the same `is_match` calls on the same regexes.  The `…_scan` corollaries add C08's
hypotheses to relate the trace to the linear scan.
-/
import RioModel.Proofs.TreeTrace
import RioModel.Props.C08
set_option linter.unusedSimpArgs false
set_option linter.unusedVariables false
set_option linter.unusedSectionVars false

namespace Rio.C17
open Rio.Scan Rio.Regex Rio.Tree

variable {ι V : Type} [DecidableEq ι]

/-- **trace_values_eq_find.**  The values listed under the matched leaves of `trace t s` are exactly the values
`find t s` returns, in the same order. -/
theorem trace_values_eq_find (E : Engine) (t : Item ι V) (s : List Char) :
    (t.trace E s).found = t.find E s := trace_found_eq_find E t s

/-- `count` of a trace node is `len()` of the sub-tree it traces (whether or not it matched). -/
theorem tree_trace_count (E : Engine) (t : Item ι V) (s : List Char) : (t.trace E s).count = t.len :=
  trace_count E t s

/-- `regex` of a trace node is the `regex()` of the item (node prefix / leaf pattern / "" for `Empty`). -/
theorem tree_trace_regex (E : Engine) (t : Item ι V) (s : List Char) : (t.trace E s).regex = t.regex :=
  trace_regex E t s

/-- A leaf's trace: its `matched` flag is `is_match` of its regex, it has no children and lists *all* its values
(also when it did not match – the router drops them then). -/
theorem tree_trace_leaf (E : Engine) (rx : LazyRegex) (vs : List (ι × V)) (s : List Char) :
    ((Item.leaf rx vs).trace E s).matched = rx.isMatch E s ∧
    ((Item.leaf rx vs).trace E s).children = [] ∧
    ((Item.leaf rx vs).trace E s).values = vs.map (·.2) := by
  rw [trace_leaf]; exact ⟨rfl, rfl, rfl⟩

/-- A node's trace: `matched` is `is_match` of the prefix regex; the children are the traces of all its children,
in order, iff it matched (none otherwise); it lists no values itself; each child trace again has
`count = len` of that child. -/
theorem tree_trace_node (E : Engine) (rx : LazyRegex) (cs : List (Item ι V)) (s : List Char) :
    ((Item.node rx cs).trace E s).matched = rx.isMatch E s ∧
    ((Item.node rx cs).trace E s).children =
      (if rx.isMatch E s then cs.map fun c => c.trace E s else []) ∧
    ((Item.node rx cs).trace E s).values = [] := by
  rw [trace_node]; exact ⟨rfl, rfl, rfl⟩

/-- The trace of the empty tree: matched, count 0, nothing below. -/
theorem tree_trace_empty (E : Engine) (ic : Bool) (s : List Char) :
    ((Item.empty ic : Item ι V).trace E s) = .mk [] 0 true [] [] := trace_empty E ic s

/-- With C08's hypotheses the matched values of the trace are the linear scan of the stored entries. -/
theorem trace_values_eq_scan {E : Engine} {Good : List Char → Prop} (hPS : PrefixSound E Good) {ic : Bool}
    (t : Item ι V) (hinv : C08.Inv ic t) (hdom : C08.InDomain Good t) (s : List Char) :
    (t.trace E s).found = C08.scanOf E ic t.contents s := by
  rw [trace_values_eq_find]; exact C08.find_spec hPS t hinv hdom s

/-- … and the root count is the number of stored entries. -/
theorem tree_trace_count_contents (E : Engine) (t : Item ι V) (s : List Char) :
    (t.trace E s).count = t.contents.length := by
  rw [tree_trace_count, C08.len_spec]

/-! ### Non-vacuity -/

set_option maxRecDepth 100000 in
example :
    let t : Item Nat Nat := (((Item.empty false).insert "/a(?:x)/b".toList 2 20).insert "/a(?:x)".toList 1 11).insert
      "/b".toList 3 30
    (t.trace stdEngine "/ax".toList).found = [11] ∧ (t.trace stdEngine "/ax".toList).count = 3 ∧
    (t.trace stdEngine "/ax".toList).children.length = 2 := by decide +kernel

end Rio.C17
