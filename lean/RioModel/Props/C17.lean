/-
C17 — the explain trace agrees with what matching does.

Property theorems only.  `Router.trace` is `Router::trace_request` on the rebuilt request (every
matcher's `trace()` incl. the any-host fallback decided on `get_routes_from_traces`, and the "mimic
cache" memo of the two condition-group layers), `routesOfList` is `Trace::get_routes_from_traces`,
`Router.getTrace` / `Router.getRoute` are `get_trace` / `get_route` with their stable sort by
`Reverse(priority)`.  The regex-tree traces are modelled at specification level (one node per
pattern; a bucket is traced iff its pattern matches), see `TreeSpec`.

The third clause of the property (the last `TraceAction` step equals the live action for distinct
ranks) is about `action/trace.rs` and `Action::from_routes_rule`; it is checked differentially by
the harness `c17` (oracle `trace-action-last`).  What this file contributes to it is its
precondition on the router side: the route list handed to `TraceAction::from_trace_rules` is a
permutation of the match result – every matching rule once (`trace_lists_once`, `trace_perm_match`).
Before the repair 0b5ee14 of `get_routes_from_traces` that was false (a rule living in several
accepting ip buckets was listed once per bucket and its action merged twice);
`stored_routes_may_repeat` keeps the kernel-checked witness that the traces themselves still store
such a rule several times, i.e. that the final dedupe is what makes the clause true.
-/
import RioModel.Proofs.RouterTreeTop
import RioModel.Props.C08
set_option linter.unusedSimpArgs false

namespace Rio.C17
open Rio.Router

/-- **The rules appearing in the trace are exactly the rules matching returns** – in every state
that represents a live rule list (`RRepr`: reached by any valid history of inserts, removals,
batch removals and change-sets, see C02), for every request. -/
theorem trace_routes (E : Env) (S : Router E) (L : List Route) (h : RRepr E S L) (q : Req) (r : Route) :
    r ∈ routesOfList (S.trace E q) ↔ r ∈ S.matchReq E q :=
  rrepr_mem_trace E S L h q r

/-- The same for a router built from a rule list with distinct ids, spelled with the flat
specification: the trace lists `r` iff `r` is a rule whose triggers are satisfied. -/
theorem trace_routes_build (E : Env) (R : List Route) (hR : NodupIds R) (q : Req) (r : Route) :
    r ∈ routesOfList ((Router.build E R).trace E q) ↔ r ∈ R ∧ sat E R r q = true := by
  have h := rrepr_build E R hR
  rw [rrepr_mem_trace E _ _ h q r, rrepr_mem_match E _ _ h q r, List.mem_reverse,
    sat_congr E R.reverse R r q (fun x => List.mem_reverse)]

/-- **The traced final rule has the same priority as the rule selected by direct lookup**, and one
is absent iff the other is; that priority is maximal among the matching rules. -/
theorem final_priority (E : Env) (S : Router E) (L : List Route) (h : RRepr E S L) (q : Req) :
    (S.getTrace E q).2.map (·.priority) = (S.getRoute E q).map (·.priority) := by
  unfold Router.getTrace Router.getRoute
  exact head_priority_congr _ _ (fun x => rrepr_mem_trace E S L h q x)

theorem final_priority_max (E : Env) (S : Router E) (L : List Route) (h : RRepr E S L) (q : Req)
    (f : Route) (hf : (S.getTrace E q).2 = some f) :
    f ∈ S.matchReq E q ∧ ∀ x ∈ S.matchReq E q, x.priority ≤ f.priority := by
  unfold Router.getTrace at hf
  have := head_sortByPriority _ f hf
  refine ⟨(rrepr_mem_trace E S L h q f).1 this.1, ?_⟩
  intro x hx
  exact this.2 x ((rrepr_mem_trace E S L h q x).2 hx)

/-- **The "mimic cache" memo of `trace` is exact**: the `matched` flag of a traced condition group
is the conjunction of its conditions. -/
theorem trace_memo_exact {C : Type} [DecidableEq C] (eval : C → Bool) (cs : List C)
    (memo : List (C × Bool)) (h : MemoSound eval memo) :
    (traceGroup eval cs true true memo).1 = cs.all eval ∧
      MemoSound eval (traceGroup eval cs true true memo).2 := by
  have := traceGroup_spec eval cs memo true h
  simpa using this

/-- **Every matching rule is listed once**: the ids listed by `get_routes_from_traces` are
duplicate-free (unconditionally – this is the final `retain` of the repaired function). -/
theorem trace_lists_once (ts : List Trace) : ((routesOfList ts).map (·.id)).Nodup :=
  routesOfList_nodupIds ts

/-- Hence the route list the action trace starts from is a permutation of the match result. -/
theorem trace_perm_match (E : Env) (S : Router E) (L : List Route) (h : RRepr E S L) (q : Req) :
    (routesOfList (S.trace E q)).Perm (S.matchReq E q) := rrepr_trace_perm E S L h q

/-! ### The same statements with the two regex trees (and their traces) modelled as trees

Over `towerTOps T` the tree part of the trace is `Item::trace` of Model/Tree.lean converted by the
two `tree_trace_to_trace` functions (`pathTreeTrace`, `hostTreeTrace`): a node traces its children
only when its prefix regex matched, a leaf lists its values, the router keeps them iff the leaf
matched.  `RReprT`: any state reached by a valid history whose inserted rules have marker patterns
in the domain of C08 (see `Rio.C02.repr_run_tree`). -/

open Rio.Regex Rio.Tree in
theorem trace_routes_tree (T : TEnv) (Good : List Char → Prop) (hPS : PrefixSound T.engine Good)
    (S : RouterT T) (L : List Route) (h : RReprT T Good hPS S L) (q : Req) (r : Route) :
    r ∈ routesOfList (RouterG.trace (towerTOps T) S q) ↔ r ∈ RouterG.matchReq (towerTOps T) S q :=
  g_mem_trace T.env _ (towerTSpec T Good hPS) S L h q r

open Rio.Regex Rio.Tree in
theorem trace_perm_match_tree (T : TEnv) (Good : List Char → Prop) (hPS : PrefixSound T.engine Good)
    (S : RouterT T) (L : List Route) (h : RReprT T Good hPS S L) (q : Req) :
    (routesOfList (RouterG.trace (towerTOps T) S q)).Perm (RouterG.matchReq (towerTOps T) S q) :=
  g_trace_perm T.env _ (towerTSpec T Good hPS) S L h q

open Rio.Regex Rio.Tree in
theorem final_priority_tree (T : TEnv) (Good : List Char → Prop) (hPS : PrefixSound T.engine Good)
    (S : RouterT T) (L : List Route) (h : RReprT T Good hPS S L) (q : Req) :
    (RouterG.getTrace (towerTOps T) S q).2.map (·.priority) =
      (RouterG.getRoute (towerTOps T) S q).map (·.priority) := by
  unfold RouterG.getTrace RouterG.getRoute
  exact head_priority_congr _ _ (fun x => trace_routes_tree T Good hPS S L h q x)

/-! ### The traces still store a rule once per accepting ip range

`IpMatcher::match_request` reports a route living in several accepting ip buckets once (repair
5b0fc98); `IpMatcher::trace` traces every accepting bucket, so the `Storage` nodes of the trace
repeat the route, and only the final dedupe of `get_routes_from_traces` (repair 0b5ee14) makes the
listing duplicate-free.  Kernel-checked witness (the pinned regression case of corpus/C17): -/

/-- "the routes stored in the traces are duplicate-free" – false -/
def StoredRoutesNodup : Prop :=
  ∀ (E : Env) (R : List Route) (q : Req), NodupIds R →
    (rawRoutesOfList ((Router.build E R).trace E q)).Nodup

def exEnv : Env where
  alwaysAnyHost := true
  hostFind := fun _ _ => true
  pathFind := fun _ _ => true
  headerRegex := fun _ _ => true
  lower := id

/-- ips = [10.0.0.0/8, 10.1.0.0/16] -/
def exR : Route :=
  { id := "r", priority := 0, scheme := none, host := none,
    ips := some [.inRange ⟨false, 167772160, 8⟩, .inRange ⟨false, 167837696, 16⟩],
    methods := none, excludeMethods := none, headers := [], datetime := none,
    time := none, weekdays := none, path := .static "/a" }

/-- client 10.1.2.3 -/
def exQ : Req :=
  { scheme := none, host := none, method := none, headers := [], ip := some ⟨false, 167838211⟩,
    createdAt := none, path := "/a" }

theorem stored_routes_may_repeat : ¬ StoredRoutesNodup := by
  intro h
  have := h exEnv [exR] exQ (by simp [NodupIds, exR])
  revert this
  decide

/-- Non-vacuity: a concrete represented state; the traces store the rule twice, the listing and the
match report it once. -/
example : (rawRoutesOfList ((Router.build exEnv [exR]).trace exEnv exQ)).map (·.id) = ["r", "r"] ∧
    (routesOfList ((Router.build exEnv [exR]).trace exEnv exQ)).map (·.id) = ["r"] ∧
    ((Router.build exEnv [exR]).matchReq exEnv exQ).map (·.id) = ["r"] := by decide

end Rio.C17
