/-
C05 ∘ C10 — rules with markers / variables.

Model/Action.lean (and every C05 theorem) takes targets and filter values as already substituted strings.
Model/ActionSubst.lean puts `StaticOrDynamic::replace(·, &variables)` back as a parameter `σ` at the three call
sites of `Action::from_route_rule`.  This file
  1. shows that the C05 model is exactly the case "no marker" (`σ = id`) and, in general, the C05 model run on
     the INSTANTIATED rule (every template replaced by its substitution) — as long as substitution does not empty
     a non-empty target (the code tests emptiness on the template; witness below);
  2. lifts it to `from_routes_rule` (the sort key (rank, id) does not see the templates), so every C05 theorem
     — closed form, attribution, reset / stop, observers — applies to rules with markers, read on the
     instantiated rules: an applied value is `σ r` of a template of a matched contributing rule `r`;
  3. instantiates `σ` with W9's model of `StaticOrDynamic::replace` (`Rio.Marker.replaceVars` over
     `sortVars vars`, C10) and applies `Rio.C10.substitution` pointwise: target, header-filter values and
     body-filter values of the action are `Rio.Marker.subst vars` of the templates — for every template, every
     variable list (names containing `@`, prefix-related names, values containing `@other` …), and independently
     of the order in which the variables come out of the `HashMap`s.
Bridge: W9 works on `List Char`, the action model on `String`: `substOf vars s = String.ofList (replaceVars
s.toList (sortVars vars))`.  `vars` — the (name, value) list `Rule::variables(route.capture(request), request)`
computes — stays a PARAMETER here: capture and transformers are W9's `MarkerRule` model (`Rio.C10.rule_end_to_end`).
-/
import RioModel.Model.ActionSubst
import RioModel.Props.C05
import RioModel.Props.C10
set_option linter.unusedSimpArgs false

namespace Rio.C05
open Rio.Action Rio.Action.Spec

/-! ### 1. one rule -/

/-- Substitution does not turn a non-empty target template into the empty string (or the reverse). -/
def TargetKept (σ : String → String) (r : Rule) : Prop :=
  ∀ t, r.target = some t → emptyTarget (σ t) = emptyTarget t

theorem bodyFilterOfRuleS_eq (σ : String → String) (f : BodyFilter) :
    bodyFilterOfRuleS σ f =
      bodyFilterOfRule (match f with
        | .html h => .html { h with value := σ h.value, innerValue := h.innerValue.map σ }
        | .text t => .text { t with content := σ t.content }) := by
  cases f with
  | text t => rfl
  | html h =>
    simp only [bodyFilterOfRuleS, bodyFilterOfRule]
    cases h.innerValue <;> rfl

/-- **`from_route_rule` on a rule with templates = the C05 model on the instantiated rule.** -/
theorem fromRouteRuleS_eq_instantiate (σ : String → String) (r : Rule) (q : Req) (d : Nat)
    (hk : TargetKept σ r) :
    fromRouteRuleS σ r q d = fromRouteRule (instantiate σ r) q d := by
  unfold fromRouteRuleS fromRouteRule instantiate
  simp only
  split
  · rfl
  · refine Prod.ext ?_ rfl
    simp only [Option.some.injEq]
    congr 1
    · -- header filters
      congr 1
      · cases ht : r.target with
        | none => rfl
        | some t =>
          simp only [Option.map_some, hk t ht]
          rfl
      · cases r.headerFilters with
        | none => rfl
        | some fs =>
          simp only [Option.map_some, List.map_map, Function.comp_def]
          rfl
    · -- body filters
      cases r.bodyFilters with
      | none => rfl
      | some fs =>
        simp only [Option.map_some, List.map_map, Function.comp_def, bodyFilterOfRuleS_eq]
        rfl

/-- The C05 assumption as a theorem: without substitution (`σ = id`: a rule without markers and variables) the
template-aware function IS the C05 model. -/
theorem fromRouteRuleS_id (r : Rule) (q : Req) (d : Nat) : fromRouteRuleS id r q d = fromRouteRule r q d := by
  rw [fromRouteRuleS_eq_instantiate id r q d (fun _ _ => rfl)]
  congr 1
  unfold instantiate
  cases r with
  | mk id rank sc target codes excl sampling hf bf lo reset stop ru lu th cu =>
    simp only [Rule.mk.injEq, true_and, and_true]
    refine ⟨by cases target <;> rfl, ?_, ?_⟩
    · cases hf with
      | none => rfl
      | some fs => simp
    · cases bf with
      | none => rfl
      | some fs =>
        simp only [Option.map_some, Option.some.injEq]
        conv => rhs; rw [← List.map_id fs]
        apply List.map_congr_left
        intro f _
        cases f with
        | text t => rfl
        | html h => cases h with | mk a v iv et cs i th => cases iv <;> rfl

/-- `TargetKept` is needed: the emptiness test is on the TEMPLATE.  Target `@a` with `a = ""`: the code pushes a
`Location` filter with an empty value, the instantiated rule (target `""`) gets none. -/
private def exTpl (t : String) : Rule :=
  { id := [97], rank := 1, statusCode := some 301, target := some t, responseStatusCodes := none,
    excludeResponseStatusCodes := none, sampling := none, headerFilters := none, bodyFilters := none,
    logOverride := none, reset := none, stop := none, redirectUnitId := none,
    configurationLogUnitId := none, targetHash := none }

theorem target_emptied_by_substitution :
    ((fromRouteRuleS (fun _ => "") (exTpl "@a") ⟨none, none⟩ 1).1.map (·.headerFilters.length),
     (fromRouteRule (instantiate (fun _ => "") (exTpl "@a")) ⟨none, none⟩ 1).1.map (·.headerFilters.length)) =
      (some 1, some 0) := by
  decide

/-! ### 2. the whole action -/

theorem sortRules_map_instantiate (σ : Rule → String → String) (R : List Rule) :
    sortRules (R.map fun r => instantiate (σ r) r) = (sortRules R).map fun r => instantiate (σ r) r := by
  unfold sortRules
  symm
  apply List.map_mergeSort
  intro a _ b _
  rfl

/-- **`from_routes_rule` on rules with markers = the C05 action of the instantiated rules** (each rule `r`
instantiated by its own substitution `σ r`; `draw'` draws for an instantiated rule what `draw` draws for the
rule).  Hence `action_eq_spec`, `filters_eq`, `attribution_*`, `reset_discards`, `stop_cuts`,
`observations_mixed_codes`, … hold of rules with markers, read on `R.map (instantiate …)`. -/
theorem action_with_markers (σ : Rule → String → String) (R : List Rule) (q : Req)
    (draw draw' : Rule → Nat) (hk : ∀ r ∈ R, TargetKept (σ r) r)
    (hd : ∀ r ∈ R, draw' (instantiate (σ r) r) = draw r) :
    fromRoutesRuleS σ R q draw = fromRoutesRule (R.map fun r => instantiate (σ r) r) q draw' := by
  unfold fromRoutesRuleS fromRoutesRule
  rw [sortRules_map_instantiate]
  have hmem : ∀ r ∈ sortRules R, r ∈ R := fun r hr => (sortRules_perm R).subset hr
  generalize sortRules R = S at hmem
  generalize Action.empty = a
  induction S generalizing a with
  | nil => rfl
  | cons r rest ih =>
    have hr := hmem r (by simp)
    simp only [List.map_cons, foldRoutesS, foldRoutes]
    rw [fromRouteRuleS_eq_instantiate (σ r) r q (draw r) (hk r hr), hd r hr]
    rcases fromRouteRule (instantiate (σ r) r) q (draw r) with ⟨o, reset, stop⟩
    cases o with
    | none => exact ih (fun x hx => hmem x (List.mem_cons_of_mem _ hx)) a
    | some ar =>
      simp only
      split
      · rfl
      · exact ih (fun x hx => hmem x (List.mem_cons_of_mem _ hx)) _

/-- Attribution with markers: a header filter applied for code `c` is `σ r` of a header-filter template (or the
`Location` built from the target template) of a matched rule `r` that contributes and admits `c`. -/
theorem attribution_header_with_markers (σ : Rule → String → String) (R : List Rule) (q : Req)
    (draw draw' : Rule → Nat) (hk : ∀ r ∈ R, TargetKept (σ r) r)
    (hd : ∀ r ∈ R, draw' (instantiate (σ r) r) = draw r) (c : Nat) (add : Bool) (f : HeaderFilter)
    (hf : f ∈ ((fromRoutesRuleS σ R q draw).filterHeaders c add).filters) :
    ∃ r ∈ R, admits (instantiate (σ r) r) c = true ∧
      f ∈ (ruleHeaderFilters q (instantiate (σ r) r)).map (·.filter) := by
  rw [action_with_markers σ R q draw draw' hk hd] at hf
  obtain ⟨r', hr', _, ha, hfr⟩ := attribution_header _ q draw' c add f hf
  obtain ⟨r, hr, rfl⟩ := List.mem_map.mp hr'
  exact ⟨r, hr, ha, hfr⟩

/-! ### 3. `σ` = W9's `StaticOrDynamic::replace` -/

/-- `StaticOrDynamic::replace(s, &variables)` on `String`s through W9's model on `List Char`; `vars` = the
(name, value) list before the final sort of `Rule::variables`. -/
def substOf (vars : List (Rio.Marker.Str × Rio.Marker.Str)) (s : String) : String :=
  String.ofList (Rio.Marker.replaceVars s.toList (Rio.Marker.sortVars vars))

/-- The specification W9 proves it equal to: every `@` followed by known names refers to the LONGEST one and is
replaced by the value of the first entry of that name; everything else is copied. -/
def substSpec (vars : List (Rio.Marker.Str × Rio.Marker.Str)) (s : String) : String :=
  String.ofList (Rio.Marker.subst vars s.toList)

/-- `Rio.C10.substitution`, on strings: no hypothesis on names, values or templates. -/
theorem substOf_eq_spec (vars : List (Rio.Marker.Str × Rio.Marker.Str)) : substOf vars = substSpec vars := by
  funext s
  unfold substOf substSpec
  rw [Rio.C10.substitution]

/-- **The composed statement.**  For a rule with markers / variables whose variable list is `vars`: the action
`from_route_rule` builds carries `Location = locationValue (subst vars target)`, every header-filter value
`subst vars value`, every body-filter `content` / `value` `subst vars` of its template and `inner_value =
subst vars (inner_value.unwrap_or(value))` — all by the one-pass, longest-name-first specification of C10. -/
theorem from_route_rule_with_markers (vars : List (Rio.Marker.Str × Rio.Marker.Str)) (r : Rule) (q : Req) (d : Nat) :
    fromRouteRuleS (substOf vars) r q d = fromRouteRuleS (substSpec vars) r q d := by
  rw [substOf_eq_spec]

/-- … and it does not depend on the order in which the variables are listed (the iteration order of the `HashMap`
of captured markers; the defect class D23c): two lists with the same names and the same first value per name give
the same action. -/
theorem action_independent_of_variable_order (vars vars' : List (Rio.Marker.Str × Rio.Marker.Str))
    (hn : ∀ m, m ∈ Rio.Marker.names vars ↔ m ∈ Rio.Marker.names vars')
    (hl : ∀ n, vars.lookup n = vars'.lookup n) (r : Rule) (q : Req) (d : Nat) :
    fromRouteRuleS (substOf vars) r q d = fromRouteRuleS (substOf vars') r q d := by
  have : substOf vars = substOf vars' := by
    funext s
    unfold substOf Rio.Marker.sortVars
    rw [Rio.C10.substitution_order_irrelevant Rio.Marker.varBefore Rio.Marker.varBefore
      Rio.C10.code_orders_lawful.1 Rio.C10.code_orders_lawful.1 vars vars' s.toList hn hl]
  rw [this]

/-- Everything together: the action of rules with markers is the C05 closed form over the contributing rules of
the rules instantiated by C10's specification. -/
theorem action_with_markers_spec (vars : Rule → List (Rio.Marker.Str × Rio.Marker.Str)) (R : List Rule) (q : Req)
    (draw draw' : Rule → Nat)
    (hk : ∀ r ∈ R, TargetKept (substSpec (vars r)) r)
    (hd : ∀ r ∈ R, draw' (instantiate (substSpec (vars r)) r) = draw r) :
    fromRoutesRuleS (fun r => substOf (vars r)) R q draw =
      Spec.action q (contributing q draw'
        (sortRules (R.map fun r => instantiate (substSpec (vars r)) r))) := by
  have : (fun r => substOf (vars r)) = fun r => substSpec (vars r) := by
    funext r; exact substOf_eq_spec (vars r)
  rw [this, action_with_markers _ R q draw draw' hk hd, action_eq_spec]

/-! ### Non-vacuity -/

/-- W9's repaired `join` input through the action: target `/t/@id@year`, variables id=7, id2=9, year=2024 gives
`Location: /t/72024` (it was `/t/9024` before repair 9f65cbb), whatever the order of the variable list. -/
example :
    let vars : List (Rio.Marker.Str × Rio.Marker.Str) :=
      [("id".toList, "7".toList), ("id2".toList, "9".toList), ("year".toList, "2024".toList)]
    substSpec vars "/t/@id@year" = "/t/72024" ∧ substSpec vars.reverse "/t/@id@year" = "/t/72024" ∧
    TargetKept (substSpec vars) (exTpl "/t/@id@year") := by
  intro vars
  refine ⟨by decide, by decide, ?_⟩
  intro t ht
  simp only [exTpl, Option.some.injEq] at ht
  subst ht
  decide

end Rio.C05
