/-
C04 — body filters never lose, duplicate or reorder response bytes.

Model: `Model/Filter.lean` (html stage, visitors, text stage, chain glue with `in_error` and the two repaired error
branches), tokenizer and scraper as parameters.  All theorems are for every tokenizer `tk` satisfying the named law(s)
(`Lossless` = C16 `lossless`; `TagSpan` = a tag token starts with `<` and ends with `>`, needed for replace only), every
selector oracle `ev`, every chunking `cs` (empty chunks included) and arbitrary bytes (UTF-8 or not).

`Edit I R a b` (Proofs/Filter.lean) says: `b` is `a` after a sequence of insertions of whole values of `I` and of
substitutions of `<`…`>` spans by whole values of `R` — nothing lost, duplicated or reordered.
-/
import RioModel.Proofs.FilterChain
import RioModel.Proofs.FilterValid
import RioModel.Proofs.FilterTok
set_option linter.unusedSimpArgs false
set_option linter.unusedVariables false

namespace Rio.C04
open Rio.Filter Rio.Consts

variable {D E : Type}

/-! ### pass-through clauses -/

/-- Clause "no filter applies": an empty chain returns every chunk unchanged and nothing at end. -/
theorem passthrough_empty (tk : Tokenize) (ev : Bytes → Bytes → Bool) (codec : Codec D E) (cs : List Bytes) :
    ({ items := [] } : Chain D E).run tk ev codec cs = cs.flatten := by
  have key : ∀ (cs : List Bytes), (({ items := [] } : Chain D E).feed tk ev codec cs) = ({ items := [] }, cs) := by
    intro cs
    induction cs with
    | nil => rfl
    | cons x xs ih => simp [Chain.feed, Chain.filter, doFilter, ih]
  simp [Chain.run, Chain.runOuts, key, Chain.end, doEnd]

/-- Clause "cannot be built": with a content type that does not contain `text/html`, html filters build no stage
(`FilterBodyActionItem::new`), so a list of html filters gives the empty chain. -/
theorem passthrough_unsupported_type (codec : Codec D E) (lower : String → String) (fs : List BodyFilter)
    (headers : List (String × String)) (ct : String)
    (hct : headerValue lower filterHeaderContentType headers = some ct)
    (hno : isInfix filterHtmlContentTypeNeedle.toList ct.toList = false)
    (hhtml : ∀ f ∈ fs, ∃ a p s v, f = .html a p s v) :
    (Chain.new codec lower fs headers).items = [] := by
  have hnone : ∀ f ∈ fs, (Stage.new f (some ct) : Option (Stage D E)) = none := by
    intro f hf
    obtain ⟨a, p, s, v, rfl⟩ := hhtml f hf
    simp [Stage.new, htmlAllowed, hno]
  have : fs.filterMap (fun f => (Stage.new f (some ct) : Option (Stage D E))) = [] := by
    rw [List.filterMap_eq_nil_iff]
    exact hnone
  simp [Chain.new, hct, this]

/-- Clause "unsupported encoding": a `Content-Encoding` other than br / gzip / deflate disables filtering altogether. -/
theorem passthrough_unsupported_encoding (codec : Codec D E) (lower : String → String) (fs : List BodyFilter)
    (headers : List (String × String)) (enc : String)
    (henc : headerValue lower filterHeaderContentEncoding headers = some enc)
    (hno : filterSupportedEncodings.contains enc = false) :
    (Chain.new codec lower fs headers).items = [] := by
  simp only [Chain.new, henc, hno]
  split <;> simp_all

/-- Clause "fails internally", part 1: once the chain is in its error state every chunk is returned unchanged and
`end` returns nothing. -/
theorem passthrough_after_error (tk : Tokenize) (ev : Bytes → Bytes → Bool) (codec : Codec D E)
    (ch : Chain D E) (h : ch.inError = true) (cs : List Bytes) :
    ch.run tk ev codec cs = cs.flatten := by
  have key : ∀ (cs : List Bytes), ch.feed tk ev codec cs = (ch, cs) := by
    intro cs
    induction cs with
    | nil => rfl
    | cons x xs ih => simp [Chain.feed, Chain.filter, h, ih]
  simp [Chain.run, Chain.runOuts, key, Chain.end, h]

/-- Clause "fails internally", part 2: the call that fails returns what the html stages were holding (last stage
first = oldest bytes first) followed by the chunk itself, and puts the chain in its error state. -/
theorem failing_call_output (tk : Tokenize) (ev : Bytes → Bytes → Bool) (codec : Codec D E)
    (ch : Chain D E) (x : Bytes) (items' : List (Stage D E)) (h : ch.inError = false)
    (hf : doFilter tk ev codec ch.items x = (items', none)) :
    ch.filter tk ev codec x = ({ items := items', inError := true }, flushHtml items' ++ x) := by
  simp [Chain.filter, h, hf]

/-! ### conservativity -/

/-- the values a filter may insert -/
def filterIns : BodyFilter → List Bytes
  | .html action _ _ value => if action = filterActionAppend ∨ action = filterActionPrepend then [value] else []
  | .text .append c => [c]
  | .text .prepend c => [c]
  | .text .replace _ => []

/-- the values a filter may substitute for an element -/
def filterRep : BodyFilter → List Bytes
  | .html action _ _ value => if action = filterActionReplace then [value] else []
  | .text _ _ => []

def isTextReplace : BodyFilter → Bool
  | .text .replace _ => true
  | _ => false

def isHtmlFilter : BodyFilter → Bool
  | .html _ _ _ _ => true
  | _ => false

/-- a chain built without codec stages -/
theorem new_plain (codec : Codec D E) (lower : String → String) (fs : List BodyFilter) (headers : List (String × String))
    (henc : headerValue lower filterHeaderContentEncoding headers = none) :
    Chain.new codec lower fs headers =
      { items := fs.filterMap fun f => Stage.new f (headerValue lower filterHeaderContentType headers) } := by
  simp only [Chain.new, henc]
  split <;> rfl

theorem stage_new_spec (tk : Tokenize) (f : BodyFilter) (ct : Option String) (st : Stage D E)
    (hts : filterRep f ≠ [] → TagSpanS tk) (hntr : isTextReplace f = false)
    (h : Stage.new f ct = some st) :
    isPlain st = true ∧ StOK tk st ∧ held st = [] ∧ isHtml st = isHtmlFilter f ∧
    ∃ I R, stageRel st = editRel I R ∧ (∀ v ∈ I, v ∈ filterIns f) ∧ (∀ v ∈ R, v ∈ filterRep f) := by
  cases f with
  | html action path sel value =>
    simp only [Stage.new] at h
    split at h
    · simp only [Option.map_eq_some_iff] at h
      obtain ⟨v, hv, rfl⟩ := h
      have hheld : held (Stage.html (HtmlSt.new v) : Stage D E) = [] := by
        simp [held, endHtml, HtmlSt.new]
      unfold Visitor.new at hv
      cases path with
      | nil => simp at hv
      | cons p ps =>
        simp only at hv
        split at hv
        · rename_i ha
          injection hv with hv; subst hv
          refine ⟨rfl, ?_, hheld, rfl, [value], [], rfl, ?_, ?_⟩
          · intro hk; simp [HtmlSt.new] at hk
          · intro v hv; simp [filterIns, ha] at hv ⊢; exact hv
          · intro v hv; simp at hv
        · split at hv
          · rename_i ha
            injection hv with hv; subst hv
            refine ⟨rfl, ?_, hheld, rfl, [value], [], rfl, ?_, ?_⟩
            · intro hk; simp [HtmlSt.new] at hk
            · intro v hv; simp [filterIns, ha] at hv ⊢; exact hv
            · intro v hv; simp at hv
          · split at hv
            · rename_i ha
              injection hv with hv; subst hv
              refine ⟨rfl, ?_, hheld, rfl, [], [value], rfl, ?_, ?_⟩
              · intro _
                refine ⟨hts (by simp [filterRep, ha]), ?_⟩
                intro l hl; simp [HtmlSt.new] at hl
              · intro v hv; simp at hv
              · intro v hv; simp [filterRep, ha] at hv ⊢; exact hv
            · simp at hv
    · simp at h
  | text a c =>
    simp only [Stage.new] at h
    injection h with h; subst h
    refine ⟨rfl, trivial, rfl, rfl, ?_⟩
    cases a with
    | append => exact ⟨[c], [], rfl, by simp [filterIns], by simp⟩
    | prepend => exact ⟨[c], [], rfl, by simp [filterIns], by simp⟩
    | replace => simp [isTextReplace] at hntr

/-- a composition of `Edit` relations is an `Edit` relation over the union of the values -/
theorem comp_edit (I R : List Bytes) : ∀ (rels : List StreamRel) (a b : Bytes),
    (∀ ρ ∈ rels, ∃ I' R', ρ = editRel I' R' ∧ (∀ v ∈ I', v ∈ I) ∧ (∀ v ∈ R', v ∈ R)) →
    Comp rels a b → Edit I R a b
  | [], a, b, _, h => by simp [Comp] at h; subst h; exact Edit.refl _
  | ρ :: ρs, a, c, hall, h => by
    obtain ⟨b, h1, h2⟩ := h
    obtain ⟨I', R', rfl, hI, hR⟩ := hall ρ (by simp)
    exact Edit.trans (Edit.mono hI hR h1) (comp_edit I R ρs b c (fun ρ' h' => hall ρ' (by simp [h'])) h2)

/-- **Conservativity of an uncompressed chain** (clauses "insert-only" and "replace" together).
For the chain `FilterBodyAction::new` builds from the filters `fs` when there is no `Content-Encoding` header, for every
chunking `cs` of arbitrary bytes and whether or not the chain fails on invalid UTF-8 on the way (`filter` or `end`),
the concatenated output is the concatenated input edited by insertions of whole values of the insert filters and
substitutions of `<`…`>` spans by whole values of the replace filters.
Hypotheses: no `replace_text` filter (it replaces the whole body by definition); at most one html filter
(`hone`, see `doFilter_err`); `TagSpan` only if some replace filter is present. -/
theorem conservative {tk : Tokenize} (hl : LosslessAll tk) (ev : Bytes → Bytes → Bool) (lower : String → String)
    (fs : List BodyFilter) (headers : List (String × String))
    (henc : headerValue lower filterHeaderContentEncoding headers = none)
    (hntr : ∀ f ∈ fs, isTextReplace f = false)
    (hone : (fs.filter isHtmlFilter).length ≤ 1)
    (hts : fs.flatMap filterRep ≠ [] → TagSpanS tk)
    (cs : List Bytes) :
    Edit (fs.flatMap filterIns) (fs.flatMap filterRep) cs.flatten
      ((Chain.new noCodec lower fs headers).run tk ev noCodec cs) := by
  rw [new_plain noCodec lower fs headers henc]
  generalize headerValue lower filterHeaderContentType headers = ct
  -- facts about every built stage
  have hst : ∀ st ∈ fs.filterMap (fun f => (Stage.new f ct : Option (Stage Unit Unit))),
      ∃ f ∈ fs, Stage.new f ct = some st := by
    intro st h
    simp only [List.mem_filterMap] at h
    exact h
  have hspec : ∀ st ∈ fs.filterMap (fun f => (Stage.new f ct : Option (Stage Unit Unit))),
      isPlain st = true ∧ StOK tk st ∧ held st = [] ∧
      ∃ I R, stageRel st = editRel I R ∧ (∀ v ∈ I, v ∈ fs.flatMap filterIns) ∧ (∀ v ∈ R, v ∈ fs.flatMap filterRep) := by
    intro st h
    obtain ⟨f, hf, hnew⟩ := hst st h
    have hts' : filterRep f ≠ [] → TagSpanS tk := by
      intro hne
      apply hts
      intro hnil
      rw [List.flatMap_eq_nil_iff] at hnil
      exact hne (hnil f hf)
    obtain ⟨a, b, c, _, I, R, e1, e2, e3⟩ := stage_new_spec tk f ct st hts' (hntr f hf) hnew
    exact ⟨a, b, c, I, R, e1, fun v hv => List.mem_flatMap.mpr ⟨f, hf, e2 v hv⟩, fun v hv => List.mem_flatMap.mpr ⟨f, hf, e3 v hv⟩⟩
  have hcount : htmlCount (fs.filterMap (fun f => (Stage.new f ct : Option (Stage Unit Unit)))) ≤ 1 := by
    refine Nat.le_trans ?_ hone
    clear hone hst hspec hts hntr
    induction fs with
    | nil => simp [htmlCount]
    | cons f fs ih =>
      simp only [List.filterMap_cons]
      cases hnew : (Stage.new f ct : Option (Stage Unit Unit)) with
      | none =>
        simp only
        refine Nat.le_trans ih ?_
        simp only [List.filter]
        split <;> simp
      | some st =>
        simp only
        have hk : isHtml st = isHtmlFilter f := by
          cases f with
          | html a p s v =>
            simp only [Stage.new] at hnew
            split at hnew
            · simp only [Option.map_eq_some_iff] at hnew
              obtain ⟨v', _, rfl⟩ := hnew
              rfl
            · simp at hnew
          | text a c =>
            simp only [Stage.new] at hnew
            injection hnew with hnew; subst hnew; rfl
        simp only [htmlCount, List.filter, hk] at ih ⊢
        cases isHtmlFilter f <;> simp <;> exact ih
  have hci := CI_init tk (fun items : List (Stage Unit Unit) => htmlCount items ≤ 1) _
    (fun st h => (hspec st h).1) (fun st h => (hspec st h).2.1) hcount (fun st h => (hspec st h).2.2.1)
  have hcomp := Chain.run_comp hl ev noCodec (errSafe_one hl ev noCodec) _ _ hci cs
  apply comp_edit _ _ _ _ _ _ hcomp
  intro ρ hρ
  simp only [List.mem_map] at hρ
  obtain ⟨st, hst', rfl⟩ := hρ
  obtain ⟨_, _, _, I, R, e1, e2, e3⟩ := hspec st hst'
  exact ⟨I, R, e1, e2, e3⟩

/-- the configured value of a filter (a Rust `String`) -/
def filterValue : BodyFilter → Bytes
  | .html _ _ _ value => value
  | .text _ c => c

theorem shape_of_down : ∀ (items : List (Stage Unit Unit)), Down items → Shape items
  | [], _ => Or.inl fun _ h => by simp at h
  | st :: rest, hd => by
    have hrest : Down rest := fun s hs => hd s (by simp [hs])
    cases st with
    | html h =>
      have hh : DStage (Stage.html h : Stage Unit Unit) := hd (Stage.html h) (by simp)
      exact Or.inr ⟨[], h, rest, rfl, fun _ h => by simp at h, hh.1, hrest⟩
    | text s =>
      rcases shape_of_down rest hrest with hall | ⟨pre, h, post, rfl, h1, h2, h3⟩
      · left
        intro st hst; simp at hst; rcases hst with rfl | hst
        · exact ⟨_, rfl⟩
        · exact hall st hst
      · right
        refine ⟨.text s :: pre, h, post, rfl, ?_, h2, h3⟩
        intro st hst; simp at hst; rcases hst with rfl | hst
        · exact ⟨_, rfl⟩
        · exact h1 st hst
    | decode d =>
      have hh : DStage (Stage.decode d : Stage Unit Unit) := hd (Stage.decode d) (by simp)
      exact absurd hh (by simp [DStage])
    | encode e =>
      have hh : DStage (Stage.encode e : Stage Unit Unit) := hd (Stage.encode e) (by simp)
      exact absurd hh (by simp [DStage])

theorem stage_new_down (f : BodyFilter) (ct : Option String) (st : Stage Unit Unit) (hval : V (filterValue f))
    (h : Stage.new f ct = some st) : DStage st := by
  cases f with
  | html action path sel value =>
    simp only [Stage.new] at h
    split at h
    · simp only [Option.map_eq_some_iff] at h
      obtain ⟨v, hv, rfl⟩ := h
      have hc : v.content = value := by
        unfold Visitor.new at hv
        cases path with
        | nil => simp at hv
        | cons p ps =>
          simp only at hv
          repeat' split at hv
          all_goals first | (injection hv with hv; subst hv; rfl) | simp at hv
      refine ⟨⟨⟨?_, ?_⟩, Or.inl rfl⟩, V_nil⟩
      · show V v.content
        rw [hc]; exact hval
      · intro l hl'; simp [HtmlSt.new] at hl'
    · simp at h
  | text a c =>
    simp only [Stage.new] at h
    injection h with h; subst h
    exact hval

/-- **Conservativity of an uncompressed chain, any number of html filters.**  Same statement as `conservative`
without the restriction to one html filter, under the tokenizer law `TokValid` (token boundaries are character
boundaries) and for values that are valid UTF-8 (they are Rust `String`s): then only the FIRST html stage can fail
inside a `filter` call — the later ones only ever see complete valid UTF-8 — and the stages before it are text stages,
which hold nothing. -/
theorem conservative_multi {tk : Tokenize} (hl : LosslessAll tk) (hv : TokValidAll tk) (ev : Bytes → Bytes → Bool)
    (lower : String → String) (fs : List BodyFilter) (headers : List (String × String))
    (henc : headerValue lower filterHeaderContentEncoding headers = none)
    (hntr : ∀ f ∈ fs, isTextReplace f = false)
    (hval : ∀ f ∈ fs, V (filterValue f))
    (hts : fs.flatMap filterRep ≠ [] → TagSpanS tk)
    (cs : List Bytes) :
    Edit (fs.flatMap filterIns) (fs.flatMap filterRep) cs.flatten
      ((Chain.new noCodec lower fs headers).run tk ev noCodec cs) := by
  rw [new_plain noCodec lower fs headers henc]
  generalize headerValue lower filterHeaderContentType headers = ct
  have hst : ∀ st ∈ fs.filterMap (fun f => (Stage.new f ct : Option (Stage Unit Unit))),
      ∃ f ∈ fs, Stage.new f ct = some st := by
    intro st h
    simp only [List.mem_filterMap] at h
    exact h
  have hspec : ∀ st ∈ fs.filterMap (fun f => (Stage.new f ct : Option (Stage Unit Unit))),
      isPlain st = true ∧ StOK tk st ∧ held st = [] ∧ DStage st ∧
      ∃ I R, stageRel st = editRel I R ∧ (∀ v ∈ I, v ∈ fs.flatMap filterIns) ∧ (∀ v ∈ R, v ∈ fs.flatMap filterRep) := by
    intro st h
    obtain ⟨f, hf, hnew⟩ := hst st h
    have hts' : filterRep f ≠ [] → TagSpanS tk := by
      intro hne
      apply hts
      intro hnil
      rw [List.flatMap_eq_nil_iff] at hnil
      exact hne (hnil f hf)
    obtain ⟨a, b, c, _, I, R, e1, e2, e3⟩ := stage_new_spec tk f ct st hts' (hntr f hf) hnew
    exact ⟨a, b, c, stage_new_down f ct st (hval f hf) hnew, I, R, e1,
      fun v hv => List.mem_flatMap.mpr ⟨f, hf, e2 v hv⟩, fun v hv => List.mem_flatMap.mpr ⟨f, hf, e3 v hv⟩⟩
  have hshape : Shape (fs.filterMap (fun f => (Stage.new f ct : Option (Stage Unit Unit)))) :=
    shape_of_down _ fun st h => (hspec st h).2.2.2.1
  have hci := CI_init tk (Shape (D := Unit) (E := Unit)) _
    (fun st h => (hspec st h).1) (fun st h => (hspec st h).2.1) hshape (fun st h => (hspec st h).2.2.1)
  have hcomp := Chain.run_comp hl ev noCodec (errSafe_shape hl hv ev noCodec) _ _ hci cs
  apply comp_edit _ _ _ _ _ _ hcomp
  intro ρ hρ
  simp only [List.mem_map] at hρ
  obtain ⟨st, hst', rfl⟩ := hρ
  obtain ⟨_, _, _, _, I, R, e1, e2, e3⟩ := hspec st hst'
  exact ⟨I, R, e1, e2, e3⟩

/-- Clause "insert-only filters yield exactly the input once the inserted values are removed": with only
append/prepend filters (html or text) the output is the input with whole copies of the values inserted —
no substitution at all (`R = []`), hence in particular no byte of the input is missing and their order is kept. -/
theorem insert_only_conservative {tk : Tokenize} (hl : LosslessAll tk) (ev : Bytes → Bytes → Bool) (lower : String → String)
    (fs : List BodyFilter) (headers : List (String × String))
    (henc : headerValue lower filterHeaderContentEncoding headers = none)
    (hins : ∀ f ∈ fs, isTextReplace f = false ∧ filterRep f = [])
    (hone : (fs.filter isHtmlFilter).length ≤ 1)
    (cs : List Bytes) :
    Edit (fs.flatMap filterIns) [] cs.flatten ((Chain.new noCodec lower fs headers).run tk ev noCodec cs) := by
  have hrep : fs.flatMap filterRep = [] := by
    rw [List.flatMap_eq_nil_iff]; exact fun f hf => (hins f hf).2
  have := conservative hl ev lower fs headers henc (fun f hf => (hins f hf).1) hone (fun h => absurd hrep h) cs
  rw [hrep] at this
  exact this

/-- Corollary: insert-only filters never shorten the body. -/
theorem insert_only_length {tk : Tokenize} (hl : LosslessAll tk) (ev : Bytes → Bytes → Bool) (lower : String → String)
    (fs : List BodyFilter) (headers : List (String × String))
    (henc : headerValue lower filterHeaderContentEncoding headers = none)
    (hins : ∀ f ∈ fs, isTextReplace f = false ∧ filterRep f = [])
    (hone : (fs.filter isHtmlFilter).length ≤ 1)
    (cs : List Bytes) :
    cs.flatten.length ≤ ((Chain.new noCodec lower fs headers).run tk ev noCodec cs).length :=
  (insert_only_conservative hl ev lower fs headers henc hins hone cs).length_le

/-- Clause "a replace filter only substitutes whole element spans": a single html stage call relates
`held ++ input` to `output ++ held'` by `Edit` — the core invariant "emitted ++ buffered ++ held ++ rest is
conservative w.r.t. the input consumed so far" (stated for one call; `conservative` is its closure over chunks). -/
theorem replace_spans {tk : Tokenize} (hl : LosslessAll tk) (hts : TagSpanS tk) (ev : Bytes → Bytes → Bool)
    (s s' : HtmlSt) (x o : Bytes) (hinv : HInv s.stack)
    (h : filterHtml tk ev s x = some (s', o)) :
    Edit (visIns s.visitor) (visRep s.visitor) (endHtml s ++ x) (o ++ endHtml s') ∧ HInv s'.stack ∨
    Edit (visIns s.visitor) (visRep s.visitor) (endHtml s ++ x) (o ++ endHtml s') ∧ s.visitor.kind ≠ .replace := by
  obtain ⟨_, h2, h3⟩ := filterHtml_spec hl ev s s' x o (fun _ => hts) (fun _ => hinv) h
  by_cases hk : s.visitor.kind = .replace
  · exact Or.inl ⟨h3, h2 hk⟩
  · exact Or.inr ⟨h3, hk⟩

/-! ### the concrete tokenizer -/

/-- `Lossless` holds for the tokenizer model of the real tokenizer (from C16's `lossless`). -/
theorem tokenizer_lossless : LosslessAll htmlTokenize := htmlTokenize_losslessAll

/-- **Insert-only filters on the real tokenizer model — no tokenizer hypothesis left.**  For append/prepend filters
(html or text; at most one html filter), every chunking of arbitrary bytes, every selector oracle: the output is the
input with whole copies of the values inserted, whether or not the chain fails on invalid UTF-8. -/
theorem insert_only_conservative_concrete (ev : Bytes → Bytes → Bool) (lower : String → String)
    (fs : List BodyFilter) (headers : List (String × String))
    (henc : headerValue lower filterHeaderContentEncoding headers = none)
    (hins : ∀ f ∈ fs, isTextReplace f = false ∧ filterRep f = [])
    (hone : (fs.filter isHtmlFilter).length ≤ 1)
    (cs : List Bytes) :
    Edit (fs.flatMap filterIns) [] cs.flatten ((Chain.new noCodec lower fs headers).run htmlTokenize ev noCodec cs) :=
  insert_only_conservative htmlTokenize_losslessAll ev lower fs headers henc hins hone cs

/-- The general statement on the real tokenizer model: only `TagSpan` remains (and only if a replace filter is
present). -/
theorem conservative_concrete (ev : Bytes → Bytes → Bool) (lower : String → String)
    (fs : List BodyFilter) (headers : List (String × String))
    (henc : headerValue lower filterHeaderContentEncoding headers = none)
    (hntr : ∀ f ∈ fs, isTextReplace f = false)
    (hone : (fs.filter isHtmlFilter).length ≤ 1)
    (hts : fs.flatMap filterRep ≠ [] → TagSpanS htmlTokenize)
    (cs : List Bytes) :
    Edit (fs.flatMap filterIns) (fs.flatMap filterRep) cs.flatten
      ((Chain.new noCodec lower fs headers).run htmlTokenize ev noCodec cs) :=
  conservative htmlTokenize_losslessAll ev lower fs headers henc hntr hone hts cs

/-! ### non-vacuity -/

/-- a toy tokenizer satisfying `Lossless`: no token, everything held -/
def holdAll : Tokenize := { plain := fun d => ([], d), stream := fun c d => ([], d, c) }

theorem holdAll_lossless : LosslessAll holdAll :=
  ⟨by intro d; simp [holdAll, rawsOf], by intro c d; simp [holdAll, rawsOf, toksOf]⟩

/-- The hypotheses of `conservative` are satisfiable on a non-trivial filter list (an html append filter and two text
filters), and the conclusion then speaks about a real run. -/
example (cs : List Bytes) :
    Edit ([[86], [84], [85]]) [] cs.flatten
      ((Chain.new noCodec id
          [.html "append_child" [[112]] none [86], .text .append [84], .text .prepend [85]] []).run holdAll (fun _ _ => false) noCodec cs) := by
  have := insert_only_conservative holdAll_lossless (fun _ _ => false) id
    [.html "append_child" [[112]] none [86], .text .append [84], .text .prepend [85]] [] rfl
    (by intro f hf; simp at hf; rcases hf with rfl | rfl | rfl <;> simp [isTextReplace, filterRep, filterActionReplace])
    (by simp [isHtmlFilter, List.filter]) cs
  simpa [filterIns, filterActionAppend, filterActionPrepend] using this

end Rio.C04
