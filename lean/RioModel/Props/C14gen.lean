/-
C14 (W18) — `FilterBodyAction::new` TRANSLATED from the source (`Rio.Consts.genChainNew`, loops `genChainNewLoop1` = the header scan,
`genChainNewLoop2` = the stage construction; plugin w18_chain.py, feature `compress` on) equals the hand-written `Chain.new`, and the
gating clauses of C14 restated for the translated definition.  Parameters of the translated text: `lower` (`to_lowercase`),
`itemNew` (`FilterBodyActionItem::new`), `getEncodingFilters`, the two stage constructors `Decode(Box::new(_))` / `Encode(Box::new(_))`.
The header names compared with are the string literals of the source; the equality ties them to the regenerated
`filterHeaderContentType` / `filterHeaderContentEncoding` the model uses.
-/
import RioModel.Proofs.ChainGen
import RioModel.Props.C04gen3
import RioModel.Props.C14
set_option linter.unusedSimpArgs false
set_option linter.unusedVariables false

namespace Rio.C14
open Rio.Consts Rio.Filter

variable {D E : Type}

/-- **translated `new` = model `Chain.new`**: for every list of filters and headers, the chain and `in_error` are the model's
(`getEncodingFilters` := the regenerated list of supported encodings + the codec's constructor, as the model has it). -/
theorem gen_chain_new_eq_model (codec : Codec D E) (lower : String → String) (fs : List BodyFilter)
    (headers : List (String × String)) :
    genChainNew lower (fun f c => (Stage.new f c : Option (Stage D E))) (genEncFilters codec) Stage.decode Stage.encode fs headers =
      ((Chain.new codec lower fs headers).items, (Chain.new codec lower fs headers).inError) :=
  new_gen_eq codec lower fs headers

/-- the two loops of `new`: the header scan is `headerValue` for the two names (last header wins, lower-cased), the second loop
keeps the stages `itemNew` builds, in order — for ANY `itemNew`. -/
theorem gen_chain_new_loops_eq_model {σ φ : Type} (lower : String → String) (itemNew : φ → Option String → Option σ)
    (headers : List (String × String)) (fs : List φ) (ct : Option String) (acc : List σ) :
    genChainNewLoop1 lower headers none none =
      (headerValue lower filterHeaderContentType headers, headerValue lower filterHeaderContentEncoding headers) ∧
    genChainNewLoop2 itemNew fs acc ct = acc ++ fs.filterMap fun f => itemNew f ct := by
  refine ⟨newLoop1_eq lower headers none none, ?_⟩
  induction fs generalizing acc with
  | nil => simp [genChainNewLoop2]
  | cons f fs ih =>
    rw [genChainNewLoop2]
    cases h : itemNew f ct <;> simp [h, ih]

section
variable {σ φ δ κ : Type} (lower : String → String) (itemNew : φ → Option String → Option σ)
  (getEncodingFilters : String → Option (δ × κ)) (mkDecode : δ → σ) (mkEncode : κ → σ)

/-- **`unsupported_passthrough` restated for the translated `new`**, for ANY `itemNew` / `get_encoding_filters` / constructors: when
the (last, lower-cased) `Content-Encoding` is one `get_encoding_filters` rejects, the chain is EMPTY (and not in error) whatever the
filters are — seed r8b-3 kept the chain here. -/
theorem unsupported_passthrough_gen (fs : List φ) (headers : List (String × String)) (enc : String)
    (henc : headerValue lower filterHeaderContentEncoding headers = some enc)
    (hno : getEncodingFilters enc = none) :
    genChainNew lower itemNew getEncodingFilters mkDecode mkEncode fs headers = ([], false) := by
  unfold genChainNew
  simp only [(gen_chain_new_loops_eq_model lower itemNew headers fs none []).1, henc, hno]
  split <;> simp_all

/-- `supported_chain_shape` restated, ANY parameters: a supported encoding and at least one stage ⇒ decode stage first, the stages
in order, encode stage last. -/
theorem supported_chain_shape_gen (fs : List φ) (headers : List (String × String)) (enc : String) (d : δ) (e : κ)
    (henc : headerValue lower filterHeaderContentEncoding headers = some enc)
    (hsup : getEncodingFilters enc = some (d, e))
    (hne : (fs.filterMap fun f => itemNew f (headerValue lower filterHeaderContentType headers)) ≠ []) :
    genChainNew lower itemNew getEncodingFilters mkDecode mkEncode fs headers =
      (mkDecode d :: (fs.filterMap fun f => itemNew f (headerValue lower filterHeaderContentType headers)) ++ [mkEncode e], false) := by
  unfold genChainNew
  simp only [(gen_chain_new_loops_eq_model lower itemNew headers fs none []).1,
    (gen_chain_new_loops_eq_model lower itemNew headers fs _ []).2, henc, hsup, List.nil_append]
  cases h : (fs.filterMap fun f => itemNew f (headerValue lower filterHeaderContentType headers)) with
  | nil => exact absurd h hne
  | cons a l => simp

/-- no stage ⇒ no codec stage, no header ⇒ the plain stages (`empty_chain_no_codec` and the `None` arm restated) -/
theorem plain_chain_shape_gen (fs : List φ) (headers : List (String × String))
    (h : (fs.filterMap fun f => itemNew f (headerValue lower filterHeaderContentType headers)) = [] ∨
      headerValue lower filterHeaderContentEncoding headers = none) :
    genChainNew lower itemNew getEncodingFilters mkDecode mkEncode fs headers =
      ((fs.filterMap fun f => itemNew f (headerValue lower filterHeaderContentType headers)), false) := by
  unfold genChainNew
  simp only [(gen_chain_new_loops_eq_model lower itemNew headers fs none []).1,
    (gen_chain_new_loops_eq_model lower itemNew headers fs _ []).2, List.nil_append]
  rcases h with h | h
  · simp [h]
  · simp only [h]
    split <;> simp

end

/-- the clause end to end on the translated definitions: an unsupported encoding ⇒ the translated `new` builds a chain on which the
translated `filter` / `end` return every chunk unchanged (any stage implementation). -/
theorem unsupported_passthrough_run_gen {σ φ δ κ ε : Type} (lower : String → String) (itemNew : φ → Option String → Option σ)
    (getEncodingFilters : String → Option (δ × κ)) (mkDecode : δ → σ) (mkEncode : κ → σ)
    (itemFilter : σ → List Nat → σ × Except ε (List Nat)) (itemEnd : σ → σ × Except ε (List Nat))
    (heldHtml : σ → Option (σ × List Nat))
    (fs : List φ) (headers : List (String × String)) (enc : String)
    (henc : headerValue lower filterHeaderContentEncoding headers = some enc)
    (hno : getEncodingFilters enc = none) (cs : List (List Nat)) :
    Rio.C04.genChainRun itemFilter itemEnd heldHtml
      (genChainNew lower itemNew getEncodingFilters mkDecode mkEncode fs headers).1
      (genChainNew lower itemNew getEncodingFilters mkDecode mkEncode fs headers).2 cs = some cs.flatten := by
  rw [unsupported_passthrough_gen lower itemNew getEncodingFilters mkDecode mkEncode fs headers enc henc hno]
  exact Rio.C04.passthrough_empty_gen itemFilter itemEnd heldHtml cs

/-- `unsupported_passthrough` through the equivalence (model parameters) -/
theorem unsupported_passthrough_gen_model (codec : Codec D E) (lower : String → String) (fs : List BodyFilter)
    (headers : List (String × String)) (enc : String)
    (henc : headerValue lower filterHeaderContentEncoding headers = some enc)
    (hno : filterSupportedEncodings.contains enc = false) :
    (genChainNew lower (fun f c => (Stage.new f c : Option (Stage D E))) (genEncFilters codec) Stage.decode Stage.encode fs headers).1 = [] := by
  rw [gen_chain_new_eq_model]
  exact unsupported_passthrough codec lower fs headers enc henc hno

/-! ### non-vacuity -/

/-- a `to_lowercase` defined on the strings of the examples (`String.toLower` does not reduce in proofs) -/
def exLower (s : String) : String :=
  if s = "Content-Encoding" then "content-encoding" else if s = "ZSTD" then "zstd" else if s = "GZip" then "gzip" else s

/-- an unsupported encoding (`Content-Encoding: zstd`, mixed case) with a text filter: empty chain -/
example : genChainNew exLower (fun f c => (Stage.new f c : Option (Stage Unit Unit))) (genEncFilters noCodec)
    Stage.decode Stage.encode [.text .append [65]] [("Content-Encoding", "ZSTD")] = ([], false) := by
  apply unsupported_passthrough_gen (enc := "zstd")
  · simp [headerValue, filterHeaderContentEncoding, exLower]
  · simp [genEncFilters, filterSupportedEncodings]

/-- a supported one: decode, text, encode -/
example : ((genChainNew exLower (fun f c => (Stage.new f c : Option (Stage Unit Unit))) (genEncFilters noCodec)
    Stage.decode Stage.encode [.text .append [65]] [("Content-Encoding", "GZip")]).1.map Stage.kind) = ["decode", "text", "encode"] := by
  rw [supported_chain_shape_gen (enc := "gzip") (d := ()) (e := ())]
  · simp [Stage.new, Stage.kind]
  · simp [headerValue, filterHeaderContentEncoding, exLower]
  · simp [genEncFilters, filterSupportedEncodings, noCodec]
  · simp [Stage.new]

end Rio.C14
