/-
C11 (the action does not depend on the order of the match vector) — for the loop of `Action::from_routes_rule` and
`Action::merge` REGENERATED FROM THE SOURCE (`Rio.Consts.genFromRoutesRule`, `genActionMerge`; section
`w4_translate_merge`, tools/consts.d/w4_translate.py; `= model` in Proofs/ActionGen.lean).

`genFromRoutesRule fromRouteRule merge default sort routes` is the translated function with `routes.sort()` as the
parameter `sort`: the theorems below instantiate it with ANY lawful sort (a permutation sorted by `Rule::cmp`, whose
key order is itself regenerated: `ruleCmpRankDescending / IdDescending`, tools/consts.d/action.py), so what is
restated is "sort ∘ translated loop is a function of the SET of matched rules".
-/
import RioModel.Props.C11
import RioModel.Proofs.ActionGen
set_option linter.unusedSimpArgs false

namespace Rio.C11
open Rio.Action Rio.ActionGen

/-- the translated loop after any lawful sort is the model's action -/
theorem gen_action_sort_independent (q : Req) (draw : Rule → Nat) {sort : List Rule → List Rule}
    (hs : LawfulSort sort) {R : List Rule} (hn : NodupIds R) :
    Rio.Consts.genFromRoutesRule (frr q draw) genMerge Action.empty sort R = fromRoutesRule R q draw := by
  have e : genMerge = Action.merge := by funext a b; exact genMerge_eq a b
  rw [e]
  unfold Rio.Consts.genFromRoutesRule
  simp only
  rw [genLoop_eq]
  exact action_sort_independent q draw hs (List.Perm.refl R) hn

/-- **`action_perm_invariant` for the regenerated code**: permuting the match vector does not change the action
the translated `from_routes_rule` computes (distinct rule ids), whichever lawful sort `routes.sort()` is. -/
theorem action_perm_invariant_gen (q : Req) (draw : Rule → Nat) {sort : List Rule → List Rule}
    (hs : LawfulSort sort) {R R' : List Rule} (h : R.Perm R') (hn : NodupIds R) :
    Rio.Consts.genFromRoutesRule (frr q draw) genMerge Action.empty sort R =
      Rio.Consts.genFromRoutesRule (frr q draw) genMerge Action.empty sort R' := by
  rw [gen_action_sort_independent q draw hs hn, gen_action_sort_independent q draw hs (hn.perm h)]
  exact action_perm_invariant q draw h hn

/-- … hence every observation on it. -/
theorem observations_perm_invariant_gen (q : Req) (draw : Rule → Nat) (allowLog : Bool) (c : Nat) (ops : List Op)
    {R R' : List Rule} (h : R.Perm R') (hn : NodupIds R) :
    runOps allowLog c (Rio.Consts.genFromRoutesRule (frr q draw) genMerge Action.empty sortRules R) ops =
      runOps allowLog c (Rio.Consts.genFromRoutesRule (frr q draw) genMerge Action.empty sortRules R') ops := by
  rw [action_perm_invariant_gen q draw sortRules_lawful h hn]

end Rio.C11
