/-
C11 (the action does not depend on the order of the match vector) — for the loop of `Action::from_routes_rule` and
`Action::merge` REGENERATED FROM THE SOURCE (`Rio.Consts.genFromRoutesRule`, `genActionMerge`; section
`w4_translate_merge`, tools/consts.d/w4_translate.py; `= model` in Proofs/ActionGen.lean).

`genFromRoutesRule fromRouteRule merge default sort routes` is the translated function with `routes.sort()` as the
parameter `sort`: the theorems below instantiate it with ANY lawful sort (a permutation sorted by `Rule::cmp`, whose
key order is itself regenerated: `ruleCmpRankDescending / IdDescending`, tools/consts.d/action.py), so what is
restated is "sort ∘ translated loop is a function of the SET of matched rules".
-/
import RioModel.Props.C11
import RioModel.Proofs.ActionGen
set_option linter.unusedSimpArgs false

namespace Rio.C11
open Rio.Action Rio.ActionGen

/-- the translated loop after any lawful sort is the model's action -/
theorem gen_action_sort_independent (q : Req) (draw : Rule → Nat) {sort : List Rule → List Rule}
    (hs : LawfulSort sort) {R : List Rule} (hn : NodupIds R) :
    Rio.Consts.genFromRoutesRule (frr q draw) genMerge Action.empty sort R = fromRoutesRule R q draw := by
  have e : genMerge = Action.merge := by funext a b; exact genMerge_eq a b
  rw [e]
  unfold Rio.Consts.genFromRoutesRule
  simp only
  rw [genLoop_eq]
  exact action_sort_independent q draw hs (List.Perm.refl R) hn

/-- **`action_perm_invariant` for the regenerated code**: permuting the match vector does not change the action
the translated `from_routes_rule` computes (distinct rule ids), whichever lawful sort `routes.sort()` is. -/
theorem action_perm_invariant_gen (q : Req) (draw : Rule → Nat) {sort : List Rule → List Rule}
    (hs : LawfulSort sort) {R R' : List Rule} (h : R.Perm R') (hn : NodupIds R) :
    Rio.Consts.genFromRoutesRule (frr q draw) genMerge Action.empty sort R =
      Rio.Consts.genFromRoutesRule (frr q draw) genMerge Action.empty sort R' := by
  rw [gen_action_sort_independent q draw hs hn, gen_action_sort_independent q draw hs (hn.perm h)]
  exact action_perm_invariant q draw h hn

/-- … hence every observation on it: any lawful sort, any sequence of observer calls with a response code PER CALL
(`runOpsC`, what a proxy does; `runOps` with one code for the whole sequence is the special case). -/
theorem observations_perm_invariant_gen (q : Req) (draw : Rule → Nat) (allowLog : Bool) (ops : List (Op × Nat))
    {sort : List Rule → List Rule} (hs : LawfulSort sort) {R R' : List Rule} (h : R.Perm R') (hn : NodupIds R) :
    runOpsC allowLog (Rio.Consts.genFromRoutesRule (frr q draw) genMerge Action.empty sort R) ops =
      runOpsC allowLog (Rio.Consts.genFromRoutesRule (frr q draw) genMerge Action.empty sort R') ops := by
  rw [action_perm_invariant_gen q draw hs h hn]

/-! ### Non-vacuity: the three-rule tie of Props/C11.lean, for the translated code -/

private def mk' (id : RuleId) (rank : Nat) (status : Option Nat) : Rule :=
  { id := id, rank := rank, statusCode := status, target := none, responseStatusCodes := none,
    excludeResponseStatusCodes := none, sampling := none, headerFilters := none, bodyFilters := none,
    logOverride := none, reset := none, stop := none, redirectUnitId := none,
    configurationLogUnitId := none, targetHash := none }

/-- a rank tie and conflicting status codes: the hypotheses hold, the two match vectors are different lists, and the
translated `from_routes_rule` (with the model's sort) computes the same action from both -/
example :
    let R := [mk' [97] 1 (some 301), mk' [98] 1 (some 302), mk' [99] 2 (some 410)]
    let R' := [mk' [99] 2 (some 410), mk' [98] 1 (some 302), mk' [97] 1 (some 301)]
    R.Perm R' ∧ NodupIds R ∧ R ≠ R' ∧
      Rio.Consts.genFromRoutesRule (frr ⟨none, none⟩ (fun _ => 1)) genMerge Action.empty sortRules R =
        Rio.Consts.genFromRoutesRule (frr ⟨none, none⟩ (fun _ => 1)) genMerge Action.empty sortRules R' := by
  intro R R'
  have hp : R.Perm R' := by decide
  have hn : NodupIds R := by unfold NodupIds; decide
  exact ⟨hp, hn, by decide, action_perm_invariant_gen _ _ sortRules_lawful hp hn⟩

/-- and the translated loop does compute something there (on the sorted list, which the kernel can evaluate): the
rank-2 rule is applied first, the tie is resolved by id, the last status wins -/
example :
    (Rio.Consts.genFromRoutesRule (frr ⟨none, none⟩ (fun _ => 1)) genMerge Action.empty id
      [mk' [99] 2 (some 410), mk' [98] 1 (some 302), mk' [97] 1 (some 301)]).statusCodeUpdate.map (·.statusCode) =
      some 301 := by
  decide +kernel

end Rio.C11
