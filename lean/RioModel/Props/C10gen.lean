/-
C10 (variables and capture) — `Route::capture`, `Rule::variables`, `StaticOrDynamic::replace` REGENERATED FROM THE SOURCE (W22).
(three sections; the first one is described here, the other two in their section comments)

`Rio.Consts.genRouteCapture` is translated on every run from src/router/route.rs (`Route::capture`) by
tools/consts.d/tr_w22_capture.py (development copy: tools/consts_dev/w22_capture.py): the path capture, the host capture
under the two `if let Some(..)`, the loop over the rule's headers with the inner loop over EVERY request header line, the
`continue` on a different (lower-cased) name, and the `extend` calls in source order.

PARAMETERS of the translation (callees not translated): `str::to_lowercase` (`lower`), `StaticOrDynamic::capture`
(`sodCapture`), the `name` field and `capture` of a `RouteHeader` (`headerName`, `headerCapture`), `HashMap::extend`
(`extend`).  In `gen_route_capture_eq_model` they are instantiated as the hand model has them: a `HashMap` is an
association list with distinct keys, the map returned by a `capture` callee is `extendMap []` of the engine's raw group list
(`sodCapture E`, `capOf E`), `extend` is `extendMap`; the rule header is the pair (name, marker string) of
`Rule.routeHeaders`.  No index / arithmetic / unwrap occurs in the function: no side condition.
-/
import RioModel.Proofs.MarkerGen
import RioModel.Props.C10

namespace Rio.C10
open Rio.Marker Rio.Consts Rio.MarkerGen

/-- **translated `Route::capture` = hand-written `Rule.capture`**, for every engine, case functions, rule, config, request. -/
theorem gen_route_capture_eq_model (E : Engine) (cf : CaseFns) (r : Rule) (cfg : Config) (q : Request) :
    genRouteCapture cf.lower (fun d s => extendMap [] (sodCapture E d s)) (fun h : Str × MarkerString => h.1)
        (fun h s => extendMap [] (capOf E h.2 s)) extendMap
        (r.pathSoD cf cfg) (r.hostSoD cf cfg) (r.routeHeaders cfg) q.path q.host q.headers
      = r.capture E cf cfg q := by
  rw [genRouteCapture_unfold]
  unfold Rule.capture
  have hinner : ∀ (rh : Str × MarkerString) (acc : List (Str × Str)),
      q.headers.foldl (innerStep cf.lower (fun h : Str × MarkerString => h.1)
        (fun h s => extendMap [] (capOf E h.2 s)) extendMap rh) acc =
      q.headers.foldl (fun acc2 qh =>
        if cf.lower qh.1 != cf.lower rh.1 then acc2 else extendMap acc2 (capOf E rh.2 qh.2)) acc := by
    intro rh acc
    congr 1
    funext acc2 qh
    simp only [innerStep, extendMap_normalise]
  simp only [hinner]
  congr 1
  cases r.hostSoD cf cfg <;> cases q.host <;> simp [extendMap_normalise]

/-- **A rejected header line changes no capture** (headline, stated for the TRANSLATED definition and every
instantiation of its parameters): a request header line `x` whose capture is neutral for `extend` for every rule header of
the same (lower-cased) name — for the code: `MarkerString::capture` returned the empty map because the anchored capture
regex does not match the value — can be removed from the request, wherever it stands (before or AFTER an accepted line:
seed r9b-2 read only the last line). -/
theorem gen_rejected_header_line_changes_no_capture {σ δ η κ : Type} [BEq σ]
    (lower : σ → σ) (sodCap : δ → σ → κ) (headerName : η → σ) (headerCapture : η → σ → κ) (extend : κ → κ → κ)
    (pq : δ) (host : Option δ) (headers : List η) (path : σ) (rhost : Option σ) (pre post : List (σ × σ)) (x : σ × σ)
    (hx : ∀ h ∈ headers, (lower x.1 != lower (headerName h)) = false → ∀ acc, extend acc (headerCapture h x.2) = acc) :
    genRouteCapture lower sodCap headerName headerCapture extend pq host headers path rhost (pre ++ x :: post) =
      genRouteCapture lower sodCap headerName headerCapture extend pq host headers path rhost (pre ++ post) := by
  rw [genRouteCapture_unfold, genRouteCapture_unfold]
  suffices hs : ∀ init : κ,
      headers.foldl (fun acc h => (pre ++ x :: post).foldl (innerStep lower headerName headerCapture extend h) acc) init =
      headers.foldl (fun acc h => (pre ++ post).foldl (innerStep lower headerName headerCapture extend h) acc) init from hs _
  intro init
  induction headers generalizing init with
  | nil => rfl
  | cons h hs ih =>
    simp only [List.foldl_cons]
    rw [foldl_inner_remove lower headerName headerCapture extend h pre post x (hx h (by simp))]
    exact ih (fun h' hm => hx h' (by simp [hm])) _

/-- The same for the hand model through the equivalence: a header line whose value the engine's anchored capture
rejects (`caps = none`) for every rule header of that name changes no capture. -/
theorem rejected_header_line_changes_no_capture (E : Engine) (cf : CaseFns) (r : Rule) (cfg : Config) (q : Request)
    (pre post : List (Str × Str)) (x : Str × Str)
    (hx : ∀ h ∈ r.routeHeaders cfg, (cf.lower x.1 != cf.lower h.1) = false →
      E.caps h.2.ignoreCase h.2.capture x.2 = none) :
    r.capture E cf cfg { q with headers := pre ++ x :: post } = r.capture E cf cfg { q with headers := pre ++ post } := by
  rw [← gen_route_capture_eq_model, ← gen_route_capture_eq_model]
  apply gen_rejected_header_line_changes_no_capture
  intro h hm hn acc
  simp [capOf, hx h hm hn, extendMap]

/-- **Every line is read, later lines extend / override earlier ones** (translated definition): with one rule header, a
further request header line of that name extends the capture of the request without it. -/
theorem gen_capture_last_line_extends {σ δ η κ : Type} [BEq σ]
    (lower : σ → σ) (sodCap : δ → σ → κ) (headerName : η → σ) (headerCapture : η → σ → κ) (extend : κ → κ → κ)
    (pq : δ) (host : Option δ) (h : η) (path : σ) (rhost : Option σ) (pre : List (σ × σ)) (x : σ × σ)
    (hx : (lower x.1 != lower (headerName h)) = false) :
    genRouteCapture lower sodCap headerName headerCapture extend pq host [h] path rhost (pre ++ [x]) =
      extend (genRouteCapture lower sodCap headerName headerCapture extend pq host [h] path rhost pre)
        (headerCapture h x.2) := by
  rw [genRouteCapture_unfold, genRouteCapture_unfold]
  simp [List.foldl_append, innerStep, hx]

/-- The accepted line followed by a rejected one (seed r9b-2), and by a second accepted one, on a concrete instance:
strings are numbers, a capture is the singleton list of the value, values `≥ 100` are rejected, `extend` appends. -/
theorem gen_capture_witnesses :
    let cap : Nat → Nat → List Nat := fun _ v => if v < 100 then [v] else []
    genRouteCapture (σ := Nat) id (fun (_ : Nat) s => [s]) (fun h : Nat × Nat => h.1) (fun h v => cap h.2 v) (· ++ ·)
        0 (some 1) [(7, 0)] 10 (some 20) [(7, 30), (8, 31), (7, 200)] = [10, 20, 30] ∧
    genRouteCapture (σ := Nat) id (fun (_ : Nat) s => [s]) (fun h : Nat × Nat => h.1) (fun h v => cap h.2 v) (· ++ ·)
        0 (some 1) [(7, 0)] 10 (some 20) [(7, 30), (7, 40)] = [10, 20, 30, 40] ∧
    genRouteCapture (σ := Nat) id (fun (_ : Nat) s => [s]) (fun h : Nat × Nat => h.1) (fun h v => cap h.2 v) (· ++ ·)
        0 (some 1) [(7, 0)] 10 none [(7, 30)] = [10, 30] := by
  decide

/-- non-vacuity of the hypothesis of `gen_rejected_header_line_changes_no_capture`: the rejected line `(7, 200)` above. -/
example : ∀ h ∈ [((7, 0) : Nat × Nat)], (id ((7, 200) : Nat × Nat).1 != id h.1) = false →
    ∀ acc : List Nat, acc ++ (if ((7, 200) : Nat × Nat).2 < 100 then [((7, 200) : Nat × Nat).2] else []) = acc := by
  intro h _ _ acc; simp

/-! ### `Rule::variables` (src/api/rule.rs)

`Rio.Consts.genRuleVariables`: the loop over the captured markers filling `input` (`get_marker` → `transform`), the
`is_empty` test with its two loops (legacy branch: one variable per captured marker; declared variables through
`get_value(&input, request)`), and the final `sort_by` with its comparator closure
`key_b.len().cmp(&key_a.len()).then_with(|| key_a.cmp(key_b))`, AFTER the branch (seed r8d-3 moved it inside).
PARAMETERS: `Rule::get_marker` (checked textually to be `find` on the name), `Marker::transform`, `Variable.name`,
`Variable::get_value`, the `HashMap` of `input` (`emptyMap`, `insert`, `iter` = its iteration sequence; the argument
`markers_captured` is ITS iteration sequence), `slice::sort_by` on the first components (`sortByKey`), `str::len`, `String::cmp`.
Instantiation in the equivalence, as the hand model has it: the map `input` is an association list, `insert` appends (the
captured names are the keys of a HashMap: distinct, no overwrite), it iterates in insertion order (ANY order gives the
same sorted list: `Rio.C10.variables_order_deterministic`), `sort_by` is the stable insertion sort `sortBy` on the
comparator's `Less`, `len` = UTF-8 length `blen`, `cmp` = `strCmp` (from `strLt`). -/

/-- **translated `Rule::variables` = hand-written `Rule.vars`**, for every rule, captured list, request. -/
theorem gen_rule_variables_eq_model (cf : CaseFns) (r : Rule) (captured : List (Str × Str)) (q : Request) :
    genRuleVariables r.getMarker (fun (m : ApiMarker) v => applyTransformers cf m.transformers v) Variable.name
        (fun v input q => Variable.getValue cf v input q) ([] : List (Str × Str)) (fun m k v => m ++ [(k, v)]) id
        (fun ord l => sortBy (fun a b => ord a b == .lt) l) blen strCmp r.variables captured q
      = r.vars cf captured q := by
  rw [genRuleVariables_unfold]
  unfold Rule.vars sortVars Rule.variablesUnsorted
  have hcmp : (fun a b => ((compare (blen b) (blen a)).then (strCmp a b) == Ordering.lt)) = varBefore := by
    funext a b; exact gen_comparator_eq_varBefore a b
  have hin : ∀ f : List (Str × Str) → Str × Str → List (Str × Str),
      (∀ acc x, f acc x = acc ++ [match r.getMarker x.1 with
        | none => x
        | some m => (x.1, applyTransformers cf m.transformers x.2)]) →
      List.foldl f [] captured = r.transformed cf captured := by
    intro f hf
    rw [foldl_append_map f _ hf, List.nil_append]
    rfl
  simp only [hcmp, id]
  rw [hin _ (by intro acc x; cases r.getMarker x.1 <;> rfl)]

/-- The same with `insert` a real `HashMap::insert` on the association-list map (an existing key is REMOVED, the entry
appended): equal to the model when the captured names are distinct — which they are, `markers_captured` being a HashMap. -/
theorem gen_rule_variables_eq_model_hashmap (cf : CaseFns) (r : Rule) (captured : List (Str × Str)) (q : Request)
    (hnd : (names captured).Nodup) :
    genRuleVariables r.getMarker (fun (m : ApiMarker) v => applyTransformers cf m.transformers v) Variable.name
        (fun v input q => Variable.getValue cf v input q) ([] : List (Str × Str)) (fun m k v => extendMap m [(k, v)]) id
        (fun ord l => sortBy (fun a b => ord a b == .lt) l) blen strCmp r.variables captured q
      = r.vars cf captured q := by
  rw [← gen_rule_variables_eq_model, genRuleVariables_unfold, genRuleVariables_unfold]
  have hin : ∀ f : List (Str × Str) → Str × Str → List (Str × Str),
      (∀ acc x, f acc x = extendMap acc [(x.1, match r.getMarker x.1 with
        | none => x.2
        | some m => applyTransformers cf m.transformers x.2)]) →
      List.foldl f [] captured = captured.map (fun x => (x.1, match r.getMarker x.1 with
        | none => x.2
        | some m => applyTransformers cf m.transformers x.2)) := by
    intro f hf
    rw [foldl_insert_map f _ hf captured [] (by simpa [names] using hnd), List.nil_append]
  have hin2 : ∀ f : List (Str × Str) → Str × Str → List (Str × Str),
      (∀ acc x, f acc x = acc ++ [(x.1, match r.getMarker x.1 with
        | none => x.2
        | some m => applyTransformers cf m.transformers x.2)]) →
      List.foldl f [] captured = captured.map (fun x => (x.1, match r.getMarker x.1 with
        | none => x.2
        | some m => applyTransformers cf m.transformers x.2)) := by
    intro f hf
    rw [foldl_append_map f _ hf, List.nil_append]
  rw [hin _ (by intro acc x; cases r.getMarker x.1 <;> rfl), hin2 _ (by intro acc x; cases r.getMarker x.1 <;> rfl)]

/-- **substitution** restated for the translated `Rule::variables`: substituting its result into a template is the
simultaneous longest-match substitution of the unsorted variable list — the final sort is there in BOTH branches. -/
theorem gen_rule_variables_substitution (cf : CaseFns) (r : Rule) (captured : List (Str × Str)) (q : Request) (t : Str) :
    replaceVars t (genRuleVariables r.getMarker (fun (m : ApiMarker) v => applyTransformers cf m.transformers v)
        Variable.name (fun v input q => Variable.getValue cf v input q) ([] : List (Str × Str))
        (fun m k v => m ++ [(k, v)]) id (fun ord l => sortBy (fun a b => ord a b == .lt) l) blen strCmp
        r.variables captured q)
      = subst (r.variablesUnsorted cf captured q) t := by
  rw [gen_rule_variables_eq_model]
  exact substitution _ t

/-- The translated function sorts in both branches, whatever the parameters are: its result is `sortByKey` of the
code's comparator applied to a list (generic form of the unfolding). -/
theorem gen_rule_variables_sorted {σ μ ν ι ρ : Type}
    (getMarker : σ → Option μ) (transform : μ → σ → σ) (varName : ν → σ) (getValue : ν → ι → ρ → σ)
    (emptyMap : ι) (insert : ι → σ → σ → ι) (iter : ι → List (σ × σ))
    (sortByKey : (σ → σ → Ordering) → List (σ × σ) → List (σ × σ)) (len : σ → Nat) (cmp : σ → σ → Ordering)
    (vars : List ν) (captured : List (σ × σ)) (req : ρ) :
    ∃ l, genRuleVariables getMarker transform varName getValue emptyMap insert iter sortByKey len cmp vars captured req =
      sortByKey (fun a b => (compare (len b) (len a)).then (cmp a b)) l ∧
      (vars.isEmpty = false → l = vars.map fun v => (varName v, getValue v
        (captured.foldl (fun inp p => match getMarker p.1 with
            | none => insert inp p.1 p.2
            | some m => insert inp p.1 (transform m p.2)) emptyMap) req)) := by
  refine ⟨_, genRuleVariables_unfold .., ?_⟩
  intro h; rw [h]; rfl

/-- Concrete evaluation (strings are numbers, `len` = the number itself, insertion sort by `Less`): legacy branch with a
transformed marker, and declared variables; both come out sorted longest-first. -/
theorem gen_rule_variables_witnesses :
    let ins : (Nat → Nat → Ordering) → List (Nat × Nat) → List (Nat × Nat) := fun ord l =>
      l.foldr (fun x acc => (acc.takeWhile fun y => ord y.1 x.1 == .lt) ++ x :: (acc.dropWhile fun y => ord y.1 x.1 == .lt)) []
    genRuleVariables (σ := Nat) (ν := Nat × Nat) (ρ := Unit) (fun n => if n = 2 then some 100 else none) (fun m v => m + v)
        (fun v => v.1) (fun v inp _ => v.2 + inp.length) ([] : List (Nat × Nat)) (fun m k v => m ++ [(k, v)]) id ins id compare
        [] [(1, 10), (2, 20), (3, 30)] () = [(3, 30), (2, 120), (1, 10)] ∧
    genRuleVariables (σ := Nat) (ν := Nat × Nat) (ρ := Unit) (fun n => if n = 2 then some 100 else none) (fun m v => m + v)
        (fun v => v.1) (fun v inp _ => v.2 + inp.length) ([] : List (Nat × Nat)) (fun m k v => m ++ [(k, v)]) id ins id compare
        [(5, 0), (9, 1)] [(1, 10), (2, 20), (3, 30)] () = [(9, 4), (5, 3)] := by
  decide

/-! ### `StaticOrDynamic::replace` (src/marker/mod.rs)

`Rio.Consts.genReplace` / `genReplaceLoop` / `genReplaceFor` (tools/consts.d/tr_w22_replace.py; development copy
tools/consts_dev/w22_replace.py): the one-pass scan — `find('@')`, copy `rest[..at]`, the inner `for` over the variables in
LIST order with `starts_with` and the labelled `continue`, the stray `@`, the final `push_str(rest)`.
PARAMETERS: the `str` / `String` operations `find`, `&s[..n]`, `&s[n..]`, `starts_with`, `len`, `push_str`, `push`,
`String::with_capacity`.  The equivalence assumes `Rio.MarkerGen.StrLaws` of them relative to a reading `toChars : σ → Str`
(what the Rust operations do AT THE OFFSETS THE CODE USES: an offset returned by `find`, that offset + 1 behind the one-byte
`@`, `name.len()` behind a successful `starts_with(name)` — where the slices do not panic; nothing is assumed elsewhere).
The `while let` is translated with explicit FUEL and the outcome `none` when it runs out; the theorem shows that any fuel above
the number of chars of the template suffices (so the outcome is always `some`). -/

/-- **translated `StaticOrDynamic::replace` = hand-written `replaceVars`**, for every string type and operations satisfying
`StrLaws`, every template, every variable list (sorted or not), every fuel above the template's length. -/
theorem gen_replace_eq_model {σ : Type} {toChars : σ → Str} {find : σ → Char → Option Nat} {sliceTo sliceFrom : σ → Nat → σ}
    {startsWith : σ → σ → Bool} {len : σ → Nat} {append : σ → σ → σ} {push : σ → Char → σ} {withCapacity : Nat → σ}
    (L : StrLaws toChars find sliceTo sliceFrom startsWith len append push withCapacity)
    (vars : List (σ × σ)) (fuel : Nat) (str : σ) (hfuel : (toChars str).length < fuel) :
    ∃ r, genReplace find sliceTo sliceFrom startsWith len append push withCapacity fuel str vars = some r ∧
      toChars r = replaceVars (toChars str) (varsChars toChars vars) :=
  genReplace_spec L vars fuel str hfuel

/-- **substitution** (headline) restated for the translated `replace`: on the variable list as `Rule::variables` sorts it,
the translated scan computes the simultaneous longest-match substitution. -/
theorem gen_replace_substitution {σ : Type} {toChars : σ → Str} {find : σ → Char → Option Nat} {sliceTo sliceFrom : σ → Nat → σ}
    {startsWith : σ → σ → Bool} {len : σ → Nat} {append : σ → σ → σ} {push : σ → Char → σ} {withCapacity : Nat → σ}
    (L : StrLaws toChars find sliceTo sliceFrom startsWith len append push withCapacity)
    (vars : List (σ × σ)) (vs : List (Str × Str)) (hsorted : varsChars toChars vars = sortVars vs)
    (fuel : Nat) (str : σ) (hfuel : (toChars str).length < fuel) :
    ∃ r, genReplace find sliceTo sliceFrom startsWith len append push withCapacity fuel str vars = some r ∧
      toChars r = subst vs (toChars str) := by
  obtain ⟨r, hr, hc⟩ := genReplace_spec L vars fuel str hfuel
  exact ⟨r, hr, by rw [hc, hsorted]; exact substitution vs (toChars str)⟩

/-- The laws are satisfiable, and on that instance (strings = char lists, char offsets) the translated function IS the model:
`genReplace … (t.length + 1) t vars = some (replaceVars t vars)` for every template and variable list. -/
theorem gen_replace_eq_model_chars (t : Str) (vars : List (Str × Str)) :
    genReplace (fun s c => findChar c s) (fun s n => s.take n) (fun s n => s.drop n) (fun a n => pre n a) List.length
      (· ++ ·) (fun a c => a ++ [c]) (fun _ => []) (t.length + 1) t vars = some (replaceVars t vars) := by
  obtain ⟨r, hr, hc⟩ := genReplace_spec charLaws vars (t.length + 1) t (by simp)
  rw [hr]
  simp only [id] at hc
  rw [hc]
  congr 2
  simp [varsChars]

/-- The failure outcome is real: without fuel the translated loop reports `none` instead of a truncated string. -/
theorem gen_replace_needs_fuel (t : Str) (vars : List (Str × Str)) :
    genReplace (fun s c => findChar c s) (fun s n => s.take n) (fun s n => s.drop n) (fun a n => pre n a) List.length
      (· ++ ·) (fun a c => a ++ [c]) (fun _ => []) 0 t vars = none := rfl

/-- Concrete evaluations: first entry in LIST order wins (the sort matters), a value is not rescanned, stray `@`. -/
theorem gen_replace_witnesses :
    genReplace (fun s c => findChar c s) (fun s n => s.take n) (fun s n => s.drop n) (fun a n => pre n a) List.length
      (· ++ ·) (fun a c => a ++ [c]) (fun _ => []) 9 ['/', '@', 'i', 'd', '2', '@', '!', '@', 'x']
      [(['i', 'd', '2'], ['9']), (['i', 'd'], ['7']), (['x'], ['@', 'i', 'd'])] = some ['/', '9', '@', '!', '@', 'i', 'd'] ∧
    genReplace (fun s c => findChar c s) (fun s n => s.take n) (fun s n => s.drop n) (fun a n => pre n a) List.length
      (· ++ ·) (fun a c => a ++ [c]) (fun _ => []) 9 ['@', 'i', 'd', '2']
      [(['i', 'd'], ['7']), (['i', 'd', '2'], ['9'])] = some ['7', '2'] := by
  decide

end Rio.C10
