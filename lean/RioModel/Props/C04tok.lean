/-
C04, final form on the tokenizer model of the real tokenizer: all three tokenizer laws are discharged
(`Lossless` from C16 in Proofs/FilterTok.lean; `TokValid`, `TagSpan` by W5 in Proofs/HtmlStream4.lean), so the
conservativity theorems have NO tokenizer hypothesis left.
-/
import RioModel.Props.C04
import RioModel.Proofs.HtmlStream4
import RioModel.Proofs.HtmlStream5
set_option linter.unusedSimpArgs false
set_option linter.unusedVariables false

namespace Rio.C04
open Rio.Filter Rio.Consts

/-- token boundaries of the tokenizer model are character boundaries -/
theorem tokenizer_tokValid : TokValid htmlTokenize := htmlTokenize_tokValid

/-- tag tokens of the tokenizer model start with `<` and end with `>` -/
theorem tokenizer_tagSpan : TagSpan htmlTokenize := htmlTokenize_tagSpan

/-- **C04 for uncompressed chains, unconditional in the tokenizer.**  For every list of filters without
`replace_text` whose values are valid UTF-8 (Rust `String`s) — any number of html filters, append / prepend / replace,
any selectors — every selector oracle, every chunking of ARBITRARY bytes, and whether or not the chain fails on
invalid UTF-8 inside `filter()` or `end()`: the concatenated output is the concatenated input edited only by
insertions of whole values of the insert filters and substitutions of `<`…`>` spans by whole values of the replace
filters.  Nothing is lost, duplicated or reordered. -/
theorem conservative_final (ev : Bytes → Bytes → Bool) (lower : String → String)
    (fs : List BodyFilter) (headers : List (String × String))
    (henc : headerValue lower filterHeaderContentEncoding headers = none)
    (hntr : ∀ f ∈ fs, isTextReplace f = false)
    (hval : ∀ f ∈ fs, V (filterValue f))
    (cs : List Bytes) :
    Edit (fs.flatMap filterIns) (fs.flatMap filterRep) cs.flatten
      ((Chain.new noCodec lower fs headers).run htmlTokenize ev noCodec cs) :=
  conservative_multi htmlTokenize_lossless htmlTokenize_tokValid ev lower fs headers henc hntr hval
    (fun _ => htmlTokenize_tagSpan) cs

/-- the same for at most one html filter, without any hypothesis on the values -/
theorem conservative_final_one (ev : Bytes → Bytes → Bool) (lower : String → String)
    (fs : List BodyFilter) (headers : List (String × String))
    (henc : headerValue lower filterHeaderContentEncoding headers = none)
    (hntr : ∀ f ∈ fs, isTextReplace f = false)
    (hone : (fs.filter isHtmlFilter).length ≤ 1)
    (cs : List Bytes) :
    Edit (fs.flatMap filterIns) (fs.flatMap filterRep) cs.flatten
      ((Chain.new noCodec lower fs headers).run htmlTokenize ev noCodec cs) :=
  conservative_concrete ev lower fs headers henc hntr hone (fun _ => htmlTokenize_tagSpan) cs

/-- insert-only lists, any number of html filters: no substitution at all -/
theorem insert_only_final (ev : Bytes → Bytes → Bool) (lower : String → String)
    (fs : List BodyFilter) (headers : List (String × String))
    (henc : headerValue lower filterHeaderContentEncoding headers = none)
    (hins : ∀ f ∈ fs, isTextReplace f = false ∧ filterRep f = [])
    (hval : ∀ f ∈ fs, V (filterValue f))
    (cs : List Bytes) :
    Edit (fs.flatMap filterIns) [] cs.flatten
      ((Chain.new noCodec lower fs headers).run htmlTokenize ev noCodec cs) := by
  have hrep : fs.flatMap filterRep = [] := by
    rw [List.flatMap_eq_nil_iff]; exact fun f hf => (hins f hf).2
  have := conservative_final ev lower fs headers henc (fun f hf => (hins f hf).1) hval cs
  rw [hrep] at this
  exact this

/-- the `?` exits `raw_as_string()?` / `buffered_as_string()?` do not fire on the tokenizer model: every raw span and
every remainder of a complete valid buffer is complete valid UTF-8 -/
theorem raw_and_buffered_valid (d : Bytes) (hd : V d) (k : Nat) :
    (∀ t ∈ (htmlTokenize d).1, V t.raw) ∧ V (rawsOf ((htmlTokenize d).1.drop k) ++ (htmlTokenize d).2) :=
  ⟨htmlTokenize_tokValid d hd,
   V_append (V_rawsOf fun t ht => htmlTokenize_tokValid d hd t (List.mem_of_mem_drop ht))
     (V_rest htmlTokenize_lossless htmlTokenize_tokValid hd)⟩

/-! ### the `?` exits of `filter` / `append_child` / `prepend_child` other than the UTF-8 validation never fire

`htmlTokenize?` is `none` exactly when some failure exit of the tokenizing loop is taken (`next()?`, `raw()` /
`buffered()` out of range, `tag_name()?`, `tag_name()` = None, fuel).  On a complete valid buffer it is `some`
(W5: `htmlTokenize?_isSome_of_valid`), and every `raw_as_string()` / `buffered_as_string()` succeeds
(`raw_and_buffered_valid`).  The buffers that reach the tokenizer are always complete valid: -/

/-- in `filter`: the buffer tokenised is the validated part of `last_buffer ++ input` -/
theorem filter_question_marks (s : HtmlSt) (x data pending : Bytes)
    (h : utf8Split (s.last ++ x) = some (data, pending)) :
    (htmlTokenize? data).isSome = true ∧ (∀ t ∈ (htmlTokenize data).1, V t.raw) ∧ V (htmlTokenize data).2 := by
  have hd : V data := V_utf8Split h
  exact ⟨htmlTokenize?_isSome_of_valid data hd, htmlTokenize_tokValid data hd,
    V_rest htmlTokenize_lossless htmlTokenize_tokValid hd⟩

/-- in `append_child` / `prepend_child`: the buffer tokenised is a buffered element followed by a tag token, all valid
by the invariant `HV` (values valid UTF-8), which every call of the stage preserves -/
theorem visitor_question_marks (ev : Bytes → Bytes → Bool) (s s' : HtmlSt) (x o : Bytes) (hs : HV s)
    (h : filterHtml htmlTokenize ev s x = some (s', o)) :
    HV s' ∧ V o ∧ ∀ l ∈ s'.stack, (htmlTokenize? l.buffer).isSome = true := by
  obtain ⟨h1, h2⟩ := filterHtml_V htmlTokenize_lossless htmlTokenize_tokValid ev s s' x o hs h
  exact ⟨h1, h2, fun l hl => htmlTokenize?_isSome_of_valid l.buffer (h1.2 l hl)⟩

/-- any complete valid buffer (what `append_child(content: String, ..)` receives) tokenises without a failure exit -/
theorem valid_buffer_tokenizes (d : Bytes) (hd : V d) : (htmlTokenize? d).isSome = true :=
  htmlTokenize?_isSome_of_valid d hd

end Rio.C04
