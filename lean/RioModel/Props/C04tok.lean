/-
C04, final form on the tokenizer model of the real tokenizer: all tokenizer laws are discharged, for both entry points
(`Tokenizer::new`: append_child / prepend_child; `Tokenizer::new_fragment(data, last_context)`: the filter loop since
fe7eac6) — `LosslessAll` from C16 in Proofs/FilterTok.lean; `TokValid` by W5 in Proofs/HtmlStream4.lean; `TokValidS`,
`CtxClosed`, `TagSpanS` by W5 in Proofs/HtmlStream8.lean — so the conservativity theorems have NO tokenizer hypothesis
left.
-/
import RioModel.Props.C04
import RioModel.Proofs.HtmlStream4
import RioModel.Proofs.HtmlStream5
import RioModel.Proofs.HtmlStream8
set_option linter.unusedSimpArgs false
set_option linter.unusedVariables false

namespace Rio.C04
open Rio.Filter Rio.Consts

/-- token boundaries of the tokenizer model are character boundaries (both entry points, every accepted context), and
the contexts it reports are accepted contexts -/
theorem tokenizer_tokValid : TokValidAll htmlTokenize :=
  ⟨htmlTokenize_tokValid, htmlTokenize_tokValidS, htmlTokenize_ctxClosed⟩

/-- tag tokens of the tokenizer model start with `<` and end with `>` (stream tokenizer, every context) -/
theorem tokenizer_tagSpan : TagSpanS htmlTokenize := htmlTokenize_tagSpanS

/-- **C04 for uncompressed chains, unconditional in the tokenizer.**  For every list of filters without
`replace_text` whose values are valid UTF-8 (Rust `String`s) — any number of html filters, append / prepend / replace,
any selectors — every selector oracle, every chunking of ARBITRARY bytes, and whether or not the chain fails on
invalid UTF-8 inside `filter()` or `end()`: the concatenated output is the concatenated input edited only by
insertions of whole values of the insert filters and substitutions of `<`…`>` spans by whole values of the replace
filters.  Nothing is lost, duplicated or reordered. -/
theorem conservative_final (ev : Bytes → Bytes → Bool) (lower : String → String)
    (fs : List BodyFilter) (headers : List (String × String))
    (henc : headerValue lower filterHeaderContentEncoding headers = none)
    (hntr : ∀ f ∈ fs, isTextReplace f = false)
    (hval : ∀ f ∈ fs, V (filterValue f))
    (cs : List Bytes) :
    Edit (fs.flatMap filterIns) (fs.flatMap filterRep) cs.flatten
      ((Chain.new noCodec lower fs headers).run htmlTokenize ev noCodec cs) :=
  conservative_multi htmlTokenize_losslessAll tokenizer_tokValid ev lower fs headers henc hntr hval
    (fun _ => htmlTokenize_tagSpanS) cs

/-- the same for at most one html filter, without any hypothesis on the values -/
theorem conservative_final_one (ev : Bytes → Bytes → Bool) (lower : String → String)
    (fs : List BodyFilter) (headers : List (String × String))
    (henc : headerValue lower filterHeaderContentEncoding headers = none)
    (hntr : ∀ f ∈ fs, isTextReplace f = false)
    (hone : (fs.filter isHtmlFilter).length ≤ 1)
    (cs : List Bytes) :
    Edit (fs.flatMap filterIns) (fs.flatMap filterRep) cs.flatten
      ((Chain.new noCodec lower fs headers).run htmlTokenize ev noCodec cs) :=
  conservative_concrete ev lower fs headers henc hntr hone (fun _ => htmlTokenize_tagSpanS) cs

/-- insert-only lists, any number of html filters: no substitution at all -/
theorem insert_only_final (ev : Bytes → Bytes → Bool) (lower : String → String)
    (fs : List BodyFilter) (headers : List (String × String))
    (henc : headerValue lower filterHeaderContentEncoding headers = none)
    (hins : ∀ f ∈ fs, isTextReplace f = false ∧ filterRep f = [])
    (hval : ∀ f ∈ fs, V (filterValue f))
    (cs : List Bytes) :
    Edit (fs.flatMap filterIns) [] cs.flatten
      ((Chain.new noCodec lower fs headers).run htmlTokenize ev noCodec cs) := by
  have hrep : fs.flatMap filterRep = [] := by
    rw [List.flatMap_eq_nil_iff]; exact fun f hf => (hins f hf).2
  have := conservative_final ev lower fs headers henc (fun f hf => (hins f hf).1) hval cs
  rw [hrep] at this
  exact this

/-- the `?` exits `raw_as_string()?` / `buffered_as_string()?` do not fire on the tokenizer model: every raw span and
every remainder of a complete valid buffer is complete valid UTF-8 -/
theorem raw_and_buffered_valid (d : Bytes) (hd : V d) (k : Nat) :
    (∀ t ∈ (htmlTokenize d).1, V t.raw) ∧ V (rawsOf ((htmlTokenize d).1.drop k) ++ (htmlTokenize d).2) :=
  ⟨htmlTokenize_tokValid d hd,
   V_append (V_rawsOf fun t ht => htmlTokenize_tokValid d hd t (List.mem_of_mem_drop ht))
     (V_rest htmlTokenize_losslessAll tokenizer_tokValid hd)⟩

/-! ### the `?` exits of `filter` / `append_child` / `prepend_child` other than the UTF-8 validation never fire

`htmlStream?` / `htmlTokenize?` are `none` exactly when some failure exit of the tokenizing loop is taken (`next()?`,
`raw()` / `buffered()` out of range, `tag_name()?`, `tag_name()` = None, fuel).  On a complete valid buffer (and an
accepted context) they are `some` (W5: `htmlStream?_isSome_of_valid`, `htmlTokenize?_isSome_of_valid`), and every
`raw_as_string()` / `buffered_as_string()` succeeds.  The buffers that reach the tokenizer are always complete valid,
and the context the stage remembers is always an accepted one: -/

/-- in `filter`: the buffer tokenised is the validated part of `last_buffer ++ input`, the context is `last_context` -/
theorem filter_question_marks (s : HtmlSt) (x data pending : Bytes) (hc : Ctx s.ctx)
    (h : utf8Split (s.last ++ x) = some (data, pending)) :
    (htmlStream? s.ctx data).isSome = true ∧ (∀ t ∈ (htmlTokenize.stream s.ctx data).1, V t.tok.raw) ∧
      V (htmlTokenize.stream s.ctx data).2.1 := by
  have hd : V data := V_utf8Split h
  refine ⟨htmlStream?_isSome_of_valid s.ctx data hc hd, htmlTokenize_tokValidS s.ctx data hc hd, ?_⟩
  have hl := htmlTokenize_losslessS s.ctx data
  have hd' := hd
  rw [← hl] at hd'
  refine V_of_append_left hd' (V_rawsOf ?_)
  intro t ht
  simp only [toksOf, List.mem_map] at ht
  obtain ⟨x', hx', rfl⟩ := ht
  exact htmlTokenize_tokValidS s.ctx data hc hd x' hx'

/-- in `append_child` / `prepend_child`: the buffer tokenised is a buffered element followed by a tag token, all valid
by the invariant `HV` (values valid UTF-8), which every call of the stage preserves together with "the remembered context
is an accepted one" -/
theorem visitor_question_marks (ev : Bytes → Bytes → Bool) (s s' : HtmlSt) (x o : Bytes) (hs : HV s) (hc : Ctx s.ctx)
    (h : filterHtml htmlTokenize ev s x = some (s', o)) :
    HV s' ∧ Ctx s'.ctx ∧ V o ∧ ∀ l ∈ s'.stack, (htmlTokenize? l.buffer).isSome = true := by
  obtain ⟨h1, h2, h3⟩ := filterHtml_V htmlTokenize_losslessAll tokenizer_tokValid ev s s' x o hs hc h
  exact ⟨h1, h2, h3, fun l hl => htmlTokenize?_isSome_of_valid l.buffer (h1.2 l hl)⟩

/-- any complete valid buffer (what `append_child(content: String, ..)` receives) tokenises without a failure exit -/
theorem valid_buffer_tokenizes (d : Bytes) (hd : V d) : (htmlTokenize? d).isSome = true :=
  htmlTokenize?_isSome_of_valid d hd

end Rio.C04
