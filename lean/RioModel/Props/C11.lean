/-
C11 — rule application is deterministic under any match order.

Property theorems only (helper lemmas: Proofs/ActionSort.lean).  `ruleLe` is the model of
`impl Ord for Rule` (through `Route::cmp`), `sortRules` of `routes.sort()`, `fromRoutesRule` of
`Action::from_routes_rule`; `NodupIds R` says the matched rules have pairwise distinct ids (what the
router guarantees, C01).  `draw : Rule → Nat` is the random draw of the sampling test: the theorems
hold for every fixed assignment of draws to rules, in particular with sampling disabled.

Router-level independence from the *insertion* order needs C01 (the match result is the set of
satisfying rules whatever the history); here it is covered differentially by harness `c11`, which
builds real routers with permuted insertion orders.
-/
import RioModel.Proofs.ActionSort
set_option linter.unusedSimpArgs false

namespace Rio.C11
open Rio.Action

/-- A sorting function, as far as this property is concerned: returns a sorted permutation. Nothing
else (e.g. stability) is assumed of Rust's `sort`. -/
structure LawfulSort (sort : List Rule → List Rule) : Prop where
  perm : ∀ l, (sort l).Perm l
  sorted : ∀ l, (sort l).Pairwise (fun a b => ruleLe a b = true)

/-- The order of `Rule::cmp` is a total preorder … -/
theorem order_total_preorder :
    (∀ a b : Rule, ruleLe a b = true ∨ ruleLe b a = true) ∧
    (∀ a b c : Rule, ruleLe a b = true → ruleLe b c = true → ruleLe a c = true) :=
  ⟨fun a b => by simpa using ruleLe_total a b, ruleLe_trans⟩

/-- … whose ties are exactly the pairs with the same rank and the same id. -/
theorem order_ties (a b : Rule) :
    (ruleLe a b = true ∧ ruleLe b a = true) ↔ (a.rank = b.rank ∧ a.id = b.id) := by
  constructor
  · exact fun h => ruleLe_antisymm a b h.1 h.2
  · intro ⟨hr, hi⟩
    rw [ruleLe_iff, ruleLe_iff]
    have : ∀ d x, idLe d x x := fun d x => by
      unfold idLe bytesLe; cases d <;> simp [cmpBytes_refl]
    exact ⟨.inr ⟨hr, hi ▸ this _ _⟩, .inr ⟨hr.symm, hi ▸ this _ _⟩⟩

/-- "Rules applied by descending rank, ties broken by id": with the comparison directions currently
read from the source, `a` is sorted before-or-equal `b` iff `a.rank > b.rank`, or the ranks are
equal and `a.id ≥ b.id` bytewise.  (This is the only theorem of the file that depends on the
regenerated directions: it breaks if `Rule::cmp` changes direction.) -/
theorem order_closed_form (a b : Rule) :
    ruleLe a b = true ↔ (a.rank > b.rank ∨ (a.rank = b.rank ∧ bytesLe b.id a.id)) := by
  rw [ruleLe_iff, keyCmp_nat_lt]
  simp [Rio.Consts.ruleCmpRankDescending, Rio.Consts.ruleCmpIdDescending, idLe]

/-- The model's sort (`List.mergeSort`) is a lawful sort. -/
theorem sortRules_lawful : LawfulSort sortRules := ⟨sortRules_perm, sortRules_sorted⟩

/-- The sorted order is a function of the *set* of matched rules: any sorting function gives the same
list on two permutations of a rule list with distinct ids. -/
theorem sort_perm_invariant {sort : List Rule → List Rule} (hs : LawfulSort sort)
    {R R' : List Rule} (h : R.Perm R') (hn : NodupIds R) : sort R = sort R' :=
  sorted_perm_unique (hs.sorted R) (hs.sorted R')
    ((hs.perm R).trans (h.trans (hs.perm R').symm)) (hn.perm (hs.perm R).symm)

/-- Any two lawful sorting functions agree (on lists with distinct ids): the result does not depend on
the sorting algorithm, nor on its stability. -/
theorem sort_unique {sort sort' : List Rule → List Rule} (hs : LawfulSort sort) (hs' : LawfulSort sort')
    {R : List Rule} (hn : NodupIds R) : sort R = sort' R :=
  sorted_perm_unique (hs.sorted R) (hs'.sorted R)
    ((hs.perm R).trans (hs'.perm R).symm) (hn.perm (hs.perm R).symm)

/-- The action is a function of the set of matched rules: permuting the match vector does not change
it (for every request and every assignment of sampling draws to rules). -/
theorem action_perm_invariant (q : Req) (draw : Rule → Nat) {R R' : List Rule}
    (h : R.Perm R') (hn : NodupIds R) : fromRoutesRule R q draw = fromRoutesRule R' q draw := by
  unfold fromRoutesRule
  rw [sort_perm_invariant sortRules_lawful h hn]

/-- … and it is the fold over *the* sorted permutation, whichever lawful sort produced it. -/
theorem action_sort_independent (q : Req) (draw : Rule → Nat) {sort : List Rule → List Rule}
    (hs : LawfulSort sort) {R R' : List Rule} (h : R.Perm R') (hn : NodupIds R) :
    foldRoutes q draw Action.empty (sort R') = fromRoutesRule R q draw := by
  unfold fromRoutesRule
  rw [sort_perm_invariant sortRules_lawful h hn, sort_unique hs sortRules_lawful (hn.perm h)]

/-- Hence every observation made on the action is order independent as well. -/
theorem observations_perm_invariant (q : Req) (draw : Rule → Nat) (allowLog : Bool) (c : Nat)
    (ops : List Op) {R R' : List Rule} (h : R.Perm R') (hn : NodupIds R) :
    runOps allowLog c (fromRoutesRule R q draw) ops = runOps allowLog c (fromRoutesRule R' q draw) ops := by
  rw [action_perm_invariant q draw h hn]

/-- Bridge to C01 (insertion order / rebuild): for ANY router representation and match function, if
two router states return the same *set* of rules for a request — which is what C01 proves of two
routers built from the same rules in different orders (both return exactly the satisfying rules, once
each) — then the actions computed from the two match results are equal. -/
theorem router_order_invariant_of_match_perm {State : Type} (matchRequest : State → List Rule)
    (s s' : State) (q : Req) (draw : Rule → Nat)
    (hC01 : (matchRequest s).Perm (matchRequest s')) (hn : NodupIds (matchRequest s)) :
    fromRoutesRule (matchRequest s) q draw = fromRoutesRule (matchRequest s') q draw :=
  action_perm_invariant q draw hC01 hn

/-! ### Non-vacuity, and necessity of the distinct-ids hypothesis -/

private def mk (id : RuleId) (rank : Nat) (status : Option Nat) : Rule :=
  { id := id, rank := rank, statusCode := status, target := none, responseStatusCodes := none,
    excludeResponseStatusCodes := none, sampling := none, headerFilters := none, bodyFilters := none,
    logOverride := none, reset := none, stop := none, redirectUnitId := none,
    configurationLogUnitId := none, targetHash := none }

/-- Three rules with a rank tie and conflicting status codes: the hypotheses hold, the two orders are
genuinely different lists, and the actions coincide. -/
example :
    let R := [mk [97] 1 (some 301), mk [98] 1 (some 302), mk [99] 2 (some 410)]
    let R' := [mk [99] 2 (some 410), mk [98] 1 (some 302), mk [97] 1 (some 301)]
    R.Perm R' ∧ NodupIds R ∧ R ≠ R' ∧
      fromRoutesRule R ⟨none, none⟩ (fun _ => 1) = fromRoutesRule R' ⟨none, none⟩ (fun _ => 1) := by
  intro R R'
  have hp : R.Perm R' := by decide
  have hn : NodupIds R := by unfold NodupIds; decide
  exact ⟨hp, hn, by decide, action_perm_invariant _ _ hp hn⟩

/-- Without distinct ids the statement is false: two matched rules with the same rank and id but
different effects (what defect D1 produced before its repair) are applied in match order. -/
theorem perm_invariant_needs_distinct_ids :
    ¬ (∀ (R R' : List Rule), R.Perm R' →
        fromRoutesRule R ⟨none, none⟩ (fun _ => 1) = fromRoutesRule R' ⟨none, none⟩ (fun _ => 1)) := by
  intro h
  have := h [mk [97] 1 (some 301), mk [97] 1 (some 302)] [mk [97] 1 (some 302), mk [97] 1 (some 301)]
    (by decide)
  -- both match vectors are already sorted (the two rules tie), so the sort leaves them alone
  unfold fromRoutesRule sortRules at this
  rw [List.mergeSort_of_pairwise (by decide), List.mergeSort_of_pairwise (by decide)] at this
  have := congrArg (fun a => a.statusCodeUpdate.map (·.statusCode)) this
  revert this
  decide

end Rio.C11
