/-
C12 (trace clause) — warming the cache changes no TRACE: the whole explain-trace forest, not only the routes it lists.

Tree level (`regex_radix_tree/trace.rs`, `Item::trace` / `Node::trace` / `Leaf::trace`): the `Trace` value – per node the
`regex` text (`original`), `count`, the `matched` flag, the children (present only below a matched node) and the leaf
values – is the same before and after `RegexTreeMap::cache(limit, level)` / `Item::cache(left, level, current)`, for every
budget and level, under the hypotheses of `find_cache` (`Inv`, `LeafPatternsNonEmpty`); and for EVERY history the tree and
its cache-free twin have identical traces.  The only field of `Trace` that reads the compiled state is `matched`
(`LazyRegex::is_match`); for the empty pattern it does flip (O3): `trace_cache_all_patterns_fails`.

Router level (`Router::trace_request` over the tower on the real tree models): the full `Vec<Trace>` is unchanged by
`Router::cache(limit)` – any limit, repeated any number of times, in every state reached by a valid history – through
`PathAndQueryMatcher::cache`, `HostMatcher::cache` (own tree, static buckets, the tree's buckets stored back) and the five
list-shaped matchers (`Proofs/RouterTraceCache.lean`); and a valid history with cache calls at any positions has the same
trace forest as the same history without them (`trace_forest_cache_transparent_router_tree`, through the layer-wise
"drop every cached value" map `stripG` of `Proofs/RouterStripSim.lean` / `RouterStripHost.lean`, which commutes with
insert / remove / batch_remove / apply_change_set, absorbs `cache`, and is invisible to `trace`).  `trace_cache_tree`
(Props/C12router) is the corollary about the listed routes only.
-/
import RioModel.Props.C12
import RioModel.Props.C12router
import RioModel.Proofs.RouterTraceCache
import RioModel.Proofs.RouterStripHost
set_option linter.unusedSimpArgs false
set_option linter.unusedVariables false
set_option linter.unusedSectionVars false

namespace Rio.C12
open Rio.Scan Rio.Regex Rio.Tree Rio.C08

section
variable {ι V : Type} [DecidableEq ι]

/-! ### Tree level -/

/-- **trace_cache.**  `RegexTreeMap::cache(limit, level)` (one level, or the level loop for `None`) leaves the whole trace
of every haystack unchanged: same node texts, counts, matched flags, children, leaf values. -/
theorem trace_cache (E : Engine) {ic : Bool} (t : Item ι V) (hinv : Inv ic t) (hne : LeafPatternsNonEmpty t)
    (limit : Nat) (level : Option Nat) {t' : Item ι V} {n : Nat}
    (h : treeCache E t limit level = some (t', n)) (s : List Char) : t'.trace E s = t.trace E s :=
  trace_treeCache E t hinv hne limit level h s

/-- … and so does the recursive `Item::cache(left, cache_level, current_level)` at any position of the recursion, with any
budget and any pair of levels. -/
theorem trace_item_cache (E : Engine) {ic : Bool} (t : Item ι V) (hinv : Inv ic t) (hne : LeafPatternsNonEmpty t)
    (left lvl cur : Nat) {t' : Item ι V} {n : Nat}
    (h : t.cache E left lvl cur = some (t', n)) (s : List Char) : t'.trace E s = t.trace E s :=
  Rio.Tree.trace_item_cache E t hinv hne left lvl cur h s

/-- The trace is a function of the flag-stripped tree: two trees satisfying the invariant that differ only in cached values
(whatever sequence of warm-ups produced them) trace every haystack identically. -/
theorem trace_eq_of_same_strip (E : Engine) {ic : Bool} {t t' : Item ι V} (hs : t'.strip = t.strip)
    (hinv : Inv ic t) (hinv' : Inv ic t') (hne : LeafPatternsNonEmpty t) (s : List Char) :
    t'.trace E s = t.trace E s :=
  trace_eq_of_strip_eq E hs hinv hinv' hne s

/-- **Trace transparency over histories.**  For EVERY history over {insert, remove, retain, get_mut-update, cache} whose
inserted patterns are non-empty, the history and the same history with every `cache` call removed both complete, and the
two final trees have the same trace for every haystack (number, position, limit and level of the warm-ups are invisible in
the trace). -/
theorem trace_cache_transparent (E : Engine) (ic : Bool) (ops : List (Op ι V))
    (hne : ∀ p ∈ insertedPats ops, p ≠ []) :
    ∃ t t0 : Item ι V, treeRun E (.empty ic) ops = some t ∧
      treeRun E (.empty ic) (dropCache ops) = some t0 ∧ ∀ s, t.trace E s = t0.trace E s := by
  obtain ⟨t, t0, h1, h2, hs, hinv, hinv0, _, hc, _, _⟩ := cache_transparent E ic ops hne
  have hP0 : LeafPatternsNonEmpty t0 :=
    (run_reachable E (fun p => p ≠ []) (dropCache ops) (.empty ic : Item ι V) (inv_empty ic) (by simp)
      (by rw [insertedPats_dropCache]; exact hne) t0 h2).2
  exact ⟨t, t0, h1, h2, fun s => trace_eq_of_strip_eq E hs hinv0 hinv hP0 s⟩

end

/-! ### Outside the domain (DESIGN §6-O3): the empty pattern -/

/-- The statement of `trace_cache` without `LeafPatternsNonEmpty`. -/
def TraceCacheAllPatterns : Prop :=
  ∀ (t t' : Item Nat Nat) (limit n : Nat) (level : Option Nat) (s : List Char), Inv false t →
    treeCache stdEngine t limit level = some (t', n) → t'.trace stdEngine s = t.trace stdEngine s

set_option maxRecDepth 100000 in
/-- Raw tree API, pattern `""`: the leaf's `matched` flag for haystack `x` is `true` uncached (the `original.is_empty()`
shortcut) and `false` once `^$` is cached – the same anomaly as `cache_visible_empty_pattern`, seen in the trace. -/
theorem trace_cache_all_patterns_fails : ¬ TraceCacheAllPatterns := by
  intro h
  have hbefore : (emptyPatTree.trace stdEngine "x".toList).matched = true := by decide +kernel
  have hafter : (treeCache stdEngine emptyPatTree 5 none).map
      (fun r => (r.1.trace stdEngine "x".toList).matched) = some false := by decide +kernel
  cases hc : treeCache stdEngine emptyPatTree 5 none with
  | none => rw [hc] at hafter; simp at hafter
  | some r =>
    have h1 := h emptyPatTree r.1 5 r.2 none "x".toList (by decide +kernel) (by rw [hc])
    rw [hc] at hafter
    simp only [Option.map_some, Option.some.injEq] at hafter
    rw [h1, hbefore] at hafter
    exact absurd hafter (by decide)

/-- `trace_cache` is the partial form: the statement holds with the extra hypothesis `LeafPatternsNonEmpty`. -/
theorem trace_cache_partial :
    ∀ (t t' : Item Nat Nat) (limit n : Nat) (level : Option Nat) (s : List Char), Inv false t →
      LeafPatternsNonEmpty t →
      treeCache stdEngine t limit level = some (t', n) → t'.trace stdEngine s = t.trace stdEngine s :=
  fun t _ limit _ level s hinv hne h => trace_cache stdEngine t hinv hne limit level h s

/-! ### Router level -/

section
open Rio.Router
variable (T : TEnv) (Good : List Char → Prop) (hPS : PrefixSound T.engine Good)

/-- `Router::cache(limit)` applied successively with the given limits. -/
def cacheMany (limits : List (Option Nat)) (S : RouterT T) : RouterT T :=
  limits.foldl (fun S l => RouterG.cache (towerTOps T) l S) S

/-- **trace_forest_cache.**  In every state representing a rule list (`RReprT`: reached by a valid history),
`Router::cache(limit)` changes the explain trace of no request: the whole forest – every node's `matched`, `executed`,
`count`, info and children, down to the regex-tree nodes of the host and path matchers – is identical. -/
theorem trace_forest_cache_tree (S : RouterT T) (L : List Route) (h : RReprT T Good hPS S L)
    (limit : Option Nat) (q : Req) :
    RouterG.trace (towerTOps T) (RouterG.cache (towerTOps T) limit S) q = RouterG.trace (towerTOps T) S q :=
  g_trace_cache (towerTLaws T Good hPS) (towerTTCache T Good hPS) S L h.matcher limit q

/-- … any number of times, with any limits. -/
theorem trace_forest_cache_many_tree (S : RouterT T) (L : List Route) (h : RReprT T Good hPS S L)
    (limits : List (Option Nat)) (q : Req) :
    RReprT T Good hPS (cacheMany T limits S) L ∧
    RouterG.trace (towerTOps T) (cacheMany T limits S) q = RouterG.trace (towerTOps T) S q := by
  induction limits generalizing S with
  | nil => exact ⟨h, rfl⟩
  | cons l ls ih =>
    have h' := cache_repr (towerTLaws T Good hPS) S L l h
    obtain ⟨hr, ht⟩ := ih (RouterG.cache (towerTOps T) l S) h'
    exact ⟨hr, by rw [show cacheMany T (l :: ls) S = cacheMany T ls (RouterG.cache (towerTOps T) l S) from rfl, ht,
      trace_forest_cache_tree T Good hPS S L h l q]⟩

include hPS in
/-- **At any point of a valid history**: after any valid history (inserted rules in the domain of C08; the history may
itself contain cache calls), warming the cache any number of times changes neither the explain trace of any request nor
`Router::get_trace`'s result (routes listed, final route). -/
theorem trace_forest_cache_history_tree (h : List Op) (hv : ValidHistory h [])
    (hg : ∀ op ∈ h, ∀ r ∈ Rio.C02.opRoutes op, TreeGood T Good r) (limits : List (Option Nat)) (q : Req) :
    RouterG.trace (towerTOps T) (cacheMany T limits (runOpsG (towerTOps T) h (RouterG.empty _))) q =
        RouterG.trace (towerTOps T) (runOpsG (towerTOps T) h (RouterG.empty _)) q ∧
      RouterG.getTrace (towerTOps T) (cacheMany T limits (runOpsG (towerTOps T) h (RouterG.empty _))) q =
        RouterG.getTrace (towerTOps T) (runOpsG (towerTOps T) h (RouterG.empty _)) q := by
  have hT := towerTSpec T Good hPS
  have hr := Rio.C02.repr_run_tree T Good hPS h (RouterG.empty _) [] (g_empty T.env _ hT) hv hg
  have ht := (trace_forest_cache_many_tree T Good hPS _ _ hr limits q).2
  exact ⟨ht, by unfold RouterG.getTrace; rw [ht]⟩

include hPS in
/-- A cache call at the END of a valid history is invisible in the trace (the instance `limits = [limit]` stated on
histories: `h ++ [cache limit]` vs `h`). -/
theorem trace_forest_cache_last_op_tree (h : List Op) (hv : ValidHistory h [])
    (hg : ∀ op ∈ h, ∀ r ∈ Rio.C02.opRoutes op, TreeGood T Good r) (limit : Option Nat) (q : Req) :
    RouterG.trace (towerTOps T) (runOpsG (towerTOps T) (h ++ [Op.cache limit]) (RouterG.empty _)) q =
      RouterG.trace (towerTOps T) (runOpsG (towerTOps T) h (RouterG.empty _)) q := by
  have := (trace_forest_cache_history_tree T Good hPS h hv hg [limit] q).1
  simpa [runOpsG, cacheMany, Op.runG] using this

include hPS in
/-- A valid history and the same history without its cache calls, run from routers that are equal up to cached regex
values, end in routers that are equal up to cached regex values (`stripG`: every tree of the tower with its compiled values
dropped, bucket by bucket). -/
theorem run_strip_router_tree (h : List Op) : ∀ (S S0 : RouterT T) (L : List Route), RReprT T Good hPS S L →
    ValidHistory h L → (∀ op ∈ h, ∀ r ∈ Rio.C02.opRoutes op, TreeGood T Good r) →
    stripG (towerTLaws T Good hPS) (towerTSLaws T Good hPS) S =
      stripG (towerTLaws T Good hPS) (towerTSLaws T Good hPS) S0 →
    stripG (towerTLaws T Good hPS) (towerTSLaws T Good hPS) (runOpsG (towerTOps T) h S) =
      stripG (towerTLaws T Good hPS) (towerTSLaws T Good hPS) (runOpsG (towerTOps T) (dropCacheOps h) S0) := by
  induction h with
  | nil => intro S S0 L _ _ _ hs; exact hs
  | cons op h ih =>
    intro S S0 L hr hv hg hs
    have hr' := Rio.C02.repr_op_tree T Good hPS S L op hr hv.1 (hg op (List.mem_cons_self ..))
    have hg' : ∀ op' ∈ h, ∀ r ∈ Rio.C02.opRoutes op', TreeGood T Good r :=
      fun op' hop' => hg op' (List.mem_cons_of_mem _ hop')
    cases op with
    | cache l =>
      have : dropCacheOps (Router.Op.cache l :: h) = dropCacheOps h := by simp [dropCacheOps]
      rw [this]
      refine ih _ S0 _ hr' hv.2 hg' ?_
      show stripG _ _ (RouterG.cache (towerTOps T) l S) = _
      rw [stripG_cache _ _ S L hr.matcher l]; exact hs
    | insert r =>
      have : dropCacheOps (Router.Op.insert r :: h) = Router.Op.insert r :: dropCacheOps h := by simp [dropCacheOps]
      rw [this]
      refine ih _ ((Router.Op.insert r).runG (towerTOps T) S0) _ hr' hv.2 hg' ?_
      rw [stripG_op _ _ _ (by intro l; simp), stripG_op _ _ _ (by intro l; simp), hs]
    | remove id =>
      have : dropCacheOps (Router.Op.remove id :: h) = Router.Op.remove id :: dropCacheOps h := by simp [dropCacheOps]
      rw [this]
      refine ih _ ((Router.Op.remove id).runG (towerTOps T) S0) _ hr' hv.2 hg' ?_
      rw [stripG_op _ _ _ (by intro l; simp), stripG_op _ _ _ (by intro l; simp), hs]
    | batchRemove ids =>
      have : dropCacheOps (Router.Op.batchRemove ids :: h) = Router.Op.batchRemove ids :: dropCacheOps h := by simp [dropCacheOps]
      rw [this]
      refine ih _ ((Router.Op.batchRemove ids).runG (towerTOps T) S0) _ hr' hv.2 hg' ?_
      rw [stripG_op _ _ _ (by intro l; simp), stripG_op _ _ _ (by intro l; simp), hs]
    | changeSet a u d =>
      have : dropCacheOps (Router.Op.changeSet a u d :: h) = Router.Op.changeSet a u d :: dropCacheOps h := by simp [dropCacheOps]
      rw [this]
      refine ih _ ((Router.Op.changeSet a u d).runG (towerTOps T) S0) _ hr' hv.2 hg' ?_
      rw [stripG_op _ _ _ (by intro l; simp), stripG_op _ _ _ (by intro l; simp), hs]

theorem validHistory_dropCacheOps : ∀ (h : List Op) (L : List Route), ValidHistory h L → ValidHistory (dropCacheOps h) L := by
  intro h
  induction h with
  | nil => intro L _; trivial
  | cons op h ih =>
    intro L hv
    cases op with
    | cache n => exact ih _ hv.2
    | insert r => exact ⟨hv.1, ih _ hv.2⟩
    | remove id => exact ⟨hv.1, ih _ hv.2⟩
    | batchRemove ids => exact ⟨hv.1, ih _ hv.2⟩
    | changeSet a u d => exact ⟨hv.1, ih _ hv.2⟩

include hPS in
/-- **Trace transparency along every history (router level).**  A valid history (inserted rules in the domain of C08) with
`cache` calls of any limits at any positions, any number of them, and the same history without them lead to routers with
the SAME explain-trace forest for every request – every node, not only the listed routes – and the same `get_trace` result.
(The cache-free twin of `cache_transparent_router_tree`, which states this for `match_request` up to order.) -/
theorem trace_forest_cache_transparent_router_tree (h : List Op) (hv : ValidHistory h [])
    (hg : ∀ op ∈ h, ∀ r ∈ Rio.C02.opRoutes op, TreeGood T Good r) (q : Req) :
    RouterG.trace (towerTOps T) (runOpsG (towerTOps T) h (RouterG.empty _)) q =
        RouterG.trace (towerTOps T) (runOpsG (towerTOps T) (dropCacheOps h) (RouterG.empty _)) q ∧
      RouterG.getTrace (towerTOps T) (runOpsG (towerTOps T) h (RouterG.empty _)) q =
        RouterG.getTrace (towerTOps T) (runOpsG (towerTOps T) (dropCacheOps h) (RouterG.empty _)) q := by
  have hT := towerTSpec T Good hPS
  have hg0 : ∀ op ∈ dropCacheOps h, ∀ r ∈ Rio.C02.opRoutes op, TreeGood T Good r :=
    fun op hop => hg op (List.mem_filter.mp hop).1
  have hr1 := Rio.C02.repr_run_tree T Good hPS h (RouterG.empty _) [] (g_empty T.env _ hT) hv hg
  have hr2 := Rio.C02.repr_run_tree T Good hPS (dropCacheOps h) (RouterG.empty _) []
    (g_empty T.env _ hT) (validHistory_dropCacheOps h [] hv) hg0
  have hs := run_strip_router_tree T Good hPS h (RouterG.empty _) (RouterG.empty _) [] (g_empty T.env _ hT) hv hg rfl
  have hm := congrArg RouterG.matcher hs
  have ht : RouterG.trace (towerTOps T) (runOpsG (towerTOps T) h (RouterG.empty _)) q =
      RouterG.trace (towerTOps T) (runOpsG (towerTOps T) (dropCacheOps h) (RouterG.empty _)) q := by
    unfold RouterG.trace
    rw [← (towerTSLaws T Good hPS).strip_trace _ _ q hr1.matcher,
      ← (towerTSLaws T Good hPS).strip_trace _ _ q hr2.matcher]
    exact congrArg (fun m => (towerTOps T).trace m q) hm
  exact ⟨ht, by unfold RouterG.getTrace; rw [ht]⟩

end

/-! ### Non-vacuity -/

mutual
/-- pre-order listing of a tree trace, one list per node: length of the regex text, count, matched (1/0), number of
children, then the values -/
def flatTrace : Tree.Trace Nat → List (List Nat)
  | .mk r c m cs vs => (r.length :: c :: (if m then 1 else 0) :: cs.length :: vs) :: flatTraceL cs
def flatTraceL : List (Tree.Trace Nat) → List (List Nat)
  | [] => []
  | t :: ts => flatTrace t ++ flatTraceL ts
end

set_option maxRecDepth 100000 in
/-- `demoTree` (three patterns, case-insensitive: root node `/` over the leaf `/b(?:[0-9]+)` and the inner node `/a(?:x)`
with its two leaves) satisfies the hypotheses of `trace_cache`; `cache(2, None)` compiles 2 of its 5 regexes, so compiled and
uncompiled nodes coexist; the trace of `/Ax` is a non-trivial forest of 5 nodes: root matched with two children, the `/b…`
leaf not matched, the inner node matched with its two leaves, of which `/a(?:x)` matched and `/a(?:x)/b` did not. -/
example : Inv true demoTree ∧ (demoTree.contents.all fun e => !e.pat.isEmpty) = true ∧
    demoTree.cachedLen = 0 ∧
    (treeCache stdEngine demoTree 2 none).map (fun r => r.1.cachedLen) = some 2 ∧
    (treeCache stdEngine demoTree 2 none).map (fun r => flatTrace (r.1.trace stdEngine "/Ax".toList)) =
      some (flatTrace (demoTree.trace stdEngine "/Ax".toList)) ∧
    flatTrace (demoTree.trace stdEngine "/Ax".toList) =
      [[1, 3, 1, 2], [12, 1, 0, 0, 30], [7, 2, 1, 2], [9, 1, 0, 0, 20], [7, 1, 1, 0, 11]] := by
  decide +kernel

section
open Rio.Router

/-- insert the rule of `Props/C12router` (marker in host and path), then a warm-up with budget 1: the host tree's leaf is
compiled, the path tree's leaf (inside the host bucket) is not -/
def exHist : List Op := [.insert exR, .cache (some 1)]

example : ValidHistory exHist [] := by
  simp [exHist, ValidHistory, Op.Valid, Op.live]

example : ∀ op ∈ exHist, ∀ r ∈ Rio.C02.opRoutes op, TreeGood exT GoodPat r := by
  intro op hop r hr
  simp only [exHist, List.mem_cons, List.mem_nil_iff, or_false] at hop
  rcases hop with rfl | rfl
  · simp only [Rio.C02.opRoutes, List.mem_singleton] at hr; subst hr
    refine ⟨?_, ?_⟩
    · intro p hp
      have : p = [.lit '/', .lit 'A', .lit '/', .plus .digit] := by
        simp [dynOf, exR] at hp; exact hp.symm
      subst this
      exact ⟨(goodPatB_iff _).1 (by decide +kernel), by decide +kernel⟩
    · intro p hp
      have : p = [.plus .lower, .lit '.', .lit 'C', .lit 'o', .lit 'm'] := by
        simp [exR] at hp; exact hp.symm
      subst this
      exact ⟨(goodPatB_iff _).1 (by decide +kernel), by decide +kernel⟩
  · simp [Rio.C02.opRoutes] at hr

/-- compiled regexes of the host tree, and of the path tree inside each host bucket -/
def exFlags (S : RouterT exT) : Nat × List Nat :=
  (S.matcher.any.tree.cachedLen,
   S.matcher.any.tree.contents.map (fun e => e.val.any.any.any.any.tree.cachedLen))

set_option maxRecDepth 100000 in
/-- After `exHist` a compiled regex (host tree) and an uncompiled one (path tree) coexist; a further `cache(Some(5))` really
changes the state (it compiles the path leaf); the trace it leaves unchanged is a non-trivial one (it lists the rule). -/
example :
    exFlags (runOpsG (towerTOps exT) exHist (RouterG.empty _)) = (1, [0]) ∧
    exFlags (RouterG.cache (towerTOps exT) (some 5) (runOpsG (towerTOps exT) exHist (RouterG.empty _))) = (1, [1]) ∧
    (routesOfList (RouterG.trace (towerTOps exT)
      (RouterG.cache (towerTOps exT) (some 5) (runOpsG (towerTOps exT) exHist (RouterG.empty _))) exQ)).map (·.id)
        = ["r"] := by
  decide +kernel

end

end Rio.C12
