/-
C19, part 3 (W10): the theorems of Props/C19b applied to the VERY instance the driver runs.

`Model/LoopAnalysisTable2.lean` instantiates the abstract `Pipe` / `View` of `Model/LoopAnalysis.lean` from the table of
observed per-example pipeline results (case field `an2`) and `Drivers/C19.lean` runs the model's `testExamples`,
`unitIds`, `explain`, `computeImpacts` on it.  Here:

1. that instance satisfies the hypotheses the C19b theorems need – `PermInv` (`table_permInv`), `IdOrder`
   (`table_idOrder`: the byte order of `String`), `View.WF` (`table_wf`, for a table with distinct rule ids – what the
   driver checks before it runs); a router algebra over the table (`tableAlg`) satisfies `AlgLaws` (`tableLaws`), so
   `*_project_equals_standalone` and `rule_order_independent` hold of it (`table_project_equals_standalone`,
   `table_rule_order_independent`) – non-vacuity of every hypothesis of part 2 on the driven instance;
2. the order in which `router.routes()` listed the rules in the table does not matter (`table_routes_order_irrelevant`:
   the harness compares the table up to that order);
3. closed forms: the walker inside the analyses IS `Rio.Loop.compute` on the step table of the example
   (`table_loopStep`, `explain_loop_is_compute`, `table_explain_loop`, `table_explain_loop_eq_explainLoop` – the chain in
   `m.an2.explain[i]` is the chain W8's driver prints in `m.loops[i]`), so the walker theorems of part 1 hold of every chain an
   analysis reports (`table_explain_loop_bounded`); explain fails exactly on an unbuildable request, with the prefixed message
   (`table_explain_error`); impact reports exactly one entry per example, in example order (`impact_examples_in_order`,
   `impact_no_examples`, `table_impact_entries`).
-/
import RioModel.Model.LoopAnalysisTable2
import RioModel.Props.C19
import RioModel.Props.C19b

set_option linter.unusedSimpArgs false
set_option linter.unusedSectionVars false
set_option linter.unusedVariables false

namespace Rio.C19
open Rio.Analysis Rio.Loop
open Rio.Analysis.Table2 (TEx TRule runTest runUnit runExplain runImpact rowsOf rowsOfRules)

/-! ### 1. The hypotheses of part 2 hold of the table instance -/

/-- `PermInv`: the table pipeline does not look at the ORDER of the matched routes (it does not look at them at all:
what the real pipeline computed from them is the observed entry). -/
theorem table_permInv : PermInv Table2.pipe :=
  ⟨fun _ _ _ _ _ _ => rfl, fun _ _ _ _ _ _ => rfl, fun _ _ _ _ _ _ => rfl, fun _ _ _ _ _ _ => rfl⟩

/-- `IdOrder`: `a.cmp(b) != Greater` on `String` ids is a total order. -/
theorem table_idOrder : IdOrder Table2.pipe where
  total a b := by
    show (!(decide (b < a)) || !(decide (a < b))) = true
    by_cases h : b < a
    · have : ¬ a < b := fun h' => String.lt_irrefl _ (String.lt_trans h h')
      simp [h, this]
    · simp [h]
  trans a b c h1 h2 := by
    have h1' : ¬ b < a := by simpa [Table2.pipe] using h1
    have h2' : ¬ c < b := by simpa [Table2.pipe] using h2
    show (!(decide (c < a))) = true
    have : ¬ c < a := by
      rw [String.not_lt] at *
      exact String.le_trans h1' h2'
    simp [this]
  antisymm a b h1 h2 := by
    have h1' : ¬ b < a := by simpa [Table2.pipe] using h1
    have h2' : ¬ a < b := by simpa [Table2.pipe] using h2
    rw [String.not_lt] at h1' h2'
    exact String.le_antisymm h1' h2'

/-- `View.WF`: a table whose rule ids are distinct (keys of `router.routes()`; checked by the driver). -/
theorem table_wf (rules : List TRule) (h : (rules.map (·.id)).Nodup) : View.WF Table2.pipe (Table2.view rules) :=
  ⟨h, fun _ => by simp [NodupIds, Table2.view]⟩

/-- The router algebra of the table instance: a router is the list of its rules; matching and tracing are answered
by the table (`Table2.view`). -/
def tableAlg : Alg (List TRule) TRule Table2.Ex Unit (List String) String where
  empty _ := []
  insert r S := r :: S
  remove id S := S.filter (fun r => decide (Table2.pipe.ruleId r ≠ id))
  applyChangeSet a u d S := liveChangeSet Table2.pipe.ruleId a u d S
  view S := Table2.view S

/-- `tableAlg` satisfies the representation laws of part 2. -/
def tableLaws : AlgLaws tableAlg Table2.pipe.ruleId (fun t : List String => t) where
  Repr S _ L := S = L ∧ NodupIds Table2.pipe.ruleId L
  repr_empty c := ⟨rfl, by simp [NodupIds]⟩
  repr_insert S c L r h hf := by
    obtain ⟨rfl, hn⟩ := h
    refine ⟨rfl, ?_⟩
    unfold NodupIds
    rw [List.map_cons, List.nodup_cons]
    exact ⟨hf, hn⟩
  repr_remove S c L id h := by
    obtain ⟨rfl, hn⟩ := h
    exact ⟨rfl, NodupIds.filter hn _⟩
  repr_changeSet S c L D h hv := by
    obtain ⟨rfl, hn⟩ := h
    exact ⟨rfl, nodupIds_live Table2.pipe.ruleId D S hn hv⟩
  nodup S c L h := h.2
  config S c L h := rfl
  routes S c L h := by obtain ⟨rfl, _⟩ := h; exact List.Perm.refl _
  match_nodup S c L h q := by simp [NodupIds, tableAlg, Table2.view]
  match_sub S c L h q x hx := by simp [tableAlg, Table2.view] at hx
  match_perm S S' c L L' h h' hm q := List.Perm.refl _
  trace_canon S S' c L L' h h' hm q := rfl

/-- **Project ≡ stand-alone on the driven instance**: the four theorems of part 2 instantiated with `tableAlg`. -/
theorem table_project_equals_standalone (B : List TRule) (D : ChangeSet TRule String) (rules : List TRule)
    (hb : NodupIds Table2.pipe.ruleId B) (hv : ValidChangeSet Table2.pipe.ruleId D B)
    (hn : NodupIds Table2.pipe.ruleId rules) (hr : ∀ x, x ∈ rules ↔ x ∈ D.live Table2.pipe.ruleId B)
    (maxHops : Nat) (dom : Table2.Dom) :
    testExamplesProject tableAlg Table2.pipe D maxHops dom B =
      testExamplesStandalone tableAlg Table2.pipe () rules maxHops dom ∧
    (∀ id, lookupA id (unitIdsProject tableAlg Table2.pipe D B) =
      lookupA id (unitIdsStandalone tableAlg Table2.pipe () rules)) ∧
    (∀ e, (explainProject tableAlg Table2.pipe D maxHops dom e B).map (ExplainOut.project fun t => t) =
      (explainStandalone tableAlg Table2.pipe () rules maxHops dom e).map (ExplainOut.project fun t => t)) ∧
    (∀ I : ImpactSpec TRule Table2.Dom,
      (impactProject tableAlg Table2.pipe D I B).map (Impact.project fun t => t) =
        (impactStandalone tableAlg Table2.pipe () rules I).map (Impact.project fun t => t)) :=
  ⟨test_examples_project_equals_standalone tableLaws table_idOrder table_permInv B () B D rules ⟨rfl, hb⟩ hv hn hr
     maxHops dom,
   (unit_ids_project_equals_standalone tableLaws table_permInv B () B D rules ⟨rfl, hb⟩ hv hn hr).2,
   fun e => explain_project_equals_standalone tableLaws table_permInv B () B D rules ⟨rfl, hb⟩ hv hn hr maxHops dom e,
   fun I => impact_project_equals_standalone tableLaws table_permInv B () B D rules ⟨rfl, hb⟩ hv hn hr I⟩

/-- **Rule-order independence on the driven instance** (`rule_order_independent` with `tableAlg`). -/
theorem table_rule_order_independent (rules rules' : List TRule) (hn : NodupIds Table2.pipe.ruleId rules)
    (hp : rules.Perm rules') (maxHops : Nat) (dom : Table2.Dom) :
    testExamplesStandalone tableAlg Table2.pipe () rules maxHops dom =
      testExamplesStandalone tableAlg Table2.pipe () rules' maxHops dom ∧
    (∀ id, lookupA id (unitIdsStandalone tableAlg Table2.pipe () rules) =
      lookupA id (unitIdsStandalone tableAlg Table2.pipe () rules')) :=
  let h := rule_order_independent tableLaws table_idOrder table_permInv () rules rules' hn hp maxHops dom
  ⟨h.1, h.2.1⟩

/-! ### 2. The order of `router.routes()` in the table is irrelevant -/

theorem tableExt_perm {d d' : List Row} (h : d.Perm d') : tableExt d = tableExt d' := by
  funext u
  unfold tableExt
  rw [Bool.eq_iff_iff]
  simp only [List.any_eq_true]
  constructor
  · rintro ⟨r, hr, hx⟩; exact ⟨r, h.mem_iff.mp hr, hx⟩
  · rintro ⟨r, hr, hx⟩; exact ⟨r, h.mem_iff.mpr hr, hx⟩

section
variable {Rule Req Cfg Tr Ex Id UId UT Core U M Dom : Type}
variable [DecidableEq Id] [DecidableEq U] [DecidableEq M]
variable (P : Pipe Rule Req Cfg Ex Id UId UT Core U M Dom)

/-- the analyses read the project domains only through `P.ext` -/
theorem loop_congr_dom (S : View Rule Req Cfg Tr) (maxHops : Nat) (dom dom' : Dom) (h : P.ext dom = P.ext dom') :
    loop P S maxHops dom = loop P S maxHops dom' := by
  funext e
  unfold loop
  rw [h]

theorem testExamples_congr_dom (S : View Rule Req Cfg Tr) (maxHops : Nat) (dom dom' : Dom)
    (h : P.ext dom = P.ext dom') : testExamples P S maxHops dom = testExamples P S maxHops dom' := by
  unfold testExamples
  rw [loop_congr_dom P S maxHops dom dom' h]

end

/-- **The table is compared up to the order of its rules, rightly**: two tables listing the same rules (distinct ids)
in a different order give the same test-examples output (whole `TestExamplesOutput`, walker included) and the same
unit-ids map. -/
theorem table_routes_order_irrelevant (rules rules' : List TRule) (hn : (rules.map (·.id)).Nodup)
    (hp : rules.Perm rules') (maxHops : Nat) :
    runTest rules maxHops = runTest rules' maxHops ∧
    ∀ id, lookupA id (runUnit rules) = lookupA id (runUnit rules') := by
  have hE : Equiv (fun t : List String => t) (Table2.view rules) (Table2.view rules') :=
    ⟨rfl, hp, fun _ => List.Perm.refl _, fun _ => rfl⟩
  have hW := table_wf rules hn
  refine ⟨?_, (unit_ids_extensional table_permInv hE hW).2.2⟩
  unfold runTest
  rw [test_examples_extensional table_idOrder table_permInv hE hW maxHops (rowsOfRules rules)]
  apply testExamples_congr_dom
  show tableExt (rowsOfRules rules) = tableExt (rowsOfRules rules')
  exact tableExt_perm (by unfold rowsOfRules; exact hp.flatMap_right _)

/-! ### 3. Closed forms -/

section
variable {Rule Req Cfg Tr Ex Id UId UT Core U M Dom : Type}
variable [DecidableEq Id] [DecidableEq U] [DecidableEq M]
variable (P : Pipe Rule Req Cfg Ex Id UId UT Core U M Dom)

/-- the `example` field of an `Impact` -/
def Impact.example : Impact Ex Core Tr U M → Ex
  | .err e _ => e
  | .ok e _ _ _ => e

/-- **impact reports exactly one entry per example, in example order** (errored examples included). -/
theorem impact_examples_in_order (S T : View Rule Req Cfg Tr) (exs : List Ex) (withLoop : Bool) (maxHops : Nat)
    (dom : Dom) : (computeImpacts P S T (some exs) withLoop maxHops dom).map Impact.example = exs := by
  simp only [computeImpacts, List.map_map]
  induction exs with
  | nil => rfl
  | cons e t ih =>
    rw [List.map_cons, ih]
    congr 1
    simp only [Function.comp]
    cases P.fromExample S.config e <;> rfl

/-- a rule without examples has no impact -/
theorem impact_no_examples (S T : View Rule Req Cfg Tr) (withLoop : Bool) (maxHops : Nat) (dom : Dom) :
    computeImpacts P S T none withLoop maxHops dom = [] := rfl

/-- **explain's `redirection_loop` is `Rio.Loop.compute`** run with the step function of the analysed router
(`loopStep`), from `(example.url, example.method.unwrap_or("GET"))`: hops and error of its final state. -/
theorem explain_loop_is_compute (S : View Rule Req Cfg Tr) (maxHops : Nat) (dom : Dom) (e : Ex)
    (o : ExplainOut Ex Core Tr U M) (h : explain P S maxHops dom e = .ok o) :
    o.redirectionLoop = some
      ((compute (loopStep P S e) (P.ext dom) P.get maxHops (P.url e) ((P.method e).getD P.get)).hops,
       (compute (loopStep P S e) (P.ext dom) P.get maxHops (P.url e) ((P.method e).getD P.get)).error) := by
  unfold explain at h
  cases hq : P.fromExample S.config e with
  | error msg => simp [hq] at h
  | ok q =>
    simp only [hq] at h
    cases h
    rfl

end

/-- **The walker inside the analyses, on the table, is the table's step function**: one turn of the loop for the
entry `b` at `(u, m)` is the row of `b`'s step table for `(u, m)` (W8's `tableStep`; no row = request error). -/
theorem table_loopStep (rules : List TRule) (b : TEx) :
    loopStep Table2.pipe (Table2.view rules) b.ex = tableStep b.rows := by
  funext u m
  simp only [loopStep, Table2.pipe, TEx.ex, Table2.view]
  cases h : tableStep b.rows u m <;> simp [h]

/-- the chain of an entry on the table: `Rio.Loop.compute` on its step table -/
def tableChain (b : TEx) (dom : Table2.Dom) (maxHops : Nat) : LoopOut String String :=
  ((compute (tableStep b.rows) (tableExt dom) Rio.Consts.loopRewriteMethod maxHops b.url
      (b.method.getD Rio.Consts.loopRewriteMethod)).hops,
   (compute (tableStep b.rows) (tableExt dom) Rio.Consts.loopRewriteMethod maxHops b.url
      (b.method.getD Rio.Consts.loopRewriteMethod)).error)

theorem table_loop (rules : List TRule) (b : TEx) (dom : Table2.Dom) (maxHops : Nat) :
    loop Table2.pipe (Table2.view rules) maxHops dom b.ex = tableChain b dom maxHops := by
  unfold loop
  rw [table_loopStep]
  rfl

/-- **explain on the table**: an error exactly when the request of the example cannot be built, with the message
`Invalid example: {e}`; otherwise the entry's observed core and trace and the chain `compute` gives on its step table. -/
theorem table_explain (rules : List TRule) (maxHops : Nat) (b : TEx) :
    runExplain rules maxHops b =
      match b.reqErr with
      | some m => .error ("Invalid example: " ++ m)
      | none => .ok ⟨b.ex, b.core, b.traceS, some (tableChain b b.rows maxHops)⟩ := by
  unfold runExplain explain
  rw [table_loop]
  cases h : b.reqErr <;> simp [Table2.pipe, TEx.ex, h, Table2.view]

theorem table_explain_error (rules : List TRule) (maxHops : Nat) (b : TEx) (msg : String) :
    runExplain rules maxHops b = .error msg ↔ ∃ m, b.reqErr = some m ∧ msg = "Invalid example: " ++ m := by
  rw [table_explain]
  cases h : b.reqErr with
  | none => simp
  | some m => simp [eq_comm]

/-- the chain explain reports on the table is `compute` on the step table of the probe -/
theorem table_explain_loop (rules : List TRule) (maxHops : Nat) (b : TEx)
    (o : ExplainOut Table2.Ex Lean.Json (List String) String String) (h : runExplain rules maxHops b = .ok o) :
    o.redirectionLoop = some (tableChain b b.rows maxHops) := by
  rw [table_explain] at h
  cases hb : b.reqErr with
  | some m => simp [hb] at h
  | none =>
    simp only [hb] at h
    cases h
    rfl

/-- **… and it is the chain W8's part of the driver prints for the probe** (`m.loops[i]` = `explainLoop` on
`tables[i]`), for a table whose first row agrees with the observed `req` of the entry. -/
theorem table_explain_loop_eq_explainLoop (rules : List TRule) (maxHops : Nat) (b : TEx)
    (hc : b.reqErr.isSome = true ↔ tableStep b.rows b.url (b.method.getD Rio.Consts.loopRewriteMethod) = .reqErr) :
    (match runExplain rules maxHops b with
     | .error _ => none
     | .ok o => o.redirectionLoop) =
      (explainLoop b.rows maxHops b.url (b.method.getD Rio.Consts.loopRewriteMethod)).map
        fun st => (st.hops, st.error) := by
  rw [table_explain]
  unfold explainLoop
  cases hb : b.reqErr with
  | some m =>
    have := hc.mp (by simp [hb])
    simp [this]
  | none =>
    have hne : tableStep b.rows b.url (b.method.getD Rio.Consts.loopRewriteMethod) ≠ .reqErr := by
      intro h
      have := hc.mpr h
      simp [hb] at this
    cases hs : tableStep b.rows b.url (b.method.getD Rio.Consts.loopRewriteMethod) with
    | reqErr => exact absurd hs hne
    | resp s l => simp [tableChain]

/-- the walker theorems of part 1 hold of the chains the analyses report; here the bound -/
theorem table_explain_loop_bounded (rules : List TRule) (maxHops : Nat) (b : TEx)
    (o : ExplainOut Table2.Ex Lean.Json (List String) String String) (h : runExplain rules maxHops b = .ok o) :
    ∃ l, o.redirectionLoop = some l ∧ 1 ≤ l.1.length ∧ l.1.length ≤ maxHops + 1 :=
  ⟨_, table_explain_loop rules maxHops b o h, loop_bounded _ _ _ _ _ _⟩

/-- **test-examples on the table**: the chain attached to a reported failure is `compute` on the step table of that
example (hop limit of the case, project domains = the rows of the rule table). -/
theorem table_test_example_chain (rules : List TRule) (maxHops : Nat) (r : TRule) (b : TEx)
    (f : FailedEx Table2.Ex String String String String)
    (h : outcome Table2.pipe (Table2.view rules) maxHops (rowsOfRules rules) r b.ex = .failed f) :
    f.ex = b.ex ∧
    (f.redirectionLoop = none ∨ f.redirectionLoop = some (tableChain b (rowsOfRules rules) maxHops)) := by
  obtain ⟨_, _, _, _, hex, _, _, _, hl⟩ := test_example_reports_pipeline _ maxHops _ r b.ex f h
  rw [table_loop] at hl
  exact ⟨hex, hl⟩

/-- **impact on the table**: one entry per example in example order; an unbuildable request gives
`Cannot create query from example: {e}`, otherwise the entry's observed core, the trace of the TRACE-UNIQUE router, and
the chain iff `with_redirection_loop`. -/
theorem table_impact_entries (bs : List TEx) (withLoop : Bool) (maxHops : Nat) :
    runImpact (some bs) withLoop maxHops =
      bs.map fun b =>
        match b.reqErr with
        | some m => Impact.err b.ex ("Cannot create query from example: " ++ m)
        | none => Impact.ok b.ex b.core b.traceT
                    (if withLoop then some (tableChain b (rowsOf bs) maxHops) else none) := by
  unfold runImpact computeImpacts
  simp only [Option.map_some, List.map_map, Option.getD_some]
  apply List.map_congr_left
  intro b _
  simp only [Function.comp, table_loop]
  cases h : b.reqErr <;> simp [Table2.pipe, TEx.ex, h, Table2.view, Table2.viewT]

/-! ### Non-vacuity: a concrete table (two rules, a two-hop cycle) -/

section
private def r1 : Row := ⟨"/a", "GET", .resp 302 (some "/b"), false⟩
private def r2 : Row := ⟨"/b", "GET", .resp 302 (some "/a"), false⟩
private def e1 : TEx :=
  ⟨0, "/a", none, some ["u1"], true, none, ["r1"], ["u1"], ["u1"], Lean.Json.null, ["r1"], [], [r1, r2]⟩
private def e2 : TEx :=
  ⟨1, "/a", none, some ["u1"], true, some "bad url", [], [], [], Lean.Json.null, [], [], [⟨"/a", "GET", .reqErr, false⟩]⟩
private def xrules : List TRule := [⟨"r2", none⟩, ⟨"r1", some [e1, e2]⟩]

example : (xrules.map (·.id)).Nodup := by simp [xrules]
example : View.WF Table2.pipe (Table2.view xrules) := table_wf xrules (by simp [xrules])
example : e1.reqErr.isSome = true ↔ tableStep e1.rows e1.url (e1.method.getD Rio.Consts.loopRewriteMethod) = .reqErr := by
  simp [e1, tableStep, r1, r2, Rio.Consts.loopRewriteMethod]
example : ∃ m, runExplain xrules 5 e2 = .error ("Invalid example: " ++ m) := ⟨"bad url", by rw [table_explain]; rfl⟩
end

end Rio.C19
