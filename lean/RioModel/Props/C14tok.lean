/-
C14 on the tokenizer model: compressed ≡ decompressed for html and text filters, wherever the decoder flushes, with no
tokenizer hypothesis and no no-failure hypothesis (valid UTF-8 body, valid values).
-/
import RioModel.Props.C14
import RioModel.Props.C03tok
set_option linter.unusedSimpArgs false
set_option linter.unusedVariables false

namespace Rio.C14
open Rio.Filter Rio.C03

variable {D E : Type}

/-- **Compressed ≡ decompressed, final form.**  Under the two codec laws, for a stream that decodes to a valid UTF-8 body
`b`, fresh inner html / text stages with valid values (`Down`, `StageInit`: as `FilterBodyAction::new` builds them), and
every partition `cs` of the compressed stream: the output of `decode :: inner ++ [encode]` is a complete valid stream
that decodes to the output of the inner filters on `b`.  NO hypothesis on the decoder's flush points (since fe7eac6 the
inner chain is chunk-invariant at every cut: `Rio.C03.chunk_invariant_final`). -/
theorem compressed_equiv_final (ev : Bytes → Bytes → Bool) (codec : Codec D E) {d0 : D} {e0 : E}
    {decode : Bytes → Option Bytes} (laws : CodecLaws codec d0 e0 decode)
    (inner : List (Stage D E)) (hdown : Down inner) (hinit : ∀ st ∈ inner, StageInit htmlTokenize st)
    (z b : Bytes) (hz : decode z = some b) (hvb : V b)
    (cs : List Bytes) (hcs : cs.flatten = z) :
    decode (({ items := .decode d0 :: inner ++ [.encode e0] } : Chain D E).run htmlTokenize ev codec cs) =
      some (({ items := inner } : Chain D E).run htmlTokenize ev codec [b]) := by
  have hplain : AllPlain inner := by
    intro st hst
    have := hdown st hst
    cases st <;> simp_all [DStage, isPlain]
  apply compressed_equiv_html htmlTokenize ev codec laws htmlTokenize_losslessS htmlTokenize_restartLaw inner hplain hinit
    z b hz cs hcs
  · intro ps' pe' hd
    have hstream : V ((nonEmpty ps').flatten ++ (optB pe').getD []) := by
      obtain ⟨ps2, pe2, k1, k2⟩ := laws.dec z b hz cs hcs
      rw [hd] at k1
      injection k1 with k1
      injection k1 with k1a k1b
      subst k1a k1b
      rw [nonEmpty_flatten, optB_getD, k2]
      exact hvb
    obtain ⟨out, ho, _⟩ := runG_ok htmlTokenize_losslessAll Rio.C04.tokenizer_tokValid ev codec inner _ _ hdown hstream
    rw [ho]; simp
  · exact no_call_fails ev codec inner hdown [b] (by simpa using hvb)

/-- the inner stages `FilterBodyAction::new` builds satisfy the two hypotheses on `inner` (values valid UTF-8) -/
theorem new_inner_ready (fs : List BodyFilter) (ct : Option String) (hval : ∀ f ∈ fs, V (Rio.C04.filterValue f)) :
    Down (fs.filterMap fun f => (Stage.new f ct : Option (Stage Unit Unit))) ∧
    ∀ st ∈ (fs.filterMap fun f => (Stage.new f ct : Option (Stage Unit Unit))), StageInit htmlTokenize st := by
  constructor
  · intro st hst
    simp only [List.mem_filterMap] at hst
    obtain ⟨f, hf, hnew⟩ := hst
    exact Rio.C04.stage_new_down f ct st (hval f hf) hnew
  · intro st hst
    simp only [List.mem_filterMap] at hst
    obtain ⟨f, hf, hnew⟩ := hst
    exact stage_new_init htmlTokenize htmlStream_nil_nil f ct st hnew

end Rio.C14
