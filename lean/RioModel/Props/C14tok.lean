/-
C14 on the tokenizer model: compressed ≡ decompressed for html and text filters at syntactically safe flush points,
with no tokenizer hypothesis and no no-failure hypothesis (valid UTF-8 body, valid values).
-/
import RioModel.Props.C14
import RioModel.Props.C03tok
set_option linter.unusedSimpArgs false
set_option linter.unusedVariables false

namespace Rio.C14
open Rio.Filter Rio.C03

variable {D E : Type}

/-- **Compressed ≡ decompressed, final form.**  Under the two codec laws, for a stream that decodes to a non-empty
valid UTF-8 body `b`, inner html / text stages with valid values (`Down`), and every partition `cs` of the compressed
stream: if the decoder's flush points are syntactically safe for every inner html stage (`synSafeGB` on the decoder's
non-empty outputs, and on `b` as one chunk), the output of `decode :: inner ++ [encode]` is a complete valid stream that
decodes to the output of the inner filters on `b`. -/
theorem compressed_equiv_final (ev : Bytes → Bytes → Bool) (codec : Codec D E) {d0 : D} {e0 : E}
    {decode : Bytes → Option Bytes} (laws : CodecLaws codec d0 e0 decode)
    (inner : List (Stage D E)) (hdown : Down inner) (z b : Bytes) (hz : decode z = some b) (hb : b ≠ []) (hvb : V b)
    (cs : List Bytes) (hcs : cs.flatten = z)
    (hsafe : ∀ ps pe, decRun codec d0 cs = some (ps, pe) → synSafeGB ev codec inner (nonEmpty ps) (optB pe) = true)
    (hsafe1 : synSafeGB ev codec inner [b] none = true) :
    decode (({ items := .decode d0 :: inner ++ [.encode e0] } : Chain D E).run htmlTokenize ev codec cs) =
      some (({ items := inner } : Chain D E).run htmlTokenize ev codec [b]) := by
  have hplain : AllPlain inner := by
    intro st hst
    have := hdown st hst
    cases st <;> simp_all [DStage, isPlain]
  obtain ⟨ps, pe, h1, h2, _⟩ := compressed_equiv htmlTokenize ev codec laws inner z b hz cs hcs
  apply compressed_equiv_safe htmlTokenize ev codec laws inner hplain z b hz hb cs hcs
  · intro ps' pe' hd
    have hstream : V ((nonEmpty ps').flatten ++ (optB pe').getD []) := by
      obtain ⟨ps2, pe2, k1, k2⟩ := laws.dec z b hz cs hcs
      rw [hd] at k1
      injection k1 with k1
      injection k1 with k1a k1b
      subst k1a k1b
      rw [nonEmpty_flatten, optB_getD, k2]
      exact hvb
    refine ⟨safeG_of_syn ev codec inner _ _ (hsafe ps' pe' hd), ?_⟩
    obtain ⟨out, ho, _⟩ := runG_ok htmlTokenize_lossless htmlTokenize_tokValid ev codec inner _ _ hdown hstream
    rw [ho]; simp
  · exact safeG_of_syn ev codec inner [b] none hsafe1
  · exact no_call_fails ev codec inner hdown [b] (by simpa using hvb)

end Rio.C14
