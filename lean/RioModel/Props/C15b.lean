/-
C15 (second module, W13): the universal byte-level theorems on the WIDER grammar `Simple2` — a verbatim piece of the
document, in particular the value an earlier filter of the chain has inserted, may be the serialisation of a whole
`Simple` forest (`<ins k="1">v</ins>`, `<!--c--><x-mark></x-mark>`, the empty value).  Closes the stated gap of
`compose_universal_checked` ("inserted values that hold elements put the SECOND filter's document outside the grammar").

Property theorems only; helper lemmas in Proofs/FilterDomUniv2.lean.  The conclusions are the SAME as those of
`end_to_end_universal` / `compose_universal(_checked)`: the chain model with the C16 tokenizer emits the serialisation of
the UNCHANGED reference edit `editAllD` (values inserted verbatim).  No tokenizer hypothesis, no vocabulary, no evaluation.
-/
import RioModel.Props.C15
import RioModel.Proofs.FilterDomUniv2
import RioModel.Proofs.FilterDomUniv3
import RioModel.Proofs.FilterDomMerge
set_option linter.unusedSimpArgs false
set_option linter.unusedVariables false

namespace Rio.C15
open Rio.Filter Rio.Consts

/-! ### the grammar `Simple2` and its recogniser -/

/-- **Replacing every verbatim piece by the forest it is read as does not change a byte** (`expandL`: a piece that is a node
of `Simple` — text, comment, declaration — stays; any other piece is replaced by the forest the parser `parseForest`
returns for it IF that forest serialises back to exactly the piece, and stays otherwise; so the parser is not trusted). -/
theorem expand_same_bytes (doc : List Node) : serializeList (expandL doc) = serializeList doc :=
  serializeList_expandL doc

/-- **`Simple2` has a decidable, sound recogniser** (`simple2LB doc = simpleLB (expandL doc)`). -/
theorem simple2_recogniser_sound (doc : List Node) (h : simple2LB doc = true) : Simple2L simpleLaws doc :=
  simple2LB_sound doc h

/-- **`Simple2` is at least as permissive as `Simple`** on recognised documents: a document the recogniser of `Simple`
accepts is its own expansion, hence accepted by the recogniser of `Simple2`. -/
theorem simple2_extends_simple (doc : List Node) (h : simpleLB doc = true) :
    expandL doc = doc ∧ simple2LB doc = true :=
  ⟨expandL_of_simpleLB doc h, simple2LB_of_simpleLB doc h⟩

/-- … and strictly more permissive: `<p>a</p>` followed by the verbatim piece `<ins k="1">v<br></ins>` (what
`append`/`replace` leave behind for the next filter) is in `Simple2` and not accepted by the recogniser of `Simple`. -/
def exVerbForest : List Node :=
  [Node.el [112] [112] [] .normal [Node.verb [97] []],
   Node.verb [60, 105, 110, 115, 32, 107, 61, 34, 49, 34, 62, 118, 60, 98, 114, 62, 60, 47, 105, 110, 115, 62]
     [[105, 110, 115], [98, 114]]]

theorem simple2_strictly_wider : simple2LB exVerbForest = true ∧ simpleLB exVerbForest = false := by
  decide +kernel

/-! ### byte level, universal, on `Simple2` -/

/-- **`tokenize (serialize d)` for every `Simple2` document**: the tokens of the document with every verbatim piece read
as its forest (`vtP raw = tokensOfList vtU (expandV raw [])`) — an inserted `<ins>v</ins>` is a start tag, a text, an end
tag. -/
theorem tokenize_serialize_universal2 (doc : List Node) (hs : Simple2L simpleLaws doc) :
    htmlTokenize (serializeList doc) = (tokensOfList vtP doc, []) := by
  have := tokenize_serialize_universal (expandL doc) hs
  rwa [serializeList_expandL, tokensOfList_expandL] at this

/-- **End to end, universal, on `Simple2`**: for every `Simple2` document (valid UTF-8, nothing held back at its end) and
every filter in its domain — the domain read with `vtP`, i.e. looking INSIDE verbatim forests: an element of an inserted
value that carries a path name puts the document outside, as it must (the real filter would edit it, the reference edit
does not) — the chain model with the C16 tokenizer emits the serialisation of the reference edit. -/
theorem end_to_end_universal2 (ev : Bytes → Bytes → Bool) (lower : String → String) (doc : List Node) (f : BodyFilter)
    (hs : Simple2L simpleLaws doc)
    (hu : utf8Split (serializeList doc) = some (serializeList doc, []))
    (hh : NoHeld2 doc)
    (hdom : InDomain htmlTokenize vtP doc f) :
    (Chain.new noCodec lower [f] [] : Chain Unit Unit).run htmlTokenize ev noCodec [serializeList doc] =
      serializeList (editD (decOf ev) doc f) :=
  filter_spec htmlTokenize ev vtP lower vtP_lossless doc f hdom (tokAgree2_of_laws simpleLaws doc hs hu hh)

/-- **Several filters, universal, on `Simple2`** (`StepsSimple2`: every document a filter sees — the reference edit of the
filters before it, values inserted VERBATIM — is `Simple2`, valid UTF-8, not empty, holds nothing back; every filter in
its domain): the chain emits the serialisation of the reference edits `editAllD`.  The intermediate documents need not be
in `Simple` any more: the inserted values may hold elements. -/
theorem compose_universal2 (ev : Bytes → Bytes → Bool) (lower : String → String) (doc : List Node)
    (fs : List BodyFilter) (h : StepsSimple2 simpleLaws ev doc fs) :
    (Chain.new noCodec lower fs [] : Chain Unit Unit).run htmlTokenize ev noCodec [serializeList doc] =
      serializeList (editAllD (decOf ev) doc fs) :=
  filters_compose htmlTokenize ev vtP lower vtP_lossless doc fs (stepsOK_of_simple2 simpleLaws ev fs doc h)

/-- **The universal composition theorem on `Simple2` with decidable hypotheses**: where the recogniser `stepsSimple2B` —
or the recogniser `stepsSimpleB` of `compose_universal_checked`, so that nothing covered before is lost — answers `true`,
the chain model with the C16 tokenizer emits the serialisation of the reference edits.  The driver evaluates both on every
generated case (tag `thm-universal2-applies`). -/
theorem compose_universal2_checked (ev : Bytes → Bytes → Bool) (lower : String → String) (doc : List Node)
    (fs : List BodyFilter) (h : stepsSimple2B ev doc fs = true ∨ stepsSimpleB ev doc fs = true) :
    (Chain.new noCodec lower fs [] : Chain Unit Unit).run htmlTokenize ev noCodec [serializeList doc] =
      serializeList (editAllD (decOf ev) doc fs) := by
  rcases h with h | h
  · exact compose_universal2 ev lower doc fs (stepsSimple2B_sound ev fs doc h)
  · exact compose_universal_checked ev lower doc fs h

/-- the same with response headers whose Content-Type gate is open -/
theorem compose_universal2_headers (ev : Bytes → Bytes → Bool) (lower : String → String) (doc : List Node)
    (fs : List BodyFilter) (headers : List (String × String))
    (hct : htmlAllowed (headerValue lower filterHeaderContentType headers) = true)
    (hce : headerValue lower filterHeaderContentEncoding headers = none)
    (h : StepsSimple2 simpleLaws ev doc fs) :
    (Chain.new noCodec lower fs headers : Chain Unit Unit).run htmlTokenize ev noCodec [serializeList doc] =
      serializeList (editAllD (decOf ev) doc fs) := by
  rw [content_type_gate_open noCodec lower fs headers hct hce]
  exact compose_universal2 ev lower doc fs h

/-! ### non-vacuity: a chain whose second and third filter see inserted elements -/

/-- `<html><body><main><p>one</p></main></body></html>` -/
def exDoc2 : List Node :=
  [Node.el [104, 116, 109, 108] [104, 116, 109, 108] [] .normal
    [Node.el [98, 111, 100, 121] [98, 111, 100, 121] [] .normal
      [Node.el [109, 97, 105, 110] [109, 97, 105, 110] [] .normal
        [Node.el [112] [112] [] .normal [Node.verb [111, 110, 101] []]]]]]

/-- append_child `<ins k="1">v<br></ins>` to `main`; then replace `body > main > p` by the EMPTY value; then
prepend_child `<!--c--><x-mark></x-mark>` to `body` -/
def exFilters2 : List BodyFilter :=
  [BodyFilter.html filterActionAppend [[109, 97, 105, 110]] none
     [60, 105, 110, 115, 32, 107, 61, 34, 49, 34, 62, 118, 60, 98, 114, 62, 60, 47, 105, 110, 115, 62],
   BodyFilter.html filterActionReplace [[98, 111, 100, 121], [109, 97, 105, 110], [112]] none [],
   BodyFilter.html filterActionPrepend [[98, 111, 100, 121]] none
     [60, 33, 45, 45, 99, 45, 45, 62, 60, 120, 45, 109, 97, 114, 107, 62, 60, 47, 120, 45, 109, 97, 114, 107, 62]]

/-- the hypotheses of `compose_universal2_checked` hold for this chain, those of `compose_universal_checked` do not -/
theorem exDoc2_checked :
    stepsSimple2B evalStandIn exDoc2 exFilters2 = true ∧ stepsSimpleB evalStandIn exDoc2 exFilters2 = false := by
  decide +kernel

/-- … so the chain model emits `<html><body><!--c--><x-mark></x-mark><main><ins k="1">v<br></ins></main></body></html>`,
by the theorem. -/
example :
    (Chain.new noCodec (fun s => s) exFilters2 [] : Chain Unit Unit).run htmlTokenize evalStandIn noCodec
        [serializeList exDoc2] =
      [60, 104, 116, 109, 108, 62, 60, 98, 111, 100, 121, 62, 60, 33, 45, 45, 99, 45, 45, 62, 60, 120, 45, 109, 97, 114,
       107, 62, 60, 47, 120, 45, 109, 97, 114, 107, 62, 60, 109, 97, 105, 110, 62, 60, 105, 110, 115, 32, 107, 61, 34, 49,
       34, 62, 118, 60, 98, 114, 62, 60, 47, 105, 110, 115, 62, 60, 47, 109, 97, 105, 110, 62, 60, 47, 98, 111, 100, 121,
       62, 60, 47, 104, 116, 109, 108, 62] := by
  rw [compose_universal2_checked evalStandIn (fun s => s) exDoc2 exFilters2 (Or.inl exDoc2_checked.1)]
  decide +kernel

/-! ### the no-op domain: a filter one of whose path names stands nowhere in the document -/

/-- **A filter one of whose path names stands in no tag of the document does nothing — in whatever state the machine gets**
(token level; generalises `absent_path_noop`, which needs ALL path names absent): the machine may follow the path down to
the element before the absent name `a`, waits there for a start tag that never comes and climbs back on the end tags
(`NoopInv`); every token is copied.  For append_child `a` must stand before the last path element (`zone`): with the LAST
element absent append_child does insert its content (O7, `append_absent_last_fails`). -/
theorem noop_tokens_spec (tk : Tokenize) (ev : Bytes → Bytes → Bool) (a : Bytes) (toks : List Tok)
    (hfree : ∀ t ∈ toks, NeutralTok [a] t) (k : VKind) (p1 : Bytes) (ps : List Bytes) (sel : Option Bytes) (value : Bytes)
    (hz : a ∈ zone k (p1 :: ps)) :
    runToks tk ev { kind := k, cur := p1, after := ps, sel := sel, content := value } toks = rawsOf toks := by
  have hinv : NoopInv a (HtmlSt.new { kind := k, cur := p1, after := ps, sel := sel, content := value }) :=
    ⟨rfl, rfl, by simp [HtmlSt.new], by simpa [HtmlSt.new] using hz, Or.inl (by simp [HtmlSt.new, Visitor.first]), rfl⟩
  obtain ⟨s, hs, is⟩ := fold_noop tk ev toks hfree _ [] hinv
  unfold runToks
  rw [hs]
  simp [endHtml, is.stack, is.last]

/-- … and the reference edit is the identity on such a document (`NoOp vt doc f`: the action is one of the three, one path
name — for append_child one before the last — stands in no tag of the document as `vt` reads it, elements that are not of
the normal kind hold no element nodes). -/
theorem noop_reference_identity (vt : Bytes → List Tok) (dec : Node → Bytes → Bool) (doc : List Node) (f : BodyFilter)
    (h : NoOp vt doc f) : editD dec doc f = doc :=
  editD_noOp vt dec h

/-- **Several filters, each in its domain or in its no-op domain** (`StepsOK3`), on the chain model. -/
theorem filters_compose3 (tk : Tokenize) (ev : Bytes → Bytes → Bool) (vt : Bytes → List Tok) (lower : String → String)
    (hvt : VtLossless vt) (doc : List Node) (fs : List BodyFilter) (h : StepsOK3 vt tk ev doc fs) :
    (Chain.new noCodec lower fs [] : Chain Unit Unit).run tk ev noCodec [serializeList doc] =
      serializeList (editAllD (decOf ev) doc fs) := by
  obtain ⟨vs, hvs, hch⟩ := chained_of_steps3 vt tk ev hvt fs doc h
  rw [chain_new_html lower fs vs hvs]
  exact chain_run_chained tk ev vs _ _ hch

/-- **Several filters, universal, on `Simple2`, with no-op filters** (`StepsSimple3`): every document a filter sees is
`Simple2`, valid UTF-8, not empty, holds nothing back; every filter is in its domain or one of its path names stands
nowhere in the document it sees.  No tokenizer hypothesis. -/
theorem compose_universal3 (ev : Bytes → Bytes → Bool) (lower : String → String) (doc : List Node)
    (fs : List BodyFilter) (h : StepsSimple3 simpleLaws ev doc fs) :
    (Chain.new noCodec lower fs [] : Chain Unit Unit).run htmlTokenize ev noCodec [serializeList doc] =
      serializeList (editAllD (decOf ev) doc fs) :=
  filters_compose3 htmlTokenize ev vtP lower vtP_lossless doc fs (stepsOK3_of_simple3 simpleLaws ev fs doc h)

/-- the recogniser `stepsSimple3B` accepts what `stepsSimple2B` accepts -/
theorem universal3_extends_2 (ev : Bytes → Bytes → Bool) (doc : List Node) (fs : List BodyFilter)
    (h : stepsSimple2B ev doc fs = true) : stepsSimple3B ev doc fs = true :=
  stepsSimple3B_of_2B ev fs doc h

/-- **… with decidable hypotheses**: where `stepsSimple3B` (or `stepsSimpleB`) answers `true`.  The driver evaluates it on
every generated case (tag `thm-universal3-applies`). -/
theorem compose_universal3_checked (ev : Bytes → Bytes → Bool) (lower : String → String) (doc : List Node)
    (fs : List BodyFilter) (h : stepsSimple3B ev doc fs = true ∨ stepsSimpleB ev doc fs = true) :
    (Chain.new noCodec lower fs [] : Chain Unit Unit).run htmlTokenize ev noCodec [serializeList doc] =
      serializeList (editAllD (decOf ev) doc fs) := by
  rcases h with h | h
  · exact compose_universal3 ev lower doc fs (stepsSimple3B_sound ev fs doc h)
  · exact compose_universal_checked ev lower doc fs h

/-- non-vacuity: on `exDoc2`, prepend_child `<ins>v</ins>` to `main`; then replace `html > nope > p` (the second path name
stands nowhere: a no-op); then append_child `<hr>` to `nope > main` (first name absent); then append_child `x` to
`body > main` -/
def exFilters3 : List BodyFilter :=
  [BodyFilter.html filterActionPrepend [[109, 97, 105, 110]] none [60, 105, 110, 115, 62, 118, 60, 47, 105, 110, 115, 62],
   BodyFilter.html filterActionReplace [[104, 116, 109, 108], [110, 111, 112, 101], [112]] none [120],
   BodyFilter.html filterActionAppend [[110, 111, 112, 101], [109, 97, 105, 110]] none [60, 104, 114, 62],
   BodyFilter.html filterActionAppend [[98, 111, 100, 121], [109, 97, 105, 110]] none [120]]

theorem exDoc3_checked :
    stepsSimple3B evalStandIn exDoc2 exFilters3 = true ∧ stepsSimple2B evalStandIn exDoc2 exFilters3 = false := by
  decide +kernel

/-- … `<html><body><main><ins>v</ins><p>one</p>x</main></body></html>`, by the theorem. -/
example :
    (Chain.new noCodec (fun s => s) exFilters3 [] : Chain Unit Unit).run htmlTokenize evalStandIn noCodec
        [serializeList exDoc2] =
      [60, 104, 116, 109, 108, 62, 60, 98, 111, 100, 121, 62, 60, 109, 97, 105, 110, 62, 60, 105, 110, 115, 62, 118, 60,
       47, 105, 110, 115, 62, 60, 112, 62, 111, 110, 101, 60, 47, 112, 62, 120, 60, 47, 109, 97, 105, 110, 62, 60, 47, 98,
       111, 100, 121, 62, 60, 47, 104, 116, 109, 108, 62] := by
  rw [compose_universal3_checked evalStandIn (fun s => s) exDoc2 exFilters3 (Or.inl exDoc3_checked.1)]
  decide +kernel

/-! ### adjacent verbatim pieces: the document merged before every filter -/

/-- **Merging every run of adjacent verbatim pieces into one piece does not change a byte** (`mergeL`, at every level of the
tree). -/
theorem merge_same_bytes (doc : List Node) : serializeList (mergeL doc) = serializeList doc :=
  serializeList_mergeL doc

/-- **The reference edit commutes with merging**: editing the merged document and merging gives the merged reference edit
(the selector decision depends on the bytes of the target only: `decOf ev`). -/
theorem merge_commutes_with_edit (ev : Bytes → Bytes → Bool) (doc : List Node) (f : BodyFilter) :
    mergeL (editD (decOf ev) (mergeL doc) f) = mergeL (editD (decOf ev) doc f) :=
  mergeL_editD (decOf ev) (decOf_mergeN ev) doc f

/-- **Several filters, universal, any representation of the verbatim pieces** (`StepsSimple4`): the hypotheses of
`compose_universal3` are asked of the MERGED form of every document a filter sees (the reference edit of the merged
document before it) — two adjacent text pieces, a text next to an empty value, a declaration and a newline given as one
piece are all read as the tokenizer reads them.  The conclusion is still about the plain reference edit `editAllD` of the
ORIGINAL document.  No tokenizer hypothesis, no normalisation of the input outside the theorem. -/
theorem compose_universal4 (ev : Bytes → Bytes → Bool) (lower : String → String) (doc : List Node)
    (fs : List BodyFilter) (h : StepsSimple4 simpleLaws ev doc fs) :
    (Chain.new noCodec lower fs [] : Chain Unit Unit).run htmlTokenize ev noCodec [serializeList doc] =
      serializeList (editAllD (decOf ev) doc fs) := by
  obtain ⟨vs, hvs, hch⟩ := chained_of_steps4 simpleLaws ev fs doc h
  rw [chain_new_html lower fs vs hvs, chain_run_chained htmlTokenize ev vs _ _ hch]
  exact serializeList_editAllM (decOf ev) (decOf_mergeN ev) doc fs

/-- **… with decidable hypotheses** (`stepsSimple4B`, or one of the earlier recognisers).  The driver evaluates it on the
document AS GENERATED (tag `thm-universal4-applies`). -/
theorem compose_universal4_checked (ev : Bytes → Bytes → Bool) (lower : String → String) (doc : List Node)
    (fs : List BodyFilter)
    (h : stepsSimple4B ev doc fs = true ∨ stepsSimple3B ev doc fs = true ∨ stepsSimpleB ev doc fs = true) :
    (Chain.new noCodec lower fs [] : Chain Unit Unit).run htmlTokenize ev noCodec [serializeList doc] =
      serializeList (editAllD (decOf ev) doc fs) := by
  rcases h with h | h | h
  · exact compose_universal4 ev lower doc fs (stepsSimple4B_sound ev fs doc h)
  · exact compose_universal3_checked ev lower doc fs (Or.inl h)
  · exact compose_universal_checked ev lower doc fs h

/-- non-vacuity: on `exDoc2`, append_child the TEXT `x` to `p` (two adjacent text pieces `one`, `x`); then append_child
`<br>` to `main > p`; then prepend_child the text `y` to `main` -/
def exFilters4 : List BodyFilter :=
  [BodyFilter.html filterActionAppend [[112]] none [120],
   BodyFilter.html filterActionAppend [[109, 97, 105, 110], [112]] none [60, 98, 114, 62],
   BodyFilter.html filterActionPrepend [[109, 97, 105, 110]] none [121]]

theorem exDoc4_checked :
    stepsSimple4B evalStandIn exDoc2 exFilters4 = true ∧ stepsSimple3B evalStandIn exDoc2 exFilters4 = false := by
  decide +kernel

/-- … `<html><body><main>y<p>onex<br></p></main></body></html>`, by the theorem. -/
example :
    (Chain.new noCodec (fun s => s) exFilters4 [] : Chain Unit Unit).run htmlTokenize evalStandIn noCodec
        [serializeList exDoc2] =
      [60, 104, 116, 109, 108, 62, 60, 98, 111, 100, 121, 62, 60, 109, 97, 105, 110, 62, 121, 60, 112, 62, 111, 110, 101,
       120, 60, 98, 114, 62, 60, 47, 112, 62, 60, 47, 109, 97, 105, 110, 62, 60, 47, 98, 111, 100, 121, 62, 60, 47, 104,
       116, 109, 108, 62] := by
  rw [compose_universal4_checked evalStandIn (fun s => s) exDoc2 exFilters4 (Or.inl exDoc4_checked.1)]
  decide +kernel

end Rio.C15
