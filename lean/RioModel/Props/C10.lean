/-
C10 — markers capture the matching text and are substituted into targets and filters.

Property theorems only (helpers: Proofs/Marker*.lean).  Strings are `List Char`; `blen` is the UTF-8 byte
length the code sorts by.  The regex engine, `to_lowercase`/`to_uppercase` and the `heck` conversions are
parameters.
-/
import RioModel.Proofs.Marker
set_option linter.unusedSimpArgs false

namespace Rio.C10
open Rio.Marker

/-! ### Substitution: sequential longest-name-first replace = simultaneous longest-match substitution -/

/-- **substitution** ("longer names first, so a name never clobbers a longer one").  `replaceVars` is
`StaticOrDynamic::replace` (sequential `str::replace("@name", value)`), `sortByLen` the stable sort of
`Rule::variables`, `subst` the one-pass simultaneous substitution in which every `@` followed by known names is
a reference to the LONGEST one.  Hypotheses: no name and no value contains `@`, and `noJoin`: after the
substitution no `@` (a stray one, or the head of a replaced reference `@n`) is followed by text that reads as a
(longer) known name.  All three are needed: see the `…_fails` witnesses below. -/
theorem substitution (vs : List (Str × Str)) (t : Str)
    (hnames : namesNoAt vs = true) (hvals : valuesNoAt vs = true) (hjoin : noJoin vs t = true) :
    replaceVars t (sortByLen vs) = subst vs t := by
  have hn : ∀ p ∈ vs, '@' ∉ p.1 := by
    intro p hp
    simp only [namesNoAt, List.all_eq_true] at hnames
    exact (noAt_iff _).mp (hnames p hp)
  have hv : ∀ p ∈ vs, '@' ∉ p.2 := by
    intro p hp
    simp only [valuesNoAt, List.all_eq_true] at hvals
    exact (noAt_iff _).mp (hvals p hp)
  have hclean : Clean idEsc (parse (names vs) t) := by
    refine ⟨?_, ?_, ?_⟩
    · intro c hc
      have := parse_lit_ne_at _ _ c hc
      simp only [idEsc, List.mem_singleton]
      exact fun e => this e.symm
    · intro s hs; exact absurd hs (parse_no_txt _ _ s)
    · intro n hn'
      have := parse_refs _ _ n hn'
      simp only [names, List.mem_map] at this
      obtain ⟨p, hp, rfl⟩ := this
      exact hn p hp
  have h := foldl_replace_render idEsc (sortByLen vs) (parse (names vs) t) (sorted_sortByLen vs)
    (fun p hp => hn p ((mem_sortByLen p vs).mp hp)) (fun p hp => hv p ((mem_sortByLen p vs).mp hp))
    hclean (fun n hn' => (mem_names_sortByLen vs n).mpr (parse_refs _ _ n hn'))
    (noJoinP_sortByLen idEsc vs _ ((noJoinItems_iff idEsc vs _).mp hjoin))
  rw [render_parse, fill_sortByLen] at h
  exact h

end Rio.C10
