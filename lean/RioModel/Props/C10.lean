/-
C10 — markers capture the matching text and are substituted into targets and filters.

Property theorems only (helpers: Proofs/Marker*.lean).  Strings are `List Char`; `blen` is the UTF-8 byte
length the code sorts by.  The regex engine, `to_lowercase`/`to_uppercase` and the `heck` conversions are
parameters.
-/
import RioModel.Proofs.MarkerMatch
set_option linter.unusedSimpArgs false

namespace Rio.C10
open Rio.Marker

/-! ### Substitution: the one-pass `StaticOrDynamic::replace` IS the simultaneous longest-match substitution -/

/-- **substitution, for every lawful longest-first order** ("longer names first, so a name never clobbers a longer
one").  `replaceVars` is `StaticOrDynamic::replace` after repair 9f65cbb (one scan of the template: at each `@` the
first variable, in list order, whose name follows is substituted and its name skipped; substituted text is not
scanned again), `sortBy before` a stable sort whose comparator is a strict longest-first order (`LawfulBefore`),
`subst` the specification: every `@` followed by known names is a reference to the LONGEST one and is replaced by the
value of the first entry of that name; everything else is copied.  NO hypothesis on names, values or template:
names containing `@`, the empty name, repeated names, values containing `@other`, stray `@`s are all covered. -/
theorem substitution_lawful (before : Str → Str → Bool) (hb : LawfulBefore before)
    (vs : List (Str × Str)) (t : Str) :
    replaceVars t (sortBy before vs) = subst vs t := by
  unfold replaceVars subst parse
  exact scanAux_eq before hb vs 0 t

/-- The comparator of `Rule::variables` (`key_b.len().cmp(&key_a.len()).then_with(|| key_a.cmp(key_b))`, repair
96f3afa) is a lawful longest-first order; so is the one of `MarkerString::new` (length only). -/
theorem code_orders_lawful : LawfulBefore varBefore ∧ LawfulBefore lenBefore :=
  ⟨lawful_varBefore, lawful_lenBefore⟩

/-- **substitution** for the code's order: `sortVars` = the final sort of `Rule::variables`. -/
theorem substitution (vs : List (Str × Str)) (t : Str) : replaceVars t (sortVars vs) = subst vs t :=
  substitution_lawful varBefore lawful_varBefore vs t

/-- The sort is what the function relies on ("Variables must be sorted by name length, longest first"): on an
unsorted list the shorter name wins (`@id2` with `id` first gives `72`). -/
theorem substitution_fails_without_sort :
    let vs : List (Str × Str) := [(['i','d'], ['7']), (['i','d','2'], ['9'])]
    replaceVars ['@','i','d','2'] vs = ['7','2'] ∧
    replaceVars ['@','i','d','2'] (sortVars vs) = ['9'] ∧ subst vs ['@','i','d','2'] = ['9'] := by
  decide

/-- The inputs of the three repaired findings now give the specified result: `join` (`@id@year`, id=7, id2=9,
year=2024: `72024`, was `9024`), `value-contains-at` (`/@ab` with ab=`@c`, c=`z`: `/@c`, was `/z`), a stray `@` in front
of an empty value (`@@abcd`, ab=``, cd=`x`: `@cd`, was `x`). -/
theorem repaired_findings_witnesses :
    replaceVars ['@','i','d','@','y','e','a','r']
      (sortVars [(['i','d'], ['7']), (['i','d','2'], ['9']), (['y','e','a','r'], ['2','0','2','4'])]) = ['7','2','0','2','4'] ∧
    replaceVars ['/','@','a','b'] (sortVars [(['a','b'], ['@','c']), (['c'], ['z'])]) = ['/','@','c'] ∧
    replaceVars ['@','@','a','b','c','d'] (sortVars [(['a','b'], []), (['c','d'], ['x'])]) = ['@','c','d'] := by
  decide

/-- Corner cases the specification fixes (and the code follows): of two entries of one name the first counts; the
empty name matches every `@` that starts no longer name; a name containing `@` is an ordinary name. -/
theorem substitution_corner_cases :
    replaceVars ['@','a','-','@','b'] (sortVars [(['a'], ['1']), (['a'], ['2']), ([], ['e'])]) = ['1','-','e','b'] ∧
    replaceVars ['@','a','@','b','@','a'] (sortVars [(['a','@','b'], ['x']), (['a'], ['y'])]) = ['x','y'] := by
  decide

/-- The result depends neither on the order (or on repetitions after the first entry of a name) of the variable
list — e.g. the iteration order of the HashMap of captured markers — nor on WHICH lawful longest-first order the
sort uses. -/
theorem substitution_order_irrelevant (before before' : Str → Str → Bool)
    (hb : LawfulBefore before) (hb' : LawfulBefore before') (vs vs' : List (Str × Str)) (t : Str)
    (hn : ∀ m, m ∈ names vs ↔ m ∈ names vs') (hl : ∀ n, vs.lookup n = vs'.lookup n) :
    replaceVars t (sortBy before vs) = replaceVars t (sortBy before' vs') := by
  rw [substitution_lawful before hb vs t, substitution_lawful before' hb' vs' t, subst_congr hn hl]

/-- The code's order is total on names: with distinct names the sorted variable list itself does not depend on
the iteration order of the map of captured markers (repair 96f3afa). -/
theorem variables_order_deterministic (vs vs' : List (Str × Str)) (hperm : vs.Perm vs')
    (hnd : (names vs).Nodup) : sortVars vs = sortVars vs' :=
  sortVars_perm vs vs' hperm hnd

/-! #### For the record: the sequential code before repair 9f65cbb -/

/-- What `replaceSeq` (one textual `str::replace` per variable over the previous result) computed: the
specification only when no name and no value contains `@` and no substituted text joins an `@` into a longer name
(`noJoin`). -/
theorem sequential_replace_substitution (vs : List (Str × Str)) (t : Str)
    (hnames : namesNoAt vs = true) (hvals : valuesNoAt vs = true) (hjoin : noJoin vs t = true) :
    replaceSeq t (sortVars vs) = subst vs t := by
  have hb := lawful_varBefore
  have hn : ∀ p ∈ vs, '@' ∉ p.1 := by
    intro p hp
    simp only [namesNoAt, List.all_eq_true] at hnames
    exact (noAt_iff _).mp (hnames p hp)
  have hv : ∀ p ∈ vs, '@' ∉ p.2 := by
    intro p hp
    simp only [valuesNoAt, List.all_eq_true] at hvals
    exact (noAt_iff _).mp (hvals p hp)
  have hclean : Clean idEsc (parse (names vs) t) := by
    refine ⟨?_, ?_, ?_⟩
    · intro c hc
      have := parse_lit_ne_at _ _ c hc
      simp only [idEsc, List.mem_singleton]
      exact fun e => this e.symm
    · intro s hs; exact absurd hs (parse_no_txt _ _ s)
    · intro n hn'
      have := parse_refs _ _ n hn'
      simp only [names, List.mem_map] at this
      obtain ⟨p, hp, rfl⟩ := this
      exact hn p hp
  have h := foldl_replace_render idEsc (sortVars vs) (parse (names vs) t) (sorted_sortBy hb vs)
    (fun p hp => hn p ((mem_sortBy p vs).mp hp)) (fun p hp => hv p ((mem_sortBy p vs).mp hp))
    hclean (fun n hn' => (mem_names_sortBy vs n).mpr (parse_refs _ _ n hn'))
    (noJoinP_sortBy hb idEsc vs _ ((noJoinItems_iff idEsc vs _).mp hjoin))
  unfold sortVars at h ⊢
  rw [render_parse, fill_sortBy hb] at h
  exact h

/-- … and what it got wrong (the findings `join`, `value-contains-at`, stray `@`, all repaired by the one-pass scan). -/
theorem sequential_replace_findings :
    replaceSeq ['@','i','d','@','y','e','a','r']
      (sortVars [(['i','d'], ['7']), (['i','d','2'], ['9']), (['y','e','a','r'], ['2','0','2','4'])]) = ['9','0','2','4'] ∧
    replaceSeq ['/','@','a','b'] (sortVars [(['a','b'], ['@','c']), (['c'], ['z'])]) = ['/','z'] ∧
    replaceSeq ['@','@','a','b','c','d'] (sortVars [(['a','b'], []), (['c','d'], ['x'])]) = ['x'] := by
  decide

/-! ### The regex of a template is its token view -/

/-- **regex_is_tokens.**  For plain marker names (no regex meta character, no `@`) and marker expressions without
`@`, the two strings `MarkerString::new` builds by escaping the template and replacing `@name`, longest name first,
are the renderings of the token view of the template: escaped literal chars and `(?:re)` resp. `(?P<name>re)`
groups, a group for every `@` followed by a known name (the longest one). -/
theorem regex_is_tokens (t : Str) (ms : List (Str × Str))
    (hplain : namesPlain ms = true) (hre : regexNoAt ms = true) :
    (build t ms).regex = renderRegex (tokens t ms) ∧ (build t ms).capture = renderCapture (tokens t ms) := by
  apply build_eq_tokens
  · intro p hp
    simp only [namesPlain, List.all_eq_true] at hplain
    exact (plainName_iff _).mp (hplain p hp)
  · intro p hp
    simp only [regexNoAt, List.all_eq_true] at hre
    exact (noAt_iff _).mp (hre p hp)

/-- The same for the value returned by `MarkerString::new`. -/
theorem markerString_is_tokens (t : Str) (ms : List (Str × Str)) (ic : Bool) (m : MarkerString)
    (hplain : namesPlain ms = true) (hre : regexNoAt ms = true) (h : MarkerString.new t ms ic = some m) :
    m.regex = renderRegex (tokens t ms) ∧ m.capture = renderCapture (tokens t ms) ∧ m.ignoreCase = ic := by
  have := regex_is_tokens t ms hplain hre
  simp only [MarkerString.new] at h
  split at h
  · simp at h
  · simp at h; subst h; exact ⟨this.1, this.2, rfl⟩

/-- Both hypotheses are needed.  A name with a meta character is never found in the escaped template; an
expression containing `@shorter` is rewritten by the later marker. -/
theorem regex_is_tokens_needs_plain :
    (build ['@','a','.','b'] [(['a','.','b'], ['x'])]).regex = ['@','a','\\','.','b'] ∧
    renderRegex (tokens ['@','a','.','b'] [(['a','.','b'], ['x'])]) = ['(','?',':','x',')'] := by
  decide

theorem regex_is_tokens_needs_regexNoAt :
    (build ['@','a','b'] [(['a','b'], ['@','c']), (['c'], ['z'])]).regex = ['(','?',':','(','?',':','z',')',')'] ∧
    renderRegex (tokens ['@','a','b'] [(['a','b'], ['@','c']), (['c'], ['z'])]) = ['(','?',':','@','c',')'] := by
  decide

/-! ### Matching: instantiations match, rejected values do not match, captures are the instantiation

What is ASSUMED of the `regex` crate and what is PROVED.  The theorems of this section take the engine as a
parameter and assume, for the one pattern and the one haystack at hand, `EngineLawsAt` (Proofs/MarkerMatch.lean):
`^p$` matches `s` iff `s` decomposes along the tokens of `p`; the captures are the groups of some decomposition.
These laws are (a) checked on the real crate for every generated `law` case (implementation-only oracle of
harness c10), (b) PROVED for an executable engine that reads the pattern string — W1's derivative engine — as far
as matching and unanchored search go (`Props/C10e.lean`: `verified_engine_full`, `verified_engine_search`),
(c) discharged by evaluation for the driver's executable engine on a concrete rule and request
(`Props/C10e.lean`: the instance of `rule_end_to_end`), (d) satisfiable for every language
(`engineLaws_satisfiable`, an engine that does not read the pattern: consistency only).  The captures law is NOT
proved for a pattern-reading engine in general: it stays an assumption about the crate (a), (c).  Marker expressions
the token-level law does not cover: unbalanced parentheses (`a)|(?:b`), anchors / `\b` / look-around, an inner named
group (adds a capture of its own; differential-tested only). -/

section engine
variable (L : Str → Str → Prop) (ceq : Char → Char → Bool)
variable (full search : Str → Str → Bool) (caps : Str → Str → Option (List (Str × Str)))

/-- **instantiation_matches.**  If every marker value is accepted by its expression, the instantiated template
is matched by the matching regex (`^regex$`: path through the radix-tree leaf, host). -/
theorem instantiation_matches (hrefl : ∀ c, ceq c c = true)
    (t : Str) (ms : List (Str × Str)) (v : Str → Str)
    (laws : EngineLawsAt L ceq full search caps (tokens t ms) (instOf (tokens t ms) v))
    (hplain : namesPlain ms = true) (hre : regexNoAt ms = true)
    (hacc : ∀ n re, Tok.grp n re ∈ tokens t ms → L re (v n)) :
    full (build t ms).regex (instOf (tokens t ms) v) = true := by
  rw [(regex_is_tokens t ms hplain hre).1, laws.full_iff]
  exact ⟨_, decomp_inst L ceq hrefl _ v hacc⟩

/-- The same for a header trigger (`Regex::new(regex).is_match(value)`, unanchored). -/
theorem instantiation_matches_header (hrefl : ∀ c, ceq c c = true)
    (t : Str) (ms : List (Str × Str)) (v : Str → Str)
    (laws : EngineLawsAt L ceq full search caps (tokens t ms) (instOf (tokens t ms) v))
    (hplain : namesPlain ms = true) (hre : regexNoAt ms = true)
    (hacc : ∀ n re, Tok.grp n re ∈ tokens t ms → L re (v n)) :
    search (build t ms).regex (instOf (tokens t ms) v) = true := by
  rw [(regex_is_tokens t ms hplain hre).1, laws.search_iff]
  exact ⟨[], _, [], _, by simp, decomp_inst L ceq hrefl _ v hacc⟩

/-- The assumed matching law read through `regex_is_tokens` (a restatement, kept for reference). -/
theorem matches_iff_decomposition
    (t : Str) (ms : List (Str × Str)) (laws : EngineLaws L ceq full search caps (tokens t ms))
    (hplain : namesPlain ms = true) (hre : regexNoAt ms = true) (s : Str) :
    full (build t ms).regex s = true ↔ ∃ vs, Decomp L ceq (tokens t ms) s vs := by
  rw [(regex_is_tokens t ms hplain hre).1, laws.full_iff]

/-- **rejected_not_matches.**  For a delimiter-separated template (`DelimitedOr`: every marker is the last token,
or is followed by a literal char `d` that does not occur in its instantiated value AND — either occurs in no
string its expression accepts, or does not occur in the rest of the instantiated string: the second alternative
covers "anything" markers `.+?` / `.*` in the shapes `/@a/rest`, `/@a/@id`) the instantiation decomposes only into
itself; so if one value is rejected by its expression, the instantiated string is not matched by `^regex$`. -/
theorem rejected_not_matches (hrefl : ∀ c, ceq c c = true)
    (t : Str) (ms : List (Str × Str)) (v : Str → Str)
    (laws : EngineLawsAt L ceq full search caps (tokens t ms) (instOf (tokens t ms) v))
    (hplain : namesPlain ms = true) (hre : regexNoAt ms = true)
    (hdelim : DelimitedOr L ceq v (tokens t ms))
    (n re : Str) (hmem : Tok.grp n re ∈ tokens t ms) (hrej : ¬ L re (v n)) :
    full (build t ms).regex (instOf (tokens t ms) v) = false := by
  cases hf : full (build t ms).regex (instOf (tokens t ms) v) with
  | false => rfl
  | true =>
    rw [(regex_is_tokens t ms hplain hre).1, laws.full_iff] at hf
    obtain ⟨vs, hvs⟩ := hf
    exact absurd ((decomp_unique_or L ceq hrefl v _ hdelim vs hvs).2 n re hmem) hrej

/-- Match ⇔ all values accepted, for delimiter-separated templates. -/
theorem match_iff_all_accepted (hrefl : ∀ c, ceq c c = true)
    (t : Str) (ms : List (Str × Str)) (v : Str → Str)
    (laws : EngineLawsAt L ceq full search caps (tokens t ms) (instOf (tokens t ms) v))
    (hplain : namesPlain ms = true) (hre : regexNoAt ms = true)
    (hdelim : DelimitedOr L ceq v (tokens t ms)) :
    full (build t ms).regex (instOf (tokens t ms) v) = true ↔ ∀ n re, Tok.grp n re ∈ tokens t ms → L re (v n) := by
  constructor
  · intro hf
    rw [(regex_is_tokens t ms hplain hre).1, laws.full_iff] at hf
    obtain ⟨vs, hvs⟩ := hf
    exact (decomp_unique_or L ceq hrefl v _ hdelim vs hvs).2
  · exact instantiation_matches L ceq full search caps hrefl t ms v laws hplain hre

/-- The two common shapes with an "anything" marker are delimiter-separated whatever its language: `…@a d rest`
with `d` neither in the value of `a` nor in the literal rest, and `…@a d @n` with `d` in neither value.  (`pre`:
literal text in front.) -/
theorem anything_marker_shapes_delimited (v : Str → Str) (pre rest : Str) (a re n re2 : Str) (d : Char)
    (hva : ∀ x ∈ v a, ceq d x = false) :
    ((∀ x ∈ rest, ceq d x = false) →
      DelimitedOr L ceq v (pre.map Tok.lit ++ Tok.grp a re :: Tok.lit d :: rest.map Tok.lit)) ∧
    ((∀ x ∈ v n, ceq d x = false) →
      DelimitedOr L ceq v (pre.map Tok.lit ++ [Tok.grp a re, Tok.lit d, Tok.grp n re2])) := by
  have hlits : ∀ l : Str, DelimitedOr L ceq v (l.map Tok.lit) := by
    intro l; induction l with
    | nil => trivial
    | cons c cs ih => simpa [DelimitedOr] using ih
  have hpre : ∀ (l : Str) (ts : List Tok), DelimitedOr L ceq v ts → DelimitedOr L ceq v (l.map Tok.lit ++ ts) := by
    intro l ts h; induction l with
    | nil => simpa using h
    | cons c cs ih => simpa [DelimitedOr] using ih
  have hinst : ∀ l : Str, instOf (l.map Tok.lit) v = l := by
    intro l; induction l with
    | nil => rfl
    | cons c cs ih => simp [instOf] at ih ⊢; exact ih
  constructor
  · intro hrest
    apply hpre
    simp only [DelimitedOr]
    refine ⟨hva, Or.inr ?_, ?_⟩
    · rw [hinst]; exact hrest
    · exact hlits rest
  · intro hvn
    apply hpre
    simp only [DelimitedOr]
    refine ⟨hva, Or.inr ?_, trivial⟩
    simpa [instOf] using hvn

/-- Without delimiters another decomposition may exist: `@a@b` with `a` accepting `1` (rejecting `1x`) and `b`
accepting `xy`: the instantiation `a := 1x`, `b := y` is also `a := 1`, `b := xy`. -/
theorem rejected_may_match_without_delimiter
    (a b : Str)
    (laws : EngineLawsAt L ceq full search caps [Tok.grp ['a'] a, Tok.grp ['b'] b] ['1','x','y'])
    (h1 : L a ['1']) (h3 : L b ['x','y']) :
    let ts := [Tok.grp ['a'] a, Tok.grp ['b'] b]
    let v : Str → Str := fun n => if n = ['a'] then ['1','x'] else ['y']
    full (renderRegex ts) (instOf ts v) = true := by
  intro ts v
  have : instOf ts v = ['1','x','y'] := by simp [ts, v, instOf]
  rw [this, laws.full_iff]
  refine ⟨[(['a'], ['1']), (['b'], ['x','y'])], ?_⟩
  have : (['1','x','y'] : Str) = ['1'] ++ (['x','y'] ++ []) := rfl
  rw [this]
  exact .grp h1 (.grp h3 .nil)

/-- A header trigger is searched unanchored: a rejected value that *contains* an accepted one matches
(finding `header-unanchored`: the rule matches, the anchored capture regex does not, the markers stay
unsubstituted). -/
theorem header_rejected_value_matches
    (n re w x y : Str) (laws : EngineLawsAt L ceq full search caps [Tok.grp n re] (x ++ w ++ y)) (hw : L re w) :
    search (renderRegex [Tok.grp n re]) (x ++ w ++ y) = true := by
  rw [laws.search_iff]
  exact ⟨x, w, y, [(n, w)], rfl, by simpa using (Decomp.grp (ceq := ceq) (n := n) hw .nil)⟩

/-- **Captures are the instantiation** (capture law + unique decomposition): for a delimiter-separated template
instantiated with accepted values, the capture regex returns exactly the instantiation (a marker used several
times is instantiated with one value, which is what its first — capturing — group consumes). -/
theorem captures_are_instantiation (hrefl : ∀ c, ceq c c = true)
    (t : Str) (ms : List (Str × Str)) (v : Str → Str)
    (laws : EngineLawsAt L ceq full search caps (tokens t ms) (instOf (tokens t ms) v))
    (hplain : namesPlain ms = true) (hre : regexNoAt ms = true)
    (hdelim : DelimitedOr L ceq v (tokens t ms))
    (hacc : ∀ n re, Tok.grp n re ∈ tokens t ms → L re (v n)) :
    ∃ m, caps (build t ms).capture (instOf (tokens t ms) v) = some m ∧ (names m).Nodup ∧
      ∀ n, m.lookup n = (groupValues (tokens t ms) v).lookup n := by
  rw [(regex_is_tokens t ms hplain hre).2]
  have hd := decomp_inst L ceq hrefl (tokens t ms) v hacc
  have hsome := laws.caps_complete ⟨_, hd⟩
  cases hc : caps (renderCapture (tokens t ms)) (instOf (tokens t ms) v) with
  | none => rw [hc] at hsome; simp at hsome
  | some m =>
    refine ⟨m, rfl, laws.caps_nodup m hc, ?_⟩
    obtain ⟨vs, hvs, hlk⟩ := laws.caps_sound m hc
    rw [(decomp_unique_or L ceq hrefl v _ hdelim vs hvs).1] at hlk
    exact hlk

end engine

/-! ### Transformers are applied in order -/

section transformers
variable (cf : CaseFns)

/-- **transformers_in_order.**  The value is `(Tₙ ∘ … ∘ T₁) v` over the recognised transformers of the list, in
list order (`to_transform() = None`: unknown kind or missing option, skipped). -/
theorem transformers_in_order (ts : List Transformer) (v : Str) :
    applyTransformers cf ts v = (ts.filterMap Transformer.toTransform).foldl (fun acc tr => tr.apply cf acc) v := by
  unfold applyTransformers
  induction ts generalizing v with
  | nil => rfl
  | cons t ts ih =>
    simp only [List.foldl_cons, List.filterMap_cons]
    cases h : t.toTransform with
    | none => simp only [h]; exact ih v
    | some tr => simp only [h, List.foldl_cons]; exact ih _

theorem transformers_append (ts₁ ts₂ : List Transformer) (v : Str) :
    applyTransformers cf (ts₁ ++ ts₂) v = applyTransformers cf ts₂ (applyTransformers cf ts₁ v) := by
  simp [applyTransformers, List.foldl_append]

/-- What one captured value becomes: the marker's transformers in order (identity for a name without marker). -/
def markerValue (r : Rule) (n v : Str) : Str :=
  match r.getMarker n with
  | none => v
  | some m => applyTransformers cf m.transformers v

theorem transformed_eq (r : Rule) (captured : List (Str × Str)) :
    r.transformed cf captured = captured.map fun p => (p.1, markerValue cf r p.1 p.2) := by
  unfold Rule.transformed markerValue
  apply List.map_congr_left
  intro p _
  cases r.getMarker p.1 <;> rfl

/-- Without `variables` the substituted value of a captured marker is its transformed capture … -/
theorem marker_variable_value (r : Rule) (captured : List (Str × Str)) (q : Request) (n : Str)
    (hbc : r.variables = []) :
    (r.variablesUnsorted cf captured q).lookup n = (captured.lookup n).map (markerValue cf r n) := by
  simp only [Rule.variablesUnsorted, hbc, List.isEmpty_nil, if_true]
  rw [transformed_eq]
  induction captured with
  | nil => simp
  | cons p ps ih =>
    obtain ⟨k, v⟩ := p
    simp only [List.map_cons, List.lookup_cons]
    cases h : n == k with
    | false => simpa using ih
    | true => have : n = k := by simpa using h
              simp [this]

/-- … and an explicit variable of kind `marker` gets the variable's transformers applied on top of it. -/
theorem explicit_marker_variable_value (name mn : Str) (ts : List Transformer) (input : List (Str × Str)) (q : Request) :
    Variable.getValue cf ⟨name, .marker mn, ts⟩ input q = applyTransformers cf ts ((input.lookup mn).getD []) := rfl

end transformers

/-! ### Tie of the transformer dispatch to the source (regenerated constants) -/

/-- Every kind dispatched by `Transformer::to_transform` in the source (list regenerated on every run by
tools/consts.d/marker.py) is recognised by the model when all option keys named in the source are present … -/
theorem transformer_kinds_recognised (k : String) (hk : k ∈ Rio.Consts.markerTransformerKinds) :
    (Transformer.toTransform ⟨some k.toList,
      some ((Rio.Consts.markerTransformerOptions.flatMap (·.2)).map fun o => (o.toList, []))⟩).isSome = true := by
  simp only [Rio.Consts.markerTransformerKinds, List.mem_cons, List.not_mem_nil, or_false] at hk
  rcases hk with rfl | rfl | rfl | rfl | rfl | rfl | rfl <;>
    simp [Transformer.toTransform, List.lookup, Rio.Consts.markerTransformerOptions]

/-- … and the model recognises no other kind. -/
theorem transformer_kinds_only (t : Transformer) (k : Str) (hk : t.kind = some k) (h : t.toTransform.isSome = true) :
    k ∈ Rio.Consts.markerTransformerKinds.map String.toList := by
  unfold Transformer.toTransform at h
  rw [hk] at h
  simp only [] at h
  simp only [Rio.Consts.markerTransformerKinds, List.map_cons, List.map_nil, List.mem_cons]
  split at h
  · left; assumption
  · split at h
    · right; left; assumption
    · split at h
      · right; right; left; assumption
      · split at h
        · right; right; right; left; assumption
        · split at h
          · right; right; right; right; left; assumption
          · split at h
            · right; right; right; right; right; left; assumption
            · split at h
              · right; right; right; right; right; right; left; assumption
              · simp at h

/-! ### The concrete transformers -/

/-- `Slice` after the repair of D7: an inverted range selects nothing (the unrepaired code panicked). -/
theorem slice_inverted_range_empty (from_ to : Nat) (s : Str) (h : to < from_) :
    sliceT from_ (some to) s = [] := by
  unfold sliceT
  simp only [Option.getD_some]
  split
  · rfl
  · have hnot : ¬ (from_ ≤ (if to > blen s then blen s else to) ∧ (if to > blen s then blen s else to) ≤ blen s ∧
        isBoundary s from_ = true ∧ isBoundary s (if to > blen s then blen s else to) = true) := by
      intro hc
      have := hc.1
      split at this <;> omega
    simp [strGet, hnot]

/-- `Slice` with `from = 0` and no `to` is the identity, whatever the bytes. -/
theorem slice_whole (s : Str) : sliceT 0 none s = s := by
  have hb : ∀ s : Str, isBoundary s (blen s) = true := by
    intro s
    induction s with
    | nil => simp [isBoundary, blen]
    | cons c cs ih =>
      have := Char.utf8Size_pos c
      simp only [blen]
      cases h : c.utf8Size + blen cs with
      | zero => omega
      | succ k =>
        simp only [isBoundary]
        rw [← h]
        simp [ih]
  have ht : ∀ s : Str, takeBytes s (blen s) = s := by
    intro s
    induction s with
    | nil => simp [takeBytes, blen]
    | cons c cs ih =>
      have := Char.utf8Size_pos c
      simp only [blen]
      cases h : c.utf8Size + blen cs with
      | zero => omega
      | succ k =>
        simp only [takeBytes]
        rw [← h]
        simp [ih]
  have h0 : isBoundary s 0 = true := by cases s <;> rfl
  have hd : dropBytes s 0 = s := by cases s <;> rfl
  simp [sliceT, strGet, hb, h0, hd, ht]

/-- On multi-byte text the indices are byte offsets: `日本` is 6 bytes; `3..6` is `本`, an index inside a character
selects nothing (it panicked before the repair), and so does an inverted range. -/
example : sliceT 3 (some 6) ['日','本'] = ['本'] ∧ sliceT 1 (some 4) ['日','本'] = [] ∧
    sliceT 3 (some 1) ['日','本'] = [] ∧ sliceT 7 none ['日','本'] = [] ∧ sliceT 0 (some 100) ['日','本'] = ['日','本'] := by
  decide

/-- The ASCII stand-ins of heck's conversions used by the driver (differential-tested against the crate,
exhaustively for strings of length ≤ 5 over `{a,b,A,B,1,_,-}` in the thorough tier): `camelize` is LOWER camel case;
an acronym followed by a word splits before the word's capital; digits do not split. -/
example :
    camelA ['f','o','o','_','B','a','r','-','b','a','z'] = ['f','o','o','B','a','r','B','a','z'] ∧
    kebabA ['X','M','L','H','t','t','p','R','e','q','2'] = ['x','m','l','-','h','t','t','p','-','r','e','q','2'] ∧
    snakeA ['f','o','o','B','a','r',' ',' ','b','A','Z'] = ['f','o','o','_','b','a','r','_','b','_','a','z'] ∧
    strReplace [] ['-'] ['a','b'] = ['-','a','-','b','-'] ∧
    strReplace ['a','a'] ['b'] ['a','a','a','a','a'] = ['b','b','a'] := by
  decide

/-! ### End to end -/

/-- Every template of the rule in which `from_route_rule` / `get_target` substitute. -/
def templates (r : Rule) : List Str :=
  r.target.toList ++ r.headerFilters ++ r.bodyFilters ++ r.htmlFilters.flatMap fun f => [f.1, f.2.getD f.1]

/-- **outcome_eq_spec.**  Location, `get_target`, custom header-filter values, text body-filter contents and html
body-filter value / inner_value are the simultaneous substitution of the rule's variable list (markers through their
transformers, or the explicit variables) into the respective template. -/
theorem outcome_eq_spec (cf : CaseFns) (r : Rule) (probe : Str) (captured : List (Str × Str)) (q : Request) :
    r.outcome cf probe captured q = r.outcomeSpec cf probe captured q := by
  unfold Rule.outcome Rule.outcomeSpec Rule.outcomeWith Rule.vars
  simp only [substitution]

/-- The value of a variable depends on the captured markers only through `lookup`. -/
theorem transformed_lookup (cf : CaseFns) (r : Rule) (captured : List (Str × Str)) (n : Str) :
    (r.transformed cf captured).lookup n = (captured.lookup n).map (markerValue cf r n) := by
  rw [transformed_eq]
  induction captured with
  | nil => simp
  | cons p ps ih =>
    obtain ⟨k, v⟩ := p
    simp only [List.map_cons, List.lookup_cons]
    cases h : n == k with
    | false => simpa using ih
    | true => have : n = k := by simpa using h
              simp [this]

theorem getValue_congr (cf : CaseFns) (x : Variable) (input input' : List (Str × Str)) (q : Request)
    (h : ∀ n, input.lookup n = input'.lookup n) : x.getValue cf input q = x.getValue cf input' q := by
  unfold Variable.getValue
  cases x.kind <;> simp [h]

/-- Two capture lists with the same `lookup` give the same outcome — with or without explicit variables. -/
theorem outcome_congr_captured (cf : CaseFns) (r : Rule) (probe : Str) (c c' : List (Str × Str)) (q : Request)
    (h : ∀ n, c.lookup n = c'.lookup n) : r.outcome cf probe c q = r.outcome cf probe c' q := by
  rw [outcome_eq_spec, outcome_eq_spec]
  have ht : ∀ n, (r.transformed cf c).lookup n = (r.transformed cf c').lookup n := by
    intro n; rw [transformed_lookup, transformed_lookup, h n]
  have hsub : subst (r.variablesUnsorted cf c q) = subst (r.variablesUnsorted cf c' q) := by
    funext t
    by_cases hv : r.variables.isEmpty = true
    · simp only [Rule.variablesUnsorted, hv, if_true]
      exact subst_congr (fun m => by rw [mem_names_iff_lookup, mem_names_iff_lookup, ht m]) ht t
    · simp only [Rule.variablesUnsorted, hv]
      congr 1
      apply List.map_congr_left
      intro x _
      rw [getValue_congr cf x _ _ q ht]
  simp only [Rule.outcomeSpec, hsub]

/-- **Every substituted value in terms of the instantiation.**  If the captured markers are the instantiation `v`
of the token list `ts` (that is what `captures_are_instantiation` provides from the capture law), then Location,
`get_target`, every custom header-filter value, every text body-filter content and every html body-filter value /
inner_value is the simultaneous substitution, into the respective template, of the variable list computed from the
instantiation: without explicit variables `(mᵢ, Tᵢ (v mᵢ))` (`variables_of_instantiation_bc`), with explicit
variables each variable's own value (`Variable.getValue` on the transformed instantiation). -/
theorem outcome_of_instantiation (cf : CaseFns) (r : Rule) (probe : Str) (q : Request)
    (caps₀ captured : List (Str × Str)) (hcap : ∀ n, captured.lookup n = caps₀.lookup n) :
    r.outcome cf probe captured q = r.outcomeWith probe (subst (r.variablesUnsorted cf caps₀ q)) := by
  rw [outcome_congr_captured cf r probe captured caps₀ q hcap, outcome_eq_spec]
  rfl

/-- The fields of that outcome, spelled out (which template goes where is the model's transcription of
`from_route_rule`, differential-tested). -/
theorem outcome_fields (r : Rule) (probe : Str) (sub : Str → Str) :
    (r.outcomeWith probe sub).headers = r.headerFilters.map sub ∧
    (r.outcomeWith probe sub).body = (if r.bodyFilters.isEmpty then [] else probe ++ r.bodyFilters.flatMap sub) ∧
    (r.outcomeWith probe sub).html = r.htmlFilters.map (fun f => (sub f.1, sub (f.2.getD f.1))) ∧
    (r.outcomeWith probe sub).target = r.target.map sub ∧
    (∀ t, r.target = some t → t ≠ [] → (r.outcomeWith probe sub).location = [sub t]) := by
  refine ⟨rfl, rfl, rfl, rfl, ?_⟩
  intro t ht hne
  have : t.isEmpty = false := by cases t <;> simp_all
  simp [Rule.outcomeWith, ht, this]

/-- Without explicit variables the variable list of an instantiation is `(mᵢ, Tᵢ (v mᵢ))`, in token order. -/
theorem variables_of_instantiation_bc (cf : CaseFns) (r : Rule) (q : Request) (ts : List Tok) (v : Str → Str)
    (hbc : r.variables = []) :
    r.variablesUnsorted cf (groupValues ts v) q = (groupNames ts).map fun n => (n, markerValue cf r n (v n)) := by
  simp [Rule.variablesUnsorted, hbc, transformed_eq, groupValues, List.map_map, Function.comp_def]

/-- With explicit variables: one entry per variable, a `marker` variable being its own transformers applied to the
transformed instantiated value of the marker it names (empty if that marker is not captured). -/
theorem variables_of_instantiation_explicit (cf : CaseFns) (r : Rule) (q : Request) (ts : List Tok) (v : Str → Str)
    (hex : r.variables ≠ []) :
    r.variablesUnsorted cf (groupValues ts v) q =
      r.variables.map fun x => (x.name, x.getValue cf (r.transformed cf (groupValues ts v)) q) := by
  have : r.variables.isEmpty = false := by cases h : r.variables <;> simp_all
  simp [Rule.variablesUnsorted, this]

theorem explicit_marker_variable_of_instantiation (cf : CaseFns) (r : Rule) (q : Request) (ts : List Tok)
    (v : Str → Str) (name mn : Str) (trs : List Transformer) (hmem : mn ∈ groupNames ts) :
    Variable.getValue cf ⟨name, .marker mn, trs⟩ (r.transformed cf (groupValues ts v)) q =
      applyTransformers cf trs (markerValue cf r mn (v mn)) := by
  simp only [Variable.getValue, transformed_lookup]
  have : (groupValues ts v).lookup mn = some (v mn) := by
    simp only [groupValues]
    generalize groupNames ts = l at hmem
    induction l with
    | nil => simp at hmem
    | cons k ks ih =>
      simp only [List.map_cons, List.lookup_cons]
      cases h : mn == k with
      | true => have : mn = k := by simpa using h
                simp [this]
      | false =>
        have hne : mn ≠ k := by simpa using h
        rcases List.mem_cons.mp hmem with h1 | h1
        · exact absurd h1 hne
        · simpa using ih h1
  simp [this]

/-- **Location = target[@mᵢ := Tᵢ(vᵢ)]** (no explicit variables): corollary of `outcome_of_instantiation`. -/
theorem location_is_target_with_transformed_values (cf : CaseFns) (r : Rule) (probe : Str) (q : Request)
    (ts : List Tok) (v : Str → Str) (captured : List (Str × Str)) (t : Str)
    (hbc : r.variables = []) (ht : r.target = some t) (hne : t ≠ [])
    (hcap : ∀ n, captured.lookup n = (groupValues ts v).lookup n) :
    (r.outcome cf probe captured q).location =
      [subst ((groupNames ts).map fun n => (n, markerValue cf r n (v n))) t] := by
  rw [outcome_of_instantiation cf r probe q (groupValues ts v) captured hcap,
    (outcome_fields r probe _).2.2.2.2 t ht hne, variables_of_instantiation_bc cf r q ts v hbc]

/-- The token views of the rule's path (percent-encoded source path, percent-encoded marker expressions:
`Rule::path_and_query`, `Rule::markers`) and host. -/
def pathTokens (r : Rule) : List Tok :=
  tokens (pctEncode Rio.Consts.markerPathEncodeSet r.path) r.routeMarkers

def hostTokens (r : Rule) (h : Str) : List Tok := tokens h r.routeMarkers

theorem dynamic_of_sod {lower : Str → Str} {t : Str} {ms : List (Str × Str)} {ic : Bool} {m : MarkerString}
    (h : StaticOrDynamic.newWithMarkers lower t ms ic = .dynamic m) : MarkerString.new t ms ic = some m := by
  simp only [StaticOrDynamic.newWithMarkers] at h
  split at h
  · simp at h
  · split at h
    · simp at h
    · rename_i m' hm
      simp at h; subst h; exact hm

/-- **End to end on the rule model** (the functions the correspondence check runs against the library): a rule
with markers in its PATH and, optionally, in its HOST (no header triggers), with or without explicit variables.
The request's normalised path is the instantiation `v` of the path tokens (its matching path — lower-cased under
`ignore_path_and_query_case` — an instantiation `v'` with accepted values), its (normalised) host the instantiation
`v` of the host tokens.  Then the rule matches and EVERY substituted value (Location, `get_target`, header-filter
values, body-filter contents, html values) is the simultaneous substitution of the variable list of the
instantiation, the host's captures overriding the path's (`Route::capture`).  Assumed: the engine laws at the three
haystacks of this request (`EngineLawsAt`), the delimiter condition, plain marker names, `@`-free expressions. -/
theorem rule_end_to_end (E : Engine) (cf : CaseFns) (cfg : Config) (r : Rule) (q : Request) (probe : Str)
    (L Lh : Str → Str → Prop) (ceq ceqh : Char → Char → Bool)
    (hrefl : ∀ c, ceq c c = true) (hreflh : ∀ c, ceqh c c = true)
    (hhdr : r.headers = [])
    (mstr : MarkerString) (hdyn : r.pathSoD cf cfg = .dynamic mstr)
    (hplain : namesPlain r.routeMarkers = true) (hre : regexNoAt r.routeMarkers = true)
    (v v' : Str → Str)
    (lawsM : EngineLawsAt L ceq (E.full cfg.ignorePathCase) E.search (E.caps cfg.ignorePathCase) (pathTokens r) q.matching)
    (lawsP : EngineLawsAt L ceq (E.full cfg.ignorePathCase) E.search (E.caps cfg.ignorePathCase) (pathTokens r) q.path)
    (hmatching : q.matching = instOf (pathTokens r) v')
    (hacc' : ∀ n re, Tok.grp n re ∈ pathTokens r → L re (v' n))
    (hpath : q.path = instOf (pathTokens r) v)
    (hdelim : DelimitedOr L ceq v (pathTokens r))
    (hacc : ∀ n re, Tok.grp n re ∈ pathTokens r → L re (v n))
    -- the host: absent, or a template with markers instantiated by the request host
    (hostCaps : List (Str × Str))
    (hhost : (r.host = none ∧ hostCaps = []) ∨
      ∃ h mh hs, r.host = some h ∧ r.hostSoD cf cfg = some (.dynamic mh) ∧ q.host = some hs ∧
        hs = instOf (hostTokens r h) v ∧ hostCaps = groupValues (hostTokens r h) v ∧
        EngineLawsAt Lh ceqh (E.full cfg.ignoreHostCase) E.search (E.caps cfg.ignoreHostCase) (hostTokens r h) hs ∧
        DelimitedOr Lh ceqh v (hostTokens r h) ∧ (∀ n re, Tok.grp n re ∈ hostTokens r h → Lh re (v n))) :
    r.matches E cf cfg q = true ∧
    r.outcome cf probe (r.capture E cf cfg q) q =
      r.outcomeWith probe (subst (r.variablesUnsorted cf (hostCaps ++ groupValues (pathTokens r) v) q)) := by
  have hnew := dynamic_of_sod hdyn
  obtain ⟨hregex, hcapture, hic⟩ := markerString_is_tokens _ _ _ mstr hplain hre hnew
  have hrh : r.routeHeaders cfg = [] := by simp [Rule.routeHeaders, hhdr]
  have hregex' : mstr.regex = renderRegex (pathTokens r) := hregex
  have hcapture' : mstr.capture = renderCapture (pathTokens r) := hcapture
  -- path: match and captures
  have hpm : E.full cfg.ignorePathCase mstr.regex q.matching = true := by
    rw [hregex', lawsM.full_iff, hmatching]
    exact ⟨_, decomp_inst L ceq hrefl _ v' hacc'⟩
  have hd : Decomp L ceq (pathTokens r) q.path (groupValues (pathTokens r) v) := by
    rw [hpath]; exact decomp_inst L ceq hrefl (pathTokens r) v hacc
  have hsome := lawsP.caps_complete ⟨_, hd⟩
  cases hc : E.caps cfg.ignorePathCase (renderCapture (pathTokens r)) q.path with
  | none => rw [hc] at hsome; simp at hsome
  | some mp =>
    obtain ⟨vs, hvs, hlk⟩ := lawsP.caps_sound mp hc
    rw [hpath] at hvs
    rw [(decomp_unique_or L ceq hrefl v _ hdelim vs hvs).1] at hlk
    have hndp := lawsP.caps_nodup mp hc
    have hpcap : sodCapture E (r.pathSoD cf cfg) q.path = mp := by
      simp only [hdyn, sodCapture, capOf, hcapture', hic, hc, Option.getD_some]
    rcases hhost with ⟨hnone, hc0⟩ | ⟨h, mh, hs, hrhost, hhsod, hqhost, hhs, hhc, lawsH, hdelimH, haccH⟩
    · -- no host
      have hhostSoD : r.hostSoD cf cfg = none := by simp [Rule.hostSoD, hnone]
      constructor
      · simp [Rule.matches, hdyn, hhostSoD, hrh, hpm]
      · apply outcome_of_instantiation
        intro n
        simp only [Rule.capture, hhostSoD, hrh, hpcap, List.foldl_nil, hc0, List.nil_append]
        rw [lookup_extendMap_nil mp hndp, hlk n]
    · -- host with markers
      have hnewH : MarkerString.new h r.routeMarkers cfg.ignoreHostCase = some mh := by
        simp only [Rule.hostSoD, hrhost, Option.map_some, Option.some.injEq] at hhsod
        exact dynamic_of_sod hhsod
      obtain ⟨hregexH, hcaptureH, hicH⟩ := markerString_is_tokens _ _ _ mh hplain hre hnewH
      have hregexH' : mh.regex = renderRegex (hostTokens r h) := hregexH
      have hcaptureH' : mh.capture = renderCapture (hostTokens r h) := hcaptureH
      have hdH : Decomp Lh ceqh (hostTokens r h) hs (groupValues (hostTokens r h) v) := by
        rw [hhs]; exact decomp_inst Lh ceqh hreflh _ v haccH
      have hhm : E.full cfg.ignoreHostCase mh.regex hs = true := by
        rw [hregexH', lawsH.full_iff]; exact ⟨_, hdH⟩
      have hsomeH := lawsH.caps_complete ⟨_, hdH⟩
      cases hcH : E.caps cfg.ignoreHostCase (renderCapture (hostTokens r h)) hs with
      | none => rw [hcH] at hsomeH; simp at hsomeH
      | some mhc =>
        obtain ⟨vsH, hvsH, hlkH⟩ := lawsH.caps_sound mhc hcH
        rw [hhs] at hvsH
        rw [(decomp_unique_or Lh ceqh hreflh v _ hdelimH vsH hvsH).1] at hlkH
        have hndH := lawsH.caps_nodup mhc hcH
        constructor
        · simp [Rule.matches, hdyn, hhsod, hqhost, hrh, hpm, hhm]
        · apply outcome_of_instantiation
          intro n
          have hhcap : sodCapture E (StaticOrDynamic.dynamic mh) hs = mhc := by
            simp only [sodCapture, capOf, hcaptureH', hicH, hcH, Option.getD_some]
          simp only [Rule.capture, hhsod, hqhost, hrh, List.foldl_nil]
          rw [hpcap, hhcap, lookup_extendMap _ mhc hndH, lookup_extendMap_nil mp hndp, lookup_append', hhc, hlkH n, hlk n]

/-! ### Non-vacuity -/

/-- `substitution` on names that are prefixes of one another, a reference followed by name-extending text, an
unknown reference and a trailing `@`. -/
example :
    let vs : List (Str × Str) := [(['a'], ['1']), (['a','b'], ['x','y']), (['a','b','c'], ['f','o','o'])]
    let t : Str := ['/','@','a','b','c','-','@','a','b','-','@','a','-','@','a','b','c','d','-','@','a','b','x','-','@','q','@']
    replaceVars t (sortVars vs) = ['/','f','o','o','-','x','y','-','1','-','f','o','o','d','-','x','y','x','-','@','q','@'] := by
  decide

/-- `regex_is_tokens` on a template with a meta character, two markers sharing a prefix and a stray `@`. -/
example :
    let ms : List (Str × Str) := [(['i','d'], ['[','0','-','9',']','+']), (['i','d','2'], ['[','a','-','z',']','+'])]
    let t : Str := ['/','a','.','b','/','@','i','d','/','@','i','d','2','@']
    namesPlain ms = true ∧ regexNoAt ms = true ∧
    tokens t ms = [.lit '/', .lit 'a', .lit '.', .lit 'b', .lit '/', .grp ['i','d'] ['[','0','-','9',']','+'], .lit '/',
                   .grp ['i','d','2'] ['[','a','-','z',']','+'], .lit '@'] ∧
    (build t ms).regex = "/a\\.b/(?:[0-9]+)/(?:[a-z]+)@".toList := by
  refine ⟨by decide, by decide, by decide, ?_⟩
  decide

/-- A marker used twice: the first occurrence is the named group, the second a plain group (repair of the
`repeated-marker` finding: before it both were named and the capture regex did not compile). -/
example :
    let ms : List (Str × Str) := [(['i','d'], ['[','0','-','9',']','+'])]
    let t : Str := ['/','@','i','d','/','x','/','@','i','d']
    (build t ms).regex = "/(?:[0-9]+)/x/(?:[0-9]+)".toList ∧
    (build t ms).capture = "/(?P<id>[0-9]+)/x/(?:[0-9]+)".toList ∧
    renderCapture (tokens t ms) = "/(?P<id>[0-9]+)/x/(?:[0-9]+)".toList := by
  refine ⟨by decide, by decide, by decide⟩

/-- The engine laws are satisfiable for every language, comparison and token list (so the theorems that assume
them are not vacuous): take the specification itself as the engine. -/
theorem engineLaws_satisfiable (L : Str → Str → Prop) (ceq : Char → Char → Bool) (ts : List Tok) :
    ∃ full search caps, EngineLaws L ceq full search caps ts := by
  classical
  refine ⟨fun _ s => decide (∃ vs, Decomp L ceq ts s vs),
    fun _ s => decide (∃ a mid b vs, s = a ++ mid ++ b ∧ Decomp L ceq ts mid vs),
    fun _ s => if h : ∃ vs, Decomp L ceq ts s vs then some (dedupKeys (Classical.choose h)) else none, ?_⟩
  refine ⟨?_, ?_, ?_, ?_, ?_⟩
  · intro s; simp
  · intro s; simp
  · intro s m h
    by_cases hex : ∃ vs, Decomp L ceq ts s vs
    · simp only [hex, dite_true, Option.some.injEq] at h
      subst h
      exact ⟨_, Classical.choose_spec hex, fun n => lookup_dedupKeys _ n⟩
    · simp [hex] at h
  · intro s hex
    simp [hex]
  · intro s m h
    by_cases hex : ∃ vs, Decomp L ceq ts s vs
    · simp only [hex, dite_true, Option.some.injEq] at h
      subst h
      exact nodup_names_dedupKeys _
    · simp [hex] at h

/-- A concrete instance of the matching theorems: template `/p/@id/x`, `id` accepting non-empty digit strings
(`L`), exact char comparison.  The template is delimiter-separated for every digit-free-of-`/` value; so the
instantiation matches iff the value is a non-empty digit string. -/
example (full search : Str → Str → Bool) (caps : Str → Str → Option (List (Str × Str)))
    (re : Str) (hre : noAt re = true)
    (v : Str) (hv : '/' ∉ v)
    (laws : EngineLawsAt (fun _ v => v ≠ [] ∧ ∀ c ∈ v, c.isDigit = true) (fun a b => a == b) full search caps
      (tokens ['/','p','/','@','i','d','/','x'] [(['i','d'], re)])
      (instOf (tokens ['/','p','/','@','i','d','/','x'] [(['i','d'], re)]) (fun _ => v))) :
    full (build ['/','p','/','@','i','d','/','x'] [(['i','d'], re)]).regex
        (instOf (tokens ['/','p','/','@','i','d','/','x'] [(['i','d'], re)]) (fun _ => v)) = true
      ↔ (v ≠ [] ∧ ∀ c ∈ v, c.isDigit = true) := by
  have htok : tokens ['/','p','/','@','i','d','/','x'] [(['i','d'], re)] =
      [.lit '/', .lit 'p', .lit '/', .grp ['i','d'] re, .lit '/', .lit 'x'] := by
    simp [tokens, parse, parseAux, longest, pre, names, tokOf, blen, List.lookup]
  have hplain : namesPlain [((['i','d'] : Str), re)] = true := by
    simp [namesPlain, plainName, isMeta]
  have hnoat : regexNoAt [((['i','d'] : Str), re)] = true := by simp [regexNoAt, hre]
  rw [match_iff_all_accepted _ _ full search caps (by simp) _ _ _ laws hplain hnoat]
  · rw [htok]; simp
  · apply delimitedOr_of_delimited
    rw [htok]
    simp only [Delimited]
    refine ⟨?_, ?_, trivial⟩
    · intro x hx
      have : x ≠ '/' := fun e => hv (e ▸ hx)
      simpa using fun e => this e.symm
    · intro w hw x hx
      have hd := hw.2 x hx
      have : x ≠ '/' := by intro e; subst e; simp [Char.isDigit] at hd
      simpa using fun e => this e.symm

end Rio.C10
