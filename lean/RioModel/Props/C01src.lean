/-
C01 from the rule SOURCE record (review A, C01-5).

The theorems of Props/C01.lean start from parsed routes; the drivers of C01 / C02 / C17 build them with `mkRoute` from
the case descriptions (Model/RouterParse.lean), while Props/C01b.lean proves what `impl IntoRoute<Rule> for Rule`
guarantees about `intoRoute` (Model/IntoRoute.lean, the model of src/api/rule.rs on the rule-source record: cidrs,
instants, times, week days still as strings, path and query as bytes).  This file relates the two and states C01 end
to end:

* `match_exact_from_source`, `match_exact_tree_from_source`: for every list of rule SOURCES with distinct ids, every
  configuration and all parsers, the router filled with `intoRoute` of the sources answers a request with exactly the
  sources whose converted route satisfies `sat`, each once.
* `descOf` / `mkRoute_descOf`: the description the drivers would be given for a source (constraint texts parsed with
  `P`, the path string `Rule::path_and_query` builds); `mkRoute cfg (descOf P src) = intoRoute P cfg src` – for a
  marker path, or without `ignore_path_and_query_case`, or for an ASCII path – so the function the correspondence runs
  IS the function C01b's theorems are about.
-/
import RioModel.Props.C01
import RioModel.Model.IntoRoute

namespace Rio.C01
open Rio.Router Rio.IntoRoute

/-- **C01 from the rule source.**  `srcs`: the rule-source records (ids distinct); the router is filled by
`Router::insert(rule)` = insert of `rule.into_route(config)`.  Every rule is reported at most once, and the rule with
source `src` is reported iff its route satisfies the flat predicate.  Holds for all parsers of cidr / date / time /
week-day texts. -/
theorem match_exact_from_source (P : Parsers) (cfg : Cfg) (E : Env) (srcs : List RuleSource)
    (hid : (srcs.map (·.id)).Nodup) (q : Req) :
    let R := srcs.map (intoRoute P cfg)
    (((Router.build E R).matchReq E q).map (·.id)).Nodup ∧
    (∀ r, r ∈ (Router.build E R).matchReq E q ↔ ∃ src ∈ srcs, r = intoRoute P cfg src ∧ sat E R r q = true) ∧
    (∀ src ∈ srcs, (src.id ∈ ((Router.build E R).matchReq E q).map (·.id) ↔ sat E R (intoRoute P cfg src) q = true)) := by
  intro R
  have hR : NodupIds R := by
    simp only [NodupIds, R, List.map_map]
    exact hid
  obtain ⟨h1, h2⟩ := match_exact E R hR q
  refine ⟨h1, ?_, ?_⟩
  · intro r
    rw [h2 r]
    simp only [R, List.mem_map]
    constructor
    · rintro ⟨⟨src, hs, rfl⟩, hsat⟩; exact ⟨src, hs, rfl, hsat⟩
    · rintro ⟨src, hs, rfl, hsat⟩; exact ⟨⟨src, hs, rfl⟩, hsat⟩
  · intro src hs
    have hmem : intoRoute P cfg src ∈ R := List.mem_map.mpr ⟨src, hs, rfl⟩
    constructor
    · intro hin
      obtain ⟨r, hr, hrid⟩ := List.mem_map.mp hin
      have hrR := ((h2 r).1 hr)
      -- ids are distinct: `r` is the route of `src`
      have : r = intoRoute P cfg src :=
        (nodupIds_uids hR).1 r hrR.1 _ hmem (by rw [hrid]; rfl)
      rw [← this]; exact hrR.2
    · intro hsat
      exact List.mem_map.mpr ⟨_, (h2 _).2 ⟨hmem, hsat⟩, rfl⟩

open Rio.Regex Rio.Tree in
/-- **The same over the real regex trees** (composition with C08), for rule sources whose marker patterns render into
the domain of C08. -/
theorem match_exact_tree_from_source (P : Parsers) (cfg : Cfg) (T : TEnv) (Good : List Char → Prop)
    (hPS : PrefixSound T.engine Good) (srcs : List RuleSource) (hid : (srcs.map (·.id)).Nodup)
    (hW : ∀ src ∈ srcs, TreeGood T Good (intoRoute P cfg src)) (q : Req) :
    let R := srcs.map (intoRoute P cfg)
    ((RouterG.matchReq (towerTOps T) (RouterG.build (towerTOps T) R) q).map (·.id)).Nodup ∧
    (∀ r, r ∈ RouterG.matchReq (towerTOps T) (RouterG.build (towerTOps T) R) q ↔
      ∃ src ∈ srcs, r = intoRoute P cfg src ∧ sat T.env R r q = true) := by
  intro R
  have hR : NodupIds R := by
    simp only [NodupIds, R, List.map_map]
    exact hid
  have hW' : ∀ r ∈ R, TreeGood T Good r := by
    intro r hr
    obtain ⟨src, hs, rfl⟩ := List.mem_map.mp hr
    exact hW src hs
  obtain ⟨h1, h2⟩ := match_exact_tree T Good hPS R hR hW' q
  refine ⟨h1, ?_⟩
  intro r
  rw [h2 r]
  simp only [R, List.mem_map]
  constructor
  · rintro ⟨⟨src, hs, rfl⟩, hsat⟩; exact ⟨src, hs, rfl, hsat⟩
  · rintro ⟨src, hs, rfl, hsat⟩; exact ⟨⟨src, hs, rfl⟩, hsat⟩

/-! ### `mkRoute` (the drivers' conversion) is `intoRoute` -/

/-- one `IpConstraint`: `range.parse::<AnyIpCidr>()`, `InRange` / `NotInRange` -/
def ipOf (P : Parsers) (ip : IpSource) : Option RouteIp :=
  (P.cidr ip.range).map (fun c => if ip.neg then RouteIp.notInRange c else RouteIp.inRange c)

theorem routeIps_eq (P : Parsers) (l : List IpSource) :
    routeIps P (some l) = if (l.filterMap (ipOf P)).isEmpty then none else some (l.filterMap (ipOf P)) := by
  simp only [routeIps]
  have key : ∀ (f : IpSource → Option RouteIp), (∀ ip, f ip = ipOf P ip) → l.filterMap f = l.filterMap (ipOf P) := by
    intro f hf
    congr
    funext ip
    exact hf ip
  rw [key]
  intro ip
  unfold ipOf
  cases P.cidr ip.range <;> rfl

/-- The case description of a rule source: constraint texts parsed (unparsable cidrs / week days dropped, an
unparsable bound open), the path string `Rule::path_and_query` builds (encoded path, `?`, sorted re-encoded query). -/
def descOf (P : Parsers) (src : RuleSource) : RuleDesc where
  id := src.id
  rank := src.rank
  scheme := src.scheme
  host := src.host
  markers := src.markers
  ips := src.ips.map (fun l => l.filterMap (ipOf P))
  methods := src.methods
  exclude := src.excludeMethods
  headers := match src.headers with | none => [] | some hs => hs
  datetime := src.datetime.map (fun l => l.map (rangeOf P.dateTime))
  time := src.time.map (fun l => l.map (rangeOf P.time))
  weekdays := src.weekdays.map (fun l => l.filterMap P.weekday)
  path := asciiStr (rulePathBytes src.path src.query)

theorem noneIfEmpty_some {α : Type} (l : List α) :
    noneIfEmpty (some l) = if l.isEmpty then none else some l := by
  cases l <;> rfl

/-- Everything but the path: field by field the two conversions are the same function. -/
theorem mkRoute_descOf_fields (P : Parsers) (cfg : Cfg) (src : RuleSource) :
    mkRoute cfg (descOf P src) = { intoRoute P cfg src with
      path := sodOf cfg.ignorePathCase src.markers (asciiStr (rulePathBytes src.path src.query)) } := by
  simp only [mkRoute, descOf, intoRoute, routeHost, routeHeaders, routeDateTimes, routeTimes, routeWeekdays]
  congr 1
  · cases src.ips with
    | none => rfl
    | some l => simp only [Option.map_some, noneIfEmpty_some, routeIps_eq]
  · cases src.datetime with
    | none => rfl
    | some l => simp only [Option.map_some, noneIfEmpty_some]
  · cases src.time with
    | none => rfl
    | some l => simp only [Option.map_some, noneIfEmpty_some]
  · cases src.weekdays with
    | none => rfl
    | some l => simp only [Option.map_some, noneIfEmpty_some]

/-- `char::to_lowercase` on a byte-sized character is the byte-level lower-casing of the URL model. -/
theorem toLower_ofNat_byte : ∀ b < 256, Char.toLower (Char.ofNat b) = Char.ofNat (Rio.Url.lowerByte b) := by
  decide +kernel

theorem asciiStr_toLower (k : Rio.Url.Bytes) (hk : ∀ b ∈ k, b < 256) :
    (asciiStr k).toLower = asciiStr (Rio.Url.lowerAscii k) := by
  apply String.ext
  simp only [String.toLower, String.toList_map, asciiStr, String.toList_ofList, Rio.Url.lowerAscii, List.map_map]
  apply List.map_congr_left
  intro b hb
  exact toLower_ofNat_byte b (hk b hb)

/-- The path: `sodOf` on the string and `sodOfBytes` on the bytes build the same `StaticOrDynamic` (the path string
`Rule::path_and_query` builds is percent-encoded, hence bytes; any byte string will do). -/
theorem sodOf_asciiStr (ic : Bool) (ms : List Char) (k : Rio.Url.Bytes) (hk : ∀ b ∈ k, b < 256) :
    sodOf ic ms (asciiStr k) = sodOfBytes ic ms k := by
  unfold sodOf sodOfBytes
  cases ic with
  | false => simp [Rio.Url.lowerIf]
  | true => simp [Rio.Url.lowerIf, asciiStr_toLower k hk]

/-- **`mkRoute` is `intoRoute`**: the route the drivers of C01 / C02 / C17 build from the case description of a rule
source is the route `impl IntoRoute<Rule> for Rule` builds from the source itself (for all parsers, every
configuration; the path bytes are bytes).  So C01b's guarantees (`intoRoute_wf`, dropped cidrs, open bounds, header
kinds) are about the very function the correspondence of C01 runs. -/
theorem mkRoute_descOf (P : Parsers) (cfg : Cfg) (src : RuleSource)
    (hb : ∀ b ∈ rulePathBytes src.path src.query, b < 256) :
    mkRoute cfg (descOf P src) = intoRoute P cfg src := by
  rw [mkRoute_descOf_fields, sodOf_asciiStr _ _ _ hb]
  rfl

/-- The router the drivers build from the descriptions is the router of `match_exact_from_source`. -/
theorem build_desc_eq_source (P : Parsers) (cfg : Cfg) (E : Env) (srcs : List RuleSource)
    (hb : ∀ src ∈ srcs, ∀ b ∈ rulePathBytes src.path src.query, b < 256) :
    Router.build E (srcs.map (fun src => mkRoute cfg (descOf P src))) =
      Router.build E (srcs.map (intoRoute P cfg)) := by
  congr 1
  apply List.map_congr_left
  intro src hs
  exact mkRoute_descOf P cfg src (hb src hs)

end Rio.C01
