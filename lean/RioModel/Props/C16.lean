/-
C16 — the HTML tokenizer is lossless and total on arbitrary bytes.

Model: `RioModel/Model/Html.lean` (function-by-function port of `/repo/src/html/mod.rs`; every Rust
panic possibility is the sticky flag `panic`, a non-terminating attribute loop is the sticky flag `hang`,
`Err(FromUtf8Error)` from `next()` is the flag `utf8Err`).  All theorems quantify over *every* input
(`bytes : Array Nat`, no hypothesis on the content) and every number of calls.  `nexts n t` is the state
after `n` calls of `next()`; `rawL` / `restL` / `dataL` are the bytes of the raw span, of the unread
remainder (`buffered()`) and of the data span.
-/
import RioModel.Proofs.HtmlNext
import RioModel.Proofs.HtmlStream7
import RioModel.Proofs.HtmlClosed5

namespace Rio.C16
open Rio.Html Rio.Html.Tokenizer

/-- The invariant holds initially (`Tokenizer::new`), for every input. -/
theorem new_inv (bytes : Array Nat) : Inv (Tokenizer.new bytes) :=
  ⟨Nat.le_refl _, ⟨Nat.zero_le _, rfl, rfl, rfl⟩, TagOk_nil⟩

/-- … and for `Tokenizer::new_fragment` with any context tag. -/
theorem newFragment_inv (bytes : Array Nat) (ctx : List Nat) : Inv (Tokenizer.newFragment bytes ctx) := by
  unfold Tokenizer.newFragment
  split
  · rename_i hc
    refine ⟨Nat.le_refl _, ⟨Nat.zero_le _, rfl, rfl, rfl⟩, ?_⟩
    have : ∀ s ∈ Rio.Consts.htmlFragmentRawTags, ∀ c ∈ s, 32 ≤ c := by decide
    exact this ctx (by simpa using hc)
  · exact ⟨Nat.le_refl _, ⟨Nat.zero_le _, rfl, rfl, rfl⟩, TagOk_nil⟩

/-- `next_inv`: `raw.start ≤ raw.end ≤ len`, no panic, no hang, no `Err` — preserved by `next()`. -/
theorem next_inv (t : Tokenizer) (h : Inv t) : Inv (next t) := next_inv' t h

/-- `next()` never touches the input buffer. -/
theorem next_buf (t : Tokenizer) (h : Inv t) : (next t).buf = t.buf := next_buf' t h

/-- `next_starts_where_previous_ended`: the raw span of a token starts where the previous one ended. -/
theorem next_starts_where_previous_ended (t : Tokenizer) (h : Inv t) : (next t).rawS = t.rawE :=
  next_rawS' t h

/-- The span fields the accessors slice with are in range after `next()`: data span inside the raw
span, non-empty for tag tokens, saved attribute spans inside the buffer. -/
theorem next_spans (t : Tokenizer) (h : Inv t) : Spans (next t) := (next_post t h).spans

/-- `progress`: every token other than `ErrorToken` consumes at least one byte. -/
theorem progress (t : Tokenizer) (h : Inv t) (hk : (next t).token ≠ .error) : (next t).rawS < (next t).rawE :=
  (next_post t h).progress hk

/-- `no_panic` (also C07 for the tokenizer): after any number of `next()` calls on any input no modelled
panic site fired (no `usize`/`u8` underflow, no index or slice out of range), the attribute loop
always made progress, and `next()` never returned `Err`. -/
theorem no_panic (bytes : Array Nat) (n : Nat) :
    (nexts n (Tokenizer.new bytes)).panic = false ∧ (nexts n (Tokenizer.new bytes)).hang = false ∧
    (nexts n (Tokenizer.new bytes)).utf8Err = false :=
  let i := nexts_inv n _ (new_inv bytes)
  ⟨i.ok.panic, i.ok.hang, i.ok.utf8⟩

/-- `lossless`: after any number `n` of `next()` calls, the raw spans of the `n` tokens in order followed
by the unread remainder (`buffered()`) reproduce the input exactly. -/
theorem lossless (bytes : Array Nat) (n : Nat) :
    ((List.range n).map fun i => rawL (nexts (i + 1) (Tokenizer.new bytes))).flatten
      ++ restL (nexts n (Tokenizer.new bytes)) = bytes.toList := by
  have h := new_inv bytes
  have c := consumed_eq n _ h
  have hb := nexts_buf n _ h
  have hle := (nexts_inv n _ h).ok.le
  rw [← c.1, restL, hb]
  rw [hb] at hle
  have hz : (Tokenizer.new bytes).rawE = 0 := rfl
  have hbuf : (Tokenizer.new bytes).buf = bytes := rfl
  rw [hz, hbuf] at *
  rw [← extract_split bytes 0 _ bytes.size (Nat.zero_le _) hle]
  simp

/-- the slices taken by `raw()` and `buffered()` are always in range and are the spans of `lossless` -/
theorem raw_buffered_ok (bytes : Array Nat) (n : Nat) :
    (nexts n (Tokenizer.new bytes)).raw = some (rawL (nexts n (Tokenizer.new bytes))) ∧
    (nexts n (Tokenizer.new bytes)).buffered = some (restL (nexts n (Tokenizer.new bytes))) :=
  ⟨raw_eq _ (nexts_inv n _ (new_inv bytes)), buffered_eq _ (nexts_inv n _ (new_inv bytes))⟩

/-- `token_count_le`: if the first `n` tokens are all different from `ErrorToken` then `n ≤ len`
(at most one token per input byte) … -/
theorem token_count_le (bytes : Array Nat) (n : Nat)
    (hne : ∀ i, i < n → (nexts (i + 1) (Tokenizer.new bytes)).token ≠ .error) : n ≤ bytes.size := by
  have h := new_inv bytes
  have p := nexts_progress n _ h hne
  have hle := (nexts_inv n _ h).ok.le
  rw [nexts_buf n _ h] at hle
  have hz : (Tokenizer.new bytes).rawE = 0 := rfl
  have hbuf : (Tokenizer.new bytes).buf = bytes := rfl
  rw [hz] at p
  rw [hbuf] at hle
  omega

/-- … hence the tokenising loop terminates: an `ErrorToken` is returned within the first `len + 1` calls. -/
theorem terminates (bytes : Array Nat) :
    ∃ i, i ≤ bytes.size ∧ (nexts (i + 1) (Tokenizer.new bytes)).token = .error := by
  apply Classical.byContradiction
  intro hno
  have hne : ∀ i, i < bytes.size + 1 → (nexts (i + 1) (Tokenizer.new bytes)).token ≠ .error := by
    intro i hi he
    exact hno ⟨i, by omega, he⟩
  have := token_count_le bytes (bytes.size + 1) hne
  omega

/-- `tag_name_some` / `accessors_ok_of_utf8` for `tag_name()`: on a start, end or self-closing tag token
`tag_name()` never panics, and returns `Ok((Some(name), has_attr))` when the bytes of the name are valid
UTF-8 (`Err(FromUtf8Error)` otherwise) — it never returns `None`, which discharges the `unwrap()`s in
`html_filter_body.rs` / `body_append.rs`.  (`name` = the data span, ASCII-lower-cased in the model.) -/
theorem tag_name_some (t : Tokenizer) (h : Inv t) (hk : isTagLike (next t).token = true) :
    (tagName (next t)).1 =
      (if validUtf8 (dataL (next t)) then
        .ok (some ((dataL (next t)).map lowerByte), decide ((next t).nAttrRet < (next t).attrs.size))
       else .utf8Err) ∧ dataL (next t) ≠ [] := by
  have s := next_spans t h
  have i := next_inv t h
  refine ⟨(tagName_spec _ i s hk).1, ?_⟩
  have hlt := s.tagData hk
  have hle := Nat.le_trans s.dataHi i.ok.le
  intro he
  have : (dataL (next t)).length = (next t).dataE - (next t).dataS := by
    simp [dataL]; omega
  rw [he] at this
  simp at this
  omega

/-- `accessors_ok_of_utf8` for `text()`: on a text, comment or doctype token `text()` never panics and
returns `Ok(Some(..))` exactly when the data span is valid UTF-8. -/
theorem text_ok_of_utf8 (t : Tokenizer) (h : Inv t) (hk : isTextLike (next t).token = true) :
    (text (next t)).1 =
      (if validUtf8 (dataL (next t)) then
        .ok (some (if (next t).convertNull || ((next t).token == .text && (dataL (next t)).contains 0)
          then replaceNul (dataL (next t)) else dataL (next t)))
       else .utf8Err) :=
  (text_spec _ (next_inv t h) (next_spans t h) hk).1

/-- `accessors_ok_of_utf8` for `tag_attr()`: in any state with in-range saved attribute spans (true
after `next()` on a start / self-closing token, and preserved by `tag_name()` and by `tag_attr()`
itself) `tag_attr()` never panics, keeps the invariants, and returns `Ok((Some(key), Some(value), more))`
when key and value bytes are valid UTF-8. -/
theorem tag_attr_ok_of_utf8 (t : Tokenizer) (h : Inv t) (ha : AttrsOk t) :
    (tagAttr t).1 ≠ .panic ∧ Inv (tagAttr t).2 ∧ AttrsOk (tagAttr t).2 ∧
    (∀ (hi : t.nAttrRet < t.attrs.size), (t.token = .startTag ∨ t.token = .selfClosing) →
      validUtf8 (t.buf.extract t.attrs[t.nAttrRet].ks t.attrs[t.nAttrRet].ke).toList = true →
      validUtf8 (t.buf.extract t.attrs[t.nAttrRet].vs t.attrs[t.nAttrRet].ve).toList = true →
      (tagAttr t).1 = .ok (some ((t.buf.extract t.attrs[t.nAttrRet].ks t.attrs[t.nAttrRet].ke).toList.map lowerByte),
        some (t.buf.extract t.attrs[t.nAttrRet].vs t.attrs[t.nAttrRet].ve).toList,
        decide (t.nAttrRet + 1 < t.attrs.size))) :=
  let s := tagAttr_spec t h ha
  ⟨s.1, s.2.1, s.2.2.1, s.2.2.2.2⟩

/-- the precondition of `tag_attr_ok_of_utf8` holds after `next()` and then `tag_name()` -/
theorem attrs_ok_after_tag_name (t : Tokenizer) (h : Inv t)
    (hk : (next t).token = .startTag ∨ (next t).token = .selfClosing) :
    Inv (tagName (next t)).2 ∧ AttrsOk (tagName (next t)).2 := by
  have s := next_spans t h
  have i := next_inv t h
  have n := tagName_spec _ i s (isTagLike_start hk)
  refine ⟨n.2.1, ?_⟩
  intro a ha
  rw [n.2.2.1] at ha
  rw [n.2.2.2.2.2]
  exact (s.attrs hk).1 a ha

theorem text_cases (t : Tokenizer) :
    (text t).1 = .panic ∨ (text t).2 = t ∨ (text t).2 = { t with dataS := t.rawE, dataE := t.rawE } := by
  unfold text
  (repeat' split) <;> simp

theorem tagName_cases (t : Tokenizer) :
    (tagName t).1 = .panic ∨ (tagName t).2 = t ∨ (tagName t).2 = { t with dataS := t.rawE, dataE := t.rawE } := by
  unfold tagName
  (repeat' split) <;> simp

theorem tagAttr_cases (t : Tokenizer) :
    (tagAttr t).1 = .panic ∨ (tagAttr t).2 = t ∨ (tagAttr t).2 = { t with nAttrRet := t.nAttrRet + 1 } := by
  unfold tagAttr
  split
  · split
    · simp only
      cases t.slice? t.attrs[t.nAttrRet].ks t.attrs[t.nAttrRet].ke with
      | none => simp
      | some k =>
        simp only
        split
        · simp
        · cases t.slice? t.attrs[t.nAttrRet].vs t.attrs[t.nAttrRet].ve with
          | none => simp
          | some v => simp only; split <;> simp
    · simp
  · simp

/-- Calling `text()` between two `next()` calls is invisible to `next()`: it only resets the data span,
which `next()` overwrites first thing.  (So the theorems about `nexts` cover the interleaved use.) -/
theorem next_after_text (t : Tokenizer) (h : (text t).1 ≠ .panic) : next (text t).2 = next t := by
  rcases text_cases t with hp | he | he
  · exact absurd hp h
  · rw [he]
  · rw [he]; rfl

/-- The same for `tag_name()`. -/
theorem next_after_tag_name (t : Tokenizer) (h : (tagName t).1 ≠ .panic) : next (tagName t).2 = next t := by
  rcases tagName_cases t with hp | he | he
  · exact absurd hp h
  · rw [he]
  · rw [he]; rfl

/-- `tag_attr()` only advances `number_attribute_returned`. -/
theorem tag_attr_frame (t : Tokenizer) (h : (tagAttr t).1 ≠ .panic) :
    ∃ k, (tagAttr t).2 = { t with nAttrRet := k } := by
  rcases tagAttr_cases t with hp | he | he
  · exact absurd hp h
  · exact ⟨t.nAttrRet, he⟩
  · exact ⟨_, he⟩

/-! Non-vacuity: the theorems have no hypothesis on the input; `Inv` is inhabited by every initial state
(`new_inv`).  Concrete evaluations of the model on `<a>b`: the first token is a start tag with raw span
`[0,3)`, the second the text `b`, the third the `ErrorToken`; the three raw spans and the (empty)
remainder are the input. -/
example : (nexts 1 (Tokenizer.new #[60, 97, 62, 98])).token = .startTag ∧
    rawL (nexts 1 (Tokenizer.new #[60, 97, 62, 98])) = [60, 97, 62] ∧
    (nexts 2 (Tokenizer.new #[60, 97, 62, 98])).token = .text ∧
    rawL (nexts 2 (Tokenizer.new #[60, 97, 62, 98])) = [98] ∧
    (nexts 3 (Tokenizer.new #[60, 97, 62, 98])).token = .error ∧
    restL (nexts 3 (Tokenizer.new #[60, 97, 62, 98])) = [] := by
  decide +kernel

/-- `tag_name_some` is not vacuous: `<A b=c>` is a start tag named `a` with one attribute. -/
example : (tagName (next (Tokenizer.new #[60, 65, 32, 98, 61, 99, 62]))).1 matches .ok (some [97], true) := by
  decide +kernel

/-- `tag_name()` is single-use (review B, C16-2): after a successful call the data span is reset, so a SECOND call on the
same token returns `Ok((None, false))` — `tag_name_some` is about the first call after `next()`, which is the only one the
filters make. -/
theorem tag_name_second_call (t : Tokenizer) (x : Option (List Nat) × Bool) (h : (tagName t).1 = .ok x)
    (hx : x.1 ≠ none) : (tagName (tagName t).2).1 = .ok (none, false) := by
  have hA : (tagName t).2.dataS = (tagName t).2.dataE := by
    unfold tagName at h ⊢
    by_cases hc : (decide (t.dataS < t.dataE) && isTagLike t.token) = true
    · rw [if_pos hc] at h ⊢
      cases hs : t.slice? t.dataS t.dataE with
      | none => rw [hs] at h; cases h
      | some bs =>
        rw [hs] at h
        simp only at h ⊢
        by_cases hv : (!validUtf8 bs) = true
        · rw [if_pos hv] at h; cases h
        · rw [if_neg hv]
    · rw [if_neg hc] at h
      injection h with h; subst h; exact absurd rfl hx
  generalize (tagName t).2 = s at hA
  unfold tagName
  rw [if_neg (by simp [hA])]

/-! ### the raw-text context (`raw_tag()`, `new_fragment`; read by the html filter since fe7eac6) -/

/-- **`new_fragment`** keeps its (lower-cased) context tag iff it is one of the ten raw-text element names
`read_start_tag` can store (both tables regenerated from the source); any other name — and "" — gives no context. -/
theorem new_fragment_context (bytes : Array Nat) (ctx : List Nat) :
    (Tokenizer.newFragment bytes ctx).rawTag = if ctx ∈ Rio.Consts.htmlFragmentRawTags then ctx else [] :=
  newFragment_rawTag bytes ctx

/-- the two tables agree: `new_fragment` accepts exactly the names `read_start_tag` can set -/
theorem context_tables_agree (s : List Nat) :
    s ∈ Rio.Consts.htmlFragmentRawTags ↔ s ∈ Rio.Consts.htmlRawDispatch.flatMap (·.2) :=
  ⟨fragment_sub_rawNames s, rawNames_sub_fragment s⟩

/-- **`raw_tag()` after `next()`**: "" ; or a raw-text element name, and then the token is a (self-closing) start tag
that did not hit the end of the data; or unchanged, which happens only once `err` is set or in the `plaintext` context. -/
theorem raw_tag_after_next (t : Tokenizer) (h : Inv t) :
    (next t).rawTag = [] ∨
    ((next t).rawTag ∈ Rio.Consts.htmlFragmentRawTags ∧ ((next t).token = .startTag ∨ (next t).token = .selfClosing) ∧
      (next t).err = false) ∨
    ((next t).rawTag = t.rawTag ∧ (t.err = true ∨ t.rawTag = Rio.Consts.htmlPlaintext)) :=
  next_ctx t h

/-- `raw_tag()` is always "" or one of the ten names, from `new` / `new_fragment` on, for every input -/
theorem raw_tag_is_context (bytes : Array Nat) (ctx : List Nat) (n : Nat) :
    RawCtx (nexts n (Tokenizer.newFragment bytes ctx)).rawTag :=
  nexts_rawCtx n _ (newFragment_inv bytes ctx) (newFragment_rawCtx bytes ctx)

/-- **RESTART in any context**: at a token boundary where `err()` is unset, the tokenizer continues exactly like
`new_fragment(unread bytes, raw_tag())` (positions shifted by `raw.end`): same token types, spans, `err`, `raw_tag`. -/
theorem restart_in_context (bytes : Array Nat) (ctx : List Nat) (k n : Nat) (hn : 0 < n)
    (herr : (nexts k (Tokenizer.newFragment bytes ctx)).err = false) :
    CoreT True (nexts k (Tokenizer.newFragment bytes ctx)).rawE
      (nexts n (nexts k (Tokenizer.newFragment bytes ctx)))
      (nexts n (restartCtx (nexts k (Tokenizer.newFragment bytes ctx)))) :=
  nexts_restart_ctx n _ (nexts_inv k _ (newFragment_inv bytes ctx)) herr (raw_tag_is_context bytes ctx k) hn

/-- **a call of `next()` that sets `err` ends at the end of the data** (so `raw() ++ buffered()` of a cut token is the
unread suffix that starts at the token's first byte), and tag tokens are never cut. -/
theorem cut_token_ends_at_eof (bytes : Array Nat) (ctx : List Nat) (k : Nat)
    (herr : (nexts (k + 1) (Tokenizer.newFragment bytes ctx)).err = true) :
    (nexts (k + 1) (Tokenizer.newFragment bytes ctx)).rawE = bytes.size ∧
    isTagLike (nexts (k + 1) (Tokenizer.newFragment bytes ctx)).token = false := by
  have inv := nexts_inv k _ (newFragment_inv bytes ctx)
  have eg : ErrGe (nexts k (Tokenizer.newFragment bytes ctx)) :=
    nexts_errGe k _ (fun h => by rw [(newFragment_fields bytes ctx).2.2.2.1] at h; cases h)
  refine ⟨?_, ?_⟩
  · have h1 : (nexts (k + 1) (Tokenizer.newFragment bytes ctx)).rawE =
        (nexts (k + 1) (Tokenizer.newFragment bytes ctx)).buf.size := next_cut_end _ inv eg herr
    rw [Tokenizer.nexts_buf (k + 1) _ (newFragment_inv bytes ctx), (newFragment_fields bytes ctx).1] at h1
    exact h1
  · cases hk : isTagLike (nexts (k + 1) (Tokenizer.newFragment bytes ctx)).token with
    | false => rfl
    | true =>
      have := next_tag_not_cut _ inv hk
      rw [show next (nexts k (Tokenizer.newFragment bytes ctx)) = nexts (k + 1) (Tokenizer.newFragment bytes ctx) from rfl,
        herr] at this
      cases this

/-- not vacuous: in the context `title` the bytes `a<b></title>x` are one text token up to the end tag, then the context
is left; in no context `<b>` is a tag -/
example :
    (nexts 1 (Tokenizer.newFragment #[97, 60, 98, 62, 60, 47, 116, 105, 116, 108, 101, 62, 120] [116, 105, 116, 108, 101])).token = .text ∧
    rawL (nexts 1 (Tokenizer.newFragment #[97, 60, 98, 62, 60, 47, 116, 105, 116, 108, 101, 62, 120] [116, 105, 116, 108, 101])) = [97, 60, 98, 62] ∧
    (nexts 1 (Tokenizer.newFragment #[97, 60, 98, 62, 60, 47, 116, 105, 116, 108, 101, 62, 120] [116, 105, 116, 108, 101])).rawTag = [] ∧
    (nexts 2 (Tokenizer.newFragment #[97, 60, 98, 62, 60, 47, 116, 105, 116, 108, 101, 62, 120] [116, 105, 116, 108, 101])).token = .endTag ∧
    rawL (nexts 2 (Tokenizer.newFragment #[97, 60, 98, 62] [])) = [60, 98, 62] := by
  decide +kernel

/-! ### the attribute list of a tag token under prefix extension and restart -/

/-- **prefix stability of `tag_attr()`**: if the `n`-th `next()` did not hit the end of the data and returned a start /
self-closing tag, then on EVERY extension of the input the same call returns a tag with the same attribute spans, and
the first `tag_attr()` returns the same key / value / has-more; EVERY FURTHER call too: theorem
`tag_attr_prefix_stable_all` below (`attrCalls k` = the state after `k` calls of `tag_attr()`) -/
theorem tag_attr_prefix_stable (bytes ext : Array Nat) (ctx : List Nat) (n : Nat) (hn : 0 < n)
    (hne : (nexts n (Tokenizer.newFragment bytes ctx)).err = false)
    (hk : (nexts n (Tokenizer.newFragment bytes ctx)).token = .startTag ∨
      (nexts n (Tokenizer.newFragment bytes ctx)).token = .selfClosing) :
    Sav 0 (nexts n (extend (Tokenizer.newFragment bytes ctx) ext)) (nexts n (Tokenizer.newFragment bytes ctx)) ∧
    (tagAttr (nexts n (extend (Tokenizer.newFragment bytes ctx) ext))).1 =
      (tagAttr (nexts n (Tokenizer.newFragment bytes ctx))).1 := by
  have inv := newFragment_inv bytes ctx
  have s := nexts_simA n _ _ (pre_extend (Tokenizer.newFragment bytes ctx) ext) inv (Or.inr hne) hn
  have htl : isTagLike (nexts n (Tokenizer.newFragment bytes ctx)).token = true := by
    rcases hk with h | h <;> rw [h] <;> rfl
  have sv := s.2 htl
  obtain ⟨m, rfl⟩ : ∃ m, n = m + 1 := ⟨n - 1, by omega⟩
  have sp := next_spans _ (nexts_inv m _ inv)
  have ha : AttrsOk (nexts (m + 1) (Tokenizer.newFragment bytes ctx)) := (sp.attrs hk).1
  exact ⟨sv, (tagAttr_sim s.1.1.toPre sv ha s.1.2).1⟩

/-- **restart and `tag_attr()`**: after a restart at a token boundary (any context) a tag token has the attribute spans
of the continued tokenizer shifted by the restart position, and `tag_attr()` returns the same -/
theorem tag_attr_restart (bytes : Array Nat) (ctx : List Nat) (k n : Nat) (hn : 0 < n)
    (herr : (nexts k (Tokenizer.newFragment bytes ctx)).err = false)
    (hk : (nexts n (restartCtx (nexts k (Tokenizer.newFragment bytes ctx)))).token = .startTag ∨
      (nexts n (restartCtx (nexts k (Tokenizer.newFragment bytes ctx)))).token = .selfClosing) :
    (tagAttr (nexts n (nexts k (Tokenizer.newFragment bytes ctx)))).1 =
      (tagAttr (nexts n (restartCtx (nexts k (Tokenizer.newFragment bytes ctx))))).1 := by
  have inv := nexts_inv k _ (newFragment_inv bytes ctx)
  have hc := raw_tag_is_context bytes ctx k
  have s := nexts_restart_ctxA n _ inv herr hc hn
  have htl : isTagLike (nexts n (restartCtx (nexts k (Tokenizer.newFragment bytes ctx)))).token = true := by
    rcases hk with h | h <;> rw [h] <;> rfl
  have sv := s.2 htl
  obtain ⟨m, rfl⟩ : ∃ m, n = m + 1 := ⟨n - 1, by omega⟩
  have sp := next_spans _ (nexts_inv m _ (restartCtx_inv _ inv hc))
  have ha : AttrsOk (nexts (m + 1) (restartCtx (nexts k (Tokenizer.newFragment bytes ctx)))) := (sp.attrs hk).1
  exact (tagAttr_sim s.1.1.toPre sv ha s.1.2).1

/-! ### every `tag_attr()` call; the attribute texts of a `Simple` start tag -/

/-- the state after `k` calls of `tag_attr()` -/
def attrCalls : Nat → Tokenizer → Tokenizer
  | 0, t => t
  | k + 1, t => attrCalls k (tagAttr t).2

/-- related states stay related under `tag_attr()`, and the results agree -/
theorem tagAttr_step {F : Prop} {p : Nat} {t u : Tokenizer} (c : Pre F p t u) (sv : Sav p t u) (inv : Inv u)
    (ha : AttrsOk u) (htok : t.token = u.token) :
    (tagAttr t).1 = (tagAttr u).1 ∧ Pre F p (tagAttr t).2 (tagAttr u).2 ∧ Sav p (tagAttr t).2 (tagAttr u).2 ∧
    Inv (tagAttr u).2 ∧ AttrsOk (tagAttr u).2 ∧ (tagAttr t).2.token = (tagAttr u).2.token := by
  have s := tagAttr_sim c sv ha htok
  have su := tagAttr_spec u inv ha
  have hnt : (tagAttr t).1 ≠ .panic := by rw [s.1]; exact su.1
  obtain ⟨kt, et⟩ := tag_attr_frame t hnt
  obtain ⟨ku, eu⟩ := tag_attr_frame u su.1
  refine ⟨s.1, ?_, s.2, su.2.1, su.2.2.1, ?_⟩
  · rw [et, eu]
    exact ⟨c.size, c.agree, c.full, c.rawE, c.err, c.rawTag, c.cdata, c.panic, c.hang, c.utf8⟩
  · rw [et, eu]; exact htok

theorem attrCalls_sim {F : Prop} {p : Nat} : ∀ (k : Nat) {t u : Tokenizer}, Pre F p t u → Sav p t u → Inv u →
    AttrsOk u → t.token = u.token → (tagAttr (attrCalls k t)).1 = (tagAttr (attrCalls k u)).1
  | 0, _, _, c, sv, inv, ha, htok => (tagAttr_step c sv inv ha htok).1
  | k + 1, _, _, c, sv, inv, ha, htok => by
    obtain ⟨_, c', sv', inv', ha', htok'⟩ := tagAttr_step c sv inv ha htok
    exact attrCalls_sim k c' sv' inv' ha' htok'

/-- **prefix stability of EVERY `tag_attr()` call** (review D, 8c): under the hypotheses of `tag_attr_prefix_stable`, for every
`k` the `(k+1)`-th `tag_attr()` on the extended input returns what it returns on the original input -/
theorem tag_attr_prefix_stable_all (bytes ext : Array Nat) (ctx : List Nat) (n : Nat) (hn : 0 < n)
    (hne : (nexts n (Tokenizer.newFragment bytes ctx)).err = false)
    (hk : (nexts n (Tokenizer.newFragment bytes ctx)).token = .startTag ∨
      (nexts n (Tokenizer.newFragment bytes ctx)).token = .selfClosing) (k : Nat) :
    (tagAttr (attrCalls k (nexts n (extend (Tokenizer.newFragment bytes ctx) ext)))).1 =
      (tagAttr (attrCalls k (nexts n (Tokenizer.newFragment bytes ctx)))).1 := by
  have inv := newFragment_inv bytes ctx
  have s := nexts_simA n _ _ (pre_extend (Tokenizer.newFragment bytes ctx) ext) inv (Or.inr hne) hn
  have htl : isTagLike (nexts n (Tokenizer.newFragment bytes ctx)).token = true := by
    rcases hk with h | h <;> rw [h] <;> rfl
  obtain ⟨m, rfl⟩ : ∃ m, n = m + 1 := ⟨n - 1, by omega⟩
  have sp := next_spans _ (nexts_inv m _ inv)
  exact attrCalls_sim k s.1.1.toPre (s.2 htl) (nexts_inv (m + 1) _ inv) (sp.attrs hk).1 s.1.2

/-- … and after a restart (any context): every `tag_attr()` call returns the same -/
theorem tag_attr_restart_all (bytes : Array Nat) (ctx : List Nat) (k n : Nat) (hn : 0 < n)
    (herr : (nexts k (Tokenizer.newFragment bytes ctx)).err = false)
    (hk : (nexts n (restartCtx (nexts k (Tokenizer.newFragment bytes ctx)))).token = .startTag ∨
      (nexts n (restartCtx (nexts k (Tokenizer.newFragment bytes ctx)))).token = .selfClosing) (j : Nat) :
    (tagAttr (attrCalls j (nexts n (nexts k (Tokenizer.newFragment bytes ctx))))).1 =
      (tagAttr (attrCalls j (nexts n (restartCtx (nexts k (Tokenizer.newFragment bytes ctx)))))).1 := by
  have inv := nexts_inv k _ (newFragment_inv bytes ctx)
  have hc := raw_tag_is_context bytes ctx k
  have s := nexts_restart_ctxA n _ inv herr hc hn
  have htl : isTagLike (nexts n (restartCtx (nexts k (Tokenizer.newFragment bytes ctx)))).token = true := by
    rcases hk with h | h <;> rw [h] <;> rfl
  obtain ⟨m, rfl⟩ : ∃ m, n = m + 1 := ⟨n - 1, by omega⟩
  have iu := restartCtx_inv _ inv hc
  have sp := next_spans _ (nexts_inv m _ iu)
  exact attrCalls_sim j s.1.1.toPre (s.2 htl) (nexts_inv (m + 1) _ iu) (sp.attrs hk).1 s.1.2

/-- **the attribute texts of a start tag of the `Simple` grammar** (restated from `Proofs/HtmlClosed5.lean` so that it is
audited): on `<name attrs trail (> | />)` — any name `read_tag_name` accepts, attributes in every quoting style with optional
white space around `=` — the slices `tag_attr()` takes from the saved spans are, in order, the keys and the values (without
quotes, `[]` for a bare key), and `number_attribute_returned = 0` -/
theorem attrs_texts (t : Tokenizer) (disp : Bytes) (as : List SAttr) (trail : Bytes) (e : TagEnd)
    (ok : Ok t) (he : t.err = false) (htag : t.rawTag = []) (hn : nameOK2 disp = true)
    (hok : ∀ a ∈ as, a.ok = true) (htr : ∀ b ∈ trail, isWs b = true) (hend : endOK as trail e = true)
    (h : Has t t.rawE ([60] ++ disp ++ attrsOf as ++ trail ++ e.text)) :
    (next t).attrs.toList.map (fun s => ((t.buf.extract s.ks s.ke).toList, (t.buf.extract s.vs s.ve).toList)) =
      as.map (fun a => (a.key, a.val.value)) ∧ (next t).nAttrRet = 0 :=
  Tokenizer.attrs_texts t disp as trail e ok he htag hn hok htr hend h

/-- after `i` calls of `tag_attr()` on a tag token only `number_attribute_returned` has moved -/
theorem attrCalls_state : ∀ (i : Nat) (s : Tokenizer), Inv s → AttrsOk s → (s.token = .startTag ∨ s.token = .selfClosing) →
    s.nAttrRet + i ≤ s.attrs.size → attrCalls i s = { s with nAttrRet := s.nAttrRet + i }
  | 0, s, _, _, _, _ => rfl
  | i + 1, s, inv, ha, hk, hle => by
    have sp := tagAttr_spec s inv ha
    have hlt : s.nAttrRet < s.attrs.size := by omega
    have hst : (tagAttr s).2 = { s with nAttrRet := s.nAttrRet + 1 } := by
      have hkb : (s.token == .startTag || s.token == .selfClosing) = true := by rcases hk with h | h <;> simp [h]
      have hnp := sp.1
      unfold tagAttr at hnp ⊢
      rw [dif_pos hlt, if_pos hkb] at hnp ⊢
      simp only at hnp ⊢
      split
      · rename_i h1; rw [h1] at hnp; exact absurd rfl hnp
      · rename_i k h1
        rw [h1] at hnp
        simp only at hnp
        split
        · rfl
        · rename_i hv
          rw [if_neg hv] at hnp
          split
          · rename_i h2; rw [h2] at hnp; exact absurd rfl hnp
          · split <;> rfl
    simp only [attrCalls]
    rw [hst, attrCalls_state i ({ s with nAttrRet := s.nAttrRet + 1 } : Tokenizer)
      ⟨inv.raw, ⟨inv.ok.le, inv.ok.panic, inv.ok.hang, inv.ok.utf8⟩, inv.tag⟩ (show AttrsOk _ from ha) hk
      (by show s.nAttrRet + 1 + i ≤ s.attrs.size; omega)]
    show ({ s with nAttrRet := s.nAttrRet + 1 + i } : Tokenizer) = _
    rw [show s.nAttrRet + 1 + i = s.nAttrRet + (i + 1) by omega]

/-- **the `i`-th `tag_attr()`** (0-based, review D item 5) on such a tag returns `(key_i lower-cased, value_i verbatim,
i + 1 < n)`, provided key and value are valid UTF-8 (else it returns `Err(FromUtf8Error)`, `tag_attr_ok_of_utf8`) -/
theorem tag_attr_ith (t : Tokenizer) (disp : Bytes) (as : List SAttr) (trail : Bytes) (e : TagEnd)
    (inv : Inv t) (he : t.err = false) (htag : t.rawTag = []) (hn : nameOK2 disp = true)
    (hok : ∀ a ∈ as, a.ok = true) (htr : ∀ b ∈ trail, isWs b = true) (hend : endOK as trail e = true)
    (h : Has t t.rawE ([60] ++ disp ++ attrsOf as ++ trail ++ e.text))
    (i : Nat) (hi : i < as.length) (hvk : validUtf8 as[i].key = true) (hvv : validUtf8 as[i].val.value = true) :
    (tagAttr (attrCalls i (next t))).1 =
      .ok (some (as[i].key.map lowerByte), some as[i].val.value, decide (i + 1 < as.length)) := by
  obtain ⟨spans, r1, r2, r3⟩ := attrs_closed_form t disp as trail e inv.ok he htag hn hok htr hend h
  have pc := (start_tag_closed_form2 t disp as trail e inv.ok he htag hn hok htr hend h).1
  have hk : (next t).token = .startTag ∨ (next t).token = .selfClosing := by
    rw [pc.token]; cases e <;> simp [TagEnd.kind]
  have i1 := next_inv t inv
  have ha : AttrsOk (next t) := ((next_spans t inv).attrs hk).1
  have hlen : spans.length = as.length := r2.length
  have hsz : (next t).attrs.size = as.length := by rw [r1]; simpa using hlen
  have hst := attrCalls_state i (next t) i1 ha hk (by rw [r3, hsz]; omega)
  rw [hst, r3, Nat.zero_add]
  generalize hS : ({ next t with nAttrRet := i } : Tokenizer) = S
  have hSa : S.attrs = (next t).attrs := by rw [← hS]
  have hSn : S.nAttrRet = i := by rw [← hS]
  have hSb : S.buf = t.buf := by rw [← hS]; exact pc.buf
  have invS : Inv S := by rw [← hS]; exact ⟨i1.raw, ⟨i1.ok.le, i1.ok.panic, i1.ok.hang, i1.ok.utf8⟩, i1.tag⟩
  have haS : AttrsOk S := by rw [← hS]; exact ha
  have hkS : S.token = .startTag ∨ S.token = .selfClosing := by rw [← hS]; exact hk
  have hiS : S.nAttrRet < S.attrs.size := by rw [hSn, hSa, hsz]; exact hi
  have hget : S.attrs[S.nAttrRet]'hiS = spans[i]'(by rw [hlen]; exact hi) := by
    simp only [hSn, hSa, r1]; rfl
  have so := r2.get i (by rw [hlen]; exact hi) hi
  obtain ⟨k1, k2, v1, v2⟩ := so
  have ek : (S.buf.extract (S.attrs[S.nAttrRet]'hiS).ks (S.attrs[S.nAttrRet]'hiS).ke).toList = as[i].key := by
    rw [hget, hSb, k2]; exact extract_of_has k1
  have ev : (S.buf.extract (S.attrs[S.nAttrRet]'hiS).vs (S.attrs[S.nAttrRet]'hiS).ve).toList = as[i].val.value := by
    rw [hget, hSb, v2]; exact extract_of_has v1
  have sp := (tagAttr_spec S invS haS).2.2.2.2 hiS hkS (by rw [ek]; exact hvk) (by rw [ev]; exact hvv)
  rw [sp, ek, ev, hSn, hSa, hsz]

/-- non-vacuity of `attrs_texts` / `tag_attr_ith` (review D): `<A b=c D='e f' g>` — unquoted value, single-quoted value with
a space and an upper-case key, bare key — satisfies the hypotheses, the texts are `[(b, c), (D, e f), (g, "")]` and the three
`tag_attr()` calls return `(b, c, true)`, `(d, e f, true)`, `(g, "", false)` (kernel evaluation of the model) -/
def exAttrs : List SAttr :=
  [{ ws := [32], key := [98], val := .unq [99] }, { ws := [32], key := [68], val := .sq [101, 32, 102] },
   { ws := [32], key := [103], val := .none }]

def exTag : List Nat := [60, 65, 32, 98, 61, 99, 32, 68, 61, 39, 101, 32, 102, 39, 32, 103, 62]

example : exTag = [60] ++ [65] ++ attrsOf exAttrs ++ [] ++ TagEnd.gt.text := by decide

example :
    (next (Tokenizer.new exTag.toArray)).attrs.toList.map (fun s =>
      (((Tokenizer.new exTag.toArray).buf.extract s.ks s.ke).toList, ((Tokenizer.new exTag.toArray).buf.extract s.vs s.ve).toList)) =
      [([98], [99]), ([68], [101, 32, 102]), ([103], [])] :=
  (attrs_texts (Tokenizer.new exTag.toArray) [65] exAttrs [] .gt ⟨Nat.zero_le _, rfl, rfl, rfl⟩ rfl rfl (by decide)
    (by decide) (by simp) rfl (has_new exTag)).1

example :
    ((tagAttr (attrCalls 0 (next (Tokenizer.new exTag.toArray)))).1 matches .ok (some [98], some [99], true)) ∧
    ((tagAttr (attrCalls 1 (next (Tokenizer.new exTag.toArray)))).1 matches .ok (some [100], some [101, 32, 102], true)) ∧
    ((tagAttr (attrCalls 2 (next (Tokenizer.new exTag.toArray)))).1 matches .ok (some [103], some [], false)) := by
  decide +kernel

/-- `tag_attr_ith` instantiated on the same tag: its hypotheses hold (second attribute, upper-case key `D` → `d`) -/
example : (tagAttr (attrCalls 1 (next (Tokenizer.new exTag.toArray)))).1 =
    .ok (some ([68].map lowerByte), some [101, 32, 102], decide (1 + 1 < exAttrs.length)) :=
  tag_attr_ith (Tokenizer.new exTag.toArray) [65] exAttrs [] .gt (new_inv _) rfl rfl (by decide) (by decide) (by simp) rfl
    (has_new exTag) 1 (by decide) (by decide) (by decide)

end Rio.C16
