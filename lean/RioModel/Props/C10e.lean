/-
C10 — which engine laws are PROVED, for which executable engine (answer to review A, C10-2).

1. For W1's engine (`Regex.engineOf G`: `tokTop` splitter + parser `G` of group bodies + Brzozowski-derivative
   matcher — it READS the pattern string), W2's bridge proves the matching law `full_iff` on every haystack
   (`Bridge.engineOf_full_iff`).  Here: the unanchored-search law follows for `searchOf full` ("some infix is fully
   matched"), so the two matching fields of `EngineLawsAt` hold for that engine on every token list with good groups
   and every haystack (`verified_engine_full`, `verified_engine_search`).  The captures law is not proved for it (the
   engine has no captures).
2. For the executable engine the DRIVER runs (`Marker.stdEngine`: regex parser + leftmost-first backtracking matcher
   with captures), all five laws are discharged BY EVALUATION at the haystack of a concrete request, and
   `rule_end_to_end` is instantiated with it (`rule_end_to_end_instance`): concrete rule `/p/@id/x`, marker `[0-9]+`,
   target / header filter / body filter, request `/p/42/x`.  So the hypotheses of `rule_end_to_end` are jointly
   satisfiable with an engine that reads its pattern.
-/
import RioModel.Proofs.MarkerRouterBridge
import RioModel.Model.MarkerStd
set_option linter.unusedSimpArgs false

namespace Rio.C10
open Rio.Marker

/-- W1's derivative engine satisfies the matching law on every haystack (W2's bridge). -/
theorem verified_engine_full (G : List Char → Option Regex.Re) (ic : Bool) (ts : List Tok)
    (hg : Bridge.TokGood ts) (s : Str) :
    (Regex.engineOf G).full ic (renderRegex ts) s = true ↔
      ∃ vs, Decomp (Bridge.markerLang G ic) (Bridge.litEq ic) ts s vs :=
  Bridge.engineOf_full_iff G ic ts hg s

/-- … and the unanchored search derived from it ("some infix is fully matched") satisfies the search law. -/
theorem verified_engine_search (G : List Char → Option Regex.Re) (ic : Bool) (ts : List Tok)
    (hg : Bridge.TokGood ts) (s : Str) :
    searchOf ((Regex.engineOf G).full ic) (renderRegex ts) s = true ↔
      ∃ a mid b vs, s = a ++ mid ++ b ∧ Decomp (Bridge.markerLang G ic) (Bridge.litEq ic) ts mid vs :=
  searchOf_iff _ _ _ ts (Bridge.engineOf_full_iff G ic ts hg) s

/-! ### `rule_end_to_end` instantiated with the driver's executable engine -/

def re09 : Str := ['[','0','-','9',']','+']

/-- path `/p/@id/x`, marker `id = [0-9]+`, target `/t/@id`, one header filter `h=@id`, one body filter `b@id`. -/
def demoRule : Rule :=
  { path := ['/','p','/','@','i','d','/','x']
    host := none
    headers := []
    markers := [{ name := ['i','d'], regex := re09, transformers := [] }]
    variables := []
    target := some ['/','t','/','@','i','d']
    headerFilters := [['h','=','@','i','d']]
    bodyFilters := [['b','@','i','d']] }

def demoCfg : Config := ⟨false, false, false⟩
def demoReq : Request := Request.fromConfig asciiCase demoCfg ['/','p','/','4','2','/','x'] none none none []

/-- non-empty digit strings -/
def digitsL (_ : Str) (v : Str) : Prop := v ≠ [] ∧ ∀ c ∈ v, c.isDigit = true

theorem demo_tokens :
    pathTokens demoRule = [.lit '/', .lit 'p', .lit '/', .grp ['i','d'] re09, .lit '/', .lit 'x'] := by decide

theorem demo_decomp :
    Decomp digitsL (fun a b => a == b) (pathTokens demoRule) ['/','p','/','4','2','/','x'] [(['i','d'], ['4','2'])] := by
  rw [demo_tokens]
  refine .lit (by decide) (.lit (by decide) (.lit (by decide) ?_))
  have : (['4','2','/','x'] : Str) = ['4','2'] ++ ['/','x'] := rfl
  rw [this]
  refine .grp ⟨by decide, by decide⟩ (.lit (by decide) (.lit (by decide) .nil))

/-- All five laws hold for the driver's engine at the haystack of the request — by evaluation. -/
theorem demo_laws :
    EngineLawsAt digitsL (fun a b => a == b) (stdEngine.full false) stdEngine.search (stdEngine.caps false)
      (pathTokens demoRule) ['/','p','/','4','2','/','x'] := by
  have hcaps : stdEngine.caps false (renderCapture (pathTokens demoRule)) ['/','p','/','4','2','/','x']
      = some [(['i','d'], ['4','2'])] := by decide
  refine ⟨?_, ?_, ?_, ?_, ?_⟩
  · exact iff_of_true (by decide) ⟨_, demo_decomp⟩
  · exact iff_of_true (by decide) ⟨[], _, [], _, by simp, demo_decomp⟩
  · intro m hm
    rw [hcaps] at hm
    simp only [Option.some.injEq] at hm
    subst hm
    exact ⟨_, demo_decomp, fun _ => rfl⟩
  · intro _; rw [hcaps]; rfl
  · intro m hm
    rw [hcaps] at hm
    simp only [Option.some.injEq] at hm
    subst hm
    decide

/-- **Non-vacuity of `rule_end_to_end`**: every hypothesis holds for this rule, this request and the executable engine
the driver runs; the conclusion, evaluated: the rule matches, Location `/t/42`, header filter `h=42`, body `<>b42`. -/
theorem rule_end_to_end_instance :
    demoRule.matches stdEngine asciiCase demoCfg demoReq = true ∧
    demoRule.outcome asciiCase ['<','>'] (demoRule.capture stdEngine asciiCase demoCfg demoReq) demoReq =
      { location := [['/','t','/','4','2']], headers := [['h','=','4','2']], body := ['<','>','b','4','2'], html := [],
        target := some ['/','t','/','4','2'] } := by
  have hq : demoReq.path = ['/','p','/','4','2','/','x'] := by decide
  have hqm : demoReq.matching = ['/','p','/','4','2','/','x'] := by decide
  have hinst : instOf (pathTokens demoRule) (fun _ => ['4','2']) = ['/','p','/','4','2','/','x'] := by
    rw [demo_tokens]; decide
  have hacc : ∀ n re, Tok.grp n re ∈ pathTokens demoRule → digitsL re ((fun _ => (['4','2'] : Str)) n) := by
    intro n re _
    show digitsL re ['4','2']
    exact ⟨by decide, by decide⟩
  have h := rule_end_to_end stdEngine asciiCase demoCfg demoRule demoReq ['<','>']
    digitsL digitsL (fun a b => a == b) (fun a b => a == b) (by simp) (by simp) rfl
    ⟨pathTokens demoRule |> renderRegex, pathTokens demoRule |> renderCapture, false⟩ (by decide) (by decide) (by decide)
    (fun _ => ['4','2']) (fun _ => ['4','2'])
    (by rw [hqm]; exact demo_laws) (by rw [hq]; exact demo_laws)
    (by rw [hqm, hinst]) hacc (by rw [hq, hinst])
    (by
      apply delimitedOr_of_delimited
      rw [demo_tokens]
      simp only [Delimited]
      refine ⟨by decide, ?_, trivial⟩
      intro w hw x hx
      have hd := hw.2 x hx
      have : x ≠ '/' := by intro e; subst e; simp [Char.isDigit] at hd
      simpa using fun e => this e.symm)
    hacc [] (Or.inl ⟨rfl, rfl⟩)
  refine ⟨h.1, ?_⟩
  rw [h.2]
  decide

end Rio.C10
