/-
C04 / C15 / C03 (HTML body filters) — `leave` and `new` of the three visitors REGENERATED FROM THE SOURCE (W14).

`Rio.Consts.genBodyAppendLeave / genBodyPrependLeave / genBodyReplaceLeave`, `genBody*New` and
`genHtmlBodyVisitorNew*` are translated on every run from src/filter/html_body_action/body_append.rs, body_prepend.rs,
body_replace.rs and mod.rs (tools/consts.d/w4_translate_visitor2.py, section `w4_translate_visitor2`).  `leave` is the
code that actually EDITS bytes: which of `data`, `content ++ data`, `append_child(data, content)`,
`prepend_child(data, content)`, `content` is returned, under which gate, and how `position` / `is_buffering` move.
Proofs/VisitorGen2.lean shows, through the representation relation `Rep` of Proofs/VisitorGen.lean, that the translated
functions compute what W6's `Visitor.leave` / `Visitor.new` (Model/Filter.lean) compute.  Here: that equality as property
theorems (`gen_visitor_leave_eq_model`, `gen_visitor_new_eq_model`; `gen_visitor_run_eq_model`: every sequence of
`enter` / `leave` calls from the state `new` builds), the panic-freedom side conditions of the translation
(`gen_leave_index_in_range`), headline consequences restated for the translated definitions, and the refutation of
the statement without the length bound (`gen_visitor_leave_eq_model_unbounded_fails`).

PARAMETERS of the translation, exactly as the hand model has them: the selector oracle `evaluate` (any function) and
the re-tokenising helpers `append_child` / `prepend_child` (their `?` exit is not represented; instantiated with the
model's `appendChild tk` / `prependChild tk` for ANY tokenizer `tk`).  The unit trace is not modelled.
HYPOTHESIS `tree.length < 2^31`: the code tests `position as i32 > 0` (translated as `genAsI32 position > 0`), the model
`before ≠ []`; they agree for paths shorter than 2^31 elements (the same refinement hypothesis as
`Rio.C07.filter_no_panic`).  `v[i]` is rendered `(v[i]?).getD []`, `unwrap()` `getD []`, `position -= 1` the truncating
`position - 1`: `gen_leave_index_in_range` shows that under `Rep` no default and no truncation is used.
-/
import RioModel.Proofs.VisitorGen2
import RioModel.Proofs.FilterDom
set_option linter.unusedSimpArgs false

namespace Rio.C04
open Rio.Consts Rio.Filter Rio.VisitorGen

/-- the translated `leave` is the model's, for the three visitors: same result (next_enter, next_leave, returned bytes),
related states, same `is_buffering`; every state, every data, every selector oracle, every tokenizer -/
theorem gen_visitor_leave_eq_model (tk : Tokenize) (ev : Rio.Filter.Bytes → Rio.Filter.Bytes → Bool)
    {tree : List Rio.Filter.Bytes} {pos : Nat} {v : Visitor}
    (h : Rep tree pos v) (hs : tree.length < 2147483648) (data : Rio.Filter.Bytes) :
    (v.kind = .append →
      (genBodyAppendLeave ev (appendChild tk) tree pos v.sel v.content data).1 = (v.leave tk ev data).1 ∧
      Rep tree (genBodyAppendLeave ev (appendChild tk) tree pos v.sel v.content data).2 (v.leave tk ev data).2) ∧
    (v.kind = .prepend →
      (genBodyPrependLeave ev (prependChild tk) tree pos v.sel v.content v.isBuffering data).1 = (v.leave tk ev data).1 ∧
      Rep tree (genBodyPrependLeave ev (prependChild tk) tree pos v.sel v.content v.isBuffering data).2.1
        (v.leave tk ev data).2 ∧
      (genBodyPrependLeave ev (prependChild tk) tree pos v.sel v.content v.isBuffering data).2.2 =
        (v.leave tk ev data).2.isBuffering) ∧
    (v.kind = .replace →
      (genBodyReplaceLeave ev tree pos v.sel v.content v.isBuffering data).1 = (v.leave tk ev data).1 ∧
      Rep tree (genBodyReplaceLeave ev tree pos v.sel v.content v.isBuffering data).2.1 (v.leave tk ev data).2 ∧
      (genBodyReplaceLeave ev tree pos v.sel v.content v.isBuffering data).2.2 = (v.leave tk ev data).2.isBuffering) :=
  ⟨fun hk => genAppendLeave_eq tk ev hk h hs data, fun hk => genPrependLeave_eq tk ev hk h hs data,
   fun hk => genReplaceLeave_eq tk ev hk h hs data⟩

/-- under the representation invariant every index the translated `leave` evaluates is in range and the decrement does
not underflow: `position` itself; and, where the code's guard `position as i32 > 0` holds (NO length hypothesis),
`0 < position`, `position - 1` in range and holding the element the model moves back to -/
theorem gen_leave_index_in_range {tree : List Rio.Filter.Bytes} {pos : Nat} {v : Visitor} (h : Rep tree pos v) :
    pos < tree.length ∧ tree[pos]? = some v.cur ∧
    (genAsI32 pos > 0 → 0 < pos ∧ pos - 1 < tree.length ∧ v.before ≠ [] ∧ tree[pos - 1]? = some v.retreat.cur) := by
  have hl := h.len
  refine ⟨by omega, h.get, fun hg => ?_⟩
  have h0 := genAsI32_pos_imp pos hg
  have hb := h.pos_iff.mp h0
  exact ⟨h0, by omega, hb, (h.retreat hb).get⟩

/-- **`new`**: the constructor calls of `HtmlBodyVisitor::new` translated from mod.rs, composed with the translated
`Body*::new`, build the state the model's `Visitor.new` builds for the same action string: the fields
(element_tree, position, css_selector, content[, is_buffering]) are represented by / equal to the model's visitor —
in particular `content` receives `filter.value` and NOT `inner_value` (argument order), `position = 0`,
`is_buffering = false` -/
theorem gen_visitor_new_eq_model (p : Rio.Filter.Bytes) (ps : List Rio.Filter.Bytes) (sel : Option Rio.Filter.Bytes)
    (value : Rio.Filter.Bytes) (inner idv th : Option Rio.Filter.Bytes) :
    (∃ v, Visitor.new genHtmlBodyVisitorActionAppend (p :: ps) sel value = some v ∧ v.kind = .append ∧
      let g := genHtmlBodyVisitorNewAppend (p :: ps) sel value inner idv th
      Rep g.1 g.2.1 v ∧ g.2.2.1 = v.sel ∧ g.2.2.2.1 = v.content) ∧
    (∃ v, Visitor.new genHtmlBodyVisitorActionPrepend (p :: ps) sel value = some v ∧ v.kind = .prepend ∧
      let g := genHtmlBodyVisitorNewPrepend (p :: ps) sel value inner idv th
      Rep g.1 g.2.1 v ∧ g.2.2.1 = v.sel ∧ g.2.2.2.1 = v.content ∧ g.2.2.2.2.2.1 = v.isBuffering) ∧
    (∃ v, Visitor.new genHtmlBodyVisitorActionReplace (p :: ps) sel value = some v ∧ v.kind = .replace ∧
      let g := genHtmlBodyVisitorNewReplace (p :: ps) sel value inner idv th
      Rep g.1 g.2.1 v ∧ g.2.2.1 = v.sel ∧ g.2.2.2.1 = v.content ∧ g.2.2.2.2.2.1 = v.isBuffering) := by
  have hn := visitorNew_eq p ps sel value
  have hf := genNew_fields (p :: ps) sel value inner idv th
  refine ⟨⟨_, hn.1, rfl, ?_⟩, ⟨_, hn.2.1, rfl, ?_⟩, ⟨_, hn.2.2, rfl, ?_⟩⟩
  · rw [hf.1]; exact ⟨rep_new .append p ps sel value, rfl, rfl⟩
  · rw [hf.2.1]; exact ⟨rep_new .prepend p ps sel value, rfl, rfl, rfl⟩
  · rw [hf.2.2]; exact ⟨rep_new .replace p ps sel value, rfl, rfl, rfl⟩

/-- the action strings of the translated constructor calls are the regenerated action names the model dispatches on -/
theorem gen_visitor_actions_eq_model :
    genHtmlBodyVisitorActionAppend = filterActionAppend ∧ genHtmlBodyVisitorActionPrepend = filterActionPrepend ∧
    genHtmlBodyVisitorActionReplace = filterActionReplace := genActions_eq

/-- **Every sequence of `enter` / `leave` calls** (this closes the "until the first `leave`" caveat of
`gen_visitor_initial`): starting from the state `new` builds (position 0, `is_buffering = false`, a non-empty path
shorter than 2^31), the TRANSLATED `enter` / `leave` of each of the three visitors, threaded through their own mutable
state (`position`, `is_buffering`), return call by call exactly what the hand-written model returns
(`genRun` / `modelRun`, Proofs/VisitorGen2.lean: results in the common shape (next_enter, next_leave, start buffering
(`enter` only), data)); any selector oracle, any tokenizer, any data, any order of calls -/
theorem gen_visitor_run_eq_model (tk : Tokenize) (ev : Rio.Filter.Bytes → Rio.Filter.Bytes → Bool) (kind : VKind)
    (p : Rio.Filter.Bytes) (ps : List Rio.Filter.Bytes) (sel : Option Rio.Filter.Bytes) (content : Rio.Filter.Bytes)
    (hs : (p :: ps).length < 2147483648) (ops : List VOp) :
    (genRun tk ev kind (p :: ps) sel content (0, false) ops).1 =
      (modelRun tk ev { kind := kind, cur := p, after := ps, sel := sel, content := content } ops).1 :=
  (genRun_eq tk ev hs ops (inv_new kind p ps sel content)).1

/-- the same from ANY represented state (`Inv`: `Rep`, same kind / selector / content, same `is_buffering` for the two
visitors that have the field), and the invariant is kept -/
theorem gen_visitor_run_inv (tk : Tokenize) (ev : Rio.Filter.Bytes → Rio.Filter.Bytes → Bool) {kind : VKind}
    {tree : List Rio.Filter.Bytes} {sel : Option Rio.Filter.Bytes} {content : Rio.Filter.Bytes} {st : Nat × Bool}
    {v : Visitor} (hs : tree.length < 2147483648) (hi : Inv kind tree sel content st v) (ops : List VOp) :
    (genRun tk ev kind tree sel content st ops).1 = (modelRun tk ev v ops).1 ∧
    Inv kind tree sel content (genRun tk ev kind tree sel content st ops).2 (modelRun tk ev v ops).2 :=
  genRun_eq tk ev hs ops hi

/-! ### headline consequences, for the translated definitions -/

/-- **What the translated `leave`s return** (closed form, `position` in range): at an inner level
(`position + 1 < len`) append returns `data` unchanged; at the last level append without a (non-empty) selector
returns `content ++ data` (there `data` is the end tag: the value sits immediately before it), with a selector `data`
when the selector matches and `append_child(data, content)` when it does NOT; prepend edits only when it was buffering
with a non-empty selector that does not match (`prepend_child(data, content)`) and then clears the flag; replace,
when buffering, returns `content` if there is no selector or the selector matches, `data` otherwise, and clears the
flag.  Any `evaluate`, any helper. -/
theorem leave_output_closed_form_gen (ev : Rio.Filter.Bytes → Rio.Filter.Bytes → Bool)
    (ac pc : Rio.Filter.Bytes → Rio.Filter.Bytes → Rio.Filter.Bytes) (tree : List Rio.Filter.Bytes) (pos : Nat)
    (sel : Option Rio.Filter.Bytes) (content data : Rio.Filter.Bytes) (b : Bool) :
    (genBodyAppendLeave ev ac tree pos sel content data).1.2.2 =
      (if pos + 1 < tree.length then data
       else if sel.isSome && !(sel.getD []).isEmpty then (if ev data (sel.getD []) then data else ac data content)
       else content ++ data) ∧
    (genBodyPrependLeave ev pc tree pos sel content b data).1.2.2 =
      (if b && sel.isSome && !(sel.getD []).isEmpty && !ev data (sel.getD []) then pc data content else data) ∧
    (genBodyPrependLeave ev pc tree pos sel content b data).2.2 =
      (if sel.isSome && !(sel.getD []).isEmpty then false else b) ∧
    (genBodyReplaceLeave ev tree pos sel content b data).1.2.2 =
      (if b && (sel.isNone || (sel.getD []).isEmpty || ev data (sel.getD [])) then content else data) ∧
    (genBodyReplaceLeave ev tree pos sel content b data).2.2 = false := by
  refine ⟨?_, ?_, ?_, ?_, ?_⟩
  · unfold genBodyAppendLeave
    by_cases hlt : pos + 1 < tree.length
    · have : ¬ pos + 1 ≥ tree.length := by omega
      simp [hlt, this]
    · have : pos + 1 ≥ tree.length := by omega
      cases sel with
      | none => simp [hlt, this]
      | some s => cases he : s.isEmpty <;> cases hev : ev data s <;> simp [hlt, this, he, hev]
  · unfold genBodyPrependLeave
    cases b <;> cases sel with
    | none => simp
    | some s => cases he : s.isEmpty <;> cases hev : ev data s <;> simp [he, hev]
  · unfold genBodyPrependLeave
    cases b <;> cases sel with
    | none => simp
    | some s => cases he : s.isEmpty <;> cases hev : ev data s <;> simp [he, hev]
  · unfold genBodyReplaceLeave
    cases b <;> cases sel with
    | none => simp
    | some s => cases he : s.isEmpty <;> cases hev : ev data s <;> simp [he, hev]
  · unfold genBodyReplaceLeave
    cases b <;> cases sel with
    | none => simp
    | some s => cases he : s.isEmpty <;> cases hev : ev data s <;> simp [he, hev]

/-- **append_child inserts before the end tag** (translated code + the model's `append_child`): at the last level of
the path, with a non-empty selector that does NOT match the buffered element (the code's gate `!evaluate(..)`), if the
buffered bytes tokenize as `<name …>` balanced content `</name>`, the translated `BodyAppend::leave` returns the
element with `content` inserted immediately before its end tag; without a selector it returns `content ++ data`
(`data` = the end tag token). -/
theorem append_leave_inserts_before_end_tag_gen (tk : Tokenize) (ev : Rio.Filter.Bytes → Rio.Filter.Bytes → Bool)
    (tree : List Rio.Filter.Bytes) (pos : Nat) (content data : Rio.Filter.Bytes)
    (hlast : ¬ pos + 1 < tree.length) :
    (∀ (s name disp attrs : Rio.Filter.Bytes) (inner : List Tok), s ≠ [] → ev data s = false →
      isVoid name = false → Bal inner →
      tk data = (startTok name disp attrs :: (inner ++ [endTok name disp]), []) →
      (genBodyAppendLeave ev (appendChild tk) tree pos (some s) content data).1.2.2 =
        (startTok name disp attrs).raw ++ rawsOf inner ++ content ++ (endTok name disp).raw) ∧
    (genBodyAppendLeave ev (appendChild tk) tree pos none content data).1.2.2 = content ++ data ∧
    (genBodyAppendLeave ev (appendChild tk) tree pos (some []) content data).1.2.2 = content ++ data := by
  have hcf := fun sel => (leave_output_closed_form_gen ev (appendChild tk) (appendChild tk) tree pos sel content data false).1
  refine ⟨?_, ?_, ?_⟩
  · intro s name disp attrs inner hne hev hv hb htk
    rw [hcf (some s)]
    have he : s.isEmpty = false := by cases s <;> simp_all
    simp only [hlast, he, hev, if_false, Option.isSome_some, Option.getD_some, Bool.not_false, Bool.and_self, if_true,
      Bool.false_eq_true]
    exact appendChild_elem tk hv hb htk
  · rw [hcf none]; simp [hlast]
  · rw [hcf (some [])]; simp [hlast]

/-! ### the bound `tree.length < 2^31` is needed: the unbounded statement is false of the code -/

/-- `next_leave` of the translated `BodyAppend::leave` (any state) -/
theorem append_leave_next_leave_gen (ev : Rio.Filter.Bytes → Rio.Filter.Bytes → Bool)
    (ac : Rio.Filter.Bytes → Rio.Filter.Bytes → Rio.Filter.Bytes) (tree : List Rio.Filter.Bytes) (pos : Nat)
    (sel : Option Rio.Filter.Bytes) (content data : Rio.Filter.Bytes) :
    (genBodyAppendLeave ev ac tree pos sel content data).1.2.1 =
      (if genAsI32 pos > 0 then some ((tree[pos - 1]?).getD []) else none) := by
  unfold genBodyAppendLeave
  by_cases hg : genAsI32 pos > 0 <;> by_cases hp : pos + 1 ≥ tree.length <;> cases sel with
  | none => simp [hg, hp]
  | some s => cases he : s.isEmpty <;> cases hev : ev data s <;> simp [hg, hp, he, hev]

/-- the FULL statement of the append clause of `gen_visitor_leave_eq_model`, without the bound on the path length -/
def LeaveEqUnbounded : Prop :=
  ∀ (tk : Tokenize) (ev : Rio.Filter.Bytes → Rio.Filter.Bytes → Bool) (tree : List Rio.Filter.Bytes) (pos : Nat)
    (v : Visitor) (data : Rio.Filter.Bytes), Rep tree pos v → v.kind = .append →
    (genBodyAppendLeave ev (appendChild tk) tree pos v.sel v.content data).1 = (v.leave tk ev data).1

/-- `next_leave` of the model's append `leave` -/
theorem append_leave_next_leave_model (tk : Tokenize) (ev : Rio.Filter.Bytes → Rio.Filter.Bytes → Bool) (v : Visitor)
    (hk : v.kind = .append) (d : Rio.Filter.Bytes) : (v.leave tk ev d).1.2.1 = (v.leaveMove true).1 := by
  unfold Visitor.leave
  simp only [hk]
  (repeat' split) <;> rfl

/-- the witness: position `n` of a path of `n + 1` empty names -/
def bigV (n : Nat) : Visitor := { kind := .append, before := List.replicate n [], cur := [], after := [], content := [] }

theorem leave_unbounded_witness (n : Nat) (h0 : 0 < n) (hn : ¬ genAsI32 n > 0) (tk : Tokenize)
    (ev : Rio.Filter.Bytes → Rio.Filter.Bytes → Bool) :
    Rep (List.replicate (n + 1) []) n (bigV n) ∧
    (genBodyAppendLeave ev (appendChild tk) (List.replicate (n + 1) []) n (bigV n).sel (bigV n).content []).1.2.1 = none ∧
    ((bigV n).leave tk ev []).1.2.1 = some [] := by
  have hb : (bigV n).before ≠ [] := by
    show List.replicate n ([] : Rio.Filter.Bytes) ≠ []
    intro h; rw [List.replicate_eq_nil_iff] at h; omega
  refine ⟨⟨?_, ?_⟩, ?_, ?_⟩
  · show List.replicate (n + 1) [] = (List.replicate n []).reverse ++ [[]]
    rw [List.reverse_replicate, List.replicate_succ']
  · show n = (List.replicate n ([] : Rio.Filter.Bytes)).length
    simp
  · rw [append_leave_next_leave_gen]; simp [hn]
  · have hrc : (bigV n).retreat.cur = [] := by
      unfold Visitor.retreat
      cases hv : (bigV n).before with
      | nil => exact absurd hv hb
      | cons b rest =>
        have hm : b ∈ List.replicate n ([] : Rio.Filter.Bytes) := by
          have hh : (bigV n).before = List.replicate n [] := rfl
          rw [← hh, hv]; simp
        simpa using (List.eq_of_mem_replicate hm)
    rw [append_leave_next_leave_model tk ev (bigV n) rfl]
    unfold Visitor.leaveMove
    simp [hb, hrc]

theorem leave_unbounded_fails_of (n : Nat) (h0 : 0 < n) (hn : ¬ genAsI32 n > 0) : ¬ LeaveEqUnbounded := by
  intro h
  let tk0 : Tokenize := ⟨fun _ => ([], []), fun _ _ => ([], [], [])⟩
  have hw := leave_unbounded_witness n h0 hn tk0 (fun _ _ => false)
  have h1 := h tk0 (fun _ _ => false) _ _ (bigV n) [] hw.1 rfl
  have h2 : (none : Option Rio.Filter.Bytes) = some [] :=
    hw.2.1.symm.trans ((congrArg (fun r => r.2.1) h1).trans hw.2.2)
  cases h2

/-- the full statement is FALSE of the code: on a path of 2^31 + 1 elements at position 2^31 the code's
`position as i32 > 0` is false (`2^31 as i32 = -2^31`), so `next_leave` is `None`, while the model moves back -/
theorem gen_visitor_leave_eq_model_unbounded_fails : ¬ LeaveEqUnbounded :=
  leave_unbounded_fails_of 2147483648 (by omega) (by decide)

/-- the PARTIAL statement that does hold: `LeaveEqUnbounded` with the bound `tree.length < 2^31` (the append clause of
`gen_visitor_leave_eq_model`) -/
theorem gen_visitor_leave_eq_model_partial (tk : Tokenize) (ev : Rio.Filter.Bytes → Rio.Filter.Bytes → Bool)
    (tree : List Rio.Filter.Bytes) (pos : Nat) (v : Visitor) (data : Rio.Filter.Bytes) (h : Rep tree pos v)
    (hk : v.kind = .append) (hs : tree.length < 2147483648) :
    (genBodyAppendLeave ev (appendChild tk) tree pos v.sel v.content data).1 = (v.leave tk ev data).1 :=
  ((gen_visitor_leave_eq_model tk ev h hs data).1 hk).1


/-! ### Non-vacuity -/

/-- a tokenizer that sees `<p></p>` in every buffer (only to instantiate the hypotheses) -/
private def tkP : Tokenize := ⟨fun _ => ([startTok [112] [112] [], endTok [112] [112]], []), fun _ _ => ([], [], [])⟩

example :
    (genBodyAppendLeave (fun _ _ => false) (appendChild tkP) [[112]] 0 (some [112]) [120] [60, 112, 62, 60, 47, 112, 62]).1.2.2 =
      [60, 112, 62] ++ [] ++ [120] ++ [60, 47, 112, 62] := by
  have h := (append_leave_inserts_before_end_tag_gen tkP (fun _ _ => false) [[112]] 0 [120]
    [60, 112, 62, 60, 47, 112, 62] (by simp)).1 [112] [112] [112] [] [] (by simp) rfl (by decide) bal_nil rfl
  simpa [startTok, endTok, rawsOf] using h

/-- `Rep` + the length bound on a concrete two-level path after one `enter`; evaluated results of the three `leave`s -/
example :
    Rep [[104], [98]] 1 { kind := .append, before := [[104]], cur := [98], after := [], sel := none, content := [120] } ∧
    ([[104], [98]] : List Rio.Filter.Bytes).length < 2147483648 ∧
    genBodyAppendLeave (fun _ _ => false) (fun d c => d ++ c) [[104], [98]] 1 none [120] [60] =
      ((some [98], some [104], [120, 60]), 0) ∧
    genBodyAppendLeave (fun _ _ => false) (fun d c => d ++ c) [[104], [98]] 0 none [120] [60] =
      ((some [104], none, [60]), 0) ∧
    genBodyPrependLeave (fun _ _ => false) (fun d c => c ++ d) [[104]] 0 (some [112]) [120] true [60] =
      ((some [104], none, [120, 60]), 0, false) ∧
    genBodyReplaceLeave (fun _ _ => true) [[104], [98]] 1 (some [112]) [120] true [60] =
      ((some [98], none, [120]), 1, false) ∧
    genBodyReplaceLeave (fun _ _ => true) [[104], [98]] 1 (some [112]) [120] false [60] =
      ((some [98], some [104], [60]), 0, false) ∧
    genHtmlBodyVisitorNewAppend [[104]] none [1] (some [2]) none none = ([[104]], 0, none, [1], [2], none, none) := by
  refine ⟨⟨rfl, rfl⟩, by decide, ?_, ?_, ?_, ?_, ?_, ?_⟩ <;> rfl

/-- a run on the translated code: enter `h`, enter `b` (last level, no selector), leave `b` (value before the end tag),
leave `h` -/
example :
    (genRun tkP (fun _ _ => false) .append [[104], [98]] none [120] (0, false)
      [.enter [1], .enter [2], .leave [3], .leave [4]]).1 =
      [(some [98], some [104], some false, [1]), (none, some [98], some false, [2]),
       (some [98], some [104], none, [120, 3]), (some [104], none, none, [4])] := by
  rfl

end Rio.C04
