/-
C12 (W34) — the two cache LOOPS, TRANSLATED from the source on every run (section tr_w34_cacheloops, plugin
tools/consts_dev/w34_cacheloops.py -> Generated/DevW34.lean until merge), against the hand-written model.

* `Router::cache` (src/router/mod.rs): `genRouterCacheInit` (the `match limit` with `limit as i64` and the default
  `(routes.len() / 10).clamp(100, 10_000) as i64`), `genRouterCacheLoop` (the `while prev_cache_limit > 0` loop with `level`,
  `retry`, the two casts and the `break`, EXPLICIT FUEL, result carries `fuelOut`), `genRouterCacheRoutes` / `genRouterCacheTail`
  (the budgeted `route.compile()` loop).  Model: `RouterG.cachePrev / cacheLoop / cache`, `MarkerCache.compileRoutes`.
* `RegexTreeMap::cache` (src/regex_radix_tree/tree.rs): `genTreeCacheLoop` (the `while left > 0` level loop, explicit fuel,
  the callee `Item::cache` may panic = `none`), `genTreeCache`.  Model: `Tree.cacheLoop / treeCache`.

Abstract parameters are instantiated by the model's callees: `matcherCache := O.cache` (any outermost matcher),
`rootCache := Item.cache E` (proved equal to the TRANSLATED `Item::cache` in Props/C12gen.lean, `gen_item_cache_recursion_unique`),
`routeCompile := MarkerCache.Route.compile lib`, `routesLen := S.routes.length`.
-/
import RioModel.Proofs.CacheLoopGen
import RioModel.Props.C12router
import RioModel.Props.C12
set_option linter.unusedSimpArgs false

namespace Rio.C12
open Rio.Consts Rio.Router Rio.Regex Rio.Tree Rio.CacheLoopGen

/-! ### `Router::cache` -/

/-- The translated initial values are the model's `cachePrev` (and `level = retry = 0`), for every limit incl. `None`
(the `as i64` of the clamped value is exact) and limits `≥ 2^63` (both wrap alike). -/
theorem gen_router_cache_init_eq_model (O : MOps) (limit : Option Nat) (S : RouterG O) :
    genRouterCacheInit limit S.routes.length = (RouterG.cachePrev O limit S, 0, 0) := router_init_eq O limit S

/-- **translated loop = model loop**, for every matcher operations record, fuel, matcher state, counters, and every
`prev_cache_limit < 2^63` (an `i64`; needed so that `prev as u64` under the guard `prev > 0` is the model's `prev.toNat`).
The translated result additionally carries the final `level` and `retry`. -/
theorem gen_router_cache_loop_eq_model (O : MOps) (fuel : Nat) (prev : Int) (level retry : Nat) (m : O.M)
    (h : prev < 2 ^ 63) :
    proj (genRouterCacheLoop O.cache fuel m prev level retry) = RouterG.cacheLoop O fuel prev level retry m :=
  router_loop_eq O fuel prev level retry m h

/-- The hypothesis of `gen_router_cache_loop_eq_model` holds for the initial value, whatever the limit. -/
theorem gen_router_cache_init_lt (limit : Option Nat) (n : Nat) : (genRouterCacheInit limit n).1 < 2 ^ 63 := by
  unfold genRouterCacheInit
  cases limit with
  | some l => exact asI64_lt l
  | none => exact asI64_lt _

/-- `Router::cache(limit)` assembled from the translated pieces (init, then the loop with the model's fuel) leaves the
matcher of the model's `RouterG.cache`. -/
theorem gen_router_cache_eq_model (O : MOps) (limit : Option Nat) (S : RouterG O) :
    (genRouterCacheLoop O.cache ((genRouterCacheInit limit S.routes.length).1.toNat + 7) S.matcher
        (genRouterCacheInit limit S.routes.length).1 (genRouterCacheInit limit S.routes.length).2.1
        (genRouterCacheInit limit S.routes.length).2.2).1 = (RouterG.cache O limit S).matcher := by
  have hlt := gen_router_cache_init_lt limit S.routes.length
  rw [gen_router_cache_init_eq_model O limit S] at hlt ⊢
  have := gen_router_cache_loop_eq_model O ((RouterG.cachePrev O limit S).toNat + 7) (RouterG.cachePrev O limit S) 0 0
    S.matcher hlt
  exact congrArg (·.1) this

/-- **cache_terminates, restated for the TRANSLATED loop**: with the fuel `prev_cache_limit + 7` the translated
`while prev_cache_limit > 0` loop of `Router::cache` never reports `fuelOut`, for every limit (incl. `None` and values that wrap
to a negative `i64`) and every outermost matcher satisfying the layer laws (budget returned ≤ budget given). -/
theorem cache_terminates_gen {O : MOps} (OL : MLaws O) (S : RouterG O) (limit : Option Nat) :
    (genRouterCacheLoop O.cache ((genRouterCacheInit limit S.routes.length).1.toNat + 7) S.matcher
        (genRouterCacheInit limit S.routes.length).1 (genRouterCacheInit limit S.routes.length).2.1
        (genRouterCacheInit limit S.routes.length).2.2).2.2.2.2 = false := by
  have hlt := gen_router_cache_init_lt limit S.routes.length
  rw [gen_router_cache_init_eq_model O limit S] at hlt ⊢
  have := gen_router_cache_loop_eq_model O ((RouterG.cachePrev O limit S).toNat + 7) (RouterG.cachePrev O limit S) 0 0
    S.matcher hlt
  have h2 := congrArg (·.2.2) this
  simp only [proj] at h2
  rw [h2]; exact cache_terminates OL S limit

/-- More fuel changes nothing once the loop has stopped: the fuel is not a hidden bound (directly on the translated loop). -/
theorem gen_router_cache_loop_fuel_mono {μ : Type} (f : Nat → Nat → μ → μ × Nat) (fuel : Nat) :
    ∀ (m : μ) (prev : Int) (level retry : Nat),
      (genRouterCacheLoop f fuel m prev level retry).2.2.2.2 = false →
      genRouterCacheLoop f (fuel + 1) m prev level retry = genRouterCacheLoop f fuel m prev level retry := by
  induction fuel with
  | zero => intro m prev level retry h; simp [genRouterCacheLoop] at h
  | succ fuel ih =>
    intro m prev level retry h
    rw [genRouterCacheLoop] at h ⊢
    conv => rhs; rw [genRouterCacheLoop]
    by_cases hp : prev > 0
    · simp only [hp, if_true] at h ⊢
      by_cases h1 : genAsI64 (f (genI64AsU64 prev) level m).2 = prev
      · by_cases h2 : retry + 1 > 5
        · simp only [h1, h2, if_true]
        · simp only [h1, h2, if_true, if_false] at h ⊢; exact ih _ _ _ _ h
      · simp only [h1, if_false] at h ⊢; exact ih _ _ _ _ h
    · simp only [hp, if_false]

/-- Without the layer law "returned budget ≤ given budget" the loop need NOT terminate within any fuel: a matcher whose `cache`
returns `limit + 1` keeps the TRANSLATED loop running (here: fuel 100 exhausted from budget 1) — the hypothesis `MLaws` of
`cache_terminates_gen` is needed. -/
theorem cache_terminates_gen_needs_budget_law :
    (genRouterCacheLoop (μ := Unit) (fun l _ m => (m, l + 1)) 100 () 1 0 0).2.2.2.2 = true := by decide

/-- The budgeted `for route in self.routes.values()` loop: translated = `MarkerCache.compileRoutes` on the store of cells, for
every store, list of routes and budget (`route.compile() as i64` is exact: a route compiles at most 2 cells). -/
theorem gen_router_cache_routes_eq_model {R : Type} (lib : Rio.MarkerCache.RegexLib R) (rts : List Rio.MarkerCache.Route)
    (st : Rio.MarkerCache.Store R) (left : Int) :
    (genRouterCacheRoutes (fun rt st => Rio.MarkerCache.Route.compile lib st rt) rts st left).1
      = Rio.MarkerCache.compileRoutes lib st rts left := routes_loop_eq lib rts st left

/-! ### `RegexTreeMap::cache` -/

variable {ι V : Type}

/-- **translated level loop = model loop** for every engine, fuel, tree, budget and level; the model conflates "fuel ran
out" and "callee panicked" into `none`, the translation keeps them apart (`tproj` forgets the difference). -/
theorem gen_tree_cache_loop_eq_model (E : Engine) (fuel : Nat) (root : Item ι V) (left lvl : Nat) :
    (genTreeCacheLoop (fun l lv c r => Item.cache E r l lv c) fuel root left lvl).bind tproj
      = Tree.cacheLoop E fuel root left lvl := tree_loop_eq E fuel root left lvl

/-- `RegexTreeMap::cache(limit, level)`: translated (with the model's fuel `limit + 1`) = `treeCache`, both arms of
`if let Some(level) = level`. -/
theorem gen_tree_cache_eq_model (E : Engine) (root : Item ι V) (limit : Nat) (level : Option Nat) :
    (genTreeCache (fun l lv c r => Item.cache E r l lv c) (limit + 1) root limit level).bind
        (fun r => if r.2.2 then none else some (r.1, r.2.1))
      = treeCache E root limit level := by
  cases level with
  | some lvl =>
    simp only [genTreeCache, treeCache]
    cases Item.cache E root limit lvl 0 <;> simp
  | none =>
    simp only [genTreeCache, treeCache]
    rw [← gen_tree_cache_loop_eq_model E (limit + 1) root limit 0]
    cases genTreeCacheLoop (fun l lv c r => Item.cache E r l lv c) (limit + 1) root limit 0 with
    | none => rfl
    | some r => simp [tproj]

/-- **cache_total, restated for the TRANSLATED `RegexTreeMap::cache`**: no panic (no `u64` underflow in the callee), the level
loop stops within `limit + 1` iterations (`fuelOut = false`), and the returned budget is at most the given one. -/
theorem cache_total_gen [DecidableEq ι] (E : Engine) (t : Item ι V) (limit : Nat) (level : Option Nat) :
    ∃ t' n, genTreeCache (fun l lv c r => Item.cache E r l lv c) (limit + 1) t limit level = some (t', n, false) ∧
      n ≤ limit := by
  obtain ⟨t', n, h, hn⟩ := cache_total E t limit level
  rw [← gen_tree_cache_eq_model] at h
  cases hg : genTreeCache (fun l lv c r => Item.cache E r l lv c) (limit + 1) t limit level with
  | none => rw [hg] at h; simp at h
  | some r =>
    rw [hg] at h
    obtain ⟨a, b, c⟩ := r
    cases c with
    | true => simp at h
    | false =>
      simp at h
      exact ⟨a, b, by rw [h.1, h.2], by omega⟩

/-! ### non-vacuity / evaluated examples -/

/-- the default budget: 0 routes ↦ 100, 50 000 routes ↦ 5 000, 10^6 routes ↦ 10 000; a limit `2^63` wraps negative -/
example : (genRouterCacheInit none 0).1 = 100 ∧ (genRouterCacheInit none 50000).1 = 5000 ∧
    (genRouterCacheInit none 1000000).1 = 10000 ∧ (genRouterCacheInit (some (2 ^ 63)) 0).1 = -(2 ^ 63) := by decide

/-- a matcher that spends 1 per call down to 0: budget 3 is used up in 3 rounds, no retry, fuel not exhausted -/
example : genRouterCacheLoop (μ := Nat) (fun l _ m => (m + 1, l - 1)) 10 0 3 0 0 = (3, 0, 3, 0, false) := by decide

/-- a matcher that never spends: six retries, then `break` (level 5 reached, retry 6) -/
example : genRouterCacheLoop (μ := Nat) (fun l _ m => (m + 1, l)) 10 0 3 0 0 = (6, 3, 5, 6, false) := by decide

/-- the tree loop with a callee that spends 1 per level for two levels and then nothing -/
example : genTreeCacheLoop (τ := Nat) (fun l lv _ r => some (r + 1, if lv < 2 then l - 1 else l)) 10 0 5 0
    = some (3, 3, 2, false) := by decide

/-- the route loop stops as soon as the budget is used up (second route not compiled) -/
example : genRouterCacheTail (α := Nat) (σ := List Nat) (fun a st => (a :: st, 2)) [1, 2, 3] [] 2 = ([1], 0) := by decide

end Rio.C12
