/-
C09 ∘ C01 — URL normalisation meets the router.

W7's theorems (`Rio.C09.self_match`, `separation_no_match`, `order_independent`, `marketing_ignored`)
are about the two normalised keys `ruleKey cfg u` (rule side) and `reqKey cfg u'` (request side).
Here they are carried through the model of `IntoRoute` (Model/IntoRoute.lean) and W2's seven-layer
router (`Rio.C01.match_exact`): for a marker-free rule whose source is the literal path and query of
the URL `u` and that has NO other trigger (`urlRule`), inserted together with arbitrary other rules,
and for ANY request whose path-and-query is the normalisation of `u'` (host, scheme, method, headers,
client ip and date arbitrary):

      the rule is returned by `match_request`   ⇔   `ruleKey ucfg u = reqKey ucfg u'`
                                                     and the any-host policy lets a host-less rule through.

The any-host clause (the rule has no host): `always_match_any_host`, or no host-bound rule of the
any-scheme scope present in the router has all its triggers satisfied by the request.
Conversions (Proofs/UrlRouterBridge.lean): keys are rendered by `asciiStr`; they are pure ASCII for every
input and `asciiStr` is injective there, so nothing is assumed.  `ucfg : Url.Cfg` and `cfg : Router.Cfg`
are linked by `cfg.ignorePathCase = ucfg.ignoreCase`; `P` (the external cidr / date parsers) and the
regex engine inside `E` are arbitrary.
-/
import RioModel.Proofs.UrlRouterBridge
import RioModel.Props.C09
set_option linter.unusedSimpArgs false

namespace Rio.C09
open Rio.Url Rio.IntoRoute

/-- The rule "whose source is the literal path and query of `u`", with no other trigger. -/
def urlRule (id : String) (rank : Nat) (u : Bytes) : RuleSource :=
  { id := id, rank := rank, scheme := none, host := none,
    path := (splitFirst 63 u).1, query := (splitFirst 63 u).2, markers := [],
    ips := none, methods := none, excludeMethods := none, headers := none,
    datetime := none, time := none, weekdays := none }

/-- The route `IntoRoute` builds for it: every trigger absent, static path = the rule-side key. -/
theorem urlRule_route (P : Parsers) (cfg : Rio.Router.Cfg) (ucfg : Url.Cfg)
    (hc : cfg.ignorePathCase = ucfg.ignoreCase) (id : String) (rank : Nat) (u : Bytes) :
    intoRoute P cfg (urlRule id rank u) =
      { id := id, priority := 0 - (rank : Int), scheme := none, host := none, ips := none,
        methods := none, excludeMethods := none, headers := [], datetime := none, time := none,
        weekdays := none, path := .static (asciiStr (ruleKey ucfg u)) } := by
  unfold intoRoute
  rw [routePath_marker_free cfg.ignorePathCase (urlRule id rank u) rfl ucfg hc.symm]
  rfl

/-- A request "for the URL `u'`": its path-and-query is the request-side key. -/
def IsRequestFor (ucfg : Url.Cfg) (u' : Bytes) (q : Rio.Router.Req) : Prop :=
  q.path = asciiStr (reqKey ucfg u')

/-- The any-host policy lets a host-less, any-scheme rule through. -/
def AnyHostAllows (E : Rio.Router.Env) (R : List Rio.Router.Route) (q : Rio.Router.Req) : Prop :=
  E.alwaysAnyHost = true ∨
    ¬ ∃ r' ∈ R, Rio.Router.hostBound r' = true ∧ Rio.Router.schemeKey r' = none ∧
      Rio.Router.triggersOk E r' q = true

/-- `sat` for a host-less rule of the any-scheme scope. -/
theorem sat_hostless (E : Rio.Router.Env) (R : List Rio.Router.Route) (r : Rio.Router.Route)
    (q : Rio.Router.Req) (hb : Rio.Router.hostBound r = false) (hs : Rio.Router.schemeKey r = none) :
    Rio.Router.sat E R r q =
      (Rio.Router.triggersOk E r q && (E.alwaysAnyHost ||
        !(R.any (fun r' => Rio.Router.hostBound r' && Rio.Router.schemeKey r' == none &&
          Rio.Router.triggersOk E r' q)))) := by
  unfold Rio.Router.sat
  rw [hb, hs]
  simp

/-- **Through the whole router**: the URL rule is reported for the request iff the two normalised
keys are equal (and the any-host policy permits) — whatever other rules `R` contains, for every
configuration, every engine and every other field of the request. -/
theorem url_rule_matches_iff (P : Parsers) (cfg : Rio.Router.Cfg) (ucfg : Url.Cfg)
    (hc : cfg.ignorePathCase = ucfg.ignoreCase) (E : Rio.Router.Env)
    (id : String) (rank : Nat) (u u' : Bytes) (R : List Rio.Router.Route)
    (hR : Rio.Router.NodupIds R) (hmem : intoRoute P cfg (urlRule id rank u) ∈ R)
    (q : Rio.Router.Req) (hq : IsRequestFor ucfg u' q) :
    intoRoute P cfg (urlRule id rank u) ∈ (Rio.Router.Router.build E R).matchReq E q ↔
      ruleKey ucfg u = reqKey ucfg u' ∧ AnyHostAllows E R q := by
  rw [(Rio.C01.match_exact E R hR q).2]
  rw [urlRule_route P cfg ucfg hc] at hmem ⊢
  have hkey : (asciiStr (ruleKey ucfg u) == q.path) = true ↔ ruleKey ucfg u = reqKey ucfg u' := by
    rw [hq]
    constructor
    · intro h
      exact asciiStr_inj _ _ (ascii_ruleKey ucfg u) (ascii_reqKey ucfg u') (by simpa using h)
    · intro h; rw [h]; simp
  -- the triggers of the URL rule: only the path
  have htrig : Rio.Router.triggersOk E
      { id := id, priority := 0 - (rank : Int), scheme := none, host := none, ips := none,
        methods := none, excludeMethods := none, headers := [], datetime := none, time := none,
        weekdays := none, path := .static (asciiStr (ruleKey ucfg u)) } q =
      (asciiStr (ruleKey ucfg u) == q.path) := by
    simp [Rio.Router.triggersOk, Rio.Router.schemeOk, Rio.Router.schemeKey, Rio.Router.hostOk,
      Rio.Router.ipOk, Rio.Router.methodOk, Rio.Router.headersOk, Rio.Router.dateOk, Rio.Router.pathOk]
  have hany : (R.any (fun r' => Rio.Router.hostBound r' && Rio.Router.schemeKey r' == none &&
        Rio.Router.triggersOk E r' q)) = true ↔
      ∃ r' ∈ R, Rio.Router.hostBound r' = true ∧ Rio.Router.schemeKey r' = none ∧
        Rio.Router.triggersOk E r' q = true := by
    simp only [List.any_eq_true, Bool.and_eq_true, beq_iff_eq, and_assoc]
  unfold AnyHostAllows
  rw [sat_hostless E R _ q rfl rfl, htrig, ← hany]
  simp only [hmem, true_and, Bool.and_eq_true, Bool.or_eq_true, Bool.not_eq_true', hkey]
  cases (R.any fun r' => Rio.Router.hostBound r' && Rio.Router.schemeKey r' == none &&
    Rio.Router.triggersOk E r' q) <;> simp

/-- **Self-match through the router** (with `Rio.C09.self_match`): the rule built from `u` is reported
for the request for `u` itself, for every URL in W7's decidable domain `WFurl`, under every
configuration and whatever other rules are present — as far as the any-host policy allows a
host-less rule. -/
theorem url_rule_self_match (P : Parsers) (cfg : Rio.Router.Cfg) (ucfg : Url.Cfg)
    (hc : cfg.ignorePathCase = ucfg.ignoreCase) (E : Rio.Router.Env)
    (id : String) (rank : Nat) (u : Bytes) (hb : IsBytes u) (hwf : WFurl ucfg u = true)
    (R : List Rio.Router.Route) (hR : Rio.Router.NodupIds R)
    (hmem : intoRoute P cfg (urlRule id rank u) ∈ R)
    (q : Rio.Router.Req) (hq : IsRequestFor ucfg u q) (hany : AnyHostAllows E R q) :
    intoRoute P cfg (urlRule id rank u) ∈ (Rio.Router.Router.build E R).matchReq E q :=
  (url_rule_matches_iff P cfg ucfg hc E id rank u u R hR hmem q hq).mpr
    ⟨self_match ucfg u hb hwf, hany⟩

/-- Alone in the router the clause is void: the rule always matches its own URL. -/
theorem url_rule_self_match_alone (P : Parsers) (cfg : Rio.Router.Cfg) (ucfg : Url.Cfg)
    (hc : cfg.ignorePathCase = ucfg.ignoreCase) (E : Rio.Router.Env)
    (id : String) (rank : Nat) (u : Bytes) (hb : IsBytes u) (hwf : WFurl ucfg u = true)
    (q : Rio.Router.Req) (hq : IsRequestFor ucfg u q) :
    intoRoute P cfg (urlRule id rank u) ∈
      (Rio.Router.Router.build E [intoRoute P cfg (urlRule id rank u)]).matchReq E q := by
  apply url_rule_self_match P cfg ucfg hc E id rank u hb hwf _ (by simp [Rio.Router.NodupIds]) (by simp) q hq
  right
  rintro ⟨r', hr', hbound, _, _⟩
  simp only [List.mem_singleton] at hr'
  subst hr'
  rw [urlRule_route P cfg ucfg hc] at hbound
  simp [Rio.Router.hostBound] at hbound

/-- **No match through the router** (with `Rio.C09.separation_no_match`): a request whose path or
(non-marketing) decoded parameters differ is never answered with the rule, whatever else is in the
router and whatever the other fields of the request. -/
theorem url_rule_no_match (P : Parsers) (cfg : Rio.Router.Cfg) (ucfg : Url.Cfg)
    (hc : cfg.ignorePathCase = ucfg.ignoreCase) (hic : ucfg.ignoreCase = false) (E : Rio.Router.Env)
    (id : String) (rank : Nat) (u u' : Bytes) (hb : IsBytes u) (hb' : IsBytes u')
    (hwf : WFurl ucfg u = true) (hacc' : (pqParse (sanitize u')).isSome = true)
    (hpl : ∀ kv ∈ (paramsOf u).filter (notMarketing ucfg), Plain kv)
    (hpl' : ∀ kv ∈ (paramsOf u').filter (notMarketing ucfg), Plain kv)
    (hdiff : pqPath (sanitize (splitFirst 63 u).1) ≠ pqPath (sanitize (splitFirst 63 u').1) ∨
      (paramsOf u).filter (notMarketing ucfg) ≠ (paramsOf u').filter (notMarketing ucfg))
    (R : List Rio.Router.Route) (hR : Rio.Router.NodupIds R)
    (hmem : intoRoute P cfg (urlRule id rank u) ∈ R)
    (q : Rio.Router.Req) (hq : IsRequestFor ucfg u' q) :
    intoRoute P cfg (urlRule id rank u) ∉ (Rio.Router.Router.build E R).matchReq E q := by
  intro hin
  have hk := ((url_rule_matches_iff P cfg ucfg hc E id rank u u' R hR hmem q hq).mp hin).1
  have := separation_no_match ucfg hic u u' hb hb' hwf hacc' hpl hpl' hdiff
  unfold ruleMatches matchesKey at this
  simp [hk] at this

/-- **Requests with the same normalised key are the same request for the router** — so everything W7
proves equal-keyed (`order_independent`: permuted parameters; `marketing_ignored`: added, removed or
moved marketing parameters; `case_independent_*`) is answered with exactly the same rules, by every
router state. -/
theorem same_key_same_answers (ucfg : Url.Cfg) (u u' : Bytes) (hk : reqKey ucfg u = reqKey ucfg u')
    (q q' : Rio.Router.Req) (hq : IsRequestFor ucfg u q) (hq' : IsRequestFor ucfg u' q')
    (hrest : q.scheme = q'.scheme ∧ q.host = q'.host ∧ q.method = q'.method ∧ q.headers = q'.headers ∧
      q.ip = q'.ip ∧ q.createdAt = q'.createdAt)
    (E : Rio.Router.Env) (S : Rio.Router.Router E) :
    S.matchReq E q = S.matchReq E q' := by
  have : q = q' := by
    cases q; cases q'
    simp only [IsRequestFor] at hq hq'
    simp_all
  rw [this]

/-- Instance: reordering the query parameters of the request (distinct decoded keys) never changes
the router's answer (`order_independent`). -/
theorem reordered_query_same_answers (ucfg : Url.Cfg) (Pth Q Q' : Bytes) (hP : 63 ∉ Pth)
    (hb : IsBytes (Pth ++ 63 :: Q)) (hb' : IsBytes (Pth ++ 63 :: Q'))
    (hperm : (pieces 38 Q).Perm (pieces 38 Q'))
    (hnd : ((parseQuery Q).map Prod.fst).Nodup)
    (hacc : (pqParse (sanitize (Pth ++ 63 :: Q))).isSome = true)
    (q q' : Rio.Router.Req) (hq : IsRequestFor ucfg (Pth ++ 63 :: Q) q)
    (hq' : IsRequestFor ucfg (Pth ++ 63 :: Q') q')
    (hrest : q.scheme = q'.scheme ∧ q.host = q'.host ∧ q.method = q'.method ∧ q.headers = q'.headers ∧
      q.ip = q'.ip ∧ q.createdAt = q'.createdAt)
    (E : Rio.Router.Env) (S : Rio.Router.Router E) :
    S.matchReq E q = S.matchReq E q' := by
  apply same_key_same_answers ucfg _ _ _ q q' hq hq' hrest
  have := order_independent ucfg Pth Q Q' hP hb hb' hperm hnd hacc
  unfold reqKey PQS.key
  rw [this.2.1, this.1]

/-! ### Non-vacuity -/

/-- W7's example URL `/caf%c3%a9 x?b=a+b&a=%2B&é` under the default configuration: the hypotheses
hold, and the rule built from it is found by a router that also contains another (host-bound) rule,
for the request for that URL sent to another host. -/
example :
    let cfg : Rio.Router.Cfg := ⟨false, false, false, false⟩
    let E := Rio.Router.envOf cfg
    let other : Rio.Router.Route :=
      { id := "other", priority := 0, scheme := none, host := some (.static "a.com"), ips := none,
        methods := none, excludeMethods := none, headers := [], datetime := none, time := none,
        weekdays := none, path := .static "/elsewhere" }
    let q : Rio.Router.Req :=
      { scheme := some "https", host := some "b.org", method := some "POST", headers := [("X-A", "v")],
        ip := none, createdAt := some 1577836800, path := asciiStr (reqKey cfgDefault exUrl) }
    intoRoute Parsers.std cfg (urlRule "u" 3 exUrl) ∈
      (Rio.Router.Router.build E [other, intoRoute Parsers.std cfg (urlRule "u" 3 exUrl)]).matchReq E q := by
  intro cfg E other q
  apply url_rule_self_match Parsers.std cfg cfgDefault rfl E "u" 3 exUrl (by decide) (by decide)
  · rw [urlRule_route Parsers.std cfg cfgDefault rfl]
    simp [Rio.Router.NodupIds, other]
  · simp
  · rfl
  · right
    rintro ⟨r', hr', hb, _, ht⟩
    rw [urlRule_route Parsers.std cfg cfgDefault rfl] at hr'
    simp only [List.mem_cons, List.mem_nil_iff, or_false] at hr'
    rcases hr' with rfl | rfl
    · simp [Rio.Router.triggersOk, Rio.Router.hostOk, other, q] at ht
    · simp [Rio.Router.hostBound] at hb

end Rio.C09
