/-
C01 (rule matching is exact) — `match_request` of the two CONDITION-GROUP layers (HeaderMatcher, DateTimeMatcher) with their
per-request memo `execute_conditions`, REGENERATED FROM THE SOURCE.

`Rio.Consts.genHeaderMatchRequest` / `genDateTimeMatchRequest` (and their `Loop1` = the `'group` loop, `Loop2` = the loop
over one group's conditions with the labelled `continue 'group`) are translated on every run from
src/router/request_matcher/header.rs / datetime.rs (tools/consts_dev/w15_memo.py → section `w15_memo`).  Abstract in the
translation: the next layer's `match_request(request)` (`next`), the condition evaluation (`matchValue` =
`ValueCondition::match_value` / `DateTimeCondition::match_value`), the two field reads of a `HeaderCondition`, and the memo
itself (`BTreeMap::new` / `get` / `insert`).  Proofs/RouterMemoGen.lean shows: for EVERY implementation of the memo that
simulates an association list (`MemoImpl`; the model's own consing list and an overwrite-in-place map are two), every next
layer, every layer state and every request, the translated functions are W2's `DateTime.matchReq` / `Header.matchReq`.
Here: that equality, the tower in which SIX layers run the translated `match_request`, `match_exact` and `memo_exact`
restated for the translated code.  A source change that alters the memo discipline (a result stored under the wrong
condition, a dropped / inverted `continue 'group`, the memo consulted after instead of before, a group's routes added before
its conditions are checked) breaks a proof here, not only the correspondence.
-/
import RioModel.Props.C01
import RioModel.Proofs.RouterMemoGen
set_option linter.unusedSimpArgs false

namespace Rio.C01
open Rio.Consts Rio.Router Rio.RouterMemoGen

/-- **translated = model** for `match_request` of both layers: every next layer `I`, every memo implementation, every layer
state (no representation hypothesis is needed: the equality is exact on all states), every request -/
theorem gen_memo_match_eq_model {σd σh : Type} (I : MOps) (E : Env) (Md : MemoImpl σd DCond) (Mh : MemoImpl σh HCond)
    (sd : LState I (List DCond)) (sh : LState I (List HCond)) (q : Req) :
    genDateTimeMatch I Md sd q = DateTime.matchReq I sd q ∧ genHeaderMatch I E Mh sh q = Header.matchReq E I sh q :=
  ⟨genDateTimeMatch_eq I Md sd q, genHeaderMatch_eq I E Mh sh q⟩

/-- the same one loop down: the translated loop over ONE group's conditions (`Loop2`, whose `false` is the
`continue 'group`) is `evalGroup`, from every memo state `s` simulating `l`; the memo it leaves simulates `evalGroup`'s -/
theorem gen_memo_group_eq_model {σ C ρ μ ν χ : Type} [DecidableEq C] (M : MemoImpl σ C) (next : μ → List ρ)
    (ev : C → Bool) (condOf : C → χ) (nameOf : C → ν) (mv : χ → ν → Bool) (cs : List C) (s : σ) (l : List (C × Bool))
    (h : M.R s l) :
    ((genDateTimeMatchRequestLoop2 next M.new M.get M.insert ev cs s).1 = (evalGroup ev cs l).1 ∧
      M.R (genDateTimeMatchRequestLoop2 next M.new M.get M.insert ev cs s).2 (evalGroup ev cs l).2) ∧
    ((genHeaderMatchRequestLoop2 next M.new M.get M.insert condOf nameOf mv cs s).1 =
        (evalGroup (fun c => mv (condOf c) (nameOf c)) cs l).1 ∧
      M.R (genHeaderMatchRequestLoop2 next M.new M.get M.insert condOf nameOf mv cs s).2
        (evalGroup (fun c => mv (condOf c) (nameOf c)) cs l).2) :=
  ⟨dtMatchLoop2_eq M next ev cs s l h, hdMatchLoop2_eq M next condOf nameOf mv cs s l h⟩

/-- the hypothesis `MemoImpl` is not vacuous: the model's list, and a map that overwrites in place -/
example : MemoImpl (List (Nat × Bool)) Nat := MemoImpl.assoc Nat
example : MemoImpl (List (Nat × Bool)) Nat := MemoImpl.inPlace Nat

/-- hence the tower with SIX translated `match_request`s is the modelled tower -/
theorem gen_tower2_eq_model {σd σh : Type} (E : Env) (Md : MemoImpl σd DCond) (Mh : MemoImpl σh HCond) :
    towerOpsGen2 E Md Mh = towerOps E := towerOpsGen2_eq E Md Mh

/-- **C01 main statement for the router whose scheme / host / ip / method / header / date-time `match_request` are the
regenerated code** (any memo implementations). -/
theorem match_exact_gen2 {σd σh : Type} (E : Env) (Md : MemoImpl σd DCond) (Mh : MemoImpl σh HCond) (R : List Route)
    (hR : NodupIds R) (q : Req) :
    ((RouterG.matchReq (towerOpsGen2 E Md Mh) (RouterG.build (towerOpsGen2 E Md Mh) R) q).map (·.id)).Nodup ∧
    ∀ r, r ∈ RouterG.matchReq (towerOpsGen2 E Md Mh) (RouterG.build (towerOpsGen2 E Md Mh) R) q ↔
      r ∈ R ∧ sat E R r q = true := by
  rw [towerOpsGen2_eq]
  exact match_exact E R hR q

open Rio.Regex Rio.Tree in
/-- **C01 over the real trees, translated layers** (`match_exact_tree` for the tower whose scheme / ip / method / header /
date-time `match_request` are the regenerated code; the two regex-tree layers are the radix-tree model, C08). -/
theorem match_exact_tree_gen2 {σd σh : Type} (T : TEnv) (Md : MemoImpl σd DCond) (Mh : MemoImpl σh HCond)
    (Good : List Char → Prop) (hPS : PrefixSound T.engine Good)
    (R : List Route) (hR : NodupIds R) (hW : ∀ r ∈ R, TreeGood T Good r) (q : Req) :
    ((RouterG.matchReq (towerTOpsGen2 T Md Mh) (RouterG.build (towerTOpsGen2 T Md Mh) R) q).map (·.id)).Nodup ∧
    ∀ r, r ∈ RouterG.matchReq (towerTOpsGen2 T Md Mh) (RouterG.build (towerTOpsGen2 T Md Mh) R) q ↔
      r ∈ R ∧ sat T.env R r q = true := by
  rw [towerTOpsGen2_eq]
  exact match_exact_tree T Good hPS R hR hW q

/-- **`memo_exact` for the translated code** (both layers): from a memo state that simulates a memo holding only true
evaluation results, the translated inner loop accepts the group (does not `continue 'group`) iff ALL its conditions hold,
and the memo it leaves again simulates a sound memo — the early `continue 'group` never skips a matching group, a memoised
result never changes a verdict. -/
theorem memo_exact_gen {σ C ρ μ ν χ : Type} [DecidableEq C] (M : MemoImpl σ C) (next : μ → List ρ)
    (ev : C → Bool) (condOf : C → χ) (nameOf : C → ν) (mv : χ → ν → Bool) (cs : List C) (s : σ) (l : List (C × Bool))
    (h : M.R s l) :
    (MemoSound ev l →
      (genDateTimeMatchRequestLoop2 next M.new M.get M.insert ev cs s).1 = cs.all ev ∧
      ∃ l', M.R (genDateTimeMatchRequestLoop2 next M.new M.get M.insert ev cs s).2 l' ∧ MemoSound ev l') ∧
    (MemoSound (fun c => mv (condOf c) (nameOf c)) l →
      (genHeaderMatchRequestLoop2 next M.new M.get M.insert condOf nameOf mv cs s).1 =
        cs.all (fun c => mv (condOf c) (nameOf c)) ∧
      ∃ l', M.R (genHeaderMatchRequestLoop2 next M.new M.get M.insert condOf nameOf mv cs s).2 l' ∧
        MemoSound (fun c => mv (condOf c) (nameOf c)) l') := by
  constructor
  · intro hs
    have e := dtMatchLoop2_eq M next ev cs s l h
    have sp := memo_exact ev cs l hs
    exact ⟨e.1.trans sp.1, _, e.2, sp.2⟩
  · intro hs
    have e := hdMatchLoop2_eq M next condOf nameOf mv cs s l h
    have sp := memo_exact (fun c => mv (condOf c) (nameOf c)) cs l hs
    exact ⟨e.1.trans sp.1, _, e.2, sp.2⟩

/-- non-vacuity of `memo_exact_gen`: the memo a request starts with (`BTreeMap::new()`) simulates the empty, sound memo -/
example {σ C : Type} [DecidableEq C] (M : MemoImpl σ C) (ev : C → Bool) : M.R M.new [] ∧ MemoSound ev [] :=
  ⟨M.r_new, memoSound_nil ev⟩

/-- **The memo is invisible in the result — closed form of the two translated `match_request`s**: the always-present
bucket, then, in the order of `condition_groups`, the bucket of every group ALL of whose conditions hold. -/
theorem memo_layers_closed_form_gen {σd σh : Type} (I : MOps) (E : Env) (Md : MemoImpl σd DCond) (Mh : MemoImpl σh HCond)
    (sd : LState I (List DCond)) (sh : LState I (List HCond)) (q : Req) :
    genDateTimeMatch I Md sd q =
      I.matchReq sd.any q ++ sd.map.flatMap (fun g => if g.1.all (fun c => DCond.eval c q) then I.matchReq g.2 q else []) ∧
    genHeaderMatch I E Mh sh q =
      I.matchReq sh.any q ++
        sh.map.flatMap (fun g => if g.1.all (fun c => HCond.eval E c q) then I.matchReq g.2 q else []) := by
  constructor
  · rw [genDateTimeMatch_eq]
    exact groupMatch_eq DCond.eval sd q
  · rw [genHeaderMatch_eq]
    exact groupMatch_eq (HCond.eval E) sh q

/-! Evaluated examples on the translated code (conditions are numbers, `even` is the evaluation, a bucket `m` answers `[m]`;
the memo is the in-place map).  Group `[2, 3]` is rejected at 3, group `[3, 4]` is rejected by the MEMOISED 3 without
evaluating 4, group `[2, 4]` is accepted with 2 memoised; the memo afterwards holds 2 ↦ true, 3 ↦ false, 4 ↦ true. -/

example :
    genDateTimeMatchRequest (fun m : Nat => [m]) (MemoImpl.inPlace Nat).new (MemoImpl.inPlace Nat).get
      (MemoImpl.inPlace Nat).insert (fun c => c % 2 == 0) 0 [([2, 3], 1), ([3, 4], 2), ([2, 4], 3), ([], 4)] = [0, 3, 4] := by
  decide

example :
    (genDateTimeMatchRequestLoop1 (fun m : Nat => [m]) (MemoImpl.inPlace Nat).new (MemoImpl.inPlace Nat).get
      (MemoImpl.inPlace Nat).insert (fun c => c % 2 == 0) [([2, 3], 1), ([3, 4], 2), ([2, 4], 3)] [] []).2 =
      [(2, true), (3, false), (4, true)] := by
  decide

example :
    genHeaderMatchRequest (fun m : Nat => [m]) (MemoImpl.assoc (Nat × Nat)).new (MemoImpl.assoc (Nat × Nat)).get
      (MemoImpl.assoc (Nat × Nat)).insert Prod.snd Prod.fst (fun k n => (k + n) % 2 == 0) 7
      [([(1, 1), (1, 2)], 1), ([(1, 1)], 2)] = [7, 2] := by
  decide

end Rio.C01
