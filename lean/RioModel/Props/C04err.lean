/-
C04, STRONG form THROUGH THE ERROR PATHS (review C, C04-3): arbitrary bytes, uncompressed chains whose first stage is an
html stage (the first stage that sees raw chunk bytes is the only one that can fail inside `filter()`: every html stage
emits a `String`).

  `prefix_spec`            after ANY number of successful calls of a fresh html stage on ARBITRARY bytes, what it has
                           emitted followed by what it still holds (`end()`) is the strong rendering of the VALIDATED
                           prefix of the bytes received — replace: `RScript` over the tokens of the validated prefix,
                           insert: `Edit [value] []` with the count bound — followed by the unfinished tail `rem` and the
                           incomplete character `pending` VERBATIM.
  `run_fail_at`            a chain whose call number k fails: outputs of the calls before, the held bytes of the html
                           stages (last stage first), the failing chunk and every later chunk unchanged.
  `fail_in_first_html`     both together for `html h :: post`: the later stages only ever see the first stage's emitted
                           (valid) bytes; its held bytes and the remaining input go out verbatim.
  `error_path_strong(_final)`       `html (new v) :: post`: a structural DECOMPOSITION + `PrefixSpec` of the first stage only
  `error_path_strong_full(_final)`  + `FlushSpec`: what the later (never ended) stages emitted and hold, stage by stage
  `replace_one_anybytes_final`, `insert_one_anybytes_final`
                           one html filter, the tokenizer model, ANY bytes, ANY schedule, failing or not: no hypothesis.
So with ONE replace filter no non-markup byte is lost, duplicated or reordered also when the chain fails
(`replace_one_anybytes_final`); for longer chains the bytes are accounted for stage by stage (`FlushSpec`), and a later
`replace_text` stage swallows what it received (its closed form), as the code does.
-/
import RioModel.Props.C04strong
set_option linter.unusedSimpArgs false
set_option linter.unusedVariables false

namespace Rio.C04
open Rio.Filter

/-! ### the html stage after any number of successful calls -/

/-- what a fresh html stage with visitor `v` has emitted and still holds (`b`) after receiving the bytes `P` in calls that
all succeeded: the strong rendering of the validated prefix `data`, then `rem` and `pending` verbatim -/
def PrefixSpec (tk : Tokenize) (v : Visitor) (P b : Bytes) : Prop :=
  ∃ data pending, utf8Split P = some (data, pending) ∧
    match v.kind with
    | .replace => ∃ tgt o', (pathOf v).getLast? = some tgt ∧
        RScript tgt v.content (view tk [] data).all o' ∧ b = o' ++ (view tk [] data).rem ++ pending
    | _ => Edit [v.content] [] P b ∧
        b.length ≤ P.length + v.content.length * ((view tk [] data).all.filter (onPath (pathOf v))).length

section
variable {tk : Tokenize} (hl : LosslessAll tk) (hr : RestartLaw tk) (hnil : (tk.stream [] []).1 = [])
  (ev : Bytes → Bytes → Bool)
include hl hr hnil

/-- the calls so far followed by `end()` are the total of the single call on the concatenation -/
theorem prefix_total (s : HtmlSt) (hc : s.ctx = []) (hlast : s.last = []) (ps : List Bytes) (s' : HtmlSt) (o : Bytes)
    (h : seqRun tk ev s ps = some (s', o)) : htmlTotal tk ev s ps.flatten = some (o ++ endHtml s') := by
  cases ps with
  | nil =>
    simp only [seqRun] at h
    injection h with h
    injection h with h1 h2
    subst h1 h2
    simpa using htmlTotal_nil tk ev hl.stream s hlast (by rw [hc]; exact hnil)
  | cons p ps => exact seqRun_total tk ev hr (p :: ps) s s' o (by simp) (by rw [hc]; exact Or.inl rfl) h

/-- **Strong prefix theorem** (arbitrary bytes): see `PrefixSpec`. -/
theorem prefix_spec (v : Visitor) (hb : v.before = []) (hnb : v.isBuffering = false) (ps : List Bytes) (s' : HtmlSt)
    (o : Bytes) (h : seqRun tk ev (HtmlSt.new v) ps = some (s', o)) :
    PrefixSpec tk v ps.flatten (o ++ endHtml s') := by
  have htot := prefix_total hl hr hnil ev (HtmlSt.new v) rfl rfl ps s' o h
  cases hsp : utf8Split ((HtmlSt.new v).last ++ ps.flatten) with
  | none =>
    have := filterHtml_none_of tk ev (HtmlSt.new v) ps.flatten hsp
    simp [htmlTotal, this] at htot
  | some dp =>
    obtain ⟨data, pending⟩ := dp
    have hsp' : utf8Split ps.flatten = some (data, pending) := by simpa [HtmlSt.new] using hsp
    have hdp : data ++ pending = ps.flatten := (utf8Split_spec hsp').2
    rw [total_formula tk ev (HtmlSt.new v) ps.flatten data pending hsp] at htot
    injection htot with htot
    have hc : (HtmlSt.new v).ctx = [] := rfl
    rw [hc] at htot
    have hrem := view_all_rem tk hl.stream [] data
    refine ⟨data, pending, hsp', ?_⟩
    cases hk : v.kind with
    | replace =>
      simp only
      have hne : pathOf v ≠ [] := by unfold pathOf; simp
      exact ⟨(pathOf v).getLast hne, _, List.getLast?_eq_some_getLast hne,
        fold_replace_strong tk ev v hk hb hnb (List.getLast?_eq_some_getLast hne) (view tk [] data).all, htot.symm⟩
    | append =>
      simp only
      obtain ⟨_, _, _, e⟩ := fold_spec hl ev (view tk [] data).all (HtmlSt.new v) []
        (fun hk' => by simp [HtmlSt.new, hk] at hk') (fun hk' => by simp [HtmlSt.new, hk] at hk')
      have hP : PInv (pathOf v) (HtmlSt.new v) := by
        refine ⟨rfl, ?_, ?_⟩
        · intro x hx
          simp only [HtmlSt.new, Visitor.first, hb, List.reverse_nil] at hx
          injection hx with hx
          subst hx
          exact cur_mem_path v
        · intro x hx; simp [HtmlSt.new] at hx
      have hlen := fold_len hl.plain ev (view tk [] data).all (HtmlSt.new v) [] hP
      have e2 := Edit.appR ((view tk [] data).rem ++ pending) e
      have h0 : ledger (HtmlSt.new v) [] = [] := by simp [ledger, HtmlSt.new]
      rw [h0] at e2 hlen
      refine ⟨?_, ?_⟩
      · have hsrc : ps.flatten = rawsOf (view tk [] data).all ++ ((view tk [] data).rem ++ pending) := by
          rw [← List.append_assoc, hrem, hdp]
        rw [← htot, hsrc]
        simpa [visIns, visRep, HtmlSt.new, hk, List.append_assoc] using e2
      · rw [← htot, ← hdp]
        have hr' := congrArg List.length hrem
        have hcv : (HtmlSt.new v).visitor.content = v.content := rfl
        rw [hcv] at hlen
        simp only [List.length_append, List.length_nil] at hr' hlen ⊢
        omega
    | prepend =>
      simp only
      obtain ⟨_, _, _, e⟩ := fold_spec hl ev (view tk [] data).all (HtmlSt.new v) []
        (fun hk' => by simp [HtmlSt.new, hk] at hk') (fun hk' => by simp [HtmlSt.new, hk] at hk')
      have hP : PInv (pathOf v) (HtmlSt.new v) := by
        refine ⟨rfl, ?_, ?_⟩
        · intro x hx
          simp only [HtmlSt.new, Visitor.first, hb, List.reverse_nil] at hx
          injection hx with hx
          subst hx
          exact cur_mem_path v
        · intro x hx; simp [HtmlSt.new] at hx
      have hlen := fold_len hl.plain ev (view tk [] data).all (HtmlSt.new v) [] hP
      have e2 := Edit.appR ((view tk [] data).rem ++ pending) e
      have h0 : ledger (HtmlSt.new v) [] = [] := by simp [ledger, HtmlSt.new]
      rw [h0] at e2 hlen
      refine ⟨?_, ?_⟩
      · have hsrc : ps.flatten = rawsOf (view tk [] data).all ++ ((view tk [] data).rem ++ pending) := by
          rw [← List.append_assoc, hrem, hdp]
        rw [← htot, hsrc]
        simpa [visIns, visRep, HtmlSt.new, hk, List.append_assoc] using e2
      · rw [← htot, ← hdp]
        have hr' := congrArg List.length hrem
        have hcv : (HtmlSt.new v).visitor.content = v.content := rfl
        rw [hcv] at hlen
        simp only [List.length_append, List.length_nil] at hr' hlen ⊢
        omega

end

/-! ### a chain whose call number k fails -/

section
variable {D E : Type} (tk : Tokenize) (ev : Bytes → Bytes → Bool) (codec : Codec D E)

theorem feed_of_feedG : ∀ (cs : List Bytes) (items items1 : List (Stage D E)) (os : Bytes),
    feedG tk ev codec items cs = some (items1, os) →
    ∃ outs, ({ items := items } : Chain D E).feed tk ev codec cs = ({ items := items1 }, outs) ∧ outs.flatten = os := by
  intro cs
  induction cs with
  | nil =>
    intro items items1 os h
    simp only [feedG] at h
    injection h with h; injection h with h1 h2; subst h1 h2
    exact ⟨[], rfl, rfl⟩
  | cons c cs ih =>
    intro items items1 os h
    simp only [feedG] at h
    cases hd : doFilter tk ev codec items c with
    | mk it1 r =>
      rw [hd] at h
      cases r with
      | none => simp at h
      | some o =>
        simp only [Option.map_eq_some_iff] at h
        obtain ⟨⟨it2, os2⟩, h1, h2⟩ := h
        injection h2 with h2 h3
        subst h2 h3
        obtain ⟨outs, f1, f2⟩ := ih it1 it2 os2 h1
        refine ⟨o :: outs, ?_, by simp [f2]⟩
        simp only [Chain.feed, Chain.filter, Bool.false_eq_true, if_false, hd, f1]

theorem feed_append (c : Chain D E) : ∀ (a b : List Bytes),
    c.feed tk ev codec (a ++ b) =
      (((c.feed tk ev codec a).1.feed tk ev codec b).1, (c.feed tk ev codec a).2 ++ ((c.feed tk ev codec a).1.feed tk ev codec b).2) := by
  intro a
  induction a generalizing c with
  | nil => intro b; simp [Chain.feed]
  | cons x xs ih =>
    intro b
    simp only [List.cons_append, Chain.feed]
    rw [ih]

theorem feed_in_error (c : Chain D E) (h : c.inError = true) : ∀ cs : List Bytes, c.feed tk ev codec cs = (c, cs) := by
  intro cs
  induction cs with
  | nil => rfl
  | cons x xs ih => simp [Chain.feed, Chain.filter, h, ih]

/-- **The run of a chain whose call on `x` fails** (after the calls on `pre` succeeded): the outputs of the calls before,
what the html stages hold (last stage first = oldest bytes first), the failing chunk and every later chunk unchanged,
nothing at `end()`. -/
theorem run_fail_at (items items_k : List (Stage D E)) (pre : List Bytes) (x : Bytes) (rest : List Bytes) (outs : Bytes)
    (hfeed : feedG tk ev codec items pre = some (items_k, outs))
    (hfail : (doFilter tk ev codec items_k x).2 = none) :
    ({ items := items } : Chain D E).run tk ev codec (pre ++ x :: rest) =
      outs ++ flushHtml (doFilter tk ev codec items_k x).1 ++ x ++ rest.flatten := by
  obtain ⟨os, f1, f2⟩ := feed_of_feedG tk ev codec pre items items_k outs hfeed
  cases hd : doFilter tk ev codec items_k x with
  | mk items' r =>
    rw [hd] at hfail
    simp only at hfail
    subst hfail
    have hfil : ({ items := items_k } : Chain D E).filter tk ev codec x =
        ({ items := items', inError := true }, flushHtml items' ++ x) := by
      simp [Chain.filter, hd]
    have herr := feed_in_error tk ev codec ({ items := items', inError := true } : Chain D E) rfl rest
    simp only [Chain.run, Chain.runOuts, feed_append, f1, Chain.feed, hfil, herr, Chain.end, if_true]
    simp [f2, List.append_assoc]

theorem flushHtml_cons_html (s : HtmlSt) (rest : List (Stage D E)) :
    flushHtml (Stage.html s :: rest) = flushHtml rest ++ endHtml s := by
  simp [flushHtml]

/-- **A failure inside the first (html) stage**: the later stages only ever see what the first stage emitted; what it holds
and the remaining input go out verbatim. -/
theorem fail_in_first_html (h0 h_k : HtmlSt) (post post_k : List (Stage D E)) (pre : List Bytes) (x : Bytes)
    (rest : List Bytes) (os : List Bytes) (outs : Bytes)
    (hs : seqRunL tk ev h0 pre = some (h_k, os)) (hx : filterHtml tk ev h_k x = none)
    (hp : feedG tk ev codec post (nonEmpty os) = some (post_k, outs)) :
    ({ items := .html h0 :: post } : Chain D E).run tk ev codec (pre ++ x :: rest) =
      outs ++ flushHtml post_k ++ endHtml h_k ++ x ++ rest.flatten := by
  have hfeed : feedG tk ev codec (.html h0 :: post) pre = some (.html h_k :: post_k, outs) := by
    rw [feedG_cons, stFeed_html, hs]
    simp [hp]
  have hd : doFilter tk ev codec (.html h_k :: post_k) x = (.html h_k :: post_k, none) := by
    simp [doFilter, Stage.filter, hx]
  have := run_fail_at tk ev codec _ _ pre x rest outs hfeed (by rw [hd])
  rw [this, hd, flushHtml_cons_html]
  simp [List.append_assoc]

/-- the first failing call of an html stage, if any -/
theorem first_failure (s : HtmlSt) : ∀ cs : List Bytes,
    (∃ s' os, seqRunL tk ev s cs = some (s', os)) ∨
    (∃ pre x rest s_k os, cs = pre ++ x :: rest ∧ seqRunL tk ev s pre = some (s_k, os) ∧ filterHtml tk ev s_k x = none) := by
  intro cs
  induction cs generalizing s with
  | nil => exact Or.inl ⟨s, [], rfl⟩
  | cons c cs ih =>
    cases hf : filterHtml tk ev s c with
    | none => exact Or.inr ⟨[], c, cs, s, [], rfl, rfl, hf⟩
    | some r =>
      obtain ⟨s1, o1⟩ := r
      rcases ih s1 with ⟨s', os, h⟩ | ⟨pre, x, rest, s_k, os, h1, h2, h3⟩
      · exact Or.inl ⟨s', o1 :: os, by simp [seqRunL, hf, h]⟩
      · exact Or.inr ⟨c :: pre, x, rest, s_k, o1 :: os, by simp [h1], by simp [seqRunL, hf, h2], h3⟩

end

/-- where the stage stops filtering: after all chunks when no call fails, otherwise at the FIRST chunk it rejects -/
def StopsAt (tk : Tokenize) (ev : Bytes → Bytes → Bool) (v : Visitor) (cs : List Bytes) (k : Nat) : Prop :=
  (k = cs.length ∧ ∃ s' os, seqRunL tk ev (HtmlSt.new v) cs = some (s', os)) ∨
  (∃ s_k os x, seqRunL tk ev (HtmlSt.new v) (cs.take k) = some (s_k, os) ∧ cs[k]? = some x ∧
    filterHtml tk ev s_k x = none)

/-! ### packaged -/

section
variable {tk : Tokenize} (hl : LosslessAll tk) (hv : TokValidAll tk) (ev : Bytes → Bytes → Bool)
include hl hv

/-- every output of an html stage is complete valid UTF-8, whatever it is fed -/
theorem seqRunL_V : ∀ (ps : List Bytes) (s s' : HtmlSt) (os : List Bytes), HV s → Ctx s.ctx →
    seqRunL tk ev s ps = some (s', os) → ∀ o ∈ os, V o
  | [], _, _, os, _, _, h => by
    simp only [seqRunL] at h
    injection h with h; injection h with _ h2; subst h2
    intro o ho; simp at ho
  | p :: ps, s, s', os, hh, hc, h => by
    simp only [seqRunL] at h
    cases hf : filterHtml tk ev s p with
    | none => simp [hf] at h
    | some r =>
      obtain ⟨s1, o1⟩ := r
      simp only [hf, Option.map_eq_some_iff] at h
      obtain ⟨⟨s2, os2⟩, h1, h2⟩ := h
      injection h2 with h2 h3
      subst h2 h3
      obtain ⟨a1, a2, a3⟩ := filterHtml_V hl hv ev s s1 p o1 hh hc hf
      intro o ho
      simp only [List.mem_cons] at ho
      rcases ho with rfl | ho
      · exact a3
      · exact seqRunL_V ps s1 _ os2 a1 a2 h1 o ho

/-- downstream stages fed complete valid pieces never fail -/
theorem feedG_down : ∀ (ps : List Bytes) (items : List (Stage Unit Unit)), Down items → (∀ p ∈ ps, V p) →
    ∃ items' out, feedG tk ev noCodec items ps = some (items', out)
  | [], items, _, _ => ⟨items, [], rfl⟩
  | p :: ps, items, hd, hp => by
    obtain ⟨items1, o, d1, d2, _⟩ := doFilter_down hl hv ev noCodec items p hd (hp p (by simp))
    obtain ⟨items2, out, f⟩ := feedG_down ps items1 d2 (fun q hq => hp q (by simp [hq]))
    exact ⟨items2, o ++ out, by simp [feedG, d1, f]⟩

/-- **C04 through the error path, structural decomposition** (abstract laws; the later stages' contribution `outs`,
`post_k` is only given operationally here — see `error_path_strong_full` for its specification): a chain `html (new v) :: post` (later stages with valid
values), ARBITRARY bytes, every schedule.  Either no call of the first stage fails, or the chain fails at the first chunk
`x` the first stage rejects and its whole output is: what the later stages made of the bytes the first stage EMITTED (`outs`),
what they hold, what the first stage holds, the failing chunk and the later chunks verbatim — where "emitted followed by
held" of the first stage is the strong rendering `PrefixSpec` of the bytes received before the failure. -/
theorem error_path_strong (hr : RestartLaw tk) (hnil : (tk.stream [] []).1 = []) (v : Visitor) (hb : v.before = [])
    (hnb : v.isBuffering = false) (hcv : V v.content) (post : List (Stage Unit Unit)) (hd : Down post) (cs : List Bytes) :
    (∃ s' os, seqRunL tk ev (HtmlSt.new v) cs = some (s', os)) ∨
    (∃ pre x rest h_k os post_k outs, cs = pre ++ x :: rest ∧
      seqRunL tk ev (HtmlSt.new v) pre = some (h_k, os) ∧ filterHtml tk ev h_k x = none ∧
      feedG tk ev noCodec post (nonEmpty os) = some (post_k, outs) ∧
      ({ items := .html (HtmlSt.new v) :: post } : Chain Unit Unit).run tk ev noCodec cs =
        outs ++ flushHtml post_k ++ endHtml h_k ++ x ++ rest.flatten ∧
      PrefixSpec tk v pre.flatten (os.flatten ++ endHtml h_k)) := by
  rcases first_failure tk ev (HtmlSt.new v) cs with h | ⟨pre, x, rest, h_k, os, rfl, h2, h3⟩
  · exact Or.inl h
  · right
    have hHV : HV (HtmlSt.new v) := ⟨hcv, by intro l hl'; simp [HtmlSt.new] at hl'⟩
    have hV := seqRunL_V hl hv ev pre (HtmlSt.new v) h_k os hHV (Or.inl rfl) h2
    obtain ⟨post_k, outs, hp⟩ := feedG_down hl hv ev (nonEmpty os) post hd
      (fun p hp' => hV p (by unfold nonEmpty at hp'; exact (List.mem_filter.mp hp').1))
    refine ⟨pre, x, rest, h_k, os, post_k, outs, rfl, h2, h3, hp,
      fail_in_first_html tk ev noCodec (HtmlSt.new v) h_k post post_k pre x rest os outs h2 h3 hp, ?_⟩
    have hs : seqRun tk ev (HtmlSt.new v) pre = some (h_k, os.flatten) := by rw [seqRunL_flat, h2]; rfl
    exact prefix_spec hl hr hnil ev v hb hnb pre h_k os.flatten hs

omit hv in
/-- **One html stage, ARBITRARY bytes, every schedule, failing or not**: there is a number `k` of chunks (all of them if no
call fails, otherwise the index of the FIRST rejected chunk: `StopsAt`) such that the output is the strong rendering `PrefixSpec` of the first `k` chunks followed by the other chunks
verbatim. -/
theorem one_html_anybytes (hr : RestartLaw tk) (hnil : (tk.stream [] []).1 = []) (v : Visitor) (hb : v.before = [])
    (hnb : v.isBuffering = false) (cs : List Bytes) :
    ∃ k B, k ≤ cs.length ∧ StopsAt tk ev v cs k ∧ PrefixSpec tk v (cs.take k).flatten B ∧
      ({ items := [.html (HtmlSt.new v)] } : Chain Unit Unit).run tk ev noCodec cs = B ++ (cs.drop k).flatten := by
  rcases first_failure tk ev (HtmlSt.new v) cs with ⟨s', os, h⟩ | ⟨pre, x, rest, h_k, os, rfl, h2, h3⟩
  · have hs : seqRun tk ev (HtmlSt.new v) cs = some (s', os.flatten) := by rw [seqRunL_flat, h]; rfl
    refine ⟨cs.length, os.flatten ++ endHtml s', Nat.le_refl _, Or.inl ⟨rfl, s', os, h⟩, ?_, ?_⟩
    · rw [List.take_length]
      exact prefix_spec hl hr hnil ev v hb hnb cs s' os.flatten hs
    · rw [run_single_html tk ev noCodec cs (HtmlSt.new v) s' os.flatten hs]
      simp
  · have hs : seqRun tk ev (HtmlSt.new v) pre = some (h_k, os.flatten) := by rw [seqRunL_flat, h2]; rfl
    have hp : feedG tk ev noCodec ([] : List (Stage Unit Unit)) (nonEmpty os) = some ([], os.flatten) := by
      have : ∀ ps : List Bytes, feedG tk ev noCodec ([] : List (Stage Unit Unit)) ps = some ([], ps.flatten) := by
        intro ps
        induction ps with
        | nil => rfl
        | cons p ps ih => simp [feedG, doFilter, ih]
      rw [this, nonEmpty_flatten]
    have hrun := fail_in_first_html tk ev noCodec (HtmlSt.new v) h_k [] [] pre x rest os os.flatten h2 h3 hp
    refine ⟨pre.length, os.flatten ++ endHtml h_k, by simp,
      Or.inr ⟨h_k, os, x, by rw [List.take_left' rfl]; exact h2, by simp, h3⟩, ?_, ?_⟩
    · rw [List.take_left']
      · exact prefix_spec hl hr hnil ev v hb hnb pre h_k os.flatten hs
      · rfl
    · rw [hrun, List.drop_left']
      · simp [flushHtml, List.append_assoc]
      · rfl

end

/-! ### the later stages (review D, C04err-1): what `outs ++ flushHtml post_k` is, in terms of what the first stage emitted

The later stages are never ended in a failing run: each has received the bytes `a` the stage before it EMITTED, has emitted
`e` itself and still holds `h`; `flushHtml` gives the held bytes back verbatim, last stage first, WITHOUT passing them through
the stages behind.  `MidSpec`: an html stage — `e ++ h` is the strong rendering `PrefixSpec` of `a`; a text stage — it holds
nothing and `e` is its closed form `stageTotal` minus what it would still emit at `end()` (append_text: `e = a`, its value is
never emitted; prepend_text: `value ++ a` once it has been called; replace_text: its value, i.e. the bytes it received ARE
swallowed — the code does exactly this, `replace_text` is no conservative filter). -/

def heldOf : Stage Unit Unit → Bytes
  | .html s => endHtml s
  | _ => []

theorem flushHtml_cons (st : Stage Unit Unit) (rest : List (Stage Unit Unit)) :
    flushHtml (st :: rest) = flushHtml rest ++ heldOf st := by
  cases st <;> simp [flushHtml, heldOf]

/-- one later stage in a failing run: received `a`, emitted `e`, holds `h` -/
def MidSpec (tk : Tokenize) : Stage Unit Unit → Bytes → Bytes → Bytes → Prop
  | .html s, a, e, h => ∃ v : Visitor, s = HtmlSt.new v ∧ v.before = [] ∧ v.isBuffering = false ∧ PrefixSpec tk v a (e ++ h)
  | .text s, a, e, h => h = [] ∧ ∃ t, stageTotal s a = e ++ t
  | _, _, _, _ => False

/-- the later stages in order: stage j receives what stage j-1 emitted; the held bytes bypass the stages behind -/
def FlushSpec (tk : Tokenize) : List (Stage Unit Unit) → Bytes → Bytes → Prop
  | [], a, out => out = a
  | st :: rest, a, out => ∃ e h out', MidSpec tk st a e h ∧ FlushSpec tk rest e out' ∧ out = out' ++ h

section
variable {tk : Tokenize} (hl : LosslessAll tk) (hr : RestartLaw tk) (hnil : (tk.stream [] []).1 = [])
  (ev : Bytes → Bytes → Bool)
include hl hr hnil

/-- **What fresh later stages have emitted and hold after being fed the pieces `ps`** (no `end()`): `FlushSpec`. -/
theorem flush_spec : ∀ (post : List (Stage Unit Unit)) (ps : List Bytes) (post_k : List (Stage Unit Unit)) (outs : Bytes),
    (∀ st ∈ post, StageFresh st ∧ isPlain st = true) → feedG tk ev noCodec post ps = some (post_k, outs) →
    FlushSpec tk post ps.flatten (outs ++ flushHtml post_k)
  | [], ps, post_k, outs, _, h => by
    have : ∀ ps : List Bytes, feedG tk ev noCodec ([] : List (Stage Unit Unit)) ps = some ([], ps.flatten) := by
      intro ps
      induction ps with
      | nil => rfl
      | cons p ps ih => simp [feedG, doFilter, ih]
    rw [this] at h
    injection h with h; injection h with h1 h2; subst h1 h2
    simp [FlushSpec, flushHtml]
  | st :: rest, ps, post_k, outs, hf, h => by
    rw [feedG_cons] at h
    cases hfe : stFeed tk ev noCodec st ps with
    | none => simp [hfe] at h
    | some r =>
      obtain ⟨st1, os1⟩ := r
      simp only [hfe, Option.map_eq_some_iff] at h
      obtain ⟨⟨rest_k, outs'⟩, h1, h2⟩ := h
      injection h2 with h2 h3
      subst h2 h3
      have ih := flush_spec rest (nonEmpty os1) rest_k outs' (fun s hs => hf s (by simp [hs])) h1
      rw [nonEmpty_flatten] at ih
      refine ⟨os1.flatten, heldOf st1, outs' ++ flushHtml rest_k, ?_, ih, by rw [flushHtml_cons]; simp [List.append_assoc]⟩
      obtain ⟨hfresh, hplain⟩ := hf st (by simp)
      cases st with
      | html s =>
        obtain ⟨v, rfl, hb, hnb⟩ := hfresh
        rw [stFeed_html] at hfe
        cases hsl : seqRunL tk ev (HtmlSt.new v) ps with
        | none => simp [hsl] at hfe
        | some r2 =>
          obtain ⟨s1, os2⟩ := r2
          simp only [hsl, Option.map_some] at hfe
          injection hfe with hfe
          injection hfe with e1 e2
          subst e1 e2
          have hs : seqRun tk ev (HtmlSt.new v) ps = some (s1, os2.flatten) := by rw [seqRunL_flat, hsl]; rfl
          exact ⟨v, rfl, hb, hnb, prefix_spec hl hr hnil ev v hb hnb ps s1 os2.flatten hs⟩
      | text s =>
        obtain ⟨s1', os', g1, g2⟩ := stFeed_text tk ev noCodec ps s
        rw [g1] at hfe
        injection hfe with hfe
        injection hfe with e1 e2
        subst e1 e2
        refine ⟨rfl, stageTotal s1' [], ?_⟩
        simpa using g2 []
      | decode d => simp [isPlain] at hplain
      | encode e => simp [isPlain] at hplain

end

section
variable {tk : Tokenize} (hl : LosslessAll tk) (hv : TokValidAll tk) (ev : Bytes → Bytes → Bool)
include hl hv

/-- **C04, strong form through the error path, chains of any length that START with the html stage** (abstract laws).
As `error_path_strong`, and in addition the contribution of the later stages is SPECIFIED: `outs ++ flushHtml post_k` is the
`FlushSpec` rendering of the bytes `os.flatten` the first stage emitted — every later html stage meets `PrefixSpec` on what
it received (emitted ++ held), every later text stage its closed form, held bytes bypass the stages behind.  So the bytes
of the body are accounted for stage by stage also when the chain fails; a later `replace_text` swallows what it receives
(closed form `MidSpec`), which is what the code does. -/
theorem error_path_strong_full (hr : RestartLaw tk) (hnil : (tk.stream [] []).1 = []) (v : Visitor) (hb : v.before = [])
    (hnb : v.isBuffering = false) (hcv : V v.content) (post : List (Stage Unit Unit)) (hd : Down post)
    (hfresh : ∀ st ∈ post, StageFresh st) (cs : List Bytes) :
    (∃ s' os, seqRunL tk ev (HtmlSt.new v) cs = some (s', os)) ∨
    (∃ pre x rest h_k os mid, cs = pre ++ x :: rest ∧
      seqRunL tk ev (HtmlSt.new v) pre = some (h_k, os) ∧ filterHtml tk ev h_k x = none ∧
      ({ items := .html (HtmlSt.new v) :: post } : Chain Unit Unit).run tk ev noCodec cs =
        mid ++ endHtml h_k ++ x ++ rest.flatten ∧
      PrefixSpec tk v pre.flatten (os.flatten ++ endHtml h_k) ∧
      FlushSpec tk post os.flatten mid) := by
  rcases error_path_strong hl hv ev hr hnil v hb hnb hcv post hd cs with h | ⟨pre, x, rest, h_k, os, post_k, outs, e1, e2, e3, e4, e5, e6⟩
  · exact Or.inl h
  · right
    have hplain : ∀ st ∈ post, StageFresh st ∧ isPlain st = true := by
      intro st hst
      refine ⟨hfresh st hst, ?_⟩
      have := hd st hst
      cases st <;> simp_all [DStage, isPlain]
    have hfl := flush_spec hl hr hnil ev post (nonEmpty os) post_k outs hplain e4
    rw [nonEmpty_flatten] at hfl
    exact ⟨pre, x, rest, h_k, os, outs ++ flushHtml post_k, e1, e2, e3, by rw [e5], e6, hfl⟩

end

/-- the same on the tokenizer model, no tokenizer hypothesis -/
theorem error_path_strong_full_final (ev : Bytes → Bytes → Bool) (v : Visitor) (hb : v.before = [])
    (hnb : v.isBuffering = false) (hcv : V v.content) (post : List (Stage Unit Unit)) (hd : Down post)
    (hfresh : ∀ st ∈ post, StageFresh st) (cs : List Bytes) :
    (∃ s' os, seqRunL htmlTokenize ev (HtmlSt.new v) cs = some (s', os)) ∨
    (∃ pre x rest h_k os mid, cs = pre ++ x :: rest ∧
      seqRunL htmlTokenize ev (HtmlSt.new v) pre = some (h_k, os) ∧ filterHtml htmlTokenize ev h_k x = none ∧
      ({ items := .html (HtmlSt.new v) :: post } : Chain Unit Unit).run htmlTokenize ev noCodec cs =
        mid ++ endHtml h_k ++ x ++ rest.flatten ∧
      PrefixSpec htmlTokenize v pre.flatten (os.flatten ++ endHtml h_k) ∧
      FlushSpec htmlTokenize post os.flatten mid) :=
  error_path_strong_full htmlTokenize_losslessAll tokenizer_tokValid ev htmlTokenize_restartLaw htmlStream_nil_nil
    v hb hnb hcv post hd hfresh cs

/-! ### on the tokenizer model: one html filter, no hypothesis -/

/-- **One `replace` filter, ANY bytes (invalid UTF-8 included), ANY schedule, whether or not the chain fails.**  There is a
number `k` of chunks (all of them when no call fails; otherwise the chunks before the FIRST failing one: `StopsAt`) such that, with
`data ++ pending` the validated part and the incomplete last character of the first `k` chunks and `T ++ rem` the
tokenization of `data`: the output is `o' ++ rem ++ pending` followed by the remaining chunks VERBATIM, where `o'` renders `T`
replacing only non-overlapping element spans of the target (`RScript`).  No byte outside such a span is lost, duplicated or
reordered, also when invalid UTF-8 arrives after bytes were held back. -/
theorem replace_one_anybytes_final (ev : Bytes → Bytes → Bool) (lower : String → String) (headers : List (String × String))
    (p : Bytes) (ps : List Bytes) (sel : Option Bytes) (value : Bytes)
    (henc : headerValue lower Rio.Consts.filterHeaderContentEncoding headers = none)
    (hct : htmlAllowed (headerValue lower Rio.Consts.filterHeaderContentType headers) = true) (cs : List Bytes) :
    ∃ k data pending tgt o', k ≤ cs.length ∧
      StopsAt htmlTokenize ev { kind := .replace, cur := p, after := ps, sel := sel, content := value } cs k ∧
      utf8Split (cs.take k).flatten = some (data, pending) ∧
      (p :: ps).getLast? = some tgt ∧ RScript tgt value (view htmlTokenize [] data).all o' ∧
      (Chain.new noCodec lower [.html Rio.Consts.filterActionReplace (p :: ps) sel value] headers).run htmlTokenize ev noCodec cs =
        o' ++ (view htmlTokenize [] data).rem ++ pending ++ (cs.drop k).flatten := by
  have hitems := chain_of_one_html lower headers Rio.Consts.filterActionReplace p ps sel value .replace henc hct
    (by simp [Visitor.new, Rio.Consts.filterActionReplace, Rio.Consts.filterActionAppend, Rio.Consts.filterActionPrepend])
  have hch : Chain.new noCodec lower [.html Rio.Consts.filterActionReplace (p :: ps) sel value] headers =
      ({ items := [.html (HtmlSt.new { kind := .replace, cur := p, after := ps, sel := sel, content := value })] } : Chain Unit Unit) := by
    rw [new_plain noCodec lower _ headers henc] at hitems ⊢
    simp only at hitems
    rw [hitems]
  obtain ⟨k, B, hk, hst, ⟨data, pending, h1, h2⟩, h3⟩ := one_html_anybytes htmlTokenize_losslessAll ev htmlTokenize_restartLaw
    htmlStream_nil_nil { kind := .replace, cur := p, after := ps, sel := sel, content := value } rfl rfl cs
  simp only at h2
  obtain ⟨tgt, o', e1, e2, e3⟩ := h2
  refine ⟨k, data, pending, tgt, o', hk, hst, h1, by simpa [pathOf] using e1, e2, ?_⟩
  rw [hch, h3, e3]

/-- **One `append_child` / `prepend_child` filter, ANY bytes, ANY schedule, failing or not**: the output is `B` followed by
the chunks from the failing one on verbatim, where `B` is the first `k` chunks with whole copies of the value inserted
(`Edit [value] []`), at most one per tag token of the validated prefix named on the path. -/
theorem insert_one_anybytes_final (ev : Bytes → Bytes → Bool) (lower : String → String) (headers : List (String × String))
    (action : String) (hact : action = Rio.Consts.filterActionAppend ∨ action = Rio.Consts.filterActionPrepend)
    (p : Bytes) (ps : List Bytes) (sel : Option Bytes) (value : Bytes)
    (henc : headerValue lower Rio.Consts.filterHeaderContentEncoding headers = none)
    (hct : htmlAllowed (headerValue lower Rio.Consts.filterHeaderContentType headers) = true) (cs : List Bytes) :
    ∃ (v : Visitor) (k : Nat) (B data pending : Bytes), Visitor.new action (p :: ps) sel value = some v ∧ k ≤ cs.length ∧
      StopsAt htmlTokenize ev v cs k ∧ utf8Split (cs.take k).flatten = some (data, pending) ∧
      Edit [value] [] (cs.take k).flatten B ∧
      B.length ≤ (cs.take k).flatten.length + value.length * ((view htmlTokenize [] data).all.filter (onPath (p :: ps))).length ∧
      (Chain.new noCodec lower [.html action (p :: ps) sel value] headers).run htmlTokenize ev noCodec cs =
        B ++ (cs.drop k).flatten := by
  have key : ∀ kd : VKind, kd ≠ .replace →
      Visitor.new action (p :: ps) sel value = some { kind := kd, cur := p, after := ps, sel := sel, content := value } →
      ∃ (v : Visitor) (k : Nat) (B data pending : Bytes), Visitor.new action (p :: ps) sel value = some v ∧ k ≤ cs.length ∧
        StopsAt htmlTokenize ev v cs k ∧ utf8Split (cs.take k).flatten = some (data, pending) ∧
        Edit [value] [] (cs.take k).flatten B ∧
        B.length ≤ (cs.take k).flatten.length + value.length * ((view htmlTokenize [] data).all.filter (onPath (p :: ps))).length ∧
        (Chain.new noCodec lower [.html action (p :: ps) sel value] headers).run htmlTokenize ev noCodec cs =
          B ++ (cs.drop k).flatten := by
    intro kd hkd hnew
    have hitems := chain_of_one_html lower headers action p ps sel value kd henc hct hnew
    have hch : Chain.new noCodec lower [.html action (p :: ps) sel value] headers =
        ({ items := [.html (HtmlSt.new { kind := kd, cur := p, after := ps, sel := sel, content := value })] } : Chain Unit Unit) := by
      rw [new_plain noCodec lower _ headers henc] at hitems ⊢
      simp only at hitems
      rw [hitems]
    obtain ⟨k, B, hk, hst, ⟨data, pending, h1, h2⟩, h3⟩ := one_html_anybytes htmlTokenize_losslessAll ev htmlTokenize_restartLaw
      htmlStream_nil_nil { kind := kd, cur := p, after := ps, sel := sel, content := value } rfl rfl cs
    cases kd with
    | replace => exact absurd rfl hkd
    | append =>
      simp only at h2
      exact ⟨_, k, B, data, pending, hnew, hk, hst, h1, h2.1, by simpa [pathOf] using h2.2, by rw [hch, h3]⟩
    | prepend =>
      simp only at h2
      exact ⟨_, k, B, data, pending, hnew, hk, hst, h1, h2.1, by simpa [pathOf] using h2.2, by rw [hch, h3]⟩
  rcases hact with rfl | rfl
  · exact key .append (by simp) (by simp [Visitor.new, Rio.Consts.filterActionReplace, Rio.Consts.filterActionAppend, Rio.Consts.filterActionPrepend])
  · exact key .prepend (by simp) (by simp [Visitor.new, Rio.Consts.filterActionReplace, Rio.Consts.filterActionAppend, Rio.Consts.filterActionPrepend])

/-- the general form on the tokenizer model: `html (new v) :: post`, any later stages with valid values -/
theorem error_path_strong_final (ev : Bytes → Bytes → Bool) (v : Visitor) (hb : v.before = [])
    (hnb : v.isBuffering = false) (hcv : V v.content) (post : List (Stage Unit Unit)) (hd : Down post) (cs : List Bytes) :
    (∃ s' os, seqRunL htmlTokenize ev (HtmlSt.new v) cs = some (s', os)) ∨
    (∃ pre x rest h_k os post_k outs, cs = pre ++ x :: rest ∧
      seqRunL htmlTokenize ev (HtmlSt.new v) pre = some (h_k, os) ∧ filterHtml htmlTokenize ev h_k x = none ∧
      feedG htmlTokenize ev noCodec post (nonEmpty os) = some (post_k, outs) ∧
      ({ items := .html (HtmlSt.new v) :: post } : Chain Unit Unit).run htmlTokenize ev noCodec cs =
        outs ++ flushHtml post_k ++ endHtml h_k ++ x ++ rest.flatten ∧
      PrefixSpec htmlTokenize v pre.flatten (os.flatten ++ endHtml h_k)) :=
  error_path_strong htmlTokenize_losslessAll tokenizer_tokValid ev htmlTokenize_restartLaw htmlStream_nil_nil v hb hnb hcv post hd cs

/-! ### non-vacuity (review D, item 6) -/

/-- `content-type: text/html`, no `content-encoding` -/
def exHeaders : List (String × String) := [("content-type", "text/html")]

/-- `<div>a<p>x</p>b<p>y` ‖ `0xFF` ‖ `z</p></div>q` -/
def exChunks : List Bytes :=
  [[60, 100, 105, 118, 62, 97, 60, 112, 62, 120, 60, 47, 112, 62, 98, 60, 112, 62, 121], [255],
   [122, 60, 47, 112, 62, 60, 47, 100, 105, 118, 62, 113]]

/-- `replace_one_anybytes_final` instantiated as the reviewer wrote it (chunks `<p>`, `0xFF`): the hypotheses are decidable
facts about the headers -/
example :=
  replace_one_anybytes_final evalStandIn id exHeaders [100, 105, 118] [[112]] none [78, 69, 87] (by decide) (by decide)
    [[60, 112, 62], [255]]

/-- an evaluated FAILING run (replace `p` under `div` by `NEW`; the second chunk is invalid UTF-8): the first `p` element was
replaced, `<p>y` was held and comes back verbatim, then the failing chunk and the rest — `<div>aNEWb<p>y` `0xFF`
`z</p></div>q` -/
theorem replace_anybytes_run :
    (Chain.new noCodec id [.html Rio.Consts.filterActionReplace [[100, 105, 118], [112]] none [78, 69, 87]] exHeaders).run
        htmlTokenize evalStandIn noCodec exChunks =
      [60, 100, 105, 118, 62, 97, 78, 69, 87, 98, 60, 112, 62, 121] ++ [255] ++
        [122, 60, 47, 112, 62, 60, 47, 100, 105, 118, 62, 113] := by
  decide +kernel

def exV : Visitor := { kind := .replace, cur := [100, 105, 118], after := [[112]], content := [78, 69, 87] }
/-- a later stage: `append_child` of `$` into `div` -/
def exPost : List (Stage Unit Unit) := [.html (HtmlSt.new { kind := .append, cur := [100, 105, 118], content := [36] })]

theorem exChunks_fail : (seqRunL htmlTokenize evalStandIn (HtmlSt.new exV) exChunks).isNone = true := by
  decide +kernel

/-- **The SECOND disjunct of `error_path_strong_full_final` is inhabited** (two html stages, the failing run above): the
first disjunct is refuted by evaluation, so the theorem yields the decomposition with `PrefixSpec` and `FlushSpec`. -/
theorem error_path_example :
    ∃ pre x rest h_k os mid, exChunks = pre ++ x :: rest ∧
      seqRunL htmlTokenize evalStandIn (HtmlSt.new exV) pre = some (h_k, os) ∧
      filterHtml htmlTokenize evalStandIn h_k x = none ∧
      ({ items := .html (HtmlSt.new exV) :: exPost } : Chain Unit Unit).run htmlTokenize evalStandIn noCodec exChunks =
        mid ++ endHtml h_k ++ x ++ rest.flatten ∧
      PrefixSpec htmlTokenize exV pre.flatten (os.flatten ++ endHtml h_k) ∧
      FlushSpec htmlTokenize exPost os.flatten mid := by
  have hd : Down exPost := by
    intro st hst
    simp only [exPost, List.mem_singleton] at hst
    subst hst
    exact ⟨⟨⟨by show V [36]; unfold V; decide, by intro l hl; simp [HtmlSt.new] at hl⟩, Or.inl rfl⟩, V_nil⟩
  have hf : ∀ st ∈ exPost, StageFresh st := by
    intro st hst
    simp only [exPost, List.mem_singleton] at hst
    subst hst
    exact ⟨_, rfl, rfl, rfl⟩
  rcases error_path_strong_full_final evalStandIn exV rfl rfl (by show V [78, 69, 87]; unfold V; decide) exPost hd hf
      exChunks with ⟨s', os, h⟩ | h
  · have := exChunks_fail
    rw [h] at this
    simp at this
  · exact h

/-- ... and what that run emits: the second stage saw only `<div>aNEWb`, holds nothing, the first stage's held `<p>y`, the
failing chunk and the rest follow verbatim -/
theorem error_path_example_run :
    ({ items := .html (HtmlSt.new exV) :: exPost } : Chain Unit Unit).run htmlTokenize evalStandIn noCodec exChunks =
      [60, 100, 105, 118, 62, 97, 78, 69, 87, 98, 60, 112, 62, 121] ++ [255] ++
        [122, 60, 47, 112, 62, 60, 47, 100, 105, 118, 62, 113] := by
  decide +kernel

end Rio.C04
