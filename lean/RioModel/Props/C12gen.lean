/-
C12 (W20) — the lazily compiled regex cell, for the definitions TRANSLATED from src/regex.rs and `Leaf::cache` of
src/regex_radix_tree/leaf.rs on every run (`Rio.Consts.GenLazyRegex`, `genLazyRegexNewNode` / `NewLeaf` / `CreateRegex` /
`IsMatch` / `Regex` / `Compile`, `genLeafCache`; generator tools/consts_dev/w20_lazyregex.py).

Property theorems only (helper lemmas: Proofs/LazyRegexGen.lean).  The `regex` crate is abstract on both sides: `build` / `run`
(parameters of the translated code) and `E : Engine` (the model); `Rep`, `CrateAt`, `OkSound` relate them, see
Proofs/LazyRegexGen.lean.  Which FIELDS each constructor copies, that `compiled` starts as `None`, that `is_match` runs the stored
value when there is one and otherwise builds from `regex` + `ignore_case`, that `compile` keeps the three fields and stores
`create_regex()` of them — all of that is in the translated text and is what `gen_*_eq_model` compare with the model.
-/
import RioModel.Proofs.LazyRegexGen
import RioModel.Props.C12
set_option linter.unusedSimpArgs false
set_option linter.unusedVariables false
set_option linter.unusedSectionVars false

namespace Rio.C12
open Rio.Consts Rio.Regex Rio.Tree Rio.LazyRegexGen Rio.C08

variable {ρ : Type}

/-! ### translated = model -/

/-- **Constructors.**  `LazyRegex::new_node` / `new_leaf` translated from the source build exactly the cell the model builds —
`original` = the argument, `regex` = the TEXT `^q` (`.*` for the empty prefix) / `^p$`, the case flag = the argument,
`compiled = None` — for every argument, every value type `ρ` and every `val`.  No hypothesis. -/
theorem gen_lazy_new_eq_model (val : Compiled → ρ) (s : List Char) (ic : Bool) :
    Rep val (genLazyRegexNewNode s ic) (LazyRegex.newNode s ic) ∧
    Rep val (genLazyRegexNewLeaf s ic) (LazyRegex.newLeaf s ic) ∧
    (genLazyRegexNewNode s ic : GenLazyRegex ρ).compiled = none ∧
    (genLazyRegexNewLeaf s ic : GenLazyRegex ρ).compiled = none :=
  ⟨newNode_rep val s ic, newLeaf_rep val s ic, rfl, rfl⟩

/-- **`create_regex`, `regex()`, `compile`.**  For every cell `g` representing a model cell `rx` (`Rep`) and a crate that agrees
with the engine on the text of this cell (`CrateAt`): translated `create_regex` returns the value the model's `createRegex` names
(built from the CURRENT `regex` and `ignore_case`); `regex()` returns the stored value when there is one and `create_regex()`
otherwise; `compile()` returns a cell representing the model's `compile` (same three fields, `compiled = create_regex()`). -/
theorem gen_lazy_compile_eq_model (E : Engine) {build : List Char → Bool → Option ρ} {run : ρ → List Char → Bool}
    {val : Compiled → ρ} {g : GenLazyRegex ρ} {rx : LazyRegex} (h : Rep val g rx)
    (hc : CrateAt E build run val rx.regex rx.ic) :
    genLazyRegexCreateRegex build g = (rx.createRegex E).map val ∧
    genLazyRegexRegex build g = (match rx.compiled with | some c => some c | none => rx.createRegex E).map val ∧
    Rep val (genLazyRegexCompile build g) (rx.compile E) :=
  ⟨createRegex_eq E h hc, regex_eq E h hc, compile_rep E h hc⟩

/-- **`is_match`.**  Same hypotheses plus `OkSound E` ("`full` / `pre` mean compiles and matches"): the translated `is_match`
answers what the model's `isMatch` answers, for every haystack, whether or not a value is stored. -/
theorem gen_lazy_is_match_eq_model (E : Engine) (hE : OkSound E) {build : List Char → Bool → Option ρ}
    {run : ρ → List Char → Bool} {val : Compiled → ρ} {g : GenLazyRegex ρ} {rx : LazyRegex} (h : Rep val g rx)
    (hc : CrateAt E build run val rx.regex rx.ic) (s : List Char) :
    genLazyRegexIsMatch build run g s = rx.isMatch E s :=
  isMatch_eq E hE h hc s

/-- `OkSound` is needed and is only about the engine parameter: with an engine whose `full` says "matches" for a pattern that
`leafOk` says does not compile, the model's `isMatch` runs `full` while the code (translated: `match self.create_regex() { None =>
false, .. }`) answers `false`. -/
def IsMatchEqAnyEngine : Prop :=
  ∀ (E : Engine) (build : List Char → Bool → Option Compiled) (run : Compiled → List Char → Bool) (g : GenLazyRegex Compiled)
    (rx : LazyRegex), Rep id g rx → CrateAt E build run id rx.regex rx.ic →
    ∀ s, genLazyRegexIsMatch build run g s = rx.isMatch E s

theorem gen_lazy_is_match_eq_model_any_engine_fails : ¬ IsMatchEqAnyEngine := by
  intro h
  let E : Engine := ⟨fun _ _ => false, fun _ _ _ => true, fun _ _ => false, fun _ _ _ => true⟩
  let rx : LazyRegex := LazyRegex.newLeaf ['a'] false
  have := h E (stdBuild E) (fun c s => Compiled.run E c s) (toGen id rx) rx (rep_toGen id rx)
    (crateAt_std E _ _ (decodeSrc_leaf ['a'])) []
  revert this
  simp [genLazyRegexIsMatch, genLazyRegexCreateRegex, stdBuild, toGen, rx, LazyRegex.newLeaf, LazyRegex.isMatch, Compiled.ok,
    Compiled.run, decodeSrc, RxSrc.toStr, E]

/-- **`Leaf::cache`** (budget arithmetic).  Translated `Leaf::cache` and the model's `rxCache` have the same outcome for every
budget `left`: both underflow at `left - 1` (`none`), or both return related cells and the SAME remaining budget. -/
theorem gen_leaf_cache_eq_model (E : Engine) {build : List Char → Bool → Option ρ} {run : ρ → List Char → Bool}
    {val : Compiled → ρ} {g : GenLazyRegex ρ} {rx : LazyRegex} (h : Rep val g rx)
    (hc : CrateAt E build run val rx.regex rx.ic) (left : Nat) :
    CacheRel val (genLeafCache build g left) (rxCache E rx left) :=
  leafCache_rel E h hc left

/-- The `u64` subtraction of the translated `Leaf::cache` does not underflow when the budget is positive (the guard `left == 0`
of `Item::cache`), the returned budget is `left` or `left - 1`, and the budget is spent iff a value was stored by THIS call.
Any crate, no hypothesis. -/
theorem gen_leaf_cache_total (build : List Char → Bool → Option ρ) (g : GenLazyRegex ρ) (left : Nat) (h : 0 < left) :
    ∃ g' n, genLeafCache build g left = some (g', n) ∧ n ≤ left ∧ left ≤ n + 1 ∧
      (n + 1 = left ↔ (g.compiled = none ∧ g'.compiled.isSome = true)) := by
  -- by cases on the two stored values (not on the spelling of the tests: `is_some()` / `is_none()` are both accepted)
  cases hg : g.compiled with
  | some r0 => exact ⟨g, left, by simp [genLeafCache, hg], Nat.le_refl _, by omega, by simp [hg]⟩
  | none =>
    cases hg' : (genLazyRegexCompile build g).compiled with
    | none =>
      exact ⟨genLazyRegexCompile build g, left, by simp [genLeafCache, hg, hg'], Nat.le_refl _, by omega, by simp [hg']⟩
    | some r1 =>
      have : ¬ left < 1 := by omega
      have h0 : left ≠ 0 := by omega
      exact ⟨genLazyRegexCompile build g, left - 1, by simp [genLeafCache, hg, hg', this, h0], by omega, by omega,
        by simp [hg']; omega⟩

/-- … and it does underflow at budget 0 when the compilation succeeds: `Leaf::cache` relies on its caller's guard. -/
theorem gen_leaf_cache_underflow (build : List Char → Bool → Option ρ) (g : GenLazyRegex ρ)
    (h0 : g.compiled = none) (r : ρ) (hb : build g.regex g.ignoreCase = some r) : genLeafCache build g 0 = none := by
  simp [genLeafCache, genLazyRegexCompile, genLazyRegexCreateRegex, h0, hb]

/-! ### `Node::cache` / `Item::cache`: one level of the recursion -/

section tree
variable {ι V : Type} [DecidableEq ι]

/-- **The loop of `Node::cache`.**  `for child in &mut self.children { left = child.cache(left, cache_level, current_level + 1); }`
translated (a recursion over the children threading the budget, `none` as soon as a child underflows), with the recursive call
answered by the model's `Item.cache`, IS the model's `cacheL` at `current_level + 1`.  No hypothesis. -/
theorem gen_node_cache_loop_eq_model (E : Engine) (cs : List (Item ι V)) (left lvl cur : Nat) :
    genNodeCacheLoop (fun c l cl k => Item.cache E c l cl k) cs left lvl cur = cacheL E cs left lvl (cur + 1) :=
  nodeCacheLoop_eq E cs left lvl cur

/-- **`Item::cache` (its three arms) and `Node::cache`.**  For every budget and every pair of levels: the translated arm
`Item::Empty` returns the model's budget; the translated arm `Item::Leaf` (guards `left == 0`, `current_level > cache_level`,
the level test, then the translated `Leaf::cache`) and the translated arm `Item::Node` (the guards, then the translated
`Node::cache`: compile at `cache_level == current_level` unless a value is stored, `left -= 1` iff the compilation succeeded, then
the loop) have the same outcome as the model's `Item.cache` on the represented item: both underflow or both return related cells,
the same children / values and the SAME budget.  The recursive calls on the children are answered by the model (one level of the
recursion is compared; `gen_node_cache_loop_eq_model` is the loop). -/
theorem gen_item_cache_eq_model (E : Engine) {build : List Char → Bool → Option ρ} {run : ρ → List Char → Bool}
    {val : Compiled → ρ} {g : GenLazyRegex ρ} {rx : LazyRegex} (h : Rep val g rx)
    (hc : CrateAt E build run val rx.regex rx.ic) (left lvl cur : Nat) :
    (∀ ic : Bool, (genItemCacheEmpty left lvl cur).map (fun n => ((Item.empty ic : Item ι V), n)) =
        Item.cache E (.empty ic) left lvl cur) ∧
    (∀ vs : List (ι × V), LeafRel val vs (genItemCacheLeaf (fun r l => genLeafCache build r l) g left lvl cur)
        (Item.cache E (.leaf rx vs) left lvl cur)) ∧
    (∀ cs : List (Item ι V), NodeRel val (genItemCacheNode (nodeCacheFn E build) (g, cs) left lvl cur)
        (Item.cache E (.node rx cs) left lvl cur)) :=
  ⟨fun ic => itemCacheEmpty_eq E ic left lvl cur, fun vs => itemCacheLeaf_rel E h hc vs left lvl cur,
    fun cs => itemCacheNode_rel E h hc cs left lvl cur⟩

/-- **No underflow, restated for the translated code** (`item_cache_total` through the equivalence): the translated `Item::cache`
arms never reach a failing `left - 1` / `left -= 1`, and return a budget `≤ left`. -/
theorem item_cache_total_gen (E : Engine) {build : List Char → Bool → Option ρ} {run : ρ → List Char → Bool}
    {val : Compiled → ρ} {g : GenLazyRegex ρ} {rx : LazyRegex} (h : Rep val g rx)
    (hc : CrateAt E build run val rx.regex rx.ic) (left lvl cur : Nat) :
    (∃ r, genItemCacheLeaf (fun r l => genLeafCache build r l) g left lvl cur = some r ∧ r.2 ≤ left) ∧
    (∀ cs : List (Item ι V), ∃ r, genItemCacheNode (nodeCacheFn E build) (g, cs) left lvl cur = some r ∧ r.2 ≤ left) := by
  constructor
  · have hr := itemCacheLeaf_rel (ι := Unit) (V := Unit) E h hc [] left lvl cur
    obtain ⟨t', n, ht, hn⟩ := item_cache_total E (.leaf rx [] : Item Unit Unit) left lvl cur
    rw [ht] at hr
    cases ha : genItemCacheLeaf (fun r l => genLeafCache build r l) g left lvl cur with
    | none => rw [ha] at hr; cases t' <;> simp [LeafRel] at hr
    | some a =>
      rw [ha] at hr
      cases t' with
      | leaf rx' vs' => exact ⟨a, rfl, by rw [hr.2.2]; exact hn⟩
      | empty ic => simp [LeafRel] at hr
      | node rx' cs' => simp [LeafRel] at hr
  · intro cs
    have hr := itemCacheNode_rel E h hc cs left lvl cur
    obtain ⟨t', n, ht, hn⟩ := item_cache_total E (.node rx cs) left lvl cur
    rw [ht] at hr
    cases ha : genItemCacheNode (nodeCacheFn E build) (g, cs) left lvl cur with
    | none => rw [ha] at hr; cases t' <;> simp [NodeRel] at hr
    | some a =>
      rw [ha] at hr
      cases t' with
      | node rx' cs' => exact ⟨a, rfl, by rw [hr.2.2]; exact hn⟩
      | empty ic => simp [NodeRel] at hr
      | leaf rx' vs' => simp [NodeRel] at hr

/-- **The translated recursion determines `Item::cache`.**  `genStep build F` is ONE step of the translated `Item::cache` – its
three translated arms, the node arm calling the translated `Node::cache` (head + loop), the leaf arm the translated `Leaf::cache` –
with every recursive call `child.cache(..)` answered by `F`.  On the trees all of whose cells are linked to the crate (`CellOf`,
`CrateAt`; values = `Compiled`): (1) the model's `Item.cache` satisfies the translated equation `F = genStep build F`; (2) every
`F` that satisfies it there IS the model's `Item.cache` there – for every tree (any depth, any number of children), budget and
levels.  So the whole-tree behaviour of the translated code (underflow or not, every stored value, the returned budget) is the
model's. -/
theorem gen_item_cache_recursion_unique (E : Engine) {build : List Char → Bool → Option Compiled}
    {run : Compiled → List Char → Bool} (t : Item ι V)
    (hc : ∀ rx, CellOf rx t → CrateAt E build run id rx.regex rx.ic) (left lvl cur : Nat) :
    genStep build (fun c l cl k => Item.cache E c l cl k) t left lvl cur = Item.cache E t left lvl cur ∧
    ∀ F : Item ι V → Nat → Nat → Nat → Option (Item ι V × Nat),
      (∀ t', (∀ rx, CellOf rx t' → CrateAt E build run id rx.regex rx.ic) →
        ∀ l cl k, F t' l cl k = genStep build F t' l cl k) →
      F t left lvl cur = Item.cache E t left lvl cur :=
  ⟨genStep_model E t hc left lvl cur, fun F hF => genStep_unique E F hF t hc left lvl cur⟩

/-- **Cache transparency and totality, restated for any solution of the translated recursion** (through
`gen_item_cache_recursion_unique`, `find_cache`, `cache_total`): a function `F` satisfying the translated equations never
underflows, returns a budget `≤ limit`, and – on a tree satisfying the invariant with non-empty patterns – the tree it returns
answers every `find` as before. -/
theorem find_cache_gen (E : Engine) {build : List Char → Bool → Option Compiled} {run : Compiled → List Char → Bool}
    (F : Item ι V → Nat → Nat → Nat → Option (Item ι V × Nat))
    (hF : ∀ t', (∀ rx, CellOf rx t' → CrateAt E build run id rx.regex rx.ic) →
      ∀ l cl k, F t' l cl k = genStep build F t' l cl k)
    (t : Item ι V) (hc : ∀ rx, CellOf rx t → CrateAt E build run id rx.regex rx.ic) (limit lvl : Nat) :
    ∃ t' n, F t limit lvl 0 = some (t', n) ∧ n ≤ limit ∧
      ∀ ic, Inv ic t → LeafPatternsNonEmpty t → ∀ s, t'.find E s = t.find E s := by
  rw [genStep_unique E F hF t hc limit lvl 0]
  obtain ⟨t', n, h, hn⟩ := cache_total E t limit (some lvl)
  exact ⟨t', n, h, hn, fun ic hinv hne s => find_cache E t hinv hne limit (some lvl) h s⟩

end tree

/-! ### The headline, restated for the translated definitions -/

/-- **`is_match` does not depend on the cache — translated code, through the equivalence.**  For a well-formed model cell `rx`
(`WfRegex`: the regex string is the constructor's, the stored value – if any – is `create_regex()` of the current fields, a leaf
pattern is non-empty), any translated cell `g` representing it and a crate agreeing with the engine on this cell's text:
translated `is_match` of translated `compile()` = translated `is_match`, for every haystack. -/
theorem is_match_cache_indep_gen (E : Engine) (hE : OkSound E) {build : List Char → Bool → Option ρ}
    {run : ρ → List Char → Bool} {val : Compiled → ρ} {g : GenLazyRegex ρ} {rx : LazyRegex} (hwf : WfRegex rx)
    (h : Rep val g rx) (hc : CrateAt E build run val rx.regex rx.ic) (s : List Char) :
    genLazyRegexIsMatch build run (genLazyRegexCompile build g) s = genLazyRegexIsMatch build run g s := by
  have h' := compile_rep E h hc
  have hc' : CrateAt E build run val (rx.compile E).regex (rx.compile E).ic := hc
  rw [isMatch_eq E hE h' hc' s, isMatch_eq E hE h hc s]
  exact is_match_cache_indep E rx hwf s

/-- Well-formedness of a translated cell in terms of the translated code and the crate parameters ONLY (no model, no engine):
the stored value, if any, is what `create_regex()` returns now; and a cell with the empty `original` has a regex text that – if
it compiles – matches every haystack (`new_node("")` builds `.*`; `new_leaf("")` builds `^$`, which violates this: O3). -/
def GenWf (build : List Char → Bool → Option ρ) (run : ρ → List Char → Bool) (g : GenLazyRegex ρ) : Prop :=
  (g.compiled = none ∨ g.compiled = genLazyRegexCreateRegex build g) ∧
  (g.original = [] → ∀ r, genLazyRegexCreateRegex build g = some r → ∀ s, run r s = true)

/-- **The same headline, directly on the translated code**: for ANY crate (`build`, `run` arbitrary functions) and any cell
satisfying `GenWf`, `is_match` after `compile()` = `is_match` before; and `compile()` keeps `GenWf`. -/
theorem is_match_cache_indep_gen_direct (build : List Char → Bool → Option ρ) (run : ρ → List Char → Bool)
    (g : GenLazyRegex ρ) (hwf : GenWf build run g) (s : List Char) :
    genLazyRegexIsMatch build run (genLazyRegexCompile build g) s = genLazyRegexIsMatch build run g s ∧
    GenWf build run (genLazyRegexCompile build g) := by
  obtain ⟨h1, h2⟩ := hwf
  have hcr : genLazyRegexCreateRegex build (genLazyRegexCompile build g) = genLazyRegexCreateRegex build g := rfl
  refine ⟨?_, Or.inr rfl, fun ho r hr => h2 ho r (hcr ▸ hr)⟩
  simp only [genLazyRegexIsMatch, hcr]
  simp only [genLazyRegexCompile]
  cases hb : genLazyRegexCreateRegex build g with
  | none =>
    rcases h1 with h1 | h1
    · simp [h1]
    · simp [h1, hb]
  | some r =>
    rcases h1 with h1 | h1
    · simp only [h1]
      cases ho : g.original.isEmpty
      · rfl
      · have : g.original = [] := by simpa using ho
        simp [h2 this r hb s]
    · simp [h1, hb]

/-- `GenWf` holds of whatever the translated constructors build, provided `.*` – if it compiles – matches everything and the
leaf pattern is not empty. -/
theorem genWf_new (build : List Char → Bool → Option ρ) (run : ρ → List Char → Bool) (s : List Char) (ic : Bool)
    (hany : ∀ r, build ['.', '*'] ic = some r → ∀ t, run r t = true) :
    GenWf build run (genLazyRegexNewNode s ic) ∧ (s ≠ [] → GenWf build run (genLazyRegexNewLeaf s ic)) := by
  refine ⟨⟨Or.inl rfl, ?_⟩, fun hs => ⟨Or.inl rfl, fun h => absurd h hs⟩⟩
  intro ho r hr
  have : s = [] := ho
  subst this
  apply hany r
  simpa [createRegex_eta, genLazyRegexNewNode] using hr

/-- Necessity, on the translated code: a cell holding a value built from ANOTHER text (stale) or without the case flag changes
its answer when `compile()` rebuilds from the current fields.  The crate here is the one induced by the model engine. -/
theorem stale_cached_value_is_visible_gen :
    let build := stdBuild stdEngine
    let run := fun (c : Compiled) s => Compiled.run stdEngine c s
    let stale : GenLazyRegex Compiled := toGen id staleRx
    let noflag : GenLazyRegex Compiled := toGen id noFlagRx
    genLazyRegexIsMatch build run stale ['b'] = true ∧
    genLazyRegexIsMatch build run (genLazyRegexCompile build stale) ['b'] = false ∧
    genLazyRegexIsMatch build run noflag ['A'] = false ∧
    genLazyRegexIsMatch build run (genLazyRegexCompile build noflag) ['A'] = true := by
  intro build run stale noflag
  have c1 : CrateAt stdEngine build run id staleRx.regex staleRx.ic := crateAt_std _ _ _ (decodeSrc_leaf ['a'])
  have c2 : CrateAt stdEngine build run id noFlagRx.regex noFlagRx.ic := crateAt_std _ _ _ (decodeSrc_leaf ['a'])
  have hE := okSound_engineOf parseBody
  have s := stale_cached_value_is_visible
  have n := cached_value_without_flag_is_visible
  refine ⟨?_, ?_, ?_, ?_⟩
  · rw [isMatch_eq stdEngine hE (rep_toGen id staleRx) c1]; exact s.2.1
  · rw [isMatch_eq stdEngine hE (compile_rep stdEngine (rep_toGen id staleRx) c1) c1]; exact s.2.2.1
  · rw [isMatch_eq stdEngine hE (rep_toGen id noFlagRx) c2]; exact n.2.1
  · rw [isMatch_eq stdEngine hE (compile_rep stdEngine (rep_toGen id noFlagRx) c2) c2]; exact n.2.2

/-! ### Non-vacuity -/

/-- For EVERY engine there is a crate linked to it at every leaf cell, at `.*`, and at every node prefix not ending in `$`
(`RxSrc.toStr` is injective there); every model cell has a representing translated cell; `OkSound` holds of every `engineOf G`. -/
example (E : Engine) (p : List Char) (ic : Bool) :
    CrateAt E (stdBuild E) (fun c s => Compiled.run E c s) id (.leaf p) ic := crateAt_std E _ _ (decodeSrc_leaf p)
example (E : Engine) (ic : Bool) :
    CrateAt E (stdBuild E) (fun c s => Compiled.run E c s) id .any ic := crateAt_std E _ _ decodeSrc_any
example (E : Engine) (ic : Bool) :
    CrateAt E (stdBuild E) (fun c s => Compiled.run E c s) id (.node ['a', 'b']) ic :=
  crateAt_std E _ _ (decodeSrc_node _ (by decide))
example : OkSound stdEngine := okSound_engineOf parseBody

/-- The hypotheses of `is_match_cache_indep_gen` on a concrete cell: the leaf `ab`, case-insensitive, nothing stored. -/
example : ∃ (rx : LazyRegex) (g : GenLazyRegex Compiled), WfRegex rx ∧ Rep id g rx ∧
    CrateAt stdEngine (stdBuild stdEngine) (fun c s => Compiled.run stdEngine c s) id rx.regex rx.ic ∧ rx.original = ['a', 'b'] :=
  ⟨LazyRegex.newLeaf ['a', 'b'] true, genLazyRegexNewLeaf ['a', 'b'] true,
    Or.inr ⟨by decide, by decide⟩, newLeaf_rep id _ _, crateAt_std _ _ _ (decodeSrc_leaf _), rfl⟩

/-- `GenWf` on a concrete cell with a toy crate (values = the text and the flag; everything compiles; `.*` matches all, any
other text matches only itself without its anchors … here simply: equal to the text). -/
example : GenWf (ρ := List Char × Bool) (fun s ic => some (s, ic)) (fun r t => r.1 == ['.', '*'] || r.1 == t)
    (genLazyRegexNewNode [] false) :=
  (genWf_new _ _ [] false (by intro r hr t; simp at hr; subst hr; simp)).1

/-- The hypotheses of `gen_item_cache_recursion_unique` / `find_cache_gen`: on a two-level tree (a node `a` over the leaves `ab`,
`ac`) every cell is linked to the crate induced by the engine, and the model's `Item.cache` is a solution of the translated
recursion (so the quantification over `F` is not empty). -/
example : ∃ (t : Item Nat Nat) (F : Item Nat Nat → Nat → Nat → Nat → Option (Item Nat Nat × Nat)),
    (∀ rx, CellOf rx t → CrateAt stdEngine (stdBuild stdEngine) (fun c s => Compiled.run stdEngine c s) id rx.regex rx.ic) ∧
    (∀ t', (∀ rx, CellOf rx t' → CrateAt stdEngine (stdBuild stdEngine) (fun c s => Compiled.run stdEngine c s) id rx.regex rx.ic) →
      ∀ l cl k, F t' l cl k = genStep (stdBuild stdEngine) F t' l cl k) ∧ t.len = 2 := by
  refine ⟨.node (LazyRegex.newNode ['a'] false)
      [.leaf (LazyRegex.newLeaf ['a', 'b'] false) [(1, 1)], .leaf (LazyRegex.newLeaf ['a', 'c'] false) [(2, 2)]],
    fun c l cl k => Item.cache stdEngine c l cl k, ?_, fun t' h l cl k => (genStep_model stdEngine t' h l cl k).symm, by decide⟩
  intro rx h
  apply crateAt_std
  cases h with
  | node => decide
  | child hm hr =>
    simp only [List.mem_cons, List.not_mem_nil, or_false] at hm
    rcases hm with rfl | rfl <;> cases hr <;> decide

/-- Evaluated: what the translated constructors build. -/
example : (genLazyRegexNewLeaf ['a'] true : GenLazyRegex Unit).regex = ['^', 'a', '$'] ∧
    (genLazyRegexNewNode ['a'] true : GenLazyRegex Unit).regex = ['^', 'a'] ∧
    (genLazyRegexNewNode [] true : GenLazyRegex Unit).regex = ['.', '*'] ∧
    (genLazyRegexNewNode ['a'] true : GenLazyRegex Unit).original = ['a'] ∧
    (genLazyRegexNewNode ['a'] true : GenLazyRegex Unit).ignoreCase = true := by decide

end Rio.C12
