/-
C04 ∘ C05 — conservation and attribution of the response body, end to end.

W6's theorem `Rio.C04.conservative_final` says: the output of the body-filter chain built by
`FilterBodyAction::new(filters, headers)` is an `Edit` of the input — only whole values of the insert
filters inserted, only `<`…`>` spans substituted by whole values of the replace filters, nothing lost,
duplicated or reordered — for every chunking and every selector oracle.  C05 says which filters
`Action::create_filter_body(code, headers)` hands to that constructor: those of the contributing
rules whose response-status condition admits the code, in priority order.  Composed here: for EVERY
action the library computes, every response code, header list and chunking, the body the action's
chain produces is an `Edit` of the backend body by values of body filters of contributing rules
admitting the code — and by nothing else.

Conversion (the two models have different filter records): `toChainFilter enc` maps the action
model's `BodyFilter` (strings, ids, target hashes, inner value) to W6's (`Bytes`; ids / hashes /
`inner_value` dropped — they only feed the unit trace).  `enc : String → Bytes` is the UTF-8 encoding
of a Rust `String`; what the theorems need of it is W6's hypothesis "values are valid UTF-8"
(`V (enc value)`), asked only of the values that are actually selected.
Hypotheses inherited from W6: no `Content-Encoding` (uncompressed chain) and no `replace_text`
filter among the selected ones (a `replace_text` filter replaces the whole body by design).
-/
import RioModel.Props.C04tok
import RioModel.Props.C05
set_option linter.unusedSimpArgs false

namespace Rio.C04
open Rio.Filter Rio.Consts

/-- `api::TextAction`. -/
def toChainTextAction : Rio.Action.TextAction → TextAction
  | .append => .append | .prepend => .prepend | .replace => .replace

/-- The action model's body filter as the chain model sees it (`FilterBodyActionItem::new` reads
`action`, `element_tree`, `css_selector`, `value` of an HTML filter, `action` and `content` of a text one). -/
def toChainFilter (enc : String → Bytes) : Rio.Action.BodyFilter → BodyFilter
  | .text t => .text (toChainTextAction t.action) (enc t.content)
  | .html h => .html h.action (h.elementTree.map enc) (h.cssSelector.map enc) (enc h.value)

/-- The body filters of one rule, as chain filters. -/
def ruleChainFilters (enc : String → Bytes) (r : Rio.Action.Rule) : List BodyFilter :=
  (Rio.Action.Spec.ruleBodyFilters r).map fun f => toChainFilter enc f.filter

/-- The filters `create_filter_body(c, …)` selects, as chain filters, in closed form. -/
theorem selected_chain_filters (enc : String → Bytes) (R : List Rio.Action.Rule) (q : Rio.Action.Req)
    (draw : Rio.Action.Rule → Nat) (c : Nat) :
    (((Rio.Action.fromRoutesRule R q draw).createFilterBody c).1).map (toChainFilter enc) =
      ((Rio.Action.Spec.contributing q draw (Rio.Action.sortRules R)).filter
        (Rio.Action.Spec.admits · c)).flatMap (ruleChainFilters enc) := by
  have e : Rio.Action.fromRoutesRule R q draw =
      Rio.Action.withApplied (Rio.Action.Spec.action q
        (Rio.Action.Spec.contributing q draw (Rio.Action.sortRules R))) [] :=
    Rio.C05.action_eq_spec R q draw
  rw [e, Rio.Action.createFilterBody_spec]
  simp only [Rio.Action.Spec.bodyFiltersAt, List.map_flatMap, List.map_map, Function.comp_def]
  rfl

/-- **Conservation + attribution, end to end.**  Let `A` be the contributing rules of the matched rules
`R` whose response-status condition admits `c`.  Whatever the chunking of the backend body, the body
that comes out of the chain `FilterBodyAction::new(create_filter_body(c, headers)…)` of the computed
action is the input edited only by insertions of whole values of insert filters of rules in `A` and
substitutions of `<`…`>` spans by whole values of replace filters of rules in `A`. -/
theorem body_conservation_end_to_end (enc : String → Bytes) (ev : Bytes → Bytes → Bool)
    (lower : String → String) (R : List Rio.Action.Rule) (q : Rio.Action.Req)
    (draw : Rio.Action.Rule → Nat) (c : Nat) (headers : List (String × String))
    (henc : headerValue lower filterHeaderContentEncoding headers = none)
    (hntr : ∀ r ∈ Rio.Action.Spec.contributing q draw (Rio.Action.sortRules R),
      Rio.Action.Spec.admits r c = true → ∀ f ∈ ruleChainFilters enc r, isTextReplace f = false)
    (hval : ∀ r ∈ Rio.Action.Spec.contributing q draw (Rio.Action.sortRules R),
      Rio.Action.Spec.admits r c = true → ∀ f ∈ ruleChainFilters enc r, V (filterValue f))
    (cs : List Bytes) :
    let A := (Rio.Action.Spec.contributing q draw (Rio.Action.sortRules R)).filter (Rio.Action.Spec.admits · c)
    Edit (A.flatMap fun r => (ruleChainFilters enc r).flatMap filterIns)
         (A.flatMap fun r => (ruleChainFilters enc r).flatMap filterRep)
      cs.flatten
      ((Chain.new noCodec lower
          ((((Rio.Action.fromRoutesRule R q draw).createFilterBody c).1).map (toChainFilter enc))
          headers).run htmlTokenize ev noCodec cs) := by
  intro A
  rw [selected_chain_filters]
  have hmem : ∀ f ∈ A.flatMap (ruleChainFilters enc), ∃ r ∈ Rio.Action.Spec.contributing q draw
      (Rio.Action.sortRules R), Rio.Action.Spec.admits r c = true ∧ f ∈ ruleChainFilters enc r := by
    intro f hf
    obtain ⟨r, hr, hfr⟩ := List.mem_flatMap.mp hf
    have := List.mem_filter.mp hr
    exact ⟨r, this.1, this.2, hfr⟩
  have := conservative_final ev lower (A.flatMap (ruleChainFilters enc)) headers henc
    (fun f hf => by obtain ⟨r, hr, ha, hfr⟩ := hmem f hf; exact hntr r hr ha f hfr)
    (fun f hf => by obtain ⟨r, hr, ha, hfr⟩ := hmem f hf; exact hval r hr ha f hfr) cs
  simpa only [List.flatMap_assoc] using this

/-- Every value that can be inserted or substituted is the (encoded) `content` / `value` of a body
filter of a matched, contributing rule whose condition admits the code. -/
theorem edit_values_attributed (enc : String → Bytes) (R : List Rio.Action.Rule) (q : Rio.Action.Req)
    (draw : Rio.Action.Rule → Nat) (c : Nat) (v : Bytes)
    (hv : v ∈ ((Rio.Action.Spec.contributing q draw (Rio.Action.sortRules R)).filter
        (Rio.Action.Spec.admits · c)).flatMap (fun r => (ruleChainFilters enc r).flatMap filterIns) ∨
      v ∈ ((Rio.Action.Spec.contributing q draw (Rio.Action.sortRules R)).filter
        (Rio.Action.Spec.admits · c)).flatMap (fun r => (ruleChainFilters enc r).flatMap filterRep)) :
    ∃ r ∈ R, r ∈ Rio.Action.Spec.contributing q draw (Rio.Action.sortRules R) ∧
      Rio.Action.Spec.admits r c = true ∧
      ∃ f ∈ Rio.Action.Spec.ruleBodyFilters r, v = filterValue (toChainFilter enc f.filter) := by
  have key : ∀ (g : BodyFilter → List Bytes), (∀ f x, x ∈ g f → x = filterValue f) →
      v ∈ ((Rio.Action.Spec.contributing q draw (Rio.Action.sortRules R)).filter
        (Rio.Action.Spec.admits · c)).flatMap (fun r => (ruleChainFilters enc r).flatMap g) →
      ∃ r ∈ R, r ∈ Rio.Action.Spec.contributing q draw (Rio.Action.sortRules R) ∧
        Rio.Action.Spec.admits r c = true ∧
        ∃ f ∈ Rio.Action.Spec.ruleBodyFilters r, v = filterValue (toChainFilter enc f.filter) := by
    intro g hg h
    obtain ⟨r, hr, hv'⟩ := List.mem_flatMap.mp h
    obtain ⟨cf, hcf, hx⟩ := List.mem_flatMap.mp hv'
    obtain ⟨f, hf, rfl⟩ := List.mem_map.mp hcf
    have hr' := List.mem_filter.mp hr
    exact ⟨r, (Rio.C05.contributing_mem R q draw r hr'.1).1, hr'.1, hr'.2, f, hf, hg _ _ hx⟩
  rcases hv with h | h
  · apply key filterIns _ h
    intro f x hx
    cases f with
    | html a p s val => simp only [filterIns] at hx; split at hx <;> simp_all [filterValue]
    | text a cnt => cases a <;> simp_all [filterIns, filterValue]
  · apply key filterRep _ h
    intro f x hx
    cases f with
    | html a p s val => simp only [filterRep] at hx; split at hx <;> simp_all [filterValue]
    | text a cnt => simp [filterRep] at hx

/-- In particular: for a response code no contributing rule admits, and for actions without body
filters, the body passes through unchanged, whatever the chunking. -/
theorem body_untouched_when_nothing_selected (enc : String → Bytes) (ev : Bytes → Bytes → Bool)
    (lower : String → String) (R : List Rio.Action.Rule) (q : Rio.Action.Req)
    (draw : Rio.Action.Rule → Nat) (c : Nat) (headers : List (String × String))
    (henc : headerValue lower filterHeaderContentEncoding headers = none)
    (hnone : ∀ r ∈ Rio.Action.Spec.contributing q draw (Rio.Action.sortRules R),
      Rio.Action.Spec.admits r c = true → Rio.Action.Spec.ruleBodyFilters r = [])
    (cs : List Bytes) :
    Edit [] [] cs.flatten
      ((Chain.new noCodec lower
          ((((Rio.Action.fromRoutesRule R q draw).createFilterBody c).1).map (toChainFilter enc))
          headers).run htmlTokenize ev noCodec cs) := by
  have h := body_conservation_end_to_end enc ev lower R q draw c headers henc
    (fun r hr ha f hf => by simp [ruleChainFilters, hnone r hr ha] at hf)
    (fun r hr ha f hf => by simp [ruleChainFilters, hnone r hr ha] at hf) cs
  have e1 : ((Rio.Action.Spec.contributing q draw (Rio.Action.sortRules R)).filter
      (Rio.Action.Spec.admits · c)).flatMap (fun r => (ruleChainFilters enc r).flatMap filterIns) = [] := by
    rw [List.flatMap_eq_nil_iff]
    intro r hr
    have := List.mem_filter.mp hr
    simp [ruleChainFilters, hnone r this.1 this.2]
  have e2 : ((Rio.Action.Spec.contributing q draw (Rio.Action.sortRules R)).filter
      (Rio.Action.Spec.admits · c)).flatMap (fun r => (ruleChainFilters enc r).flatMap filterRep) = [] := by
    rw [List.flatMap_eq_nil_iff]
    intro r hr
    have := List.mem_filter.mp hr
    simp [ruleChainFilters, hnone r this.1 this.2]
  simp only [e1, e2] at h
  exact h

/-! ### Non-vacuity -/

private def exRule : Rio.Action.Rule :=
  { id := [97], rank := 1, statusCode := none, target := none, responseStatusCodes := some [200],
    excludeResponseStatusCodes := none, sampling := none, headerFilters := none,
    bodyFilters := some [.text ⟨.append, "!", none, none⟩,
                         .html ⟨"append_child", "<i>x</i>", none, ["html", "body"], none, none, none⟩],
    logOverride := none, reset := none, stop := none, redirectUnitId := none,
    configurationLogUnitId := none, targetHash := none }

private def asciiEnc (s : String) : Bytes := s.toList.map Char.toNat

/-- One matched rule with a text `append` and an HTML `append_child` filter on code 200: the hypotheses
hold (ASCII values are valid UTF-8, no `replace_text`), so for every chunking and selector oracle the
body is the input with only `!` and `<i>x</i>` inserted. -/
example (ev : Bytes → Bytes → Bool) (cs : List Bytes) :
    Edit [asciiEnc "!", asciiEnc "<i>x</i>"] [] cs.flatten
      ((Chain.new noCodec id
          ((((Rio.Action.fromRoutesRule [exRule] ⟨none, none⟩ (fun _ => 1)).createFilterBody 200).1).map
            (toChainFilter asciiEnc)) []).run htmlTokenize ev noCodec cs) := by
  have hs : Rio.Action.sortRules [exRule] = [exRule] := by simp [Rio.Action.sortRules]
  have hC : Rio.Action.Spec.contributing ⟨none, none⟩ (fun _ => 1) [exRule] = [exRule] := by decide
  have h := body_conservation_end_to_end asciiEnc ev id [exRule] ⟨none, none⟩ (fun _ => 1) 200 [] rfl
    (by rw [hs, hC]; decide)
    (by
      rw [hs, hC]
      intro r hr _ f hf
      simp only [List.mem_singleton] at hr
      subst hr
      have : ruleChainFilters asciiEnc exRule =
          [.text .append (asciiEnc "!"), .html "append_child" [asciiEnc "html", asciiEnc "body"] none (asciiEnc "<i>x</i>")] := rfl
      rw [this] at hf
      simp only [List.mem_cons, List.mem_nil_iff, or_false] at hf
      rcases hf with rfl | rfl <;> rfl) cs
  rw [hs, hC] at h
  exact h

end Rio.C04
