/-
C02 — incremental rule updates are equivalent to rebuilding; removal returns the rule.

Property theorems only.  `Op` / `runOps` / `liveOps` / `ValidHistory` (Model/RouterOps.lean):
histories over insert, remove, batch_remove, apply_change_set(added, updated, removed) and cache,
executed on the router model (`Router.insert` = `Router::insert_route`, `Router.remove`,
`Router.batchRemove`, `Router.applyChangeSet`, with the code's `count` arithmetic: +1 on insert,
−1 on a successful remove, untouched by batch_remove, buckets pruned iff `count == 0`, so buckets
emptied by a batch removal survive).  `RRepr E S L`: state `S` represents the live list `L`
(layer by layer: every bucket of every matcher represents the routes selected by its key, `count`
is at least the number of represented routes, and the id map holds exactly `L`).

Clone isolation has no content in a pure model (states are values; `Op.run` returns a new state and
cannot change the old one); what the Rust code adds (manual `Clone` of the tree items, `Arc`ed
regexes replaced by `cache`) is validated by the correspondence harness `c02` only.
-/
import RioModel.Proofs.RouterTreeTop
import RioModel.Proofs.RouterUnderflow
import RioModel.Generated.Consts
import RioModel.Props.C08
import RioModel.Model.RouterParse
set_option linter.unusedSimpArgs false

namespace Rio.C02
open Rio.Router

/-! ### one step -/

/-- the empty router represents the empty rule list -/
theorem repr_empty (E : Env) : RRepr E (Router.empty E) [] := rrepr_empty E

/-- `insert` of a rule whose id is not live -/
theorem repr_insert (E : Env) (S : Router E) (L : List Route) (r : Route) (h : RRepr E S L)
    (hfresh : r.id ∉ L.map (·.id)) : RRepr E (S.insert E r) (r :: L) := rrepr_insert E S L r h hfresh

/-- `remove(id)` (live or not) -/
theorem repr_remove (E : Env) (S : Router E) (L : List Route) (id : String) (h : RRepr E S L) :
    RRepr E (S.remove E id).1 (L.filter (fun r => r.id != id)) := rrepr_remove E S L id h

/-- `batch_remove(ids)`: `count`s are left untouched by the code; harmless, the relation only needs
`count ≥` the number of represented routes -/
theorem repr_batch_remove (E : Env) (S : Router E) (L : List Route) (ids : List String)
    (h : RRepr E S L) :
    RRepr E (S.batchRemove E ids) (L.filter (fun r => !ids.contains r.id)) := rrepr_batch E S L ids h

/-- `apply_change_set(added, updated, removed)` with consistent ids -/
theorem repr_change_set (E : Env) (S : Router E) (L : List Route) (added updated : List Route)
    (removed : List String) (h : RRepr E S L)
    (hf : FreshAll (updated ++ added)
      (L.filter (fun r => !(removed ++ updated.map (·.id)).contains r.id))) :
    RRepr E (S.applyChangeSet E added updated removed) (liveChangeSet added updated removed L) :=
  rrepr_changeSet E S L added updated removed h hf

theorem repr_op (E : Env) (S : Router E) (L : List Route) (op : Op) (h : RRepr E S L)
    (hv : op.Valid L) : RRepr E (op.run E S) (op.live L) := by
  cases op with
  | insert r => exact rrepr_insert E S L r h hv
  | remove id => exact rrepr_remove E S L id h
  | batchRemove ids => exact rrepr_batch E S L ids h
  | changeSet a u d => exact rrepr_changeSet E S L a u d h hv
  | cache n => exact g_cache _ S L n h

/-! ### histories -/

/-- every valid history keeps the router a representation of the live rule set -/
theorem repr_run (E : Env) (h : List Op) : ∀ (S : Router E) (L : List Route), RRepr E S L →
    ValidHistory h L → RRepr E (runOps E h S) (liveOps h L) := by
  induction h with
  | nil => intro S L hr _; exact hr
  | cons op h ih =>
    intro S L hr hv
    exact ih _ _ (repr_op E S L op hr hv.1) hv.2

theorem valid_prefix (h1 h2 : List Op) : ∀ L, ValidHistory (h1 ++ h2) L → ValidHistory h1 L := by
  induction h1 with
  | nil => intro L _; trivial
  | cons op h1 ih => intro L hv; exact ⟨hv.1, ih _ hv.2⟩

/-- **C02, main statement.**  After every prefix `h'` of a history `h` that keeps live ids unique,
the incrementally updated router answers every request exactly as a router built from scratch
from the live rules (same rules, each once: the results are permutations of each other), and its
size is the number of live rules. -/
theorem run_equiv (E : Env) (h : List Op) (hv : ValidHistory h []) (h' : List Op) (hp : h' <+: h)
    (q : Req) :
    ((runOps E h' (Router.empty E)).matchReq E q).Perm
        ((Router.build E (liveOps h' [])).matchReq E q) ∧
      (runOps E h' (Router.empty E)).len E = (liveOps h' []).length := by
  obtain ⟨t, ht⟩ := hp
  have hv' : ValidHistory h' [] := valid_prefix h' t [] (ht ▸ hv)
  have hr := repr_run E h' (Router.empty E) [] (rrepr_empty E) hv'
  have hb := rrepr_build E (liveOps h' []) hr.ids
  exact ⟨rrepr_match_perm E _ _ _ _ hr hb (fun x => List.mem_reverse.symm) q, rrepr_len E _ _ hr⟩

/-- `get_route_by_id` finds exactly the live rules -/
theorem lookup_live (E : Env) (h : List Op) (hv : ValidHistory h []) (id : String) (r : Route) :
    (runOps E h (Router.empty E)).getRouteById E id = some r ↔ (r ∈ liveOps h [] ∧ r.id = id) :=
  rrepr_lookup E _ _ (repr_run E h _ [] (rrepr_empty E) hv) id r

/-! ### removal -/

/-- **A removed rule is returned by the removal** (every rule built by `IntoRoute` is `WFRoute`:
its ip list, if present, is not empty). -/
theorem remove_returns (E : Env) (S : Router E) (L : List Route) (r : Route) (h : RRepr E S L)
    (hr : r ∈ L) (hwf : WFRoute r) : (S.remove E r.id).2 = some r := rrepr_remove_some E S L r h hr hwf

/-- the same after an arbitrary valid history -/
theorem remove_returns_run (E : Env) (h : List Op) (hv : ValidHistory h []) (r : Route)
    (hr : r ∈ liveOps h []) (hwf : WFRoute r) :
    ((runOps E h (Router.empty E)).remove E r.id).2 = some r :=
  rrepr_remove_some E _ _ r (repr_run E h _ [] (rrepr_empty E) hv) hr hwf

/-- removing an id that is not live returns nothing (and, by `repr_remove`, changes nothing) -/
theorem remove_absent (E : Env) (S : Router E) (L : List Route) (id : String) (h : RRepr E S L)
    (hno : ∀ r ∈ L, r.id ≠ id) : (S.remove E id).2 = none := rrepr_remove_none E S L id h hno

/-- every route the model of `IntoRoute` builds satisfies the hypothesis of `remove_returns` -/
theorem mkRoute_wf (cfg : Cfg) (d : RuleDesc) : WFRoute (mkRoute cfg d) := by
  unfold WFRoute mkRoute noneIfEmpty
  simp only
  cases d.ips with
  | none => simp
  | some l => cases l <;> simp

/-- only live rules are ever reported -/
theorem only_live_match (E : Env) (S : Router E) (L : List Route) (h : RRepr E S L) (q : Req)
    (x : Route) (hx : x ∈ S.matchReq E q) : x ∈ L :=
  ((rrepr_mem_match E S L h q x).1 hx).1

/-- **A removed rule never matches again**: right after the removal, and after any further valid
history, as long as its id has not been inserted again (no live rule carries it). -/
theorem removed_never_matches (E : Env) (S : Router E) (L : List Route) (id : String)
    (h : RRepr E S L) (hist : List Op)
    (hv : ValidHistory hist (L.filter (fun r => r.id != id)))
    (hno : ∀ x ∈ liveOps hist (L.filter (fun r => r.id != id)), x.id ≠ id) (q : Req) :
    ∀ x ∈ (runOps E hist (S.remove E id).1).matchReq E q, x.id ≠ id := by
  intro x hx
  have hr := repr_run E hist _ _ (rrepr_remove E S L id h) hv
  exact hno x (only_live_match E _ _ hr q x hx)

theorem removed_never_matches_now (E : Env) (S : Router E) (L : List Route) (id : String)
    (h : RRepr E S L) (q : Req) : ∀ x ∈ ((S.remove E id).1).matchReq E q, x.id ≠ id := by
  have := removed_never_matches E S L id h [] trivial (by
    intro x hx
    have hx' : x ∈ L.filter (fun r => r.id != id) := hx
    rw [List.mem_filter] at hx'
    simpa using hx'.2) q
  exact this

/-- no `count` of the id map underflows: the size after a removal of a live rule is one less -/
theorem len_remove (E : Env) (S : Router E) (L : List Route) (r : Route) (h : RRepr E S L)
    (hr : r ∈ L) : ((S.remove E r.id).1).len E + 1 = S.len E := by
  rw [rrepr_len E _ _ (rrepr_remove E S L r.id h), rrepr_len E S L h]
  have hn : L.Nodup := (nodupIds_uids h.ids).2
  have hU := h.uids
  have : L.filter (fun x => x.id != r.id) = L.erase r := by
    rw [hn.erase_eq_filter]
    apply List.filter_congr
    intro x hx
    by_cases e : x = r
    · subst e; simp
    · have hne : x.id ≠ r.id := fun hid => e (hU x hx r hr hid)
      have h1 : (x.id != r.id) = true := by simpa using hne
      have h2 : (x != r) = true := by simpa using e
      rw [h1, h2]
  rw [this, List.length_erase_of_mem hr]
  have : 0 < L.length := List.length_pos_of_mem hr
  omega

/-- **`count -= 1` never underflows.**  The decrement is executed only when `remove` found the rule,
and then the matcher's count is positive.  Stated here for the outermost matcher; the same fact is a
proof obligation of every layer of the tower (`MLaws.remove_pos`, discharged for all seven), and every
nested `remove` runs on a bucket that represents its share of the live rules, so no decrement
anywhere in the tower underflows (the model's truncated subtraction is never truncating). -/
theorem count_no_underflow (E : Env) (S : Router E) (L : List Route) (id : String) (h : RRepr E S L)
    (hs : ((towerOps E).remove id S.matcher).2.isSome = true) : 0 < (towerOps E).len S.matcher :=
  (towerLaws E).remove_pos _ _ id h.matcher hs

/-! ### Clone isolation: the static ownership tie (review A, C02-2)

In this model a router is a VALUE: `clone` is no operation, and "deriving an updated router from a shared existing one
never changes the answers of the existing one" holds by construction.  For the code that is an ownership fact, tied to
the source by tools/consts.d/w2_ownership.py on every run (fails closed against the committed whitelist
tools/consts.d/w2_ownership_whitelist.json, one justification per entry):

* two clones of a `Router<T>` share exactly what is behind an `Arc` (17 field lines: the configuration, the routes, the
  `LazyRegex` of tree items, the compiled `regex::Regex`), and the five hand-written `impl Clone` are field-wise;
* `Arc` gives `&` access only, and NOTHING in src/router, src/regex_radix_tree, src/regex.rs, src/marker, src/api/rule.rs
  writes through a shared pointer (`Arc::get_mut` / `make_mut`, `unsafe`, statics, `Mutex`, atomics: none) except the one
  cell listed below: `MarkerString.regex_capture : Arc<RwLock<LazyRegex>>`, written by `MarkerString::compile` (reached
  from `Router::cache`, second phase) with `regex.compile()` – the same regex with its compiled value cached.  That write
  is visible to the other clone, and harmless: a `LazyRegex` answers alike compiled or not (property C12,
  `lazy_compile_preserves`), and no matcher reads `regex_capture`.  The tree items' `Arc<LazyRegex>` are REPLACED by
  `cache`, never mutated.  The `RefCell` of `HostMatcher::remove` is a local of the call (model: `lastHit`).

The theorem pins the list the extractor found: a new cell, lock, atomic or `unsafe` in these files changes the
regenerated constant (or fails the extractor) and this file no longer checks.  The dynamic side is the harness oracle
`clone-aliasing` of c02 (validated by an injected aliasing fault, see notes/wp/W2.md). -/
theorem clone_isolation_ownership_tie :
    Rio.Consts.routerInteriorMutability =
      ["src/marker/mod.rs: match self.regex_capture.write() {",
       "src/marker/mod.rs: regex_capture: Arc::new(RwLock::new(LazyRegex::new_leaf(capture.as_str(), ignore_case))),",
       "src/marker/mod.rs: regex_capture: Arc<RwLock<LazyRegex>>,",
       "src/marker/mod.rs: use std::sync::{Arc, RwLock};",
       "src/router/request_matcher/host.rs: *removed_in_tree.borrow_mut() = Some(value);",
       "src/router/request_matcher/host.rs: let removed_in_tree = std::cell::RefCell::new(None);"] ∧
    Rio.Consts.routerSharedFieldLines = 17 ∧
    Rio.Consts.routerManualClones = ["Item", "Leaf", "Node", "RegexTreeMap", "UniqueRegexTreeMap"] := by
  decide

/-- **No `count -= 1` underflows, in ANY of the seven matchers** (all 14 decrement sites: every matcher has one
after an `any_*` bucket hit and one after a keyed-bucket hit; the path matcher after a tree hit and after a static
hit).  One `Router::remove(id)` runs `remove(id)` on the `any` bucket and – through `retain` – on EVERY keyed bucket
of every layer; `(towerUFlow E).under id m` (Proofs/RouterUnderflow.lean, `lUnderflow`) follows that control flow and
says "one of the decrements executed on the way finds `count == 0`".  It is false in every represented state. -/
theorem no_count_underflow (E : Env) (S : Router E) (L : List Route) (id : String) (h : RRepr E S L) :
    (towerUFlow E).under id S.matcher = false :=
  (towerUFlow E).safe _ _ id h.matcher

/-- … hence at every `remove` executed anywhere in a valid history (the state before it is the state after a
prefix). -/
theorem no_count_underflow_run (E : Env) (h : List Op) (hv : ValidHistory h []) (h' : List Op) (hp : h' <+: h)
    (id : String) : (towerUFlow E).under id (runOps E h' (Router.empty E)).matcher = false := by
  obtain ⟨t, ht⟩ := hp
  have hv' : ValidHistory h' [] := valid_prefix h' t [] (ht ▸ hv)
  exact no_count_underflow E _ _ id (repr_run E h' (Router.empty E) [] (rrepr_empty E) hv')

/-- What the detector of the tower is: the outer-matcher detector `lUnderflow`, six times, over "the path matcher
found the route and its count is 0". -/
theorem towerUFlow_under (E : Env) :
    (towerUFlow E).under =
      lUnderflow (hostOps (specHost E) (ipOps (methodOps (headerOps E (dateTimeOps (pathOps E))))))
        (lUnderflow (ipOps (methodOps (headerOps E (dateTimeOps (pathOps E)))))
          (lUnderflow (methodOps (headerOps E (dateTimeOps (pathOps E))))
            (lUnderflow (headerOps E (dateTimeOps (pathOps E)))
              (lUnderflow (dateTimeOps (pathOps E))
                (lUnderflow (pathOps E)
                  (fun id (m : PathState) => (Path.remove id m).2.isSome && m.count == 0)))))) := rfl

/-- The detector is not vacuous: on a date-time matcher whose `count` is 0 although its `any` bucket holds the
rule (a state no history produces) it fires – at the outer decrement; and it fires at the INNER decrement when the
outer count is right but the path matcher's is not. -/
example (E : Env) (r : Route) (hp : r.path = .static "/a") :
    lUnderflow (pathOps E) (leafUFlow (pathLaws E)).under r.id
      (⟨Path.insert r Path.empty, ([] : List (Option (List DCond) × PathState)), 0⟩) = true := by
  simp [lUnderflow, leafUFlow, pathOps, Path.insert, Path.remove, Path.empty, hp, entryRemove, aupsert]

example (E : Env) (r : Route) :
    lUnderflow (pathOps E) (leafUFlow (pathLaws E)).under r.id
      (⟨⟨[], [(("/a", r.id), r)], 0⟩, ([] : List (Option (List DCond) × PathState)), 1⟩) = true := by
  simp [lUnderflow, leafUFlow, pathOps, Path.remove, entryRemove]

/-! ### The same statements with the two regex trees modelled as trees (composition with C08)

`runOpsG (towerTOps T)` runs the history on the router whose `regex_tree_rule`s are the radix-tree
model of Model/Tree.lean: `remove` / `batch_remove` go through `Item.remove` / `Item.retain` (leaf
removal, node collapse, `Empty(ignore_case)`), insertion through `Item.insert` / `get_mut`.  Extra
hypothesis: the marker patterns of every inserted rule render into a domain `Good` on which the
engine is prefix-sound (C08); for `engineOf G` that is `GoodPat` (`run_equiv_tree_rule`). -/

/-- the routes an operation inserts -/
def opRoutes : Op → List Route
  | .insert r => [r]
  | .changeSet a u _ => u ++ a
  | _ => []

open Rio.Regex Rio.Tree in
theorem repr_op_tree (T : TEnv) (Good : List Char → Prop) (hPS : PrefixSound T.engine Good)
    (S : RouterT T) (L : List Route) (op : Op) (h : RReprT T Good hPS S L) (hv : op.Valid L)
    (hg : ∀ r ∈ opRoutes op, TreeGood T Good r) :
    RReprT T Good hPS (op.runG (towerTOps T) S) (op.live L) := by
  have hT := towerTSpec T Good hPS
  cases op with
  | insert r => exact g_insert T.env _ hT S L r h hv (hg r (by simp [opRoutes]))
  | remove id => exact g_remove T.env _ hT S L id h
  | batchRemove ids => exact g_batch T.env _ hT S L ids h
  | changeSet a u d => exact g_changeSet T.env _ hT S L a u d h hv hg
  | cache n => exact g_cache _ S L n h

open Rio.Regex Rio.Tree in
theorem repr_run_tree (T : TEnv) (Good : List Char → Prop) (hPS : PrefixSound T.engine Good)
    (h : List Op) : ∀ (S : RouterT T) (L : List Route), RReprT T Good hPS S L → ValidHistory h L →
    (∀ op ∈ h, ∀ r ∈ opRoutes op, TreeGood T Good r) →
    RReprT T Good hPS (runOpsG (towerTOps T) h S) (liveOps h L) := by
  induction h with
  | nil => intro S L hr _ _; exact hr
  | cons op h ih =>
    intro S L hr hv hg
    exact ih _ _ (repr_op_tree T Good hPS S L op hr hv.1 (hg op (List.mem_cons_self ..))) hv.2
      (fun op' hop' => hg op' (List.mem_cons_of_mem _ hop'))

open Rio.Regex Rio.Tree in
open Rio.Regex Rio.Tree in
/-- **No `count -= 1` underflows over the real trees either**: the detector follows `HostMatcher::remove` through
both `retain`s (static buckets and every bucket stored in the regex tree) and `PathAndQueryMatcher::remove` through
`regex_tree_rule.remove(id)`. -/
theorem no_count_underflow_tree (T : TEnv) (Good : List Char → Prop) (hPS : PrefixSound T.engine Good)
    (S : RouterT T) (L : List Route) (id : String) (h : RReprT T Good hPS S L) :
    (towerTUFlow T Good hPS).under id S.matcher = false :=
  (towerTUFlow T Good hPS).safe _ _ id h.matcher

open Rio.Regex Rio.Tree in
theorem no_count_underflow_run_tree (T : TEnv) (Good : List Char → Prop) (hPS : PrefixSound T.engine Good)
    (h : List Op) (hv : ValidHistory h []) (hg : ∀ op ∈ h, ∀ r ∈ opRoutes op, TreeGood T Good r)
    (h' : List Op) (hp : h' <+: h) (id : String) :
    (towerTUFlow T Good hPS).under id (runOpsG (towerTOps T) h' (RouterG.empty _)).matcher = false := by
  obtain ⟨t, ht⟩ := hp
  have hv' : ValidHistory h' [] := valid_prefix h' t [] (ht ▸ hv)
  have hg' : ∀ op ∈ h', ∀ r ∈ opRoutes op, TreeGood T Good r :=
    fun op hop => hg op (ht ▸ List.mem_append_left _ hop)
  exact no_count_underflow_tree T Good hPS _ _ id
    (repr_run_tree T Good hPS h' (RouterG.empty _) [] (g_empty T.env _ (towerTSpec T Good hPS)) hv' hg')

open Rio.Regex Rio.Tree in
/-- **C02 over the real trees**: after every prefix of a valid history whose inserted rules have
marker patterns in the domain, the incrementally updated router answers as a router built from
scratch from the live rules, and its size is their number. -/
theorem run_equiv_tree (T : TEnv) (Good : List Char → Prop) (hPS : PrefixSound T.engine Good)
    (h : List Op) (hv : ValidHistory h []) (hg : ∀ op ∈ h, ∀ r ∈ opRoutes op, TreeGood T Good r)
    (h' : List Op) (hp : h' <+: h) (q : Req) :
    (RouterG.matchReq (towerTOps T) (runOpsG (towerTOps T) h' (RouterG.empty _)) q).Perm
        (RouterG.matchReq (towerTOps T) (RouterG.build (towerTOps T) (liveOps h' [])) q) ∧
      RouterG.len (towerTOps T) (runOpsG (towerTOps T) h' (RouterG.empty _)) = (liveOps h' []).length := by
  have hT := towerTSpec T Good hPS
  obtain ⟨t, ht⟩ := hp
  have hv' : ValidHistory h' [] := valid_prefix h' t [] (ht ▸ hv)
  have hg' : ∀ op ∈ h', ∀ r ∈ opRoutes op, TreeGood T Good r :=
    fun op hop => hg op (ht ▸ List.mem_append_left _ hop)
  have hr := repr_run_tree T Good hPS h' (RouterG.empty _) [] (g_empty T.env _ hT) hv' hg'
  -- every live route was inserted by the history, hence is in the domain
  have hlive : ∀ (h : List Op) (L : List Route), (∀ r ∈ L, TreeGood T Good r) →
      (∀ op ∈ h, ∀ r ∈ opRoutes op, TreeGood T Good r) → ∀ r ∈ liveOps h L, TreeGood T Good r := by
    intro h
    induction h with
    | nil => intro L hL _ r hr; exact hL r hr
    | cons op h ih =>
      intro L hL hg r hr
      apply ih (op.live L) _ (fun op' hop' => hg op' (List.mem_cons_of_mem _ hop')) r hr
      intro x hx
      have hop := hg op (List.mem_cons_self ..)
      cases op with
      | insert r0 =>
        rcases List.mem_cons.mp hx with hx | hx
        · exact hx ▸ hop r0 (by simp [opRoutes])
        · exact hL x hx
      | remove id => exact hL x (List.mem_filter.mp hx).1
      | batchRemove ids => exact hL x (List.mem_filter.mp hx).1
      | changeSet a u d =>
        simp only [Op.live, liveChangeSet, insertAll_eq, List.mem_append, List.mem_reverse] at hx
        rcases hx with hx | hx | hx
        · exact hop x (by simp [opRoutes, hx])
        · exact hop x (by simp [opRoutes, hx])
        · exact hL x (List.mem_filter.mp hx).1
      | cache n => exact hL x hx
  have hb := g_build T.env _ hT (liveOps h' []) hr.ids
    (hlive h' [] (by intro r hr; simp at hr) hg')
  exact ⟨g_match_perm T.env _ hT _ _ _ _ hr hb (fun x => List.mem_reverse.symm) q,
    g_len T.env _ hT _ _ hr⟩

open Rio.Regex Rio.Tree in
/-- For the engines `engineOf G` and rule-shaped marker patterns. -/
theorem run_equiv_tree_rule (T : TEnv) (G : List Char → Option Re) (hE : T.engine = engineOf G)
    (h : List Op) (hv : ValidHistory h []) (hg : ∀ op ∈ h, ∀ r ∈ opRoutes op, TreeGood T GoodPat r)
    (h' : List Op) (hp : h' <+: h) (q : Req) :
    (RouterG.matchReq (towerTOps T) (runOpsG (towerTOps T) h' (RouterG.empty _)) q).Perm
        (RouterG.matchReq (towerTOps T) (RouterG.build (towerTOps T) (liveOps h' [])) q) ∧
      RouterG.len (towerTOps T) (runOpsG (towerTOps T) h' (RouterG.empty _)) = (liveOps h' []).length :=
  run_equiv_tree T GoodPat (hE ▸ Rio.C08.prefix_sound G) h hv hg h' hp q

open Rio.Regex Rio.Tree in
/-- a removed rule is returned by the removal, over the real trees -/
theorem remove_returns_tree (T : TEnv) (Good : List Char → Prop) (hPS : PrefixSound T.engine Good)
    (S : RouterT T) (L : List Route) (r : Route) (h : RReprT T Good hPS S L) (hr : r ∈ L)
    (hwf : WFRoute r) : (RouterG.remove (towerTOps T) r.id S).2 = some r :=
  g_remove_some T.env _ (towerTSpec T Good hPS) S L r h hr hwf

/-! ### Non-vacuity: a concrete valid history with a removal, a batch removal and a change-set -/

def exEnv : Env where
  alwaysAnyHost := true
  hostFind := fun _ _ => true
  pathFind := fun _ _ => true
  headerRegex := fun _ _ => true
  lower := id

def exRoute (id : String) (host : Option SoD) (path : SoD) : Route :=
  { id := id, priority := 0, scheme := none, host := host, ips := none, methods := none,
    excludeMethods := none, headers := [], datetime := none, time := none, weekdays := none,
    path := path }

def exHist : List Op :=
  [ .insert (exRoute "a" (some (.dyn [.plus .lower])) (.static "/a")),
    .insert (exRoute "b" none (.dyn [.lit '/', .plus .digit])),
    .remove "a",
    .insert (exRoute "a" none (.static "/a")),
    .batchRemove ["b", "zz"],
    .changeSet [exRoute "c" none (.static "/a")] [exRoute "a" (some (.static "h")) (.static "/a")] ["b"],
    .cache none ]

example : ValidHistory exHist [] := by
  simp [exHist, ValidHistory, Op.Valid, Op.live, FreshAll, liveChangeSet, insertAll, exRoute]

example : (liveOps exHist []).map (·.id) = ["c", "a"] := by decide

end Rio.C02
