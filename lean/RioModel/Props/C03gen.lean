/-
C03 (text filters) for the text body filter REGENERATED FROM THE SOURCE.

`Rio.Consts.genTextFilterReplace / Append / Prepend` and `genTextEnd` are translated on every run from
`TextFilterBodyAction::filter` (one definition per arm of `match self.action`) and `::end` of
src/filter/text_filter_body.rs (tools/consts.d/w4_translate.py).  `Chain.runG` (Proofs/TextGen.lean) is
W6's chain with every text stage running that translated code.  The theorems of Props/C03.lean about text
filters are restated for it, so a source change that alters the behaviour of the text filter breaks a
proof (not only the correspondence).
-/
import RioModel.Props.C03
import RioModel.Proofs.TextGen
set_option linter.unusedSimpArgs false
set_option linter.unusedVariables false

namespace Rio.C03
open Rio.Filter

variable {D E : Type}

/-- the translated stage functions are the modelled ones -/
theorem gen_text_filter_eq_model (s : TextSt) (data : Bytes) : genFilterText s data = filterText s data :=
  genFilterText_eq s data

theorem gen_text_end_eq_model (s : TextSt) : genEndText s = endText s := genEndText_eq s

/-- hence the chain over the translated code is W6's chain -/
theorem gen_run_eq_model (tk : Tokenize) (ev : Bytes → Bytes → Bool) (codec : Codec D E) (ch : Chain D E)
    (cs : List Bytes) : ch.runG tk ev codec cs = ch.run tk ev codec cs :=
  Chain.runG_eq tk ev codec ch cs

/-- **Text filters are invariant under chunking, for the regenerated code**: a chain of text stages,
each running the `filter` / `end` bodies translated from the source, emits the same bytes for every way
of cutting the body (no hypothesis on the bytes or on the cuts). -/
theorem text_chunk_invariant_gen (tk : Tokenize) (ev : Bytes → Bytes → Bool) (codec : Codec D E)
    (ch : Chain D E) (hall : AllText ch.items) (herr : ch.inError = false) (cs : List Bytes) :
    ch.runG tk ev codec cs = ch.runG tk ev codec [cs.flatten] := by
  rw [gen_run_eq_model, gen_run_eq_model]
  exact text_chunk_invariant tk ev codec ch hall herr cs

/-- … with the closed form: each stage appends / prepends / replaces once. -/
theorem text_closed_form_gen (tk : Tokenize) (ev : Bytes → Bytes → Bool) (codec : Codec D E)
    (ch : Chain D E) (hall : AllText ch.items) (herr : ch.inError = false) (cs : List Bytes) :
    ch.runG tk ev codec cs = textTotal ch.items cs.flatten := by
  rw [gen_run_eq_model]
  exact text_closed_form tk ev codec ch hall herr cs

/-- the state machine over `executed`, read off the translated code: `filter` emits the content at most
once (`Replace`, `Prepend`), `end` emits it iff no call did (`Append` always, the others only on an
empty stream) -/
theorem gen_text_once (content data : Bytes) :
    Rio.Consts.genTextFilterReplace content false data = (true, content) ∧
    Rio.Consts.genTextFilterReplace content true data = (true, []) ∧
    Rio.Consts.genTextFilterPrepend content false data = (true, content ++ data) ∧
    Rio.Consts.genTextFilterPrepend content true data = (true, data) ∧
    (∀ e, Rio.Consts.genTextFilterAppend content e data = (e, data)) ∧
    Rio.Consts.genTextEnd content false = (true, content) ∧
    Rio.Consts.genTextEnd content true = (true, []) := by
  simp [Rio.Consts.genTextFilterReplace, Rio.Consts.genTextFilterPrepend,
    Rio.Consts.genTextFilterAppend, Rio.Consts.genTextEnd]

/-! ### Non-vacuity: a chain replace → prepend → append over the translated code, two cuts -/

example :
    let ch : Chain Unit Unit :=
      { items := [.text ⟨.replace, [1], false⟩, .text ⟨.prepend, [2], false⟩, .text ⟨.append, [3], false⟩] }
    AllText ch.items ∧ ch.inError = false := by
  intro ch
  refine ⟨?_, rfl⟩
  intro st hst
  simp only [ch, List.mem_cons, List.mem_nil_iff, or_false] at hst
  rcases hst with rfl | rfl | rfl <;> exact ⟨_, rfl⟩

end Rio.C03
