/-
C19 (translated tie, W28) — the impact entry points of src/api/impact.rs TRANSLATED from the source on every run
(tools/consts_dev/w28_impact.py → `Rio.Consts.genFromImpactProject`, `genImpactCreateResult`, `genComputeImpactsHead`)
are the hand-written model of Model/LoopAnalysis.lean (`impactProject`, `impactStandalone`, `impactOn`), for EVERY router
algebra, pipeline, change-set, rule list and impact input; and `impact_project_equals_standalone` restated for the translated
entry points.

What is translated: which router the draft rule is removed from (`impact_router`, i.e. the existing router AFTER
`update_existing_router`, unconditionally), the trace-unique router (`from_arc_config(existing_router.config)`, resp.
`from_config(router_config)`), the `for rule in rules` loop of `create_result` with its `continue` on the id of the analysed
rule, the argument order of the call of `compute_impacts`, and the first statement of `compute_impacts` (insertion of the
analysed rule into BOTH routers iff the action is "add" or "update").
Abstract (parameters of the translated definitions, instantiated here with `Alg` / `Pipe`): the router operations,
`RuleChangeSet::update_existing_router` (= `Alg.update`), the field accessors, and the loop of `compute_impacts` after its
first statement (= the hand-written `computeImpacts`; the plugin checks that this rest can see neither `rule` nor the
parameter `action`).  No panicking operation occurs in the translated statements (no index, cast, unwrap, subtraction).
-/
import RioModel.Proofs.ImpactGen
import RioModel.Props.C19b
set_option linter.unusedSimpArgs false

namespace Rio.C19
open Rio.Analysis Rio.Loop

section
variable {St Rule Req Cfg Tr C Ex Id UId UT Core U M Dom : Type}
variable [DecidableEq Id] [DecidableEq U] [DecidableEq M]
variable {P : Pipe Rule Req Cfg Ex Id UId UT Core U M Dom} {canon : Tr → C}
variable {A : Alg St Rule Req Cfg Tr Id}

omit [DecidableEq Id] in
/-- translated `compute_impacts` (translated head + hand-written loop) = the model's `impactOn`, for every pair of
routers and every input. -/
theorem gen_compute_impacts_eq_model (router traceRouter : St) (I : ImpactSpec Rule Dom) :
    genComputeImpacts A P router traceRouter (P.examples I.rule) I.withLoop I.maxHops I.action I.rule I.domains =
      impactOn A P router traceRouter I :=
  genComputeImpacts_eq A P router traceRouter I

/-- **translated `from_impact_project` = `impactProject`**, for every change-set, input and existing router. -/
theorem gen_impact_project_eq_model (D : ChangeSet Rule Id) (I : ImpactSpec Rule Dom) (base : St) :
    genImpactProject A P D I base = impactProject A P D I base :=
  genImpactProject_eq A P D I base

/-- **translated `create_result` = `impactStandalone`**, for every config, rule list and input. -/
theorem gen_impact_standalone_eq_model (c : Cfg) (rules : List Rule) (I : ImpactSpec Rule Dom) :
    genImpactStandalone A P c rules I = impactStandalone A P c rules I :=
  genImpactStandalone_eq A P c rules I

/-- The translated `from_impact_project` removes the analysed rule from the UPDATED router whatever the action and
whatever the published router knows (seeds c06-4 / r9a-3 made this conditional), and builds the trace-unique router from
the config of the EXISTING router: the translated text, unfolded. -/
theorem gen_impact_project_removes_unconditionally (D : ChangeSet Rule Id) (I : ImpactSpec Rule Dom) (base : St) :
    genImpactProject A P D I base =
      genComputeImpacts A P (A.remove (P.ruleId I.rule) (A.applyChangeSet D.added D.updated D.deleted base))
        (A.empty (A.view base).config) (P.examples I.rule) I.withLoop I.maxHops I.action I.rule I.domains :=
  rfl

/-- **`impact_project_equals_standalone` for the TRANSLATED entry points**: translated `from_impact_project` on the
existing router and translated `create_result` on the rule list of the project after the change-set give the same list of
impacts (traces through `canon`); hypotheses as in `impact_project_equals_standalone`. -/
theorem gen_impact_project_equals_standalone (W : AlgLaws A P.ruleId canon) (hI : PermInv P) (base : St) (c : Cfg)
    (B : List Rule) (D : ChangeSet Rule Id) (rules : List Rule) (hb : W.Repr base c B)
    (hv : ValidChangeSet P.ruleId D B) (hn : NodupIds P.ruleId rules)
    (hr : ∀ x, x ∈ rules ↔ x ∈ D.live P.ruleId B) (I : ImpactSpec Rule Dom) :
    (genImpactProject A P D I base).map (Impact.project canon) =
      (genImpactStandalone A P c rules I).map (Impact.project canon) := by
  rw [genImpactProject_eq, genImpactStandalone_eq]
  exact impact_project_equals_standalone W hI base c B D rules hb hv hn hr I

end

/-! ### Non-vacuity (the tiny world of Props/C19b.lean) -/

/-- what the tiny pipeline reports for an impact: the ids among 1..3 of the matched rules (`none` for an error record) -/
def xImpactIds : Impact Nat (List Nat × Option Nat) (List XRule) Nat Nat → Option (List Nat)
  | .err _ _ => none
  | .ok _ core _ _ => some core.1

/-- the translated entry points run, and are not trivial: draft rule `xB'` (an update of rule 2), project = base `[xA, xB]`
with `xC` added; both sides report the one example of `xB'` (url 20) as answered by rule 2 only (the previous version `xB`
removed, resp. skipped by the `continue`; the new one inserted by the translated head of `compute_impacts`). -/
example :
    let D : ChangeSet XRule Nat := ⟨[xC], [], []⟩
    let I : ImpactSpec XRule Unit := ⟨xB', "update", true, 5, ()⟩
    (genImpactProject xAlg xPipe D I (xAlg.build () [xA, xB])).map xImpactIds = [some [2]] ∧
    (genImpactStandalone xAlg xPipe () [xA, xB, xC] I).map xImpactIds = [some [2]] := by
  decide

/-- the action matters: with an action other than "add" / "update" the analysed rule is NOT inserted (translated head) -/
example :
    (genComputeImpacts xAlg xPipe (xAlg.build () [xA]) (xAlg.empty ()) (some [20, 0]) false 5 "delete" xB' ()).map xImpactIds
      = [some [], none] ∧
    (genComputeImpacts xAlg xPipe (xAlg.build () [xA]) (xAlg.empty ()) (some [20, 0]) false 5 "update" xB' ()).map xImpactIds
      = [some [2], none] := by
  decide

end Rio.C19
