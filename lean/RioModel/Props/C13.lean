/-
C13 — header filters implement add / remove / replace / override / default exactly.

Property theorems only (helper lemmas live in Proofs/Header.lean).  All theorems hold for an
arbitrary name-normalisation function `lower` (the code uses `str::to_lowercase`); name equality
is `sameName lower n h := lower h.name == lower n`, exactly the comparison the code performs.
-/
import RioModel.Proofs.Header
set_option linter.unusedSimpArgs false

namespace Rio.C13
open Rio.Header
variable (lower : String → String)

/-! ### Closed forms of the five loops -/

/-- add appends. -/
theorem add_closed (n v : String) (hs : List Header) :
    addAction n v hs = hs ++ [⟨n, v⟩] := rfl

/-- remove deletes all occurrences (and nothing else, order kept). -/
theorem remove_closed (n : String) (hs : List Header) :
    removeAction lower n hs = hs.filter (fun h => !sameName lower n h) := by
  unfold removeAction
  rw [removeAction_aux]
  simp

/-- replace rewrites existing occurrences only. -/
theorem replace_closed (n v : String) (hs : List Header) :
    replaceAction lower n v hs = hs.map (fun h => if sameName lower n h then ⟨n, v⟩ else h) := by
  unfold replaceAction
  rw [replaceAction_aux]
  simp

/-- override rewrites existing occurrences or appends one. -/
theorem override_closed (n v : String) (hs : List Header) :
    overrideAction lower n v hs =
      if hs.any (sameName lower n) then hs.map (fun h => if sameName lower n h then ⟨n, v⟩ else h)
      else hs ++ [⟨n, v⟩] := by
  unfold overrideAction
  rw [overrideAction_aux]
  cases hany : hs.any (sameName lower n) with
  | true => simp
  | false => simp [map_replace_of_not_any lower n v hs hany]

/-- default appends only if absent. -/
theorem default_closed (n v : String) (hs : List Header) :
    defaultAction lower n v hs = if hs.any (sameName lower n) then hs else hs ++ [⟨n, v⟩] := by
  unfold defaultAction
  rw [defaultFound_eq]
  cases hany : hs.any (sameName lower n) <;> simp

/-! ### The pipeline equals the left fold of the reference operations, in rule order;
unknown operations are ignored -/

/-- One filter: dispatch by `create_header_action` + the action's loop = the reference operation.
The action names come from the regenerated constants, so renaming one in the source breaks
this proof. -/
theorem act_run_spec (f : HeaderFilter) (hs : List Header) :
    (match createHeaderAction f with
     | some a => a.run lower hs
     | none => hs) = refOp lower f hs := by
  unfold createHeaderAction refOp
  simp only [Rio.Consts.headerActionAdd, Rio.Consts.headerActionRemove,
    Rio.Consts.headerActionReplace, Rio.Consts.headerActionOverride,
    Rio.Consts.headerActionDefault]
  by_cases h1 : f.action = "add"
  · simp [h1, Act.run, add_closed]
  by_cases h2 : f.action = "remove"
  · simp [h2, Act.run, remove_closed]
  by_cases h3 : f.action = "replace"
  · simp [h3, Act.run, replace_closed]
  by_cases h4 : f.action = "override"
  · simp [h4, Act.run, override_closed]
  by_cases h5 : f.action = "default"
  · simp [h5, Act.run, default_closed]
  simp [h1, h2, h3, h4, h5]

theorem unknown_ignored (f : HeaderFilter) (hs : List Header)
    (h : f.action ∉ ["add", "remove", "replace", "override", "default"]) :
    refOp lower f hs = hs ∧ createHeaderAction f = none := by
  simp at h
  obtain ⟨h1, h2, h3, h4, h5⟩ := h
  constructor
  · simp [refOp, h1, h2, h3, h4, h5]
  · simp [createHeaderAction, Rio.Consts.headerActionAdd, Rio.Consts.headerActionRemove,
      Rio.Consts.headerActionReplace, Rio.Consts.headerActionOverride,
      Rio.Consts.headerActionDefault, h1, h2, h3, h4, h5]

theorem fold_actions (fs : List HeaderFilter) (hs : List Header) :
    (fs.filterMap createHeaderAction).foldl (fun hs a => a.run lower hs) hs = refFold lower fs hs := by
  induction fs generalizing hs with
  | nil => simp [refFold]
  | cons f t ih =>
    have hspec := act_run_spec lower f hs
    simp only [refFold, List.foldl_cons]
    cases hc : createHeaderAction f with
    | none =>
      simp only [hc] at hspec
      rw [List.filterMap_cons_none hc, ← hspec]
      exact ih hs
    | some a =>
      simp only [hc] at hspec
      rw [List.filterMap_cons_some hc, List.foldl_cons, ← hspec]
      exact ih _

/-- **C13 headline**: for every header list and every filter sequence, the implementation's
pipeline (`FilterHeaderAction::new` + `filter`) is the left fold, in order, of the five reference
operations; unknown operations contribute the identity. -/
theorem fold_spec (fs : List HeaderFilter) (hs : List Header) :
    filterHeaders lower fs hs = refFold lower fs hs := by
  unfold filterHeaders
  cases hfs : fs.isEmpty with
  | true =>
    have : fs = [] := by simpa using hfs
    simp [this, refFold]
  | false =>
    simp only [Bool.false_eq_true, if_false]
    cases hact : (fs.filterMap createHeaderAction).isEmpty with
    | true =>
      have hnil : fs.filterMap createHeaderAction = [] := by simpa using hact
      have := fold_actions lower fs hs
      rw [hnil] at this
      simpa using this
    | false =>
      simp only [Bool.false_eq_true, if_false]
      exact fold_actions lower fs hs

/-! ### All other headers keep their value and relative order -/

/-- For one operation: the sub-list of headers *not* named like the filter's header is unchanged
(same elements, same values, same relative order). -/
theorem others_untouched (f : HeaderFilter) (hs : List Header) :
    (refOp lower f hs).filter (fun h => !sameName lower f.header h)
      = hs.filter (fun h => !sameName lower f.header h) := by
  -- instance of the general statement below with p := "not the same name"
  have hp : ∀ h, (fun h => !sameName lower f.header h) h = true → sameName lower f.header h = false := by
    intro h hh; simpa using hh
  have hself : sameName lower f.header ⟨f.header, f.value⟩ = true := by simp [sameName]
  have hp2 : (fun h => !sameName lower f.header h) (⟨f.header, f.value⟩ : Header) = false := by
    simp [hself]
  unfold refOp
  split
  · simp [List.filter_append, hself]
  split
  · simp [List.filter_filter]
  split
  · exact filter_map_replace lower f.header f.value _ hs hp hp2
  split
  · split
    · exact filter_map_replace lower f.header f.value _ hs hp hp2
    · simp [List.filter_append, hself]
  split
  · split
    · rfl
    · simp [List.filter_append, hself]
  rfl

/-- Lifted to a whole filter sequence: for any class `p` of headers that no filter of the
sequence names (and that contains none of the inserted headers), the sub-list of `p`-headers is
unchanged — value and relative order kept. -/
theorem others_untouched_fold (fs : List HeaderFilter) (hs : List Header) (p : Header → Bool)
    (hp : ∀ f ∈ fs, ∀ h, p h = true → sameName lower f.header h = false)
    (hp2 : ∀ f ∈ fs, p ⟨f.header, f.value⟩ = false) :
    (refFold lower fs hs).filter p = hs.filter p := by
  induction fs generalizing hs with
  | nil => simp [refFold]
  | cons f t ih =>
    simp only [refFold, List.foldl_cons]
    have ht := ih (refOp lower f hs) (fun g hg => hp g (List.mem_cons_of_mem _ hg))
      (fun g hg => hp2 g (List.mem_cons_of_mem _ hg))
    simp only [refFold] at ht
    rw [ht]
    have hf := hp f (List.mem_cons_self ..)
    have hf2 := hp2 f (List.mem_cons_self ..)
    unfold refOp
    split
    · simp [List.filter_append, hf2]
    split
    · exact filter_filter_not_same lower f.header p hs hf
    split
    · exact filter_map_replace lower f.header f.value p hs hf hf2
    split
    · split
      · exact filter_map_replace lower f.header f.value p hs hf hf2
      · simp [List.filter_append, hf2]
    split
    · split
      · rfl
      · simp [List.filter_append, hf2]
    rfl

/-! ### Non-vacuity: a concrete run exercising all five operations and an unknown one -/

example :
    filterHeaders id
      [⟨"add", "X-A", "1"⟩, ⟨"remove", "X-B", ""⟩, ⟨"replace", "X-C", "r"⟩, ⟨"frobnicate", "X-A", "z"⟩,
       ⟨"override", "X-D", "o"⟩, ⟨"default", "X-A", "d"⟩]
      [⟨"X-B", "b1"⟩, ⟨"X-C", "c1"⟩, ⟨"Keep", "k"⟩, ⟨"X-B", "b2"⟩]
    = [⟨"X-C", "r"⟩, ⟨"Keep", "k"⟩, ⟨"X-A", "1"⟩, ⟨"X-D", "o"⟩] := by
  simp [filterHeaders, createHeaderAction, Rio.Consts.headerActionAdd, Rio.Consts.headerActionRemove,
    Rio.Consts.headerActionReplace, Rio.Consts.headerActionOverride, Rio.Consts.headerActionDefault,
    Act.run, addAction, removeAction, replaceAction, overrideAction, defaultAction, defaultFound,
    sameName]

/-- The hypotheses of `others_untouched_fold` are satisfiable on a non-trivial instance. -/
example :
    let fs : List HeaderFilter := [⟨"remove", "X-B", ""⟩, ⟨"override", "X-D", "o"⟩]
    let p : Header → Bool := fun h => h.name == "Keep"
    (∀ f ∈ fs, ∀ h, p h = true → sameName id f.header h = false) ∧
    (∀ f ∈ fs, p ⟨f.header, f.value⟩ = false) ∧
    ([⟨"X-B", "b1"⟩, ⟨"Keep", "k"⟩] : List Header).filter p ≠ [] := by
  simp [sameName]
  constructor <;> (intro h hh; rw [hh]; decide)

end Rio.C13
