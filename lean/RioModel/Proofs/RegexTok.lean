/-
Rule-shaped patterns: tokens, the real-syntax splitter `tokTop`, the tree's scanner, and the law the
tree needs from the engine.

* `tokTop_render`   – the splitter recovers good tokens from their rendering;
* `boundary_is_token_boundary` – a scanner boundary inside a rendered good token list is a token boundary
  (so every prefix the tree can cut is itself the rendering of a token prefix);
* `prefixSound_engineOf` – for every meaning `G` of group bodies, the engine `engineOf G` satisfies
  `PrefixSound` on `GoodPat`: if `^p$` matches `s` and `q` is a non-empty boundary prefix of `p`, then `^q`
  compiles and matches `s`.
-/
import RioModel.Proofs.Regex
import RioModel.Proofs.Scan
import RioModel.Proofs.TreeSpec
set_option linter.unusedSimpArgs false
set_option linter.unusedVariables false

namespace Rio.Regex
open Rio.Scan

/-! ### The splitter on rendered tokens -/

theorem tokTop_nil : tokTop [] = some [] := by rw [tokTop]

theorem tokTop_esc (d : Char) (rest : List Char) :
    tokTop ('\\' :: d :: rest) = if isMeta d then (tokTop rest).map (Tok.lit d :: ·) else none := by
  rw [tokTop.eq_def]; rfl

theorem tokTop_open (rest : List Char) : tokTop ('(' :: rest) = tokGrp rest 1 false [] := by
  rw [tokTop.eq_def]; rfl

theorem tokTop_plain {c : Char} (h : isMeta c = false) (rest : List Char) :
    tokTop (c :: rest) = (tokTop rest).map (Tok.lit c :: ·) := by
  have h1 : c ≠ '\\' := by intro e; subst e; simp [isMeta] at h
  have h2 : c ≠ '(' := by intro e; subst e; simp [isMeta] at h
  rw [tokTop.eq_def]; simp [h1, h2, h]

theorem tokGrp_esc (d : Char) (rest : List Char) (depth : Nat) (inCls : Bool) (acc : List Char) :
    tokGrp ('\\' :: d :: rest) depth inCls acc = tokGrp rest depth inCls (d :: '\\' :: acc) := by
  rw [tokGrp.eq_def]; rfl

theorem tokGrp_cons {c : Char} (h : c ≠ '\\') (rest : List Char) (depth : Nat) (inCls : Bool) (acc : List Char) :
    tokGrp (c :: rest) depth inCls acc =
      if inCls then tokGrp rest depth (c != ']') (c :: acc)
      else if c = '[' then tokGrp rest depth true (c :: acc)
      else if c = '(' then tokGrp rest (depth + 1) false (c :: acc)
      else if c = ')' then
        if depth ≤ 1 then (tokTop rest).map (Tok.grp acc.reverse :: ·)
        else tokGrp rest (depth - 1) false (c :: acc)
      else tokGrp rest depth false (c :: acc) := by
  rw [tokGrp.eq_def]; simp [h]

theorem gscan_nil (depth : Nat) (inCls : Bool) : gscan [] depth inCls = some (depth, inCls) := by rw [gscan]

theorem gscan_esc1 (depth : Nat) (inCls : Bool) : gscan ['\\'] depth inCls = none := by
  rw [gscan.eq_def]; simp

theorem gscan_esc (d : Char) (rest : List Char) (depth : Nat) (inCls : Bool) :
    gscan ('\\' :: d :: rest) depth inCls = gscan rest depth inCls := by
  rw [gscan.eq_def]; simp

theorem gscan_cons {c : Char} (h : c ≠ '\\') (rest : List Char) (depth : Nat) (inCls : Bool) :
    gscan (c :: rest) depth inCls =
      if inCls then gscan rest depth (c != ']')
      else if c = '[' then gscan rest depth true
      else if c = '(' then gscan rest (depth + 1) false
      else if c = ')' then
        if depth ≤ 1 then none else gscan rest (depth - 1) false
      else gscan rest depth false := by
  rw [gscan.eq_def]; simp [h]

/-- `tokGrp` runs the machine `gscan` over a group body. -/
theorem tokGrp_gscan_aux (n : Nat) : ∀ (body : List Char) (d : Nat) (k : Bool) (d' : Nat) (k' : Bool)
    (rest acc : List Char), body.length ≤ n → gscan body d k = some (d', k') →
    tokGrp (body ++ rest) d k acc = tokGrp rest d' k' (body.reverse ++ acc) := by
  induction n with
  | zero =>
    intro body d k d' k' rest acc hl h
    have : body = [] := by cases body <;> simp_all
    subst this
    rw [gscan_nil] at h; simp at h; obtain ⟨rfl, rfl⟩ := h; simp
  | succ n ih =>
    intro body d k d' k' rest acc hl h
    cases body with
    | nil => rw [gscan_nil] at h; simp at h; obtain ⟨rfl, rfl⟩ := h; simp
    | cons c body =>
      by_cases hc : c = '\\'
      · subst hc
        cases body with
        | nil => rw [gscan_esc1] at h; simp at h
        | cons e body =>
          rw [gscan_esc] at h
          simp only [List.cons_append]
          rw [tokGrp_esc, ih body d k d' k' rest _ (by simp at hl; omega) h]
          simp
      · rw [gscan_cons hc] at h
        simp only [List.cons_append]
        rw [tokGrp_cons hc]
        have hl' : body.length ≤ n := by simp at hl; omega
        have fin : ∀ (d2 : Nat) (k2 : Bool), gscan body d2 k2 = some (d', k') →
            tokGrp (body ++ rest) d2 k2 (c :: acc) = tokGrp rest d' k' ((c :: body).reverse ++ acc) := by
          intro d2 k2 h2
          have := ih body d2 k2 d' k' rest (c :: acc) hl' h2
          simpa using this
        split at h
        · next hk => simp only [hk, if_true]; exact fin _ _ h
        · next hk =>
          simp only [hk, if_false]
          split at h
          · next h1 => simp only [h1, if_true]; rw [← h1]; exact fin _ _ h
          · next h1 =>
            simp only [h1, if_false]
            split at h
            · next h2 => simp only [h2, if_true]; rw [← h2]; exact fin _ _ h
            · next h2 =>
              simp only [h2, if_false]
              split at h
              · next h3 =>
                simp only [h3, if_true]
                split at h
                · simp at h
                · next h4 => simp only [h4, if_false]; rw [← h3]; exact fin _ _ h
              · next h3 => simp only [h3, if_false]; exact fin _ _ h

theorem tokGrp_gscan {body : List Char} {d : Nat} {k : Bool} {d' : Nat} {k' : Bool}
    (h : gscan body d k = some (d', k')) (rest acc : List Char) :
    tokGrp (body ++ rest) d k acc = tokGrp rest d' k' (body.reverse ++ acc) :=
  tokGrp_gscan_aux body.length body d k d' k' rest acc (Nat.le_refl _) h

/-- One good token in front of anything is split off as itself. -/
theorem tokTop_render_tok {t : Tok} (h : t.good = true) (rest : List Char) :
    tokTop (t.render ++ rest) = (tokTop rest).map (t :: ·) := by
  cases t with
  | lit c =>
    unfold Tok.render
    cases hm : isMeta c with
    | true => simp only [hm, if_true, List.cons_append, List.nil_append]; rw [tokTop_esc]; simp [hm]
    | false => simp only [hm, Bool.false_eq_true, if_false, List.cons_append, List.nil_append]; rw [tokTop_plain hm]
  | grp b =>
    simp only [Tok.good, Bool.and_eq_true, realClosed, beq_iff_eq] at h
    simp only [Tok.render, List.cons_append, List.append_assoc]
    rw [tokTop_open, tokGrp_gscan h.1, tokGrp_cons (by decide)]
    simp

theorem tokTop_render {ts : List Tok} (h : ∀ t ∈ ts, t.good = true) (rest : List Char) :
    tokTop (render ts ++ rest) = (tokTop rest).map (ts ++ ·) := by
  induction ts with
  | nil => simp [render]
  | cons t ts ih =>
    have : render (t :: ts) = t.render ++ render ts := by simp [render]
    rw [this, List.append_assoc, tokTop_render_tok (h t (by simp)), ih fun t' ht' => h t' (by simp [ht'])]
    cases tokTop rest <;> simp

theorem tokTop_render' {ts : List Tok} (h : ∀ t ∈ ts, t.good = true) : tokTop (render ts) = some ts := by
  have := tokTop_render h []
  simpa [tokTop_nil] using this

theorem goodPatB_iff (p : List Char) : goodPatB p = true ↔ GoodPat p := by
  unfold goodPatB GoodPat
  constructor
  · intro h
    split at h
    · next ts _ =>
      simp only [Bool.and_eq_true, List.all_eq_true, beq_iff_eq] at h
      exact ⟨ts, h.2.symm, h.1⟩
    · simp at h
  · rintro ⟨ts, rfl, hg⟩
    rw [tokTop_render' hg]
    simp only [Bool.and_eq_true, List.all_eq_true, beq_self_eq_true, and_true]
    exact hg

/-! ### The tree's scanner on rendered tokens -/

theorem closedFrom_single (s : St) (c : Char) : closedFrom s [c] = (s.step c == b0) := by
  rw [closedFrom]

theorem closedFrom_cons2 (s : St) (c d : Char) (rest : List Char) :
    closedFrom s (c :: d :: rest) = (!(s.step c).atBoundary && closedFrom (s.step c) (d :: rest)) := by
  rw [closedFrom]; simp

/-- `closedFrom`: the scanner is back at `(0,false)` exactly at the end, and at no earlier position. -/
theorem closedFrom_spec (cs : List Char) (s : St) (h : closedFrom s cs = true) :
    scan s cs = b0 ∧ ∀ k, 0 < k → k < cs.length → (scan s (cs.take k)).atBoundary = false := by
  induction cs generalizing s with
  | nil => simp [closedFrom] at h
  | cons c rest ih =>
    cases rest with
    | nil =>
      rw [closedFrom_single] at h
      refine ⟨by simpa using h, ?_⟩
      intro k hk hk2; simp at hk2; omega
    | cons d rest' =>
      rw [closedFrom_cons2] at h
      simp only [Bool.and_eq_true, Bool.not_eq_true'] at h
      obtain ⟨h1, h2⟩ := ih (s.step c) h.2
      refine ⟨by simpa using h1, ?_⟩
      intro k hk hk2
      cases k with
      | zero => omega
      | succ k =>
        cases k with
        | zero => simpa using h.1
        | succ k =>
          have := h2 (k + 1) (by omega) (by simp at hk2 ⊢; omega)
          simpa using this

theorem tok_closed {t : Tok} (h : t.good = true) : closedFrom b0 t.render = true := by
  cases t with
  | lit c =>
    unfold Tok.render
    cases hm : isMeta c with
    | true =>
      simp only [hm, if_true]
      rw [closedFrom_cons2, closedFrom_single]
      simp [St.step, b0, St.atBoundary]
    | false =>
      have h1 : c ≠ '(' := by intro e; subst e; simp [isMeta] at hm
      have h2 : c ≠ ')' := by intro e; subst e; simp [isMeta] at hm
      have h3 : c ≠ '\\' := by intro e; subst e; simp [isMeta] at hm
      simp only [hm, Bool.false_eq_true, if_false]
      rw [closedFrom_single]
      simp [St.step, b0, h1, h2, h3]
  | grp b =>
    simp only [Tok.good, Bool.and_eq_true] at h
    exact h.2

theorem render_cons (t : Tok) (ts : List Tok) : render (t :: ts) = t.render ++ render ts := by
  simp [render]

theorem render_append (a b : List Tok) : render (a ++ b) = render a ++ render b := by
  simp [render]

theorem tok_render_ne_nil (t : Tok) : t.render ≠ [] := by
  cases t with
  | lit c => simp only [Tok.render]; split <;> simp
  | grp b => simp [Tok.render]

/-- A scanner boundary inside the rendering of good tokens is a token boundary. -/
theorem boundary_is_token_boundary (ts : List Tok) (hg : ∀ t ∈ ts, t.good = true) (n : Nat)
    (hn : n ≤ (render ts).length) (hb : (scan b0 ((render ts).take n)).atBoundary = true) :
    ∃ pre suf, ts = pre ++ suf ∧ (render ts).take n = render pre := by
  induction ts generalizing n with
  | nil => exact ⟨[], [], rfl, by simp [render]⟩
  | cons t ts ih =>
    have hc := closedFrom_spec _ _ (tok_closed (hg t (by simp)))
    rw [render_cons] at hb hn ⊢
    by_cases h0 : n = 0
    · subst h0; exact ⟨[], t :: ts, rfl, by simp [render]⟩
    by_cases hlt : n < t.render.length
    · have := hc.2 n (by omega) hlt
      rw [List.take_append_of_le_length (by omega)] at hb
      rw [this] at hb; simp at hb
    · have hge : t.render.length ≤ n := by omega
      have htake : (t.render ++ render ts).take n = t.render ++ (render ts).take (n - t.render.length) := by
        rw [List.take_append]; simp [List.take_of_length_le hge]
      rw [htake, scan_append, hc.1] at hb
      obtain ⟨pre, suf, e, hp⟩ := ih (fun t' ht' => hg t' (by simp [ht'])) (n - t.render.length)
        (by simp at hn; omega) hb
      refine ⟨t :: pre, suf, by simp [e], ?_⟩
      rw [htake, hp, render_cons]

/-- Every boundary prefix of a rule-shaped pattern is the rendering of a token prefix. -/
theorem bpre_render {ts : List Tok} (hg : ∀ t ∈ ts, t.good = true) {q : List Char}
    (hb : BPre q (render ts)) : ∃ pre suf, ts = pre ++ suf ∧ q = render pre := by
  have hq : q = (render ts).take q.length := List.prefix_iff_eq_take.1 hb.1
  have := boundary_is_token_boundary ts hg q.length hb.1.length_le (by rw [← hq]; exact hb.2)
  obtain ⟨pre, suf, e, hp⟩ := this
  exact ⟨pre, suf, e, by rw [hq, hp]⟩

/-! ### Compilation is compositional on tokens -/

theorem mapOpt_append {α β : Type} (f : α → Option β) (a b : List α) {rs : List β}
    (h : mapOpt f (a ++ b) = some rs) :
    ∃ ra rb, mapOpt f a = some ra ∧ mapOpt f b = some rb ∧ rs = ra ++ rb := by
  induction a generalizing rs with
  | nil => exact ⟨[], rs, rfl, by simpa using h, rfl⟩
  | cons x a ih =>
    simp only [List.cons_append, mapOpt] at h ⊢
    cases hx : f x with
    | none => simp [hx] at h
    | some y =>
      simp only [hx] at h ⊢
      cases hm : mapOpt f (a ++ b) with
      | none => simp [hm] at h
      | some rs' =>
        simp only [hm, Option.map_some, Option.some.injEq] at h
        obtain ⟨ra, rb, h1, h2, h3⟩ := ih hm
        exact ⟨y :: ra, rb, by simp [h1], h2, by rw [← h, h3]; rfl⟩

theorem compileStr_render (G : List Char → Option Re) {ts : List Tok} (hg : ∀ t ∈ ts, t.good = true) :
    compileStr G (render ts) = (mapOpt (Tok.re G) ts).map catAll := by
  simp [compileStr, tokTop_render' hg]

/-- **The law the tree needs from the engine**, for every meaning `G` of group bodies: on a rule-shaped
pattern, if `^p$` matches `s` then `^q` compiles and matches `s` for every (non-empty) boundary prefix
`q` of `p`. -/
theorem prefixSound_engineOf (G : List Char → Option Re) : Rio.Tree.PrefixSound (engineOf G) GoodPat := by
  intro ic p q s hgood hq hb hfull
  obtain ⟨ts, rfl, hg⟩ := hgood
  obtain ⟨pre, suf, rfl, rfl⟩ := bpre_render hg hb
  have hgpre : ∀ t ∈ pre, t.good = true := fun t ht => hg t (by simp [ht])
  simp only [engineOf, compileStr_render G hg, compileStr_render G hgpre] at hfull ⊢
  cases hm : mapOpt (Tok.re G) (pre ++ suf) with
  | none => simp [hm] at hfull
  | some rs =>
    obtain ⟨ra, rb, h1, h2, rfl⟩ := mapOpt_append _ _ _ hm
    simp only [hm, Option.map_some, h1] at hfull ⊢
    rw [fmatch_iff, lang_catAll_append] at hfull
    obtain ⟨u, v, e, hu, _⟩ := hfull
    exact (pmatch_iff _ _).2 ⟨u, v, e, hu⟩

end Rio.Regex
