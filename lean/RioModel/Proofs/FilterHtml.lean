/-
The html stage is conservative: one call of `HtmlFilterBodyAction::filter` relates `held ++ input` to
`output ++ held'` by `Edit` (insertions of the visitor's value / substitutions of `<`…`>` spans by it).
Used by C04 (`insert_only_conservative`, `replace_spans`, `passthrough_on_error`).

Tokenizer laws used (hypotheses, discharged for the concrete tokenizer in `Proofs/FilterTok.lean`):
  `Lossless tk`  the raw bytes of the tokens followed by the remainder are the input (C16 `lossless`)
  `TagSpan tk`   the raw bytes of a tag token start with `<` and end with `>` (only needed for replace)
-/
import RioModel.Proofs.Filter
import RioModel.Proofs.FilterStreamLaws
set_option linter.unusedSimpArgs false
set_option linter.unusedVariables false

namespace Rio.Filter

/-! ### tokenizer laws -/

def Lossless (tk : Tokenize) : Prop := ∀ d, rawsOf (tk d).1 ++ (tk d).2 = d

/-- both tokenizer entry points lose nothing: `Tokenizer::new` (append_child / prepend_child) and
`Tokenizer::new_fragment` (the filter loop) -/
structure LosslessAll (tk : Tokenize) : Prop where
  plain : Lossless tk
  stream : LosslessS tk

def isTagKind (k : TokKind) : Bool := k == .startTag || k == .endTag || k == .selfClosing

def TagSpan (tk : Tokenize) : Prop := ∀ d t, t ∈ (tk d).1 → isTagKind t.kind = true → IsSpan t.raw

/-! ### what a visitor may insert / substitute -/

def visIns (v : Visitor) : List Bytes :=
  match v.kind with
  | .replace => []
  | _ => [v.content]

def visRep (v : Visitor) : List Bytes :=
  match v.kind with
  | .replace => [v.content]
  | _ => []

/-- the configuration of a visitor that never changes -/
def Visitor.static (v : Visitor) : VKind × Option Bytes × Bytes := (v.kind, v.sel, v.content)

theorem Visitor.advance_static (v : Visitor) : v.advance.static = v.static := by
  unfold Visitor.advance Visitor.static; split <;> rfl

theorem Visitor.retreat_static (v : Visitor) : v.retreat.static = v.static := by
  unfold Visitor.retreat Visitor.static; split <;> rfl

theorem Visitor.enter_static (v : Visitor) (d : Bytes) : (v.enter d).2.static = v.static := by
  unfold Visitor.enter
  split
  · exact v.advance_static
  · cases hk : v.kind <;> simp [hk] <;> (try split) <;> simp [Visitor.static, hk]

theorem Visitor.leaveMove_static (v : Visitor) (g : Bool) : (v.leaveMove g).2.static = v.static := by
  unfold Visitor.leaveMove
  split
  · exact v.retreat_static
  · rfl

theorem visIns_of_static {v w : Visitor} (h : v.static = w.static) : visIns v = visIns w := by
  simp [Visitor.static] at h
  simp [visIns, h.1, h.2.2]

theorem visRep_of_static {v w : Visitor} (h : v.static = w.static) : visRep v = visRep w := by
  simp [Visitor.static] at h
  simp [visRep, h.1, h.2.2]

/-! ### `append_child` / `prepend_child` insert one whole copy of the value or nothing -/

theorem appendChildGo_edit (child : Bytes) (R : List Bytes) :
    ∀ (ts : List Tok) (rest : Bytes) (level : Int) (out r : Bytes),
      appendChildGo child ts rest level out = some r → Edit [child] R (out ++ rawsOf ts ++ rest) r := by
  intro ts
  induction ts with
  | nil => intro rest level out r h; simp [appendChildGo] at h
  | cons t ts ih =>
    intro rest level out r h
    rw [appendChildGo] at h
    simp only at h
    generalize (if t.kind = TokKind.startTag then (if isVoid t.name = true then level else level + 1) else level) = l1 at h
    by_cases he : t.kind = TokKind.endTag
    · rw [if_pos he] at h
      by_cases hz : l1 - 1 = 0
      · rw [if_pos hz] at h
        injection h with h
        subst h
        have := Edit.ins1 (I := [child]) (R := R) (v := child) (by simp) out (t.raw ++ rawsOf ts ++ rest)
        simpa [rawsOf_cons] using this
      · rw [if_neg hz] at h
        have := ih _ _ _ _ h
        simpa [rawsOf_cons] using this
    · rw [if_neg he] at h
      have := ih _ _ _ _ h
      simpa [rawsOf_cons] using this

theorem appendChild_edit {tk : Tokenize} (hl : LosslessAll tk) (content child : Bytes) (R : List Bytes) :
    Edit [child] R content (appendChild tk content child) := by
  unfold appendChild
  have hls := hl.plain content
  cases hg : appendChildGo child (tk content).1 (tk content).2 0 [] with
  | none => simp [hg]; exact Edit.refl _
  | some r =>
    have := appendChildGo_edit child R _ _ _ _ _ hg
    simp [hls] at this
    simpa [hg] using this

theorem prependChildGo_edit (child : Bytes) (R : List Bytes) :
    ∀ (ts : List Tok) (rest out r : Bytes),
      prependChildGo child ts rest out = some r → Edit [child] R (out ++ rawsOf ts ++ rest) r := by
  intro ts
  induction ts with
  | nil => intro rest out r h; simp [prependChildGo] at h
  | cons t ts ih =>
    intro rest out r h
    rw [prependChildGo] at h
    split at h
    · injection h with h
      subst h
      have := Edit.ins1 (I := [child]) (R := R) (v := child) (by simp) (out ++ t.raw) (rawsOf ts ++ rest)
      simpa [rawsOf_cons] using this
    · have := ih _ _ _ h
      simpa [rawsOf_cons] using this

theorem prependChild_edit {tk : Tokenize} (hl : LosslessAll tk) (content child : Bytes) (R : List Bytes) :
    Edit [child] R content (prependChild tk content child) := by
  unfold prependChild
  have hls := hl.plain content
  cases hg : prependChildGo child (tk content).1 (tk content).2 [] with
  | none => simp [hg]; exact Edit.refl _
  | some r =>
    have := prependChildGo_edit child R _ _ _ _ hg
    simp [hls] at this
    simpa [hg] using this

/-! ### `enter` / `leave` -/

theorem edit_ins_front' (c x : Bytes) (R : List Bytes) : Edit [c] R x (c ++ x) := by
  have := Edit.ins1 (I := [c]) (R := R) (v := c) (by simp) [] x
  simpa using this

theorem edit_ins_back' (c x : Bytes) (R : List Bytes) : Edit [c] R x (x ++ c) := by
  have := Edit.ins1 (I := [c]) (R := R) (v := c) (by simp) x []
  simpa using this

theorem edit_rep_whole (c d : Bytes) (I : List Bytes) (hs : IsSpan d) : Edit I [c] d c := by
  have := Edit.rep1 (I := I) (R := [c]) (v := c) (s := d) (by simp) hs [] []
  simpa using this

theorem Visitor.leave_static (tk : Tokenize) (ev : Bytes → Bytes → Bool) (v : Visitor) (d : Bytes) :
    (v.leave tk ev d).2.static = v.static := by
  unfold Visitor.leave
  cases hk : v.kind <;> simp only [hk]
  · have := v.leaveMove_static true
    repeat' split
    all_goals simpa using this
  · have := v.leaveMove_static true
    repeat' split
    all_goals (simp [Visitor.static] at this ⊢; try exact this)
  · have := v.leaveMove_static (!v.isBuffering)
    repeat' split
    all_goals (simp [Visitor.static] at this ⊢; try exact this)

theorem Visitor.leave_edit {tk : Tokenize} (hl : LosslessAll tk) (ev : Bytes → Bytes → Bool) (v : Visitor) (d : Bytes)
    (hs : v.kind = .replace → IsSpan d) :
    Edit (visIns v) (visRep v) d (v.leave tk ev d).1.2.2 := by
  unfold Visitor.leave
  cases hk : v.kind <;> simp only [hk, visIns, visRep]
  · repeat' split
    all_goals first
      | exact Edit.refl _
      | exact appendChild_edit hl _ _ _
      | exact edit_ins_front' _ _ _
  · repeat' split
    all_goals first
      | exact Edit.refl _
      | exact prependChild_edit hl _ _ _
  · repeat' split
    all_goals first
      | exact Edit.refl _
      | exact edit_rep_whole _ _ _ (hs hk)

/-- `enter` leaves the data alone or (prepend without selector, last element) appends the value -/
theorem Visitor.enter_edit (v : Visitor) (d : Bytes) :
    Edit (visIns v) (visRep v) d (v.enter d).1.2.2.2 := by
  unfold Visitor.enter
  split
  · exact Edit.refl _
  · cases hk : v.kind <;> simp only [hk, visIns, visRep]
    · exact Edit.refl _
    · split
      · exact edit_ins_back' _ _ _
      · exact Edit.refl _
    · exact Edit.refl _

/-! ### the ledger: bytes emitted so far followed by the buffered elements, outermost first -/

def flat (stack : List Link) : Bytes := stack.reverse.flatMap (·.buffer)

@[simp] theorem flat_nil : flat [] = [] := rfl
theorem flat_cons (l : Link) (rest : List Link) : flat (l :: rest) = flat rest ++ l.buffer := by
  simp [flat]

def ledger (s : HtmlSt) (out : Bytes) : Bytes := out ++ flat s.stack

/-- every buffered element starts with `<` (its start tag) -/
def HInv (st : List Link) : Prop := ∀ l ∈ st, l.buffer.head? = some 60

theorem endHtml_eq (s : HtmlSt) : endHtml s = flat s.stack ++ s.last := rfl

theorem onStart_eq (s : HtmlSt) (name data : Bytes) :
    onStart s name data =
      if s.enter = some name then
        let r := s.visitor.enter data
        let s1 : HtmlSt := { s with enter := r.1.1, leave := r.1.2.1, visitor := r.2 }
        if r.1.2.2.1 then ({ s1 with stack := ⟨[], name⟩ :: s1.stack }, r.1.2.2.2) else (s1, r.1.2.2.2)
      else (s, data) := by
  unfold onStart
  split <;> rfl

theorem onEnd_eq (tk : Tokenize) (ev : Bytes → Bytes → Bool) (s : HtmlSt) (name data : Bytes) :
    onEnd tk ev s name data =
      let tm := topMatches s.stack name
      let buffer := if tm then topBuffer s.stack ++ data else data
      let r := s.visitor.leave tk ev buffer
      let s1 : HtmlSt := if s.leave = some name then { s with enter := r.1.1, leave := r.1.2.1, visitor := r.2 } else s
      let b1 := if s.leave = some name then r.1.2.2 else buffer
      if tm then ({ s1 with stack := s1.stack.tail }, b1) else (s1, b1) := by
  unfold onEnd
  simp only
  split <;> split <;> rfl

theorem head?_append_of_head? {a : Bytes} {x : Nat} (h : a.head? = some x) (b : Bytes) : (a ++ b).head? = some x := by
  cases a with
  | nil => simp at h
  | cons y ys => simpa using h

theorem isSpan_append {b d : Bytes} (hb : b = [] ∨ b.head? = some 60) (hd : IsSpan d) : IsSpan (b ++ d) := by
  have hdne : d ≠ [] := by
    intro h; rw [h] at hd; simp [IsSpan] at hd
  refine ⟨?_, ?_⟩
  · rcases hb with hb | hb
    · rw [hb]; simpa using hd.1
    · exact head?_append_of_head? hb d
  · rw [List.getLast?_append, hd.2]; rfl

theorem onStart_spec (s : HtmlSt) (name data : Bytes) :
    (onStart s name data).1.visitor.static = s.visitor.static ∧
    (onStart s name data).1.last = s.last ∧
    ((onStart s name data).1.stack = s.stack ∨ (onStart s name data).1.stack = ⟨[], name⟩ :: s.stack) ∧
    Edit (visIns s.visitor) (visRep s.visitor) data (onStart s name data).2 ∧
    (s.visitor.kind = .replace → (onStart s name data).2 = data) ∧
    (∀ x, data.head? = some x → (onStart s name data).2.head? = some x) := by
  rw [onStart_eq]
  by_cases he : s.enter = some name
  · rw [if_pos he]
    simp only
    have hst := s.visitor.enter_static data
    have hed := s.visitor.enter_edit data
    have hrep : s.visitor.kind = .replace → (s.visitor.enter data).1.2.2.2 = data := by
      intro hk
      unfold Visitor.enter
      split
      · rfl
      · simp [hk]
    have hhead : ∀ x, data.head? = some x → (s.visitor.enter data).1.2.2.2.head? = some x := by
      intro x hx
      unfold Visitor.enter
      split
      · exact hx
      · cases hk : s.visitor.kind <;> simp only [hk]
        · exact hx
        · split
          · exact head?_append_of_head? hx _
          · exact hx
        · exact hx
    by_cases hb : (s.visitor.enter data).1.2.2.1 = true
    · rw [if_pos hb]
      exact ⟨hst, rfl, Or.inr rfl, hed, hrep, hhead⟩
    · rw [if_neg hb]
      exact ⟨hst, rfl, Or.inl rfl, hed, hrep, hhead⟩
  · rw [if_neg he]
    exact ⟨rfl, rfl, Or.inl rfl, Edit.refl _, fun _ => rfl, fun _ h => h⟩

theorem onEnd_spec {tk : Tokenize} (hl : LosslessAll tk) (ev : Bytes → Bytes → Bool) (s : HtmlSt) (name data : Bytes)
    (hs : s.visitor.kind = .replace →
      IsSpan (if topMatches s.stack name then topBuffer s.stack ++ data else data)) :
    (onEnd tk ev s name data).1.visitor.static = s.visitor.static ∧
    (onEnd tk ev s name data).1.last = s.last ∧
    (onEnd tk ev s name data).1.stack = (if topMatches s.stack name then s.stack.tail else s.stack) ∧
    Edit (visIns s.visitor) (visRep s.visitor)
      (if topMatches s.stack name then topBuffer s.stack ++ data else data) (onEnd tk ev s name data).2 := by
  rw [onEnd_eq]
  simp only
  generalize hbuf : (if topMatches s.stack name = true then topBuffer s.stack ++ data else data) = buffer at hs ⊢
  have hst := s.visitor.leave_static tk ev buffer
  have hed := s.visitor.leave_edit hl ev buffer hs
  by_cases hlv : s.leave = some name <;> by_cases htm : topMatches s.stack name = true
  · rw [if_pos hlv, if_pos hlv, if_pos htm, if_pos htm]; exact ⟨hst, rfl, rfl, hed⟩
  · rw [if_pos hlv, if_pos hlv, if_neg htm, if_neg htm]; exact ⟨hst, rfl, rfl, hed⟩
  · rw [if_neg hlv, if_neg hlv, if_pos htm, if_pos htm]; exact ⟨rfl, rfl, rfl, Edit.refl _⟩
  · rw [if_neg hlv, if_neg hlv, if_neg htm, if_neg htm]; exact ⟨rfl, rfl, rfl, Edit.refl _⟩

/-! ### `push`, then one iteration of the token loop -/

theorem push_fields (s : HtmlSt) (out d : Bytes) :
    (push s out d).1.visitor = s.visitor ∧ (push s out d).1.last = s.last ∧
    (push s out d).1.enter = s.enter ∧ (push s out d).1.leave = s.leave := by
  unfold push; split <;> simp

theorem ledger_push (s : HtmlSt) (out d : Bytes) :
    ledger (push s out d).1 (push s out d).2 = ledger s out ++ d := by
  unfold push ledger
  split
  · rename_i l rest h; simp [h, flat_cons]
  · rename_i h; simp [h]

theorem push_HInv (s : HtmlSt) (out d : Bytes)
    (hw : ∀ l ∈ s.stack.head?, l.buffer.head? = some 60 ∨ (l.buffer = [] ∧ d.head? = some 60))
    (ht : HInv s.stack.tail) : HInv (push s out d).1.stack := by
  unfold push
  split
  · rename_i l rest h
    intro l' hl'
    simp at hl'
    rcases hl' with hl' | hl'
    · subst hl'
      have := hw l (by simp [h])
      rcases this with h1 | ⟨h1, h2⟩
      · exact head?_append_of_head? h1 d
      · simp [h1, h2]
    · exact ht l' (by simp [h, hl'])
  · rename_i h; simp [h, HInv]

theorem HInv_tail {st : List Link} (h : HInv st) : HInv st.tail := by
  intro l hl; exact h l (List.mem_of_mem_tail hl)

theorem HInv_head {st : List Link} (h : HInv st) : ∀ l ∈ st.head?, l.buffer.head? = some 60 := by
  intro l hl
  cases st with
  | nil => simp at hl
  | cons a rest => simp at hl; subst hl; exact h _ (by simp)

section
variable {tk : Tokenize} (hl : LosslessAll tk) (ev : Bytes → Bytes → Bool)
include hl

theorem onEnd_push_spec (s : HtmlSt) (out name data : Bytes)
    (hsp : s.visitor.kind = .replace → IsSpan data)
    (hw : s.visitor.kind = .replace →
      ∀ l ∈ s.stack.head?, l.buffer.head? = some 60 ∨ (l.buffer = [] ∧ l.tagName = name))
    (ht : s.visitor.kind = .replace → HInv s.stack.tail) :
    (push (onEnd tk ev s name data).1 out (onEnd tk ev s name data).2).1.visitor.static = s.visitor.static ∧
    (push (onEnd tk ev s name data).1 out (onEnd tk ev s name data).2).1.last = s.last ∧
    (s.visitor.kind = .replace → HInv (push (onEnd tk ev s name data).1 out (onEnd tk ev s name data).2).1.stack) ∧
    Edit (visIns s.visitor) (visRep s.visitor) (ledger s out ++ data)
      (ledger (push (onEnd tk ev s name data).1 out (onEnd tk ev s name data).2).1
              (push (onEnd tk ev s name data).1 out (onEnd tk ev s name data).2).2) := by
  -- the span hypothesis of `onEnd_spec`
  have hspan : s.visitor.kind = .replace →
      IsSpan (if topMatches s.stack name then topBuffer s.stack ++ data else data) := by
    intro hk
    split
    · apply isSpan_append _ (hsp hk)
      cases hst : s.stack with
      | nil => simp [topBuffer]
      | cons l rest =>
        have := hw hk l (by simp [hst])
        simp only [topBuffer]
        rcases this with h | ⟨h, _⟩
        · exact Or.inr h
        · exact Or.inl h
    · exact hsp hk
  obtain ⟨h1, h2, h3, h4⟩ := onEnd_spec hl ev s name data hspan
  generalize onEnd tk ev s name data = e at h1 h2 h3 h4 ⊢
  obtain ⟨pv, pl, _, _⟩ := push_fields e.1 out e.2
  refine ⟨by rw [pv]; exact h1, by rw [pl]; exact h2, ?_, ?_⟩
  · intro hk
    by_cases htm : topMatches s.stack name = true
    · rw [if_pos htm] at h3
      apply push_HInv
      · intro l hl'
        rw [h3] at hl'
        exact Or.inl (HInv_head (ht hk) l hl')
      · rw [h3]; exact HInv_tail (ht hk)
    · rw [if_neg htm] at h3
      apply push_HInv
      · intro l hl'
        rw [h3] at hl'
        rcases hw hk l hl' with h | ⟨_, hn⟩
        · exact Or.inl h
        · -- an empty top link named `name` would have matched
          exfalso
          apply htm
          cases hst : s.stack with
          | nil => simp [hst] at hl'
          | cons a rest =>
            simp [hst] at hl'
            subst hl'
            simp [topMatches, hn]
      · rw [h3]; exact ht hk
  · rw [ledger_push]
    unfold ledger
    by_cases htm : topMatches s.stack name = true
    · rw [if_pos htm] at h3 h4
      cases hst : s.stack with
      | nil => simp [hst, topMatches] at htm
      | cons l rest =>
        rw [hst] at h3 h4
        simp only [topBuffer, List.tail_cons] at h3 h4
        rw [h3, flat_cons]
        have := Edit.appL (out ++ flat rest) h4
        simpa using this
    · rw [if_neg htm] at h3 h4
      rw [h3]
      exact Edit.appL _ h4

end

theorem stepTok_start (tk : Tokenize) (ev : Bytes → Bytes → Bool) (s : HtmlSt) (out : Bytes) (t : Tok)
    (h : t.kind = .startTag) :
    stepTok tk ev (s, out) t =
      if isVoid t.name then
        push (onEnd tk ev (onStart s t.name t.raw).1 t.name (onStart s t.name t.raw).2).1 out
             (onEnd tk ev (onStart s t.name t.raw).1 t.name (onStart s t.name t.raw).2).2
      else push (onStart s t.name t.raw).1 out (onStart s t.name t.raw).2 := by
  unfold stepTok
  simp only [h]
  split <;> rfl

theorem stepTok_end (tk : Tokenize) (ev : Bytes → Bytes → Bool) (s : HtmlSt) (out : Bytes) (t : Tok)
    (h : t.kind = .endTag) :
    stepTok tk ev (s, out) t = push (onEnd tk ev s t.name t.raw).1 out (onEnd tk ev s t.name t.raw).2 := by
  unfold stepTok
  simp only [h]

theorem stepTok_self (tk : Tokenize) (ev : Bytes → Bytes → Bool) (s : HtmlSt) (out : Bytes) (t : Tok)
    (h : t.kind = .selfClosing) :
    stepTok tk ev (s, out) t =
      push (onEnd tk ev (onStart s t.name t.raw).1 t.name (onStart s t.name t.raw).2).1 out
           (onEnd tk ev (onStart s t.name t.raw).1 t.name (onStart s t.name t.raw).2).2 := by
  unfold stepTok
  simp only [h]

theorem stepTok_other (tk : Tokenize) (ev : Bytes → Bytes → Bool) (s : HtmlSt) (out : Bytes) (t : Tok)
    (h : isTagKind t.kind = false) :
    stepTok tk ev (s, out) t = push s out t.raw := by
  unfold stepTok
  cases hk : t.kind <;> simp [hk, isTagKind] at h ⊢

theorem kind_of_static {v w : Visitor} (h : v.static = w.static) : v.kind = w.kind := by
  simp [Visitor.static] at h; exact h.1

section
variable {tk : Tokenize} (hl : LosslessAll tk) (ev : Bytes → Bytes → Bool)
include hl

theorem start_end_push_spec (s : HtmlSt) (out : Bytes) (t : Tok)
    (hspan : s.visitor.kind = .replace → IsSpan t.raw)
    (hinv : s.visitor.kind = .replace → HInv s.stack) :
    let a := onStart s t.name t.raw
    let e := onEnd tk ev a.1 t.name a.2
    (push e.1 out e.2).1.visitor.static = s.visitor.static ∧
    (push e.1 out e.2).1.last = s.last ∧
    (s.visitor.kind = .replace → HInv (push e.1 out e.2).1.stack) ∧
    Edit (visIns s.visitor) (visRep s.visitor) (ledger s out ++ t.raw) (ledger (push e.1 out e.2).1 (push e.1 out e.2).2) := by
  intro a e
  obtain ⟨a_static, a_last, a_stack, a_edit, a_rep, a_head⟩ := onStart_spec s t.name t.raw
  have hk : a.1.visitor.kind = s.visitor.kind := kind_of_static a_static
  have hflat : flat a.1.stack = flat s.stack := by
    rcases a_stack with h | h
    · show flat (onStart s t.name t.raw).1.stack = _; rw [h]
    · show flat (onStart s t.name t.raw).1.stack = _; rw [h, flat_cons]; simp
  have := onEnd_push_spec hl ev a.1 out t.name a.2
    (by intro h; rw [hk] at h; show IsSpan (onStart s t.name t.raw).2; rw [a_rep h]; exact hspan h)
    (by
      intro h l hl'
      rw [hk] at h
      rcases a_stack with hs | hs
      · left; apply HInv_head (hinv h); show l ∈ s.stack.head?
        have : a.1.stack = s.stack := hs
        rw [← this]; exact hl'
      · right
        have : a.1.stack = ⟨[], t.name⟩ :: s.stack := hs
        rw [this] at hl'
        simp at hl'
        subst hl'
        exact ⟨rfl, rfl⟩)
    (by
      intro h
      rw [hk] at h
      rcases a_stack with hs | hs
      · have : a.1.stack = s.stack := hs
        rw [this]; exact HInv_tail (hinv h)
      · have : a.1.stack = ⟨[], t.name⟩ :: s.stack := hs
        rw [this]; exact hinv h)
  obtain ⟨r1, r2, r3, r4⟩ := this
  refine ⟨r1.trans a_static, r2.trans a_last, fun h => r3 (hk ▸ h), ?_⟩
  rw [visIns_of_static a_static, visRep_of_static a_static] at r4
  have hled : ledger a.1 out = ledger s out := by unfold ledger; rw [hflat]
  rw [hled] at r4
  exact Edit.trans (Edit.appL _ a_edit) r4

theorem stepTok_spec (s : HtmlSt) (out : Bytes) (t : Tok)
    (hspan : s.visitor.kind = .replace → isTagKind t.kind = true → IsSpan t.raw)
    (hinv : s.visitor.kind = .replace → HInv s.stack) :
    (stepTok tk ev (s, out) t).1.visitor.static = s.visitor.static ∧
    (stepTok tk ev (s, out) t).1.last = s.last ∧
    (s.visitor.kind = .replace → HInv (stepTok tk ev (s, out) t).1.stack) ∧
    Edit (visIns s.visitor) (visRep s.visitor) (ledger s out ++ t.raw)
      (ledger (stepTok tk ev (s, out) t).1 (stepTok tk ev (s, out) t).2) := by
  cases hk : t.kind with
  | startTag =>
    rw [stepTok_start tk ev s out t hk]
    have hsp : s.visitor.kind = .replace → IsSpan t.raw := fun h => hspan h (by simp [hk, isTagKind])
    by_cases hv : isVoid t.name = true
    · rw [if_pos hv]
      exact start_end_push_spec hl ev s out t hsp hinv
    · rw [if_neg hv]
      obtain ⟨a_static, a_last, a_stack, a_edit, a_rep, a_head⟩ := onStart_spec s t.name t.raw
      generalize onStart s t.name t.raw = a at a_static a_last a_stack a_edit a_rep a_head ⊢
      obtain ⟨pv, pl, _, _⟩ := push_fields a.1 out a.2
      refine ⟨by rw [pv]; exact a_static, by rw [pl]; exact a_last, ?_, ?_⟩
      · intro h
        have hd : a.2.head? = some 60 := a_head _ (hsp h).1
        apply push_HInv
        · intro l hl'
          rcases a_stack with hs | hs
          · rw [hs] at hl'; exact Or.inl (HInv_head (hinv h) l hl')
          · rw [hs] at hl'; simp at hl'; subst hl'; exact Or.inr ⟨rfl, hd⟩
        · rcases a_stack with hs | hs
          · rw [hs]; exact HInv_tail (hinv h)
          · rw [hs]; exact hinv h
      · rw [ledger_push]
        have hflat : flat a.1.stack = flat s.stack := by
          rcases a_stack with h | h
          · rw [h]
          · rw [h, flat_cons]; simp
        unfold ledger
        rw [hflat]
        exact Edit.appL _ a_edit
  | endTag =>
    rw [stepTok_end tk ev s out t hk]
    have hsp : s.visitor.kind = .replace → IsSpan t.raw := fun h => hspan h (by simp [hk, isTagKind])
    exact onEnd_push_spec hl ev s out t.name t.raw hsp
      (fun h l hl' => Or.inl (HInv_head (hinv h) l hl')) (fun h => HInv_tail (hinv h))
  | selfClosing =>
    rw [stepTok_self tk ev s out t hk]
    have hsp : s.visitor.kind = .replace → IsSpan t.raw := fun h => hspan h (by simp [hk, isTagKind])
    exact start_end_push_spec hl ev s out t hsp hinv
  | text =>
    rw [stepTok_other tk ev s out t (by simp [hk, isTagKind])]
    obtain ⟨pv, pl, _, _⟩ := push_fields s out t.raw
    refine ⟨by rw [pv], pl, ?_, by rw [ledger_push]; exact Edit.refl _⟩
    intro h
    exact push_HInv s out t.raw (fun l hl' => Or.inl (HInv_head (hinv h) l hl')) (HInv_tail (hinv h))
  | other =>
    rw [stepTok_other tk ev s out t (by simp [hk, isTagKind])]
    obtain ⟨pv, pl, _, _⟩ := push_fields s out t.raw
    refine ⟨by rw [pv], pl, ?_, by rw [ledger_push]; exact Edit.refl _⟩
    intro h
    exact push_HInv s out t.raw (fun l hl' => Or.inl (HInv_head (hinv h) l hl')) (HInv_tail (hinv h))

end

/-! ### the whole call -/

theorem utf8Split_append {d a b : Bytes} (h : utf8Split d = some (a, b)) : a ++ b = d := by
  unfold utf8Split at h
  split at h
  · injection h with h; injection h with h1 h2; subst h1; subst h2; simp
  · injection h with h; injection h with h1 h2; subst h1; subst h2; simp
  · simp at h

theorem splitHeld_spec (ts : List Tok) :
    rawsOf (splitHeld ts).1 ++ (splitHeld ts).2 = rawsOf ts ∧ ∀ t ∈ (splitHeld ts).1, t ∈ ts := by
  unfold splitHeld
  split
  · rename_i t ht
    split
    · obtain ⟨ys, hys⟩ := List.getLast?_eq_some_iff.mp ht
      rw [hys]
      refine ⟨by simp [rawsOf_append, rawsOf], fun t' h' => ?_⟩
      simp at h'
      simp [h']
    · simp
  · rename_i ht
    simp at ht
    simp [ht]

section
variable {tk : Tokenize} (hl : LosslessAll tk) (ev : Bytes → Bytes → Bool)
include hl

theorem fold_spec (ts : List Tok) : ∀ (s : HtmlSt) (out : Bytes),
    (s.visitor.kind = .replace → ∀ t ∈ ts, isTagKind t.kind = true → IsSpan t.raw) →
    (s.visitor.kind = .replace → HInv s.stack) →
    (ts.foldl (stepTok tk ev) (s, out)).1.visitor.static = s.visitor.static ∧
    (ts.foldl (stepTok tk ev) (s, out)).1.last = s.last ∧
    (s.visitor.kind = .replace → HInv (ts.foldl (stepTok tk ev) (s, out)).1.stack) ∧
    Edit (visIns s.visitor) (visRep s.visitor) (ledger s out ++ rawsOf ts)
      (ledger (ts.foldl (stepTok tk ev) (s, out)).1 (ts.foldl (stepTok tk ev) (s, out)).2) := by
  induction ts with
  | nil =>
    intro s out _ hinv
    simp [rawsOf]
    exact ⟨hinv, Edit.refl _⟩
  | cons t ts ih =>
    intro s out hspan hinv
    obtain ⟨h1, h2, h3, h4⟩ := stepTok_spec hl ev s out t (fun hk => hspan hk t (by simp)) hinv
    rw [List.foldl_cons]
    generalize hp : stepTok tk ev (s, out) t = p at h1 h2 h3 h4 ⊢
    obtain ⟨s1, out1⟩ := p
    simp only at h1 h2 h3 h4
    have hk : s1.visitor.kind = s.visitor.kind := kind_of_static h1
    obtain ⟨i1, i2, i3, i4⟩ := ih s1 out1
      (fun hk' t' ht' => hspan (hk ▸ hk') t' (by simp [ht'])) (fun hk' => h3 (hk ▸ hk'))
    refine ⟨i1.trans h1, i2.trans h2, fun hk' => i3 (hk ▸ hk'), ?_⟩
    rw [visIns_of_static h1, visRep_of_static h1] at i4
    rw [rawsOf_cons, ← List.append_assoc]
    exact Edit.trans (Edit.appR _ h4) i4

/-- One call of the html stage: held bytes followed by the input are related by `Edit` to the output followed by the
new held bytes; the configuration of the visitor does not change; buffered elements keep starting with `<`.
(`LosslessS`: the stream tokenizer loses nothing; `TagSpanS`: its tag tokens are `<…>` spans.) -/
theorem filterHtml_spec (s s' : HtmlSt) (x o : Bytes)
    (hts : s.visitor.kind = .replace → TagSpanS tk)
    (hinv : s.visitor.kind = .replace → HInv s.stack)
    (h : filterHtml tk ev s x = some (s', o)) :
    s'.visitor.static = s.visitor.static ∧
    (s.visitor.kind = .replace → HInv s'.stack) ∧
    Edit (visIns s.visitor) (visRep s.visitor) (endHtml s ++ x) (o ++ endHtml s') := by
  rw [filterHtml_view] at h
  split at h
  · simp at h
  · rename_i data pending hsplit
    have hdp := utf8Split_append hsplit
    have hvt := view_todo_tail tk hl.stream s.ctx data
    obtain ⟨f1, f2, f3, f4⟩ := fold_spec hl ev (view tk s.ctx data).todo s []
      (fun hk t ht hkind => by
        obtain ⟨x', hx', rfl⟩ := view_all_mem tk s.ctx data t (view_todo_sub tk s.ctx data t ht)
        exact hts hk s.ctx data x' hx' hkind) hinv
    generalize hf : (view tk s.ctx data).todo.foldl (stepTok tk ev) (s, []) = fr at h f1 f2 f3 f4
    obtain ⟨sf, outf⟩ := fr
    simp only at h f1 f2 f3 f4
    injection h with h
    injection h with hs' ho
    subst hs' ho
    refine ⟨f1, f3, ?_⟩
    simp only [endHtml_eq]
    have hsplit2 : s.last ++ x = rawsOf (view tk s.ctx data).todo ++ ((view tk s.ctx data).tail ++ pending) := by
      rw [← List.append_assoc, hvt, hdp]
    have := Edit.appR ((view tk s.ctx data).tail ++ pending) f4
    simp only [ledger, List.nil_append] at this
    rw [List.append_assoc, hsplit2]
    simpa [List.append_assoc] using this

end

end Rio.Filter
