/-
Closed forms of the tokenizer's readers, part 4 (wider side conditions, for W7b's universal C15 theorem):
comments whose body contains `>` / `!`, raw text containing `<`, the bogus comment `<?…>`.
(Wider tag names — `nameOK2` — are in HtmlClosed2/3: `start_tag_closed_form2`, `end_tag_closed_form2`.)
-/
import RioModel.Proofs.HtmlClosed3
set_option linter.unusedSimpArgs false
set_option linter.unusedVariables false

namespace Rio.Html
namespace Tokenizer
open Rio.Consts

/-! ### raw text that contains `<` -/

/-- raw-text contents covered by `rawtext_closed_form2` (`first` = first byte of the lower-cased element name): a `<` must be
followed, inside the content, by a byte other than `<` and `!`; after `</` the content ends or goes on with a byte that is
not the first letter of the element name (case-insensitively).  So tag-like text such as `<p>`, `<b x=1>`, `</p>` is fine;
not covered: `<<`, `<!`, a final `<`, `</t…` in `<title>` / `<textarea>`, `</s…` in `<script>` / `<style>`.
(The loop of `read_raw_or_cdata` consumes the byte after a `<` that is not `/` — `<</title>` does not end a title — and
`<!` would take the script automaton into its escape states.) -/
def rawOK2 (first : Nat) : Bytes → Bool
  | [] => true
  | b :: rest =>
    if b != 60 then rawOK2 first rest
    else match rest with
      | [] => false
      | b2 :: rest2 =>
        if b2 == 60 || b2 == 33 then false
        else if b2 != 47 then rawOK2 first rest2
        else match rest2 with
          | [] => true
          | b3 :: _ => lowerByte b3 != first && rawOK2 first rest2

theorem rawOK2_of_rawContentOK (first : Nat) : ∀ (c : Bytes), rawContentOK c = true → rawOK2 first c = true
  | [], _ => by rw [rawOK2.eq_def]
  | b :: rest, h => by
    simp only [rawContentOK, List.all_cons, Bool.and_eq_true] at h
    rw [rawOK2.eq_def]
    simp only
    rw [if_pos h.1]
    exact rawOK2_of_rawContentOK first rest (by simpa [rawContentOK] using h.2)

/-- `read_raw_end_tag` on a byte that is not the first letter of the element name: the byte is put back -/
theorem readRawEndTag_mismatch (t : Tokenizer) (b3 first : Nat) (tl : List Nat) (htag : t.rawTag = first :: tl)
    (hb : t.buf[t.rawE]? = some b3) (h1 : b3 ≠ first) (h2 : b3 ≠ first - 32) (h32 : 32 ≤ first) (he : t.err = false) :
    (readRawEndTag t).2 = false ∧ (readRawEndTag t).1.rawE = t.rawE ∧ (readRawEndTag t).1.err = false := by
  obtain ⟨e1, e2, e3, e4⟩ := read_known hb he
  have hl : rawEndTagLoop t (first :: tl) = (t.readByte.1.unread 1, false) := by
    rw [rawEndTagLoop]
    simp only
    rw [if_neg (by rw [e3]; exact Bool.false_ne_true), e1, if_pos (by simpa using h1), if_neg (by omega),
      if_pos (by simpa using h2)]
  unfold readRawEndTag
  simp only
  rw [htag, hl]
  simp only [Bool.not_false, if_true]
  exact ⟨trivial, by rw [unread_rawE_eq 1 (by omega), e2]; simp, by rw [unread_err, e3]⟩

theorem lower_mismatch {b3 first : Nat} (hf : 97 ≤ first ∧ first ≤ 122) (h : (lowerByte b3 != first) = true) :
    b3 ≠ first ∧ b3 ≠ first - 32 := by
  have h' : lowerByte b3 ≠ first := by simpa using h
  unfold lowerByte isUpper at h'
  constructor
  · intro e; subst e
    rw [if_neg (by simp; omega)] at h'; exact h' rfl
  · intro e
    rw [if_pos (by simp; omega)] at h'; omega

section
variable (nm tl : Bytes) (d first : Nat)

/-- the shared hypotheses of the raw-text run lemmas -/
structure RawHyp (t : Tokenizer) : Prop where
  ok : Ok t
  tag : t.rawTag = nm.map lowerByte
  err : t.err = false
  tagok : TagOk t.rawTag

theorem rawTextGo_run2_aux (hnm : nm.map lowerByte = first :: tl) (hf : 97 ≤ first ∧ first ≤ 122)
    (hd : isTagEnd d = true) : ∀ (n : Nat) (c : Bytes) (t : Tokenizer), c.length ≤ n → RawHyp nm t → rawOK2 first c = true →
    Has t t.rawE (c ++ ([60, 47] ++ (nm ++ [d]))) → Stops t (rawTextGo t) c.length := by
  intro n
  induction n with
  | zero =>
    intro c t hn hy _ h
    have : c = [] := List.length_eq_zero_iff.mp (by omega)
    subst this
    exact rawTextGo_run nm d [] t hy.ok rfl hy.tag h hd hy.err
  | succ n ih =>
    intro c t hn hy hc h
    cases c with
    | nil => exact rawTextGo_run nm d [] t hy.ok rfl hy.tag h hd hy.err
    | cons b rest =>
      obtain ⟨e1, e2, e3, e4⟩ := read_known h.head hy.err
      have a1 := readByte_adv hy.ok
      have hy1 : RawHyp nm t.readByte.1 := ⟨a1.ok, a1.rawTag.trans hy.tag, e3, by rw [a1.rawTag]; exact hy.tagok⟩
      have hh : Has t.readByte.1 t.readByte.1.rawE (rest ++ ([60, 47] ++ (nm ++ [d]))) := ((h.tail).congr e4).at (by rw [e2])
      rw [rawOK2.eq_def] at hc
      simp only at hc
      rw [rawTextGo]
      simp only [e3, e1, Bool.false_eq_true, dite_false]
      by_cases h60 : (b != 60) = true
      · rw [if_pos h60] at hc ⊢
        have i1 := ih rest _ (by simp at hn; omega) hy1 hc hh
        exact ⟨by rw [i1.1, e2]; simp; omega, i1.2⟩
      · rw [if_neg h60] at hc ⊢
        cases rest with
        | nil => cases hc
        | cons b2 rest2 =>
          simp only at hc
          obtain ⟨f1, f2, f3, f4⟩ := read_known hh.head e3
          have a2 := readByte_adv a1.ok
          have hy2 : RawHyp nm t.readByte.1.readByte.1 := ⟨a2.ok, a2.rawTag.trans hy1.tag, f3, by rw [a2.rawTag]; exact hy1.tagok⟩
          have hh2 : Has t.readByte.1.readByte.1 t.readByte.1.readByte.1.rawE (rest2 ++ ([60, 47] ++ (nm ++ [d]))) :=
            ((hh.tail).congr f4).at (by rw [f2])
          have hn2 : rest2.length ≤ n := by simp at hn; omega
          simp only [f3, f1, Bool.false_eq_true, dite_false]
          by_cases hx : (b2 == 60 || b2 == 33) = true
          · rw [if_pos hx] at hc; cases hc
          · rw [if_neg hx] at hc
            by_cases h47 : (b2 != 47) = true
            · rw [if_pos h47] at hc ⊢
              have i2 := ih rest2 _ hn2 hy2 hc hh2
              exact ⟨by rw [i2.1, f2, e2]; simp; omega, i2.2⟩
            · rw [if_neg h47] at hc ⊢
              -- `</`: the byte after it does not start the element name
              have htag2 : t.readByte.1.readByte.1.rawTag = first :: tl := hy2.tag.trans hnm
              have hmm : ∃ b3, t.readByte.1.readByte.1.buf[t.readByte.1.readByte.1.rawE]? = some b3 ∧ b3 ≠ first ∧
                  b3 ≠ first - 32 ∧ rawOK2 first rest2 = true := by
                cases rest2 with
                | nil => exact ⟨60, hh2.head, by omega, by omega, by rw [rawOK2.eq_def]⟩
                | cons b3 r3 =>
                  simp only [Bool.and_eq_true] at hc
                  have := lower_mismatch hf hc.1
                  exact ⟨b3, hh2.head, this.1, this.2, hc.2⟩
              obtain ⟨b3, hb3, m1, m2, hc2⟩ := hmm
              obtain ⟨q1, q2, q3⟩ := readRawEndTag_mismatch _ b3 first tl htag2 hb3 m1 m2 (by omega) f3
              have ad := (readRawEndTag_adv t t.readByte.1.readByte.1 (a1.trans a2) (by rw [f2, e2]; omega) hy2.tagok).1
              have hne : ¬ ((readRawEndTag t.readByte.1.readByte.1).2 || (readRawEndTag t.readByte.1.readByte.1).1.err) = true := by
                rw [q1, q3]; decide
              rw [dif_neg hne]
              have hy3 : RawHyp nm (readRawEndTag t.readByte.1.readByte.1).1 :=
                ⟨ad.ok, ad.rawTag.trans hy.tag, q3, by rw [ad.rawTag]; exact hy.tagok⟩
              have hh3 : Has (readRawEndTag t.readByte.1.readByte.1).1 (readRawEndTag t.readByte.1.readByte.1).1.rawE
                  (rest2 ++ ([60, 47] ++ (nm ++ [d]))) := (hh2.congr (readRawEndTag_buf _)).at q2
              have i3 := ih rest2 _ hn2 hy3 hc2 hh3
              exact ⟨by rw [i3.1, q2, f2, e2]; simp; omega, i3.2⟩


theorem scriptGo_run2_aux (hnm : nm.map lowerByte = first :: tl) (hf : 97 ≤ first ∧ first ≤ 122)
    (hd : isTagEnd d = true) : ∀ (n : Nat) (c : Bytes) (t : Tokenizer), c.length ≤ n → RawHyp nm t → rawOK2 first c = true →
    Has t t.rawE (c ++ ([60, 47] ++ (nm ++ [d]))) → Stops t (scriptGo .data t) c.length := by
  intro n
  induction n with
  | zero =>
    intro c t hn hy _ h
    have : c = [] := List.length_eq_zero_iff.mp (by omega)
    subst this
    exact scriptGo_run nm d [] t hy.ok rfl hy.tag h hd hy.err
  | succ n ih =>
    intro c t hn hy hc h
    cases c with
    | nil => exact scriptGo_run nm d [] t hy.ok rfl hy.tag h hd hy.err
    | cons b rest =>
      obtain ⟨e1, e2, e3, e4⟩ := read_known h.head hy.err
      have a1 := readByte_adv hy.ok
      have hy1 : RawHyp nm t.readByte.1 := ⟨a1.ok, a1.rawTag.trans hy.tag, e3, by rw [a1.rawTag]; exact hy.tagok⟩
      have hh : Has t.readByte.1 t.readByte.1.rawE (rest ++ ([60, 47] ++ (nm ++ [d]))) := ((h.tail).congr e4).at (by rw [e2])
      rw [rawOK2.eq_def] at hc
      simp only at hc
      rw [scriptGo]
      simp only [e3, e1, Bool.false_eq_true, dite_false]
      by_cases h60 : (b != 60) = true
      · rw [if_pos h60] at hc
        rw [if_neg (by simpa using h60)]
        have i1 := ih rest _ (by simp at hn; omega) hy1 hc hh
        exact ⟨by rw [i1.1, e2]; simp; omega, i1.2⟩
      · rw [if_neg h60] at hc
        rw [if_pos (by simpa using h60)]
        cases rest with
        | nil => cases hc
        | cons b2 rest2 =>
          simp only at hc
          obtain ⟨f1, f2, f3, f4⟩ := read_known hh.head e3
          have a2 := readByte_adv a1.ok
          have hy2 : RawHyp nm t.readByte.1.readByte.1 :=
            ⟨a2.ok, a2.rawTag.trans hy1.tag, f3, by rw [a2.rawTag]; exact hy1.tagok⟩
          have hh2 : Has t.readByte.1.readByte.1 t.readByte.1.readByte.1.rawE (rest2 ++ ([60, 47] ++ (nm ++ [d]))) :=
            ((hh.tail).congr f4).at (by rw [f2])
          have hn2 : rest2.length ≤ n := by simp at hn; omega
          rw [scriptGo]
          simp only [f3, f1, Bool.false_eq_true, dite_false]
          by_cases hx : (b2 == 60 || b2 == 33) = true
          · rw [if_pos hx] at hc; cases hc
          · rw [if_neg hx] at hc
            have hx' : (b2 == 60) = false ∧ (b2 == 33) = false := by
              simp only [Bool.or_eq_true, not_or, Bool.not_eq_true] at hx; exact hx
            by_cases h47 : (b2 != 47) = true
            · rw [if_pos h47] at hc
              rw [if_neg (by simpa using h47), if_neg (by rw [hx'.2]; exact Bool.false_ne_true)]
              -- the byte is put back and read again in the data state
              have hne : ¬ t.readByte.1.readByte.1.err = true := by rw [f3]; exact Bool.false_ne_true
              have au := read_unread_adv a1.ok hne
              have hur : (t.readByte.1.readByte.1.unread 1).rawE = t.readByte.1.rawE := by
                rw [unread_rawE_eq 1 (by omega), f2]; simp
              have hyu : RawHyp nm (t.readByte.1.readByte.1.unread 1) :=
                ⟨au.ok, au.rawTag.trans hy1.tag, by rw [unread_err, f3], by rw [au.rawTag]; exact hy1.tagok⟩
              have hcu : rawOK2 first (b2 :: rest2) = true := by
                rw [rawOK2.eq_def]; simp only
                rw [if_pos (by have := hx'.1; simp at this ⊢; exact this)]; exact hc
              have hhu : Has (t.readByte.1.readByte.1.unread 1) (t.readByte.1.readByte.1.unread 1).rawE
                  ((b2 :: rest2) ++ ([60, 47] ++ (nm ++ [d]))) := (hh.congr ((unread_buf _ _).trans f4)).at hur
              have iu := ih (b2 :: rest2) _ (by simp at hn ⊢; omega) hyu hcu hhu
              exact ⟨by rw [iu.1, hur, e2]; simp; omega, iu.2⟩
            · rw [if_neg h47] at hc
              rw [if_pos (by simpa using h47)]
              have htag2 : t.readByte.1.readByte.1.rawTag = first :: tl := hy2.tag.trans hnm
              have hmm : ∃ b3, t.readByte.1.readByte.1.buf[t.readByte.1.readByte.1.rawE]? = some b3 ∧ b3 ≠ first ∧
                  b3 ≠ first - 32 ∧ rawOK2 first rest2 = true := by
                cases rest2 with
                | nil => exact ⟨60, hh2.head, by omega, by omega, by rw [rawOK2.eq_def]⟩
                | cons b3 r3 =>
                  simp only [Bool.and_eq_true] at hc
                  have := lower_mismatch hf hc.1
                  exact ⟨b3, hh2.head, this.1, this.2, hc.2⟩
              obtain ⟨b3, hb3, m1, m2, hc2⟩ := hmm
              obtain ⟨q1, q2, q3⟩ := readRawEndTag_mismatch _ b3 first tl htag2 hb3 m1 m2 (by omega) f3
              have ad := (readRawEndTag_adv t t.readByte.1.readByte.1 (a1.trans a2) (by rw [f2, e2]; omega) hy2.tagok).1
              have hne : ¬ ((readRawEndTag t.readByte.1.readByte.1).2 || (readRawEndTag t.readByte.1.readByte.1).1.err) = true := by
                rw [q1, q3]; decide
              rw [scriptGo]
              try simp only []
              rw [dif_neg hne]
              have hy3 : RawHyp nm (readRawEndTag t.readByte.1.readByte.1).1 :=
                ⟨ad.ok, ad.rawTag.trans hy.tag, q3, by rw [ad.rawTag]; exact hy.tagok⟩
              have hh3 : Has (readRawEndTag t.readByte.1.readByte.1).1 (readRawEndTag t.readByte.1.readByte.1).1.rawE
                  (rest2 ++ ([60, 47] ++ (nm ++ [d]))) := (hh2.congr (readRawEndTag_buf _)).at q2
              have i3 := ih rest2 _ hn2 hy3 hc2 hh3
              exact ⟨by rw [i3.1, q2, f2, e2]; simp; omega, i3.2⟩


/-- `read_raw_or_cdata` on `content </name d` where the content may contain `<` -/
theorem readRawOrCdata_run2 (c : Bytes) (t : Tokenizer) (hnm : nm.map lowerByte = first :: tl)
    (hf : 97 ≤ first ∧ first ≤ 122) (hd : isTagEnd d = true) (hy : RawHyp nm t) (hc : rawOK2 first c = true)
    (h : Has t t.rawE (c ++ ([60, 47] ++ (nm ++ [d])))) :
    Stops t (readRawOrCdata t) c.length ∧ (readRawOrCdata t).allowCdata = t.allowCdata := by
  unfold readRawOrCdata
  split
  · rename_i hs
    have hs' : t.rawTag = htmlScript := by simpa using hs
    have a := scriptGo_adv .data t t (Adv.refl hy.ok) (by simp [SS.need]) hs'
    have r := scriptGo_run2_aux nm tl d first hnm hf hd c.length c t (Nat.le_refl _) hy hc h
    unfold readScript
    exact ⟨⟨r.1, r.2⟩, a.cdata⟩
  · have a := rawTextGo_adv t hy.ok hy.tagok
    have r := rawTextGo_run2_aux nm tl d first hnm hf hd c.length c t (Nat.le_refl _) hy hc h
    exact ⟨⟨r.1, r.2⟩, a.cdata⟩

end

/-- the first byte of a raw-text element name of the dispatch table is a lower-case letter -/
theorem rawName_first {n : Bytes} (h : isRawName n = true) : ∃ first tl, n = first :: tl ∧ 97 ≤ first ∧ first ≤ 122 := by
  have hmem : n ∈ htmlRawDispatch.flatMap (·.2) := by unfold isRawName at h; exact List.contains_iff_mem.mp h
  cases n with
  | nil => exact absurd hmem (by decide)
  | cons first tl => exact ⟨first, tl, rfl, rawNames_letters _ hmem first (by simp)⟩

theorem rawName_tagOk {n : Bytes} (h : isRawName n = true) : TagOk n := by
  have hmem : n ∈ htmlRawDispatch.flatMap (·.2) := by unfold isRawName at h; exact List.contains_iff_mem.mp h
  intro c hc
  have := rawNames_letters _ hmem c hc
  omega

/-- **closed form of `next` on raw text that may contain `<`**: in the raw-text context `t.rawTag = first :: tl` (a name of
the dispatch table other than `plaintext`), a non-empty `content` accepted by `rawOK2 first`, followed by the matching end
tag `</name` + delimiter, is ONE text token = the content, and the context is left -/
theorem rawtext_closed_form2 (t : Tokenizer) (nm c tl : Bytes) (d first : Nat) (ok : Ok t) (he : t.err = false)
    (htag : t.rawTag = nm.map lowerByte) (hnm : nm.map lowerByte = first :: tl) (hraw : isRawName t.rawTag = true)
    (hpl : t.rawTag ≠ htmlPlaintext) (hc : rawOK2 first c = true) (hcne : c ≠ []) (hd : isTagEnd d = true)
    (h : Has t t.rawE (c ++ [60, 47] ++ nm ++ [d])) :
    Piece t (next t) .text c.length [] ∧ (next t).dataS = t.rawE ∧ (next t).dataE = t.rawE + c.length := by
  have hto : TagOk t.rawTag := rawName_tagOk hraw
  have hne : t.rawTag ≠ [] := by rw [htag, hnm]; exact List.cons_ne_nil _ _
  obtain ⟨f', tl', hft, hf⟩ := rawName_first hraw
  have hf2 : 97 ≤ first ∧ first ≤ 122 := by
    rw [htag, hnm] at hft; injection hft with h1 _; rw [h1]; exact hf
  have hne' : (t.rawTag != []) = true := by simpa using hne
  have hpl' : (t.rawTag == htmlPlaintext) = false := by simpa using hpl
  have hnx : next t =
      (let t1 := readRawOrCdata { t with rawS := t.rawE, dataS := t.rawE, dataE := t.rawE }
       if t1.dataE > t1.dataS then { t1 with token := .text, convertNull := true }
       else mainLoop { t1 with textIsRaw := false, convertNull := false }) := by
    unfold next nextGo
    simp only [he, hne', hpl', Bool.false_eq_true, if_false, if_true]
  rw [hnx]
  have h' : Has t t.rawE (c ++ ([60, 47] ++ (nm ++ [d]))) := by simpa [List.append_assoc] using h
  let T0 : Tokenizer := { t with rawS := t.rawE, dataS := t.rawE, dataE := t.rawE }
  have ok0 : Ok T0 := ⟨ok.le, ok.panic, ok.hang, ok.utf8⟩
  obtain ⟨a0, s1, s2, s3⟩ := readRawOrCdata_spec T0 ok0 hto
  obtain ⟨⟨r1, r2⟩, r3⟩ := readRawOrCdata_run2 nm tl d first c T0 hnm hf2 hd ⟨ok0, htag, he, hto⟩ hc (h'.congr rfl)
  have hlen : 0 < c.length := List.length_pos_iff.mpr hcne
  show Piece t (if (readRawOrCdata T0).dataE > (readRawOrCdata T0).dataS then _ else _) _ _ _ ∧ _
  rw [if_pos (by rw [s3, s2, r1]; show t.rawE + c.length > t.rawE; omega)]
  exact ⟨⟨rfl, a0.rawS, r1, r2, s1, r3, a0.buf⟩, s2, by show (readRawOrCdata T0).dataE = _; rw [s3, r1]⟩

/-! ### the bogus comment `<?…>` (processing instruction) -/

/-- the main loop on `<?text>` with no `>` in `text` -/
theorem mainLoop_bogus (T : Tokenizer) (tx : Bytes) (ok : Ok T) (he : T.err = false) (hrs : T.rawS = T.rawE)
    (htx : ∀ b ∈ tx, b ≠ 62) (h : Has T T.rawE ([60, 63] ++ tx ++ [62])) :
    PieceM T (mainLoop T) .comment ([60, 63] ++ tx ++ [62]).length ∧
    (mainLoop T).dataS = T.rawE + 1 ∧ (mainLoop T).dataE = T.rawE + 2 + tx.length := by
  have hx : [60, 63] ++ tx ++ [62] = 60 :: 63 :: (tx ++ [62]) := by simp
  rw [hx] at h ⊢
  obtain ⟨hml, o⟩ := mainLoop_dispatch T 63 ok he
    (fun i hi => by have := h i (by simp at hi ⊢; omega); rw [this]; match i, hi with | 0, _ => rfl | 1, _ => rfl)
    (by decide)
  generalize opened2 T = S at *
  have hb : Adv { S with rawE := S.rawE - 1 } S := ⟨rfl, rfl, by simp, o.ok, rfl, rfl⟩
  have a4 := unread_adv 1 hb (by simp only; have := o.rawE; omega)
  have hur : (S.unread 1).rawE = T.rawE + 1 := by rw [unread_rawE_eq 1 (by have := o.rawE; omega), o.rawE]; omega
  have hub : (S.unread 1).buf = T.buf := (unread_buf _ _).trans o.buf
  have hU : Has (S.unread 1) (S.unread 1).rawE (([63] ++ tx) ++ [62]) := by
    have : Has T (T.rawE + 1) (([63] ++ tx) ++ [62]) := by simpa using h.tail
    exact (this.congr hub).at hur
  obtain ⟨⟨r1, r2⟩, r3, r4⟩ := readUntilCloseAngle_run ([63] ++ tx) (S.unread 1)
    (fun b hb => by
      simp only [List.singleton_append, List.mem_cons] at hb
      rcases hb with rfl | hb
      · decide
      · exact htx b hb) hU (by rw [unread_err, o.err])
  have a5 := readUntilCloseAngle_adv _ a4.ok
  rw [hml]
  unfold dispatchTag
  simp only [htmlTagOpenLen]
  rw [if_neg (by rw [o.rawE]; omega), if_neg (by rw [o.rawS, o.rawE, hrs]; omega)]
  rw [if_neg (by decide : ¬ isAlpha 63 = true), if_neg (by decide : ¬ (63 == 47) = true),
    if_neg (by decide : ¬ (63 == 33) = true)]
  try simp only []
  refine ⟨⟨rfl, by show (readUntilCloseAngle _).rawS = _; rw [a5.rawS, a4.rawS]; exact o.rawS,
    by show (readUntilCloseAngle _).rawE = _; rw [r1, hur]; simp; omega,
    r2, by show (readUntilCloseAngle _).rawTag = _; rw [a5.rawTag, a4.rawTag]; exact o.rawTag,
    by show (readUntilCloseAngle _).allowCdata = _; rw [a5.cdata, a4.cdata]; exact o.cdata,
    by show (readUntilCloseAngle _).buf = _; rw [a5.buf]; exact hub⟩, ?_, ?_⟩
  · show (readUntilCloseAngle _).dataS = _; rw [r3, hur]
  · show (readUntilCloseAngle _).dataE = _; rw [r4, hur]; simp; omega

/-- **closed form of `next` on a bogus comment `<?text>`** (no `>` in `text`) followed by anything: a comment token -/
theorem bogus_closed_form (t : Tokenizer) (tx : Bytes) (ok : Ok t) (he : t.err = false) (htag : t.rawTag = [])
    (htx : ∀ b ∈ tx, b ≠ 62) (h : Has t t.rawE ([60, 63] ++ tx ++ [62])) :
    Piece t (next t) .comment ([60, 63] ++ tx ++ [62]).length [] ∧
    (next t).dataS = t.rawE + 1 ∧ (next t).dataE = t.rawE + 2 + tx.length := by
  rw [next_mainLoop t he htag]
  have := mainLoop_bogus { ({ t with rawS := t.rawE, dataS := t.rawE, dataE := t.rawE } : Tokenizer) with
      textIsRaw := false, convertNull := false } tx ⟨ok.le, ok.panic, ok.hang, ok.utf8⟩ he rfl htx (h.congr rfl)
  obtain ⟨p, d1, d2⟩ := this
  exact ⟨⟨p.token, p.rawS, p.rawE, p.err, p.rawTag.trans htag, p.cdata, p.buf⟩, d1, d2⟩

end Tokenizer
end Rio.Html
