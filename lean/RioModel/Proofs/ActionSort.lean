/-
The order of `impl Ord for Rule` is a total preorder whose equivalence is "same rank and same id";
a sorted permutation of a list with distinct ids is therefore unique (helper lemmas of C11).
Everything is proved for both possible values of the two regenerated direction flags, so a change of
direction in the source changes the model (and is seen by the correspondence) without breaking a proof.
-/
import RioModel.Model.Action
set_option linter.unusedSimpArgs false

namespace Rio.Action

/-! ### bytes -/

/-- `a ≤ b` bytewise. -/
def bytesLe (a b : List Nat) : Prop := cmpBytes a b ≠ .gt

theorem cmpBytes_refl (a : List Nat) : cmpBytes a a = .eq := by
  induction a with
  | nil => rfl
  | cons x xs ih => simp [cmpBytes, ih]

theorem cmpBytes_eq (a b : List Nat) : cmpBytes a b = .eq → a = b := by
  induction a generalizing b with
  | nil => cases b <;> simp [cmpBytes]
  | cons x xs ih =>
    cases b with
    | nil => simp [cmpBytes]
    | cons y ys =>
      simp only [cmpBytes]
      by_cases h1 : x < y
      · simp [h1]
      · by_cases h2 : y < x
        · simp [h1, h2]
        · simp only [h1, h2, if_false]
          intro h
          have : x = y := by omega
          rw [this, ih ys h]

theorem cmpBytes_swap (a b : List Nat) : cmpBytes a b = .gt ↔ cmpBytes b a = .lt := by
  induction a generalizing b with
  | nil => cases b <;> simp [cmpBytes]
  | cons x xs ih =>
    cases b with
    | nil => simp [cmpBytes]
    | cons y ys =>
      simp only [cmpBytes]
      by_cases h1 : x < y
      · have : ¬ y < x := by omega
        simp [h1, this]
      · by_cases h2 : y < x
        · simp [h1, h2]
        · simp only [h1, h2, if_false]
          exact ih ys

theorem bytesLe_total (a b : List Nat) : bytesLe a b ∨ bytesLe b a := by
  unfold bytesLe
  cases h : cmpBytes a b with
  | lt => simp
  | eq => simp
  | gt =>
    right
    rw [(cmpBytes_swap a b).mp h]
    simp

theorem bytesLe_antisymm (a b : List Nat) (h1 : bytesLe a b) (h2 : bytesLe b a) : a = b := by
  unfold bytesLe at h1 h2
  cases h : cmpBytes a b with
  | eq => exact cmpBytes_eq a b h
  | gt => exact absurd h h1
  | lt => exact absurd ((cmpBytes_swap b a).mpr h) h2

theorem bytesLe_trans (a b c : List Nat) : bytesLe a b → bytesLe b c → bytesLe a c := by
  unfold bytesLe
  induction a generalizing b c with
  | nil => cases c <;> simp [cmpBytes]
  | cons x xs ih =>
    cases b with
    | nil => simp [cmpBytes]
    | cons y ys =>
      cases c with
      | nil =>
        simp only [cmpBytes]
        intro _ h
        exact h
      | cons z zs =>
        simp only [cmpBytes]
        intro h1 h2
        by_cases hxy : x < y
        · by_cases hyz : y < z
          · have : x < z := by omega
            simp [this]
          · by_cases hzy : z < y
            · simp [hyz, hzy] at h2
            · have : x < z := by omega
              simp [this]
        · by_cases hyx : y < x
          · simp [hxy, hyx] at h1
          · have hxy' : x = y := by omega
            subst hxy'
            simp only [hxy, if_false] at h1
            by_cases hxz : x < z
            · simp [hxz]
            · by_cases hzx : z < x
              · simp [hxz, hzx] at h2
              · simp only [hxz, hzx, if_false] at h2 ⊢
                exact ih ys zs h1 h2

/-! ### keys with a direction -/

/-- `keyCmp cmpNat desc a b ≠ .gt`. -/
theorem keyCmp_nat_ne_gt (desc : Bool) (a b : Nat) :
    keyCmp cmpNat desc a b ≠ .gt ↔ (if desc then b ≤ a else a ≤ b) := by
  unfold keyCmp cmpNat
  cases desc <;> simp <;> (repeat' split) <;> simp_all <;> omega

theorem keyCmp_nat_eq (desc : Bool) (a b : Nat) :
    keyCmp cmpNat desc a b = .eq ↔ a = b := by
  unfold keyCmp cmpNat
  cases desc <;> simp <;> (repeat' split) <;> simp_all <;> omega

/-- The id key, as a proposition. -/
def idLe (desc : Bool) (a b : List Nat) : Prop := if desc then bytesLe b a else bytesLe a b

theorem keyCmp_bytes_ne_gt (desc : Bool) (a b : List Nat) :
    keyCmp cmpBytes desc a b ≠ .gt ↔ idLe desc a b := by
  unfold keyCmp idLe bytesLe
  cases desc <;> simp

theorem idLe_total (desc : Bool) (a b : List Nat) : idLe desc a b ∨ idLe desc b a := by
  unfold idLe
  cases desc
  · simpa using bytesLe_total a b
  · simpa using bytesLe_total b a

theorem idLe_antisymm (desc : Bool) (a b : List Nat) (h1 : idLe desc a b) (h2 : idLe desc b a) :
    a = b := by
  unfold idLe at h1 h2
  cases desc
  · exact bytesLe_antisymm a b (by simpa using h1) (by simpa using h2)
  · exact bytesLe_antisymm a b (by simpa using h2) (by simpa using h1)

theorem idLe_trans (desc : Bool) (a b c : List Nat) (h1 : idLe desc a b) (h2 : idLe desc b c) :
    idLe desc a c := by
  unfold idLe at *
  cases desc
  · exact bytesLe_trans a b c (by simpa using h1) (by simpa using h2)
  · exact bytesLe_trans c b a (by simpa using h2) (by simpa using h1)

/-! ### the rule order -/

/-- `ruleLe` spelled out: strictly before on the rank key, or equal ranks and before-or-equal on the id key. -/
theorem ruleLe_iff (a b : Rule) :
    ruleLe a b = true ↔
      (keyCmp cmpNat Rio.Consts.ruleCmpRankDescending a.rank b.rank = .lt) ∨
      (a.rank = b.rank ∧ idLe Rio.Consts.ruleCmpIdDescending a.id b.id) := by
  unfold ruleLe ruleCmp
  generalize Rio.Consts.ruleCmpRankDescending = rd
  generalize Rio.Consts.ruleCmpIdDescending = idd
  simp only []
  cases h : keyCmp cmpNat rd a.rank b.rank with
  | lt => simp
  | gt =>
    have : a.rank ≠ b.rank := fun e => by
      rw [(keyCmp_nat_eq rd a.rank b.rank).mpr e] at h; cases h
    simp [this]
  | eq =>
    have e : a.rank = b.rank := (keyCmp_nat_eq rd a.rank b.rank).mp h
    have := keyCmp_bytes_ne_gt idd a.id b.id
    simp only [bne_self_eq_false, Bool.false_eq_true, if_false, e, true_and, reduceCtorEq, false_or]
    rw [← this]
    cases keyCmp cmpBytes idd a.id b.id <;> simp

/-- The strict part of the rank key as arithmetic. -/
theorem keyCmp_nat_lt (desc : Bool) (a b : Nat) :
    keyCmp cmpNat desc a b = .lt ↔ (if desc then b < a else a < b) := by
  unfold keyCmp cmpNat
  cases desc <;> simp <;> (repeat' split) <;> simp_all <;> omega

theorem ruleLe_total (a b : Rule) : (ruleLe a b || ruleLe b a) = true := by
  rw [Bool.or_eq_true, ruleLe_iff, ruleLe_iff, keyCmp_nat_lt, keyCmp_nat_lt]
  generalize Rio.Consts.ruleCmpRankDescending = rd
  generalize Rio.Consts.ruleCmpIdDescending = idd
  have hid := idLe_total idd a.id b.id
  by_cases e : a.rank = b.rank
  · rcases hid with h | h
    · exact .inl (.inr ⟨e, h⟩)
    · exact .inr (.inr ⟨e.symm, h⟩)
  · cases rd <;> simp only [if_true, if_false, Bool.false_eq_true] <;>
      rcases Nat.lt_or_gt_of_ne e with h | h <;> simp [h]

theorem ruleLe_trans (a b c : Rule) (h1 : ruleLe a b = true) (h2 : ruleLe b c = true) :
    ruleLe a c = true := by
  rw [ruleLe_iff, keyCmp_nat_lt] at *
  revert h1 h2
  generalize Rio.Consts.ruleCmpRankDescending = rd
  generalize Rio.Consts.ruleCmpIdDescending = idd
  intro h1 h2
  rcases h1 with h1 | ⟨e1, i1⟩ <;> rcases h2 with h2 | ⟨e2, i2⟩
  · left; cases rd <;> simp_all <;> omega
  · left; rw [← e2]; exact h1
  · left; rw [e1]; exact h2
  · right; exact ⟨e1.trans e2, idLe_trans idd _ _ _ i1 i2⟩

/-- Two rules each before-or-equal the other have the same rank and the same id. -/
theorem ruleLe_antisymm (a b : Rule) (h1 : ruleLe a b = true) (h2 : ruleLe b a = true) :
    a.rank = b.rank ∧ a.id = b.id := by
  rw [ruleLe_iff, keyCmp_nat_lt] at *
  revert h1 h2
  generalize Rio.Consts.ruleCmpRankDescending = rd
  generalize Rio.Consts.ruleCmpIdDescending = idd
  intro h1 h2
  rcases h1 with h1 | ⟨e1, i1⟩ <;> rcases h2 with h2 | ⟨e2, i2⟩
  · exfalso; cases rd <;> simp_all <;> omega
  · exfalso; cases rd <;> simp_all
  · exfalso; cases rd <;> simp_all
  · exact ⟨e1, idLe_antisymm idd _ _ i1 i2⟩

/-! ### distinct ids, uniqueness of the sorted permutation -/

/-- The rule ids of the list are pairwise distinct (what C01 gives for a match result). -/
def NodupIds (R : List Rule) : Prop := (R.map (·.id)).Nodup

theorem NodupIds.eq_of_id {R : List Rule} (h : NodupIds R) {a b : Rule} (ha : a ∈ R) (hb : b ∈ R)
    (e : a.id = b.id) : a = b := by
  unfold NodupIds at h
  induction R with
  | nil => cases ha
  | cons x xs ih =>
    simp only [List.map_cons, List.nodup_cons, List.mem_map, not_exists, not_and] at h
    simp only [List.mem_cons] at ha hb
    rcases ha with rfl | ha <;> rcases hb with rfl | hb
    · rfl
    · exact absurd e.symm (h.1 b hb)
    · exact absurd e (h.1 a ha)
    · exact ih h.2 ha hb

theorem NodupIds.perm {R R' : List Rule} (h : NodupIds R) (p : R.Perm R') : NodupIds R' := by
  unfold NodupIds at *
  exact (p.map _).nodup_iff.mp h

theorem NodupIds.sublist {R R' : List Rule} (h : NodupIds R) (s : R'.Sublist R) : NodupIds R' := by
  unfold NodupIds at *
  exact (s.map _).nodup h

/-- Two sorted permutations of a list with distinct ids are equal. -/
theorem sorted_perm_unique {S S' : List Rule} (hS : S.Pairwise (fun a b => ruleLe a b = true))
    (hS' : S'.Pairwise (fun a b => ruleLe a b = true)) (p : S.Perm S') (hn : NodupIds S) : S = S' := by
  refine List.Perm.eq_of_pairwise (le := fun a b => ruleLe a b = true) ?_ hS hS' p
  intro a b ha hb hab hba
  exact hn.eq_of_id ha (p.symm.subset hb) (ruleLe_antisymm a b hab hba).2

/-! ### the weakest hypothesis: distinct (rank, id) keys -/

/-- No two different rules of the list have the same rank and the same id.  Implied by distinct ids
(`NodupIds`) and by distinct ranks (`DistinctRanks`). -/
def KeyInj (R : List Rule) : Prop := ∀ a ∈ R, ∀ b ∈ R, a.rank = b.rank → a.id = b.id → a = b

/-- The ranks of the list are pairwise distinct ("tie-free"). -/
def DistinctRanks (R : List Rule) : Prop := (R.map (·.rank)).Nodup

theorem NodupIds.keyInj {R : List Rule} (h : NodupIds R) : KeyInj R :=
  fun _ ha _ hb _ hid => h.eq_of_id ha hb hid

theorem DistinctRanks.eq_of_rank {R : List Rule} (h : DistinctRanks R) {a b : Rule} (ha : a ∈ R)
    (hb : b ∈ R) (e : a.rank = b.rank) : a = b := by
  unfold DistinctRanks at h
  induction R with
  | nil => cases ha
  | cons x xs ih =>
    simp only [List.map_cons, List.nodup_cons, List.mem_map, not_exists, not_and] at h
    simp only [List.mem_cons] at ha hb
    rcases ha with rfl | ha <;> rcases hb with rfl | hb
    · rfl
    · exact absurd e.symm (h.1 b hb)
    · exact absurd e (h.1 a ha)
    · exact ih h.2 ha hb

theorem DistinctRanks.keyInj {R : List Rule} (h : DistinctRanks R) : KeyInj R :=
  fun _ ha _ hb hr _ => h.eq_of_rank ha hb hr

theorem DistinctRanks.perm {R R' : List Rule} (h : DistinctRanks R) (p : R.Perm R') : DistinctRanks R' := by
  unfold DistinctRanks at *
  exact (p.map _).nodup_iff.mp h

theorem KeyInj.perm {R R' : List Rule} (h : KeyInj R) (p : R.Perm R') : KeyInj R' :=
  fun a ha b hb => h a (p.symm.subset ha) b (p.symm.subset hb)

/-- Two sorted permutations of a list with distinct (rank, id) keys are equal. -/
theorem sorted_perm_unique_key {S S' : List Rule} (hS : S.Pairwise (fun a b => ruleLe a b = true))
    (hS' : S'.Pairwise (fun a b => ruleLe a b = true)) (p : S.Perm S') (hk : KeyInj S) : S = S' := by
  refine List.Perm.eq_of_pairwise (le := fun a b => ruleLe a b = true) ?_ hS hS' p
  intro a b ha hb hab hba
  have := ruleLe_antisymm a b hab hba
  exact hk a ha b (p.symm.subset hb) this.1 this.2

theorem sortRules_perm (R : List Rule) : (sortRules R).Perm R := List.mergeSort_perm R ruleLe

theorem sortRules_sorted (R : List Rule) : (sortRules R).Pairwise (fun a b => ruleLe a b = true) :=
  List.pairwise_mergeSort (le := ruleLe) ruleLe_trans ruleLe_total R

/-! ### the specification's insertion sort -/

theorem insertRule_perm (r : Rule) (l : List Rule) : (Spec.insertRule r l).Perm (r :: l) := by
  induction l with
  | nil => simp [Spec.insertRule]
  | cons x xs ih =>
    simp only [Spec.insertRule]
    split
    · exact List.Perm.refl _
    · exact ((List.Perm.cons x ih).trans (List.Perm.swap r x xs))

theorem insertRule_sorted (r : Rule) (l : List Rule)
    (h : l.Pairwise (fun a b => ruleLe a b = true)) :
    (Spec.insertRule r l).Pairwise (fun a b => ruleLe a b = true) := by
  induction l with
  | nil => simp [Spec.insertRule]
  | cons x xs ih =>
    simp only [Spec.insertRule]
    rw [List.pairwise_cons] at h
    split
    · rename_i hrx
      refine List.pairwise_cons.mpr ⟨?_, List.pairwise_cons.mpr h⟩
      intro b hb
      rcases List.mem_cons.mp hb with rfl | hb
      · exact hrx
      · exact ruleLe_trans _ _ _ hrx (h.1 b hb)
    · rename_i hrx
      have hxr : ruleLe x r = true := by
        have := ruleLe_total r x
        simp only [Bool.or_eq_true] at this
        rcases this with h' | h'
        · exact absurd h' hrx
        · exact h'
      refine List.pairwise_cons.mpr ⟨?_, ih h.2⟩
      intro b hb
      rcases List.mem_cons.mp ((insertRule_perm r xs).subset hb) with rfl | hb
      · exact hxr
      · exact h.1 b hb

theorem insertionSort_perm (R : List Rule) : (Spec.insertionSort R).Perm R := by
  induction R with
  | nil => exact List.Perm.refl _
  | cons x xs ih =>
    exact (insertRule_perm x _).trans (List.Perm.cons x ih)

theorem insertionSort_sorted (R : List Rule) :
    (Spec.insertionSort R).Pairwise (fun a b => ruleLe a b = true) := by
  induction R with
  | nil => exact List.Pairwise.nil
  | cons x xs ih => exact insertRule_sorted x _ ih

end Rio.Action
