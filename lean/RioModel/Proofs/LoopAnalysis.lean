/-
Lemmas about Model/LoopAnalysis.lean: the analyses are extensional in the router view (they depend
on it only through the config, the *set* of live rules and the *set* of matched rules per
request), and, under the representation laws of a router algebra (`AlgLaws`: what W2 proves of the
real matcher tower in Props/C02), the project entry points agree with the stand-alone ones and do
not depend on the order of the rule list.
-/
import RioModel.Model.LoopAnalysis
set_option linter.unusedSimpArgs false
set_option linter.unusedSectionVars false
set_option linter.unusedVariables false

namespace Rio.Analysis
open Rio.Loop

/-! ### generic list facts -/

theorem perm_of_length_le_one {α : Type} {l l' : List α} (h : l.Perm l') (hl : l.length ≤ 1) : l = l' := by
  match l, hl with
  | [], _ => exact (List.perm_nil.mp h.symm).symm ▸ rfl
  | [a], _ => exact (List.perm_singleton.mp h.symm).symm

theorem nodup_const_length {α : Type} [DecidableEq α] (l : List α) (a : α) (hn : l.Nodup)
    (hc : ∀ x ∈ l, x = a) : l.length ≤ 1 := by
  match l, hn with
  | [], _ => simp
  | [x], _ => simp
  | x :: y :: t, hn =>
    exfalso
    have hx := hc x (by simp)
    have hy := hc y (by simp)
    rw [List.nodup_cons] at hn
    exact hn.1 (by rw [hx, ← hy]; simp)

section
variable {Rule Req Cfg Tr C Ex Id UId UT Core U M Dom : Type}
variable [DecidableEq Id] [DecidableEq U] [DecidableEq M]
variable (P : Pipe Rule Req Cfg Ex Id UId UT Core U M Dom)

/-- the ids of a rule list are pairwise distinct -/
def NodupIds (rid : Rule → Id) (L : List Rule) : Prop := (L.map rid).Nodup

theorem NodupIds.nodup {rid : Rule → Id} {L : List Rule} (h : NodupIds rid L) : L.Nodup := by
  unfold NodupIds at h
  rw [List.Nodup, List.pairwise_map] at h
  exact h.imp (fun hab heq => hab (by rw [heq]))

theorem NodupIds.perm {rid : Rule → Id} {L L' : List Rule} (h : NodupIds rid L) (hp : L.Perm L') :
    NodupIds rid L' :=
  (hp.map rid).nodup_iff.mp h

theorem NodupIds.filter {rid : Rule → Id} {L : List Rule} (h : NodupIds rid L) (p : Rule → Bool) :
    NodupIds rid (L.filter p) := by
  unfold NodupIds at *
  exact List.Nodup.sublist (List.Sublist.map _ List.filter_sublist) h

/-- at most one live rule carries a given id -/
theorem filter_id_length (L : List Rule) (h : NodupIds P.ruleId L) (id : Id) :
    (L.filter (fun r => decide (P.ruleId r = id))).length ≤ 1 := by
  have hn := NodupIds.filter h (fun r => decide (P.ruleId r = id))
  have := nodup_const_length ((L.filter (fun r => decide (P.ruleId r = id))).map P.ruleId) id hn (by
    intro x hx
    simp only [List.mem_map, List.mem_filter, decide_eq_true_eq] at hx
    obtain ⟨r, ⟨_, hr⟩, rfl⟩ := hx
    exact hr)
  simpa using this

theorem filter_id_perm {L L' : List Rule} (hp : L.Perm L') (h : NodupIds P.ruleId L) (id : Id) :
    L.filter (fun r => decide (P.ruleId r = id)) = L'.filter (fun r => decide (P.ruleId r = id)) :=
  perm_of_length_le_one (hp.filter _) (filter_id_length P L h id)

/-! ### the hypotheses of extensionality -/

/-- Every per-example evaluation is a function of the *set* of matched rules: permuting a match vector
with distinct ids does not change it.  (For the real pipeline this is C11: `from_routes_rule` sorts the
routes with the total order of `Rule::cmp` before it folds them.) -/
structure PermInv : Prop where
  evalTest : ∀ (R R' : List Rule) q e, R.Perm R' → NodupIds P.ruleId R → P.evalTest R q e = P.evalTest R' q e
  evalUnit : ∀ (R R' : List Rule) q e, R.Perm R' → NodupIds P.ruleId R → P.evalUnit R q e = P.evalUnit R' q e
  evalExplain : ∀ (R R' : List Rule) q e, R.Perm R' → NodupIds P.ruleId R →
    P.evalExplain R q e = P.evalExplain R' q e
  evalHop : ∀ (R R' : List Rule) q e, R.Perm R' → NodupIds P.ruleId R → P.evalHop R q e = P.evalHop R' q e

/-- The router reports every rule once: live ids and matched ids are pairwise distinct (C01). -/
structure View.WF (S : View Rule Req Cfg Tr) : Prop where
  routes : NodupIds P.ruleId S.routes
  matched : ∀ q, NodupIds P.ruleId (S.matchReq q)

/-- `S ≈ S'`: same config, same live rules, same matched rules for every request (as sets: up to a
permutation), and the same canonical projection of the traces. -/
structure Equiv (canon : Tr → C) (S S' : View Rule Req Cfg Tr) : Prop where
  config : S.config = S'.config
  routes : S.routes.Perm S'.routes
  matchReq : ∀ q, (S.matchReq q).Perm (S'.matchReq q)
  trace : ∀ q, canon (S.trace q) = canon (S'.trace q)

variable {P}
variable {canon : Tr → C} {S S' : View Rule Req Cfg Tr}

/-! ### the redirect walker -/

theorem loopStep_ext (hI : PermInv P) (hE : Equiv canon S S') (hW : View.WF P S) (e : Ex) :
    loopStep P S e = loopStep P S' e := by
  funext u m
  unfold loopStep
  simp only [← hE.config]
  cases P.fromExample S.config (P.withUrlMethod e u m) with
  | error _ => rfl
  | ok q => simp only [hI.evalHop _ _ q _ (hE.matchReq q) (hW.matched q)]

theorem loop_ext (hI : PermInv P) (hE : Equiv canon S S') (hW : View.WF P S) (maxHops : Nat)
    (dom : Dom) (e : Ex) : loop P S maxHops dom e = loop P S' maxHops dom e := by
  unfold loop
  rw [loopStep_ext hI hE hW e]

/-! ### test-examples -/

theorem outcome_ext (hI : PermInv P) (hE : Equiv canon S S') (hW : View.WF P S) (maxHops : Nat)
    (dom : Dom) (r : Rule) (e : Ex) : outcome P S maxHops dom r e = outcome P S' maxHops dom r e := by
  unfold outcome outcomeWith
  simp only [← hE.config, loop_ext hI hE hW]
  cases P.expected e with
  | none => rfl
  | some exp =>
    cases P.fromExample S.config e with
    | error _ => rfl
    | ok q => simp only [hI.evalTest _ _ q e (hE.matchReq q) (hW.matched q)]

/-- one processed example: the rule, the example, the verdict -/
abbrev Event (Rule Ex Id UId U M : Type) := Rule × Ex × Outcome Ex Id UId U M

/-- the examples of one rule with their verdicts -/
def ruleEvents (P : Pipe Rule Req Cfg Ex Id UId UT Core U M Dom) (S : View Rule Req Cfg Tr)
    (maxHops : Nat) (dom : Dom) (r : Rule) : List (Event Rule Ex Id UId U M) :=
  ((P.examples r).getD []).map fun e => (r, e, outcome P S maxHops dom r e)

/-- all processed examples, in processing order -/
def events (P : Pipe Rule Req Cfg Ex Id UId UT Core U M Dom) (S : View Rule Req Cfg Tr)
    (maxHops : Nat) (dom : Dom) : List (Event Rule Ex Id UId U M) :=
  S.routes.flatMap (ruleEvents P S maxHops dom)

def applyEvent (P : Pipe Rule Req Cfg Ex Id UId UT Core U M Dom) (st : TestOut Rule Ex Id UId U M)
    (ev : Event Rule Ex Id UId U M) : TestOut Rule Ex Id UId U M :=
  applyOutcome P st ev.1 ev.2.1 ev.2.2

theorem testRule_eq (maxHops : Nat) (dom : Dom) (st : TestOut Rule Ex Id UId U M) (r : Rule) :
    testRule P S maxHops dom st r = (ruleEvents P S maxHops dom r).foldl (applyEvent P) st := by
  unfold testRule testRuleWith ruleEvents
  cases P.examples r with
  | none => rfl
  | some exs => simp [List.foldl_map, applyEvent, outcome]

/-- `create_result` is the fold of the updates over the processed examples. -/
theorem testExamplesUnordered_eq_fold (maxHops : Nat) (dom : Dom) :
    testExamplesUnordered P S maxHops dom = (events P S maxHops dom).foldl (applyEvent P) TestOut.init := by
  unfold testExamplesUnordered events
  rw [List.foldl_flatMap]
  congr 1
  funext st r
  exact testRule_eq maxHops dom st r

theorem events_perm (hI : PermInv P) (hE : Equiv canon S S') (hW : View.WF P S) (maxHops : Nat)
    (dom : Dom) : (events P S maxHops dom).Perm (events P S' maxHops dom) := by
  unfold events
  have hf : ruleEvents P S maxHops dom = ruleEvents P S' maxHops dom := by
    funext r
    unfold ruleEvents
    simp only [outcome_ext hI hE hW]
  rw [hf]
  exact hE.routes.flatMap_right _

/-! #### the three counters -/

def countsExample : Outcome Ex Id UId U M → Bool
  | .failed _ => true
  | .passed => true
  | _ => false
def countsFailure : Outcome Ex Id UId U M → Bool
  | .failed _ => true
  | _ => false
def countsError : Outcome Ex Id UId U M → Bool
  | .errored _ => true
  | _ => false

theorem fold_counts (evs : List (Event Rule Ex Id UId U M)) (st : TestOut Rule Ex Id UId U M) :
    (evs.foldl (applyEvent P) st).exampleCount = st.exampleCount + evs.countP (fun ev => countsExample ev.2.2) ∧
    (evs.foldl (applyEvent P) st).failureCount = st.failureCount + evs.countP (fun ev => countsFailure ev.2.2) ∧
    (evs.foldl (applyEvent P) st).errorCount = st.errorCount + evs.countP (fun ev => countsError ev.2.2) := by
  induction evs generalizing st with
  | nil => simp
  | cons ev t ih =>
    obtain ⟨r, e, o⟩ := ev
    simp only [List.foldl_cons]
    obtain ⟨h1, h2, h3⟩ := ih (applyEvent P st (r, e, o))
    rw [h1, h2, h3]
    cases o <;> simp [applyEvent, applyOutcome, countsExample, countsFailure, countsError, List.countP_cons] <;> omega

/-! #### the two truncated maps -/

/-- what a processed example contributes to a map: `(id, rule, item)` or nothing -/
abbrev Contribution (Rule Id α : Type) := Id × Rule × Option α

/-- the map without the `len() <= 10` test -/
def fullMap {α : Type} (l : List (Contribution Rule Id α)) (m : List (Id × Rule × List α)) :
    List (Id × Rule × List α) :=
  l.foldl (fun m t => match t.2.2 with | some x => pushAt t.1 t.2.1 x m | none => m) m

/-- the map as the code builds it -/
def truncMap {α : Type} (l : List (Contribution Rule Id α)) (m : List (Id × Rule × List α)) :
    List (Id × Rule × List α) :=
  l.foldl (fun m t => match t.2.2 with | some x => record m t.1 t.2.1 x | none => m) m

/-- `map.get(id)` -/
def lookupE {α : Type} (id : Id) (m : List (Id × Rule × List α)) : Option (Rule × List α) :=
  match m with
  | [] => none
  | (k, r, xs) :: rest => if k = id then some (r, xs) else lookupE id rest

/-- the items a list of contributions holds for `id`, with the rule that contributed each -/
def itemsFor {α : Type} (id : Id) (l : List (Contribution Rule Id α)) : List (Rule × α) :=
  l.filterMap fun t => if t.1 = id then t.2.2.map (fun x => (t.2.1, x)) else none

/-- an entry after pushing `items` for its key: created by the first item, extended by the others -/
def extendE {α : Type} : Option (Rule × List α) → List (Rule × α) → Option (Rule × List α)
  | o, [] => o
  | none, (r, x) :: rest => extendE (some (r, [x])) rest
  | some (r', xs), (_, x) :: rest => extendE (some (r', xs ++ [x])) rest

theorem lookupE_pushAt {α : Type} (id id' : Id) (r : Rule) (x : α) (m : List (Id × Rule × List α)) :
    lookupE id' (pushAt id r x m) =
      if id = id' then extendE (lookupE id' m) [(r, x)] else lookupE id' m := by
  induction m with
  | nil =>
    by_cases h : id = id'
    · simp [pushAt, lookupE, h, extendE]
    · simp [pushAt, lookupE, h]
  | cons t rest ih =>
    obtain ⟨k, r', xs⟩ := t
    by_cases hk : k = id
    · subst hk
      by_cases h : k = id'
      · simp [pushAt, lookupE, h, extendE]
      · simp [pushAt, lookupE, h]
    · by_cases h : id = id'
      · subst h
        simp [pushAt, lookupE, hk, ih]
      · by_cases hk' : k = id'
        · have h' : ¬ id' = id := fun e => h e.symm
          subst hk'
          simp [pushAt, lookupE, h, h']
        · simp [pushAt, lookupE, hk, hk', h, ih]

theorem extendE_append {α : Type} (o : Option (Rule × List α)) (a b : List (Rule × α)) :
    extendE o (a ++ b) = extendE (extendE o a) b := by
  induction a generalizing o with
  | nil => rfl
  | cons t rest ih =>
    obtain ⟨r, x⟩ := t
    cases o with
    | none => simp [extendE, ih]
    | some p => obtain ⟨r', xs⟩ := p; simp [extendE, ih]

/-- **The untruncated map as a function of the contributions per id.** -/
theorem lookupE_fullMap {α : Type} (id : Id) (l : List (Contribution Rule Id α))
    (m : List (Id × Rule × List α)) :
    lookupE id (fullMap l m) = extendE (lookupE id m) (itemsFor id l) := by
  induction l generalizing m with
  | nil => simp [fullMap, itemsFor, extendE]
  | cons t rest ih =>
    obtain ⟨k, r, ox⟩ := t
    have hstep : fullMap ((k, r, ox) :: rest) m =
        fullMap rest (match ox with | some x => pushAt k r x m | none => m) := rfl
    rw [hstep, ih]
    cases ox with
    | none => simp [itemsFor]
    | some x =>
      by_cases h : k = id
      · subst h
        have : itemsFor k ((k, r, some x) :: rest) = [(r, x)] ++ itemsFor k rest := by
          simp [itemsFor]
        rw [this, extendE_append, lookupE_pushAt]
        simp
      · have : itemsFor id ((k, r, some x) :: rest) = itemsFor id rest := by
          simp [itemsFor, h]
        rw [this, lookupE_pushAt]
        simp [h]

/-- keys of a map -/
def keysOf {α : Type} (m : List (Id × Rule × List α)) : List Id := m.map (·.1)

theorem keysOf_pushAt {α : Type} (id : Id) (r : Rule) (x : α) (m : List (Id × Rule × List α)) :
    keysOf (pushAt id r x m) = if id ∈ keysOf m then keysOf m else keysOf m ++ [id] := by
  induction m with
  | nil => simp [pushAt, keysOf]
  | cons t rest ih =>
    obtain ⟨k, r', xs⟩ := t
    by_cases hk : k = id
    · subst hk; simp [pushAt, keysOf]
    · have hk' : ¬ id = k := fun h => hk h.symm
      unfold keysOf at ih
      by_cases hin : id ∈ rest.map (·.1)
      · simp [pushAt, keysOf, hk, hk', hin, ih]
      · simp [pushAt, keysOf, hk, hk', hin, ih]

/-- If at most ten rules ever contribute, the `len() <= 10` test never fails: the code's map is the
untruncated one. -/
theorem truncMap_eq_fullMap {α : Type} (ids : List Id) (hn : ids.Nodup) (hlen : ids.length ≤ 10)
    (l : List (Contribution Rule Id α)) (hl : ∀ t ∈ l, t.2.2.isSome → t.1 ∈ ids)
    (m : List (Id × Rule × List α)) (hm : (keysOf m).Nodup) (hsub : ∀ k ∈ keysOf m, k ∈ ids) :
    truncMap l m = fullMap l m := by
  induction l generalizing m with
  | nil => rfl
  | cons t rest ih =>
    obtain ⟨k, r, ox⟩ := t
    have hrest : ∀ t ∈ rest, t.2.2.isSome → t.1 ∈ ids := fun t ht => hl t (by simp [ht])
    cases ox with
    | none =>
      show truncMap rest m = fullMap rest m
      exact ih hrest m hm hsub
    | some x =>
      have hk : k ∈ ids := hl (k, r, some x) (by simp) rfl
      have hle : m.length ≤ 10 := by
        have h1 : (keysOf m).length ≤ ids.length :=
          List.Nodup.length_le_of_subset hm (fun k hk => hsub k hk)
        simp only [keysOf, List.length_map] at h1
        omega
      have hrec : record m k r x = pushAt k r x m := by simp [record, hle]
      show truncMap rest (record m k r x) = fullMap rest (pushAt k r x m)
      rw [hrec]
      apply ih hrest
      · rw [keysOf_pushAt]
        split
        · exact hm
        · rename_i hnot
          rw [List.nodup_append]
          exact ⟨hm, by simp, by intro a ha b hb; simp at hb; subst hb; intro h; exact hnot (h ▸ ha)⟩
      · intro k' hk'
        rw [keysOf_pushAt] at hk'
        split at hk'
        · exact hsub k' hk'
        · simp only [List.mem_append, List.mem_singleton] at hk'
          rcases hk' with h | h
          · exact hsub k' h
          · exact h ▸ hk

/-- what an event contributes to `first_ten_failures` -/
def failureOf (P : Pipe Rule Req Cfg Ex Id UId UT Core U M Dom) (ev : Event Rule Ex Id UId U M) :
    Contribution Rule Id (FailedEx Ex Id UId U M) :=
  (P.ruleId ev.1, ev.1, match ev.2.2 with | .failed f => some f | _ => none)

/-- what an event contributes to `first_ten_errors` -/
def errorOf (P : Pipe Rule Req Cfg Ex Id UId UT Core U M Dom) (ev : Event Rule Ex Id UId U M) :
    Contribution Rule Id (Ex × String) :=
  (P.ruleId ev.1, ev.1, match ev.2.2 with | .errored msg => some (ev.2.1, msg) | _ => none)

theorem fold_maps (evs : List (Event Rule Ex Id UId U M)) (st : TestOut Rule Ex Id UId U M) :
    (evs.foldl (applyEvent P) st).firstTenFailures = truncMap (evs.map (failureOf P)) st.firstTenFailures ∧
    (evs.foldl (applyEvent P) st).firstTenErrors = truncMap (evs.map (errorOf P)) st.firstTenErrors := by
  induction evs generalizing st with
  | nil => simp [truncMap]
  | cons ev t ih =>
    obtain ⟨r, e, o⟩ := ev
    simp only [List.foldl_cons, List.map_cons]
    obtain ⟨h1, h2⟩ := ih (applyEvent P st (r, e, o))
    rw [h1, h2]
    cases o <;> simp [applyEvent, applyOutcome, truncMap, failureOf, errorOf]

/-- contributions for one id come from the (at most one) live rule with that id, in example order -/
theorem itemsFor_events {α : Type} (sel : Event Rule Ex Id UId U M → Option α) (maxHops : Nat) (dom : Dom)
    (id : Id) :
    itemsFor id ((events P S maxHops dom).map (fun ev => (P.ruleId ev.1, ev.1, sel ev))) =
      (S.routes.filter (fun r => decide (P.ruleId r = id))).flatMap
        (fun r => itemsFor id ((ruleEvents P S maxHops dom r).map (fun ev => (P.ruleId ev.1, ev.1, sel ev)))) := by
  unfold events
  induction S.routes with
  | nil => simp [itemsFor]
  | cons r rest ih =>
    simp only [List.flatMap_cons, List.map_append, List.filter_cons]
    have happ : ∀ (a b : List (Contribution Rule Id α)), itemsFor id (a ++ b) = itemsFor id a ++ itemsFor id b := by
      intro a b; simp [itemsFor, List.filterMap_append]
    rw [happ, ih]
    by_cases h : P.ruleId r = id
    · simp [h]
    · have : itemsFor id ((ruleEvents P S maxHops dom r).map (fun ev => (P.ruleId ev.1, ev.1, sel ev))) = [] := by
        unfold itemsFor ruleEvents
        rw [List.filterMap_eq_nil_iff]
        intro t ht
        simp only [List.mem_map] at ht
        obtain ⟨ev, ⟨e, _, rfl⟩, rfl⟩ := ht
        simp [h]
      simp [h, this]

theorem itemsFor_events_ext {α : Type} (sel : Event Rule Ex Id UId U M → Option α)
    (hI : PermInv P) (hE : Equiv canon S S') (hW : View.WF P S) (maxHops : Nat) (dom : Dom) (id : Id) :
    itemsFor id ((events P S maxHops dom).map (fun ev => (P.ruleId ev.1, ev.1, sel ev))) =
    itemsFor id ((events P S' maxHops dom).map (fun ev => (P.ruleId ev.1, ev.1, sel ev))) := by
  rw [itemsFor_events, itemsFor_events, filter_id_perm P hE.routes hW.routes id]
  have hf : ruleEvents P S maxHops dom = ruleEvents P S' maxHops dom := by
    funext r
    unfold ruleEvents
    simp only [outcome_ext hI hE hW]
  rw [hf]

/-! ### unit-ids -/

theorem unitExample_ext (hI : PermInv P) (hE : Equiv canon S S') (hW : View.WF P S) (e : Ex) :
    unitExample P S e = unitExample P S' e := by
  unfold unitExample
  simp only [← hE.config]
  cases P.fromExample S.config e with
  | error _ => rfl
  | ok q => simp only [hI.evalUnit _ _ q e (hE.matchReq q) (hW.matched q)]

theorem unitIds_perm (hI : PermInv P) (hE : Equiv canon S S') (hW : View.WF P S) :
    (unitIds P S).Perm (unitIds P S') := by
  unfold unitIds
  have hf : unitExample P S = unitExample P S' := funext (unitExample_ext hI hE hW)
  rw [hf]
  exact hE.routes.filterMap _

theorem unitIds_keys_nodup (hW : View.WF P S) : ((unitIds P S).map (·.1)).Nodup := by
  unfold unitIds
  have hsub : ((S.routes.filterMap fun r => (P.examples r).map fun exs =>
      (P.ruleId r, exs.map (unitExample P S))).map (·.1)).Sublist (S.routes.map P.ruleId) := by
    induction S.routes with
    | nil => simp
    | cons r rest ih =>
      cases h : P.examples r with
      | none => simp only [List.filterMap_cons, h, Option.map_none, List.map_cons]; exact ih.cons _
      | some exs =>
        simp only [List.filterMap_cons, h, Option.map_some, List.map_cons]
        exact ih.cons_cons _
  exact List.Nodup.sublist hsub hW.routes

/-- `map.get(id)` on an association list -/
def lookupA {β : Type} (id : Id) : List (Id × β) → Option β
  | [] => none
  | (k, v) :: rest => if k = id then some v else lookupA id rest

theorem lookupA_eq_some_iff {β : Type} (id : Id) (l : List (Id × β)) (hn : (l.map (·.1)).Nodup) (v : β) :
    lookupA id l = some v ↔ (id, v) ∈ l := by
  induction l with
  | nil => simp [lookupA]
  | cons t rest ih =>
    obtain ⟨k, w⟩ := t
    simp only [List.map_cons, List.nodup_cons] at hn
    by_cases hk : k = id
    · subst hk
      simp only [lookupA, if_true, Option.some.injEq, List.mem_cons, Prod.mk.injEq, true_and]
      constructor
      · intro h; exact Or.inl h.symm
      · rintro (h | h)
        · exact h.symm
        · exact absurd (List.mem_map_of_mem (f := (·.1)) h) hn.1
    · simp only [lookupA, hk, if_false, List.mem_cons, Prod.mk.injEq]
      rw [ih hn.2]
      constructor
      · intro h; exact Or.inr h
      · rintro (h | h)
        · exact absurd h.1.symm hk
        · exact h

/-- two association lists with distinct keys that are permutations of each other are the same map -/
theorem lookupA_perm {β : Type} (id : Id) (l l' : List (Id × β)) (hp : l.Perm l')
    (hn : (l.map (·.1)).Nodup) : lookupA id l = lookupA id l' := by
  have hn' : (l'.map (·.1)).Nodup := (hp.map _).nodup_iff.mp hn
  cases h : lookupA id l with
  | some v =>
    have := (lookupA_eq_some_iff id l hn v).mp h
    exact ((lookupA_eq_some_iff id l' hn' v).mpr (hp.mem_iff.mp this)).symm
  | none =>
    cases h' : lookupA id l' with
    | none => rfl
    | some v =>
      have := (lookupA_eq_some_iff id l' hn' v).mp h'
      have := (lookupA_eq_some_iff id l hn v).mpr (hp.mem_iff.mpr this)
      rw [h] at this; cases this

/-! ### explain and impact -/

/-- compare `match_traces` through the canonical projection only -/
def ExplainOut.project (canon : Tr → C) (o : ExplainOut Ex Core Tr U M) : ExplainOut Ex Core C U M :=
  ⟨o.ex, o.core, canon o.matchTraces, o.redirectionLoop⟩

def Impact.project (canon : Tr → C) : Impact Ex Core Tr U M → Impact Ex Core C U M
  | .err e msg => .err e msg
  | .ok e core tr lp => .ok e core (canon tr) lp

theorem explain_ext (hI : PermInv P) (hE : Equiv canon S S') (hW : View.WF P S) (maxHops : Nat)
    (dom : Dom) (e : Ex) :
    (explain P S maxHops dom e).map (ExplainOut.project canon) =
      (explain P S' maxHops dom e).map (ExplainOut.project canon) := by
  unfold explain
  simp only [← hE.config, loop_ext hI hE hW]
  cases P.fromExample S.config e with
  | error _ => rfl
  | ok q =>
    simp only [hI.evalExplain _ _ q e (hE.matchReq q) (hW.matched q), Except.map, ExplainOut.project,
      hE.trace q]

theorem computeImpacts_ext {T T' : View Rule Req Cfg Tr} (hI : PermInv P) (hE : Equiv canon S S')
    (hW : View.WF P S) (hT : ∀ q, canon (T.trace q) = canon (T'.trace q)) (examples : Option (List Ex))
    (withLoop : Bool) (maxHops : Nat) (dom : Dom) :
    (computeImpacts P S T examples withLoop maxHops dom).map (Impact.project canon) =
      (computeImpacts P S' T' examples withLoop maxHops dom).map (Impact.project canon) := by
  unfold computeImpacts
  cases examples with
  | none => rfl
  | some exs =>
    simp only [List.map_map]
    apply List.map_congr_left
    intro e _
    simp only [Function.comp, ← hE.config, loop_ext hI hE hW]
    cases P.fromExample S.config e with
    | error _ => rfl
    | ok q =>
      simp only [hI.evalExplain _ _ q e (hE.matchReq q) (hW.matched q), Impact.project, hT q]

end

/-! ### router algebras -/

section
variable {St Rule Req Cfg Tr C Ex Id UId UT Core U M Dom : Type}
variable [DecidableEq Id] [DecidableEq U] [DecidableEq M]
variable (A : Alg St Rule Req Cfg Tr Id) (rid : Rule → Id)

/-- every id is fresh at the moment it is inserted -/
def FreshAll : List Rule → List Rule → Prop
  | [], _ => True
  | r :: rs, L => rid r ∉ L.map rid ∧ FreshAll rs (r :: L)

/-- the live list after inserting `rs` one by one -/
def insertAll (rs : List Rule) (L : List Rule) : List Rule := rs.foldl (fun L r => r :: L) L

/-- the live rules after `apply_change_set(added, updated, deleted)`: the deleted and the updated ids
leave, then the updated and the added rules enter (same definition as `Rio.Router.liveChangeSet`) -/
def liveChangeSet (added updated : List Rule) (deleted : List Id) (L : List Rule) : List Rule :=
  insertAll added (insertAll updated
    (L.filter (fun r => !(deleted ++ updated.map rid).contains (rid r))))

/-- the change-set has consistent ids with respect to the live list -/
def ValidChangeSet (D : ChangeSet Rule Id) (L : List Rule) : Prop :=
  FreshAll rid (D.updated ++ D.added)
    (L.filter (fun r => !(D.deleted ++ D.updated.map rid).contains (rid r)))

/-- `apply(B, D)` -/
def ChangeSet.live (D : ChangeSet Rule Id) (L : List Rule) : List Rule :=
  liveChangeSet rid D.added D.updated D.deleted L

/-- The representation laws of a router algebra – the interface of W2's results (`Rio.C02.repr_*`,
`Rio.Router.rrepr_match_perm`, `rrepr_nodup_match`, `rrepr_trace_perm`): a state *represents* a config and
a list of live rules with distinct ids; every operation keeps that; two states representing the same
set of rules answer every request alike. -/
structure AlgLaws (canon : Tr → C) where
  Repr : St → Cfg → List Rule → Prop
  repr_empty : ∀ c, Repr (A.empty c) c []
  repr_insert : ∀ S c L r, Repr S c L → rid r ∉ L.map rid → Repr (A.insert r S) c (r :: L)
  repr_remove : ∀ S c L id, Repr S c L →
    Repr (A.remove id S) c (L.filter (fun r => decide (rid r ≠ id)))
  repr_changeSet : ∀ S c L (D : ChangeSet Rule Id), Repr S c L → ValidChangeSet rid D L →
    Repr (A.applyChangeSet D.added D.updated D.deleted S) c (D.live rid L)
  nodup : ∀ S c L, Repr S c L → NodupIds rid L
  config : ∀ S c L, Repr S c L → (A.view S).config = c
  routes : ∀ S c L, Repr S c L → ((A.view S).routes).Perm L
  match_nodup : ∀ S c L, Repr S c L → ∀ q, NodupIds rid ((A.view S).matchReq q)
  match_sub : ∀ S c L, Repr S c L → ∀ q x, x ∈ (A.view S).matchReq q → x ∈ L
  match_perm : ∀ S S' c L L', Repr S c L → Repr S' c L' → (∀ x, x ∈ L ↔ x ∈ L') →
    ∀ q, ((A.view S).matchReq q).Perm ((A.view S').matchReq q)
  trace_canon : ∀ S S' c L L', Repr S c L → Repr S' c L' → (∀ x, x ∈ L ↔ x ∈ L') →
    ∀ q, canon ((A.view S).trace q) = canon ((A.view S').trace q)

variable {A rid} {canon : Tr → C} (W : AlgLaws A rid canon)

theorem AlgLaws.wf {P : Pipe Rule Req Cfg Ex Id UId UT Core U M Dom} (W : AlgLaws A P.ruleId canon)
    {S : St} {c : Cfg} {L : List Rule} (h : W.Repr S c L) : View.WF P (A.view S) :=
  ⟨NodupIds.perm (W.nodup S c L h) (W.routes S c L h).symm, W.match_nodup S c L h⟩

/-- two states representing the same set of live rules have equivalent views -/
theorem AlgLaws.equiv {S S' : St} {c : Cfg} {L L' : List Rule} (h : W.Repr S c L) (h' : W.Repr S' c L')
    (hm : ∀ x, x ∈ L ↔ x ∈ L') : Equiv canon (A.view S) (A.view S') := by
  refine ⟨?_, ?_, W.match_perm S S' c L L' h h' hm, W.trace_canon S S' c L L' h h' hm⟩
  · rw [W.config S c L h, W.config S' c L' h']
  · have hLL' : L.Perm L' :=
      (List.perm_ext_iff_of_nodup (NodupIds.nodup (W.nodup S c L h))
        (NodupIds.nodup (W.nodup S' c L' h'))).mpr hm
    exact (W.routes S c L h).trans (hLL'.trans (W.routes S' c L' h').symm)

theorem repr_foldl_insert (rules : List Rule) : ∀ (S : St) (c : Cfg) (L : List Rule), W.Repr S c L →
    NodupIds rid (rules.reverse ++ L) →
    W.Repr (rules.foldl (fun S r => A.insert r S) S) c (rules.reverse ++ L) := by
  induction rules with
  | nil => intro S c L h _; simpa using h
  | cons r t ih =>
    intro S c L h hn
    simp only [List.foldl_cons, List.reverse_cons, List.append_assoc, List.singleton_append] at hn ⊢
    apply ih _ c (r :: L) _ hn
    apply W.repr_insert S c L r h
    unfold NodupIds at hn
    rw [List.map_append, List.nodup_append] at hn
    have := hn.2.1
    simp only [List.map_cons, List.nodup_cons] at this
    exact this.1

/-- a router filled rule by rule represents the rule list (in reverse order of insertion) -/
theorem repr_build (c : Cfg) (rules : List Rule) (hn : NodupIds rid rules) :
    W.Repr (A.build c rules) c rules.reverse := by
  have := repr_foldl_insert W rules (A.empty c) c [] (W.repr_empty c) (by
    simpa using NodupIds.perm hn (List.reverse_perm rules).symm)
  simpa [Alg.build] using this

/-- the router of the project entry points of test-examples / explain represents `apply(B, D)` up to the
order (when the change-set is empty the existing router is used as it is) -/
theorem repr_projectRouter (base : St) (c : Cfg) (B : List Rule) (D : ChangeSet Rule Id)
    (h : W.Repr base c B) (hv : ValidChangeSet rid D B) :
    ∃ L, W.Repr (A.projectRouter D base) c L ∧ ∀ x, x ∈ L ↔ x ∈ D.live rid B := by
  unfold Alg.projectRouter
  by_cases he : D.isEmpty = true
  · refine ⟨B, by simpa [he] using h, ?_⟩
    simp only [ChangeSet.isEmpty, Bool.and_eq_true, List.isEmpty_iff] at he
    obtain ⟨⟨ha, hu⟩, hd⟩ := he
    intro x
    simp [ChangeSet.live, liveChangeSet, insertAll, ha, hu, hd]
  · refine ⟨D.live rid B, ?_, fun _ => Iff.rfl⟩
    simp only [he, Bool.false_eq_true, if_false]
    exact W.repr_changeSet base c B D h hv

end

/-! ### a reference algebra: the router that keeps the list of live rules (non-vacuity of `AlgLaws`) -/

section
variable {Rule Req Cfg Id : Type} [DecidableEq Id]

theorem insertAll_append (rid : Rule → Id) (a b L : List Rule) :
    insertAll (a ++ b) L = insertAll b (insertAll a L) := by
  simp [insertAll, List.foldl_append]

theorem nodupIds_insertAll (rid : Rule → Id) (rs : List Rule) : ∀ (L : List Rule), NodupIds rid L →
    FreshAll rid rs L → NodupIds rid (insertAll rs L) := by
  induction rs with
  | nil => intro L h _; exact h
  | cons r t ih =>
    intro L h hf
    have : insertAll (r :: t) L = insertAll t (r :: L) := rfl
    rw [this]
    apply ih _ _ hf.2
    unfold NodupIds
    rw [List.map_cons, List.nodup_cons]
    exact ⟨hf.1, h⟩

theorem nodupIds_live (rid : Rule → Id) (D : ChangeSet Rule Id) (L : List Rule) (h : NodupIds rid L)
    (hv : ValidChangeSet rid D L) : NodupIds rid (D.live rid L) := by
  unfold ChangeSet.live liveChangeSet
  rw [← insertAll_append rid]
  exact nodupIds_insertAll rid _ _ (NodupIds.filter h _) hv

/-- the ids listed by a trace, as a set -/
def idSet (rid : Rule → Id) (t : List Rule) : Id → Bool := fun id => (t.map rid).contains id

/-- `Router` as the plain list of live rules; `sat` is the flat matching predicate (C01). -/
def listAlg (rid : Rule → Id) (sat : Cfg → Rule → Req → Bool) :
    Alg (Cfg × List Rule) Rule Req Cfg (List Rule) Id where
  empty c := (c, [])
  insert r S := (S.1, r :: S.2)
  remove id S := (S.1, S.2.filter (fun r => decide (rid r ≠ id)))
  applyChangeSet a u d S := (S.1, liveChangeSet rid a u d S.2)
  view S := ⟨S.1, S.2, fun q => S.2.filter (fun r => sat S.1 r q), fun q => S.2.filter (fun r => sat S.1 r q)⟩

theorem filter_perm_of_mem_iff {L L' : List Rule} (hn : L.Nodup) (hn' : L'.Nodup) (hm : ∀ x, x ∈ L ↔ x ∈ L')
    (p : Rule → Bool) : (L.filter p).Perm (L'.filter p) := by
  rw [List.perm_ext_iff_of_nodup (hn.filter _) (hn'.filter _)]
  intro x
  simp only [List.mem_filter, hm x]

def listLaws (rid : Rule → Id) (sat : Cfg → Rule → Req → Bool) :
    AlgLaws (listAlg (Req := Req) rid sat) rid (idSet rid) where
  Repr S c L := S = (c, L) ∧ NodupIds rid L
  repr_empty c := ⟨rfl, by simp [NodupIds]⟩
  repr_insert S c L r h hf := by
    obtain ⟨rfl, hn⟩ := h
    refine ⟨rfl, ?_⟩
    unfold NodupIds
    rw [List.map_cons, List.nodup_cons]
    exact ⟨hf, hn⟩
  repr_remove S c L id h := by
    obtain ⟨rfl, hn⟩ := h
    exact ⟨rfl, NodupIds.filter hn _⟩
  repr_changeSet S c L D h hv := by
    obtain ⟨rfl, hn⟩ := h
    exact ⟨rfl, nodupIds_live rid D L hn hv⟩
  nodup S c L h := h.2
  config S c L h := by obtain ⟨rfl, _⟩ := h; rfl
  routes S c L h := by obtain ⟨rfl, _⟩ := h; exact List.Perm.refl _
  match_nodup S c L h q := by
    obtain ⟨rfl, hn⟩ := h
    exact NodupIds.filter hn _
  match_sub S c L h q x hx := by
    obtain ⟨rfl, hn⟩ := h
    exact (List.mem_filter.mp hx).1
  match_perm S S' c L L' h h' hm q := by
    obtain ⟨rfl, hn⟩ := h
    obtain ⟨rfl, hn'⟩ := h'
    exact filter_perm_of_mem_iff (NodupIds.nodup hn) (NodupIds.nodup hn') hm _
  trace_canon S S' c L L' h h' hm q := by
    obtain ⟨rfl, hn⟩ := h
    obtain ⟨rfl, hn'⟩ := h'
    funext id
    have := filter_perm_of_mem_iff (NodupIds.nodup hn) (NodupIds.nodup hn') hm (fun r => sat c r q)
    simp only [idSet, listAlg]
    rw [Bool.eq_iff_iff]
    simp only [List.contains_iff_mem, List.mem_map]
    constructor
    · rintro ⟨r, hr, rfl⟩; exact ⟨r, this.mem_iff.mp hr, rfl⟩
    · rintro ⟨r, hr, rfl⟩; exact ⟨r, this.mem_iff.mpr hr, rfl⟩

end

/-! ### handlers: from an algebra over payload-free routes to one over (route, handler) pairs

W2's router model stores `Route`s without their handler (`Rule`).  The construction below adds the
handlers as a second association list keyed by the id – what `Route<Rule>::handler()` returns – and
shows that the representation laws carry over, so the theorems apply to rules whose *actions* change
while their triggers do not. -/

section
variable {St R Req Cfg Tr C Id Pl : Type} [DecidableEq Id]

theorem lookupA_filter {β : Type} (p : Id → Bool) (k : Id) (hk : p k = true) (H : List (Id × β)) :
    lookupA k (H.filter (fun e => p e.1)) = lookupA k H := by
  induction H with
  | nil => rfl
  | cons e t ih =>
    obtain ⟨k', v⟩ := e
    by_cases hp : p k' = true
    · simp only [List.filter_cons, hp, if_true, lookupA, ih]
    · have hne : k' ≠ k := fun h => hp (h ▸ hk)
      simp only [List.filter_cons, hp, Bool.false_eq_true, if_false, lookupA, hne, ih]

def insertAllH (rid : R → Id) (rs : List (R × Pl)) (H : List (Id × Pl)) : List (Id × Pl) :=
  rs.foldl (fun H rp => (rid rp.1, rp.2) :: H) H

/-- `Router<Rule>`: the matcher tower over routes plus `handler()` of every stored route. -/
def withPayload (A : Alg St R Req Cfg Tr Id) (rid : R → Id) :
    Alg (St × List (Id × Pl)) (R × Pl) Req Cfg Tr Id where
  empty c := (A.empty c, [])
  insert rp S := (A.insert rp.1 S.1, (rid rp.1, rp.2) :: S.2)
  remove id S := (A.remove id S.1, S.2.filter (fun e => decide (e.1 ≠ id)))
  applyChangeSet a u d S :=
    (A.applyChangeSet (a.map (·.1)) (u.map (·.1)) d S.1,
     insertAllH rid a (insertAllH rid u
       (S.2.filter (fun e => !(d ++ u.map (fun rp => rid rp.1)).contains e.1))))
  view S :=
    let g : R → Option (R × Pl) := fun r => (lookupA (rid r) S.2).map fun p => (r, p)
    ⟨(A.view S.1).config, (A.view S.1).routes.filterMap g,
     fun q => ((A.view S.1).matchReq q).filterMap g, (A.view S.1).trace⟩

theorem filterMap_congr' {α β : Type} (l : List α) (f g : α → Option β) (h : ∀ x ∈ l, f x = g x) :
    l.filterMap f = l.filterMap g := by
  induction l with
  | nil => rfl
  | cons a t ih =>
    simp only [List.filterMap_cons, h a (by simp)]
    rw [ih (fun x hx => h x (by simp [hx]))]

theorem filterMap_map_of_left_inv {α β : Type} (f : α → β) (g : β → Option α) (L : List α)
    (h : ∀ x ∈ L, g (f x) = some x) : (L.map f).filterMap g = L := by
  induction L with
  | nil => rfl
  | cons x t ih =>
    simp only [List.map_cons, List.filterMap_cons, h x (by simp)]
    rw [ih (fun y hy => h y (by simp [hy]))]

theorem map_rid_filterMap_sublist (rid : R → Id) (H : List (Id × Pl)) (m : List R) :
    ((m.filterMap (fun r => (lookupA (rid r) H).map fun p => (r, p))).map (fun rp => rid rp.1)).Sublist
      (m.map rid) := by
  induction m with
  | nil => simp
  | cons r t ih =>
    cases h : lookupA (rid r) H with
    | none => simp only [List.filterMap_cons, h, Option.map_none, List.map_cons]; exact ih.cons _
    | some p =>
      simp only [List.filterMap_cons, h, Option.map_some, List.map_cons]
      exact ih.cons_cons _

theorem freshAll_map (rid : R → Id) (rs : List (R × Pl)) : ∀ (L : List (R × Pl)),
    FreshAll (fun rp : R × Pl => rid rp.1) rs L → FreshAll rid (rs.map (·.1)) (L.map (·.1)) := by
  induction rs with
  | nil => intro L _; trivial
  | cons rp t ih =>
    intro L hf
    refine ⟨?_, ?_⟩
    · have := hf.1
      simpa [List.map_map, Function.comp] using this
    · have := ih (rp :: L) hf.2
      simpa using this

theorem insertAll_map (rs L : List (R × Pl)) :
    (insertAll rs L).map (·.1) = insertAll (rs.map (·.1)) (L.map (·.1)) := by
  induction rs generalizing L with
  | nil => rfl
  | cons rp t ih =>
    show (insertAll t (rp :: L)).map (·.1) = insertAll (t.map (·.1)) (rp.1 :: L.map (·.1))
    rw [ih]; rfl

theorem live_map (rid : R → Id) (D : ChangeSet (R × Pl) Id) (L : List (R × Pl)) :
    (D.live (fun rp => rid rp.1) L).map (·.1) =
      (ChangeSet.mk (D.added.map (·.1)) (D.updated.map (·.1)) D.deleted).live rid (L.map (·.1)) := by
  unfold ChangeSet.live liveChangeSet
  rw [insertAll_map, insertAll_map]
  simp only [List.filter_map, List.map_map]
  rfl

theorem valid_map (rid : R → Id) (D : ChangeSet (R × Pl) Id) (L : List (R × Pl))
    (hv : ValidChangeSet (fun rp => rid rp.1) D L) :
    ValidChangeSet rid (ChangeSet.mk (D.added.map (·.1)) (D.updated.map (·.1)) D.deleted) (L.map (·.1)) := by
  unfold ValidChangeSet at *
  have := freshAll_map rid _ _ hv
  rw [List.map_append] at this
  simp only [List.filter_map, List.map_map]
  exact this

/-- handlers stay right along a sequence of fresh insertions -/
theorem lookup_insertAllH (rid : R → Id) (rs : List (R × Pl)) : ∀ (L : List (R × Pl)) (H : List (Id × Pl)),
    (∀ rp ∈ L, lookupA (rid rp.1) H = some rp.2) → FreshAll (fun rp : R × Pl => rid rp.1) rs L →
    ∀ rp ∈ insertAll rs L, lookupA (rid rp.1) (insertAllH rid rs H) = some rp.2 := by
  induction rs with
  | nil => intro L H h _ rp hrp; exact h rp hrp
  | cons x t ih =>
    intro L H h hf
    show ∀ rp ∈ insertAll t (x :: L), lookupA (rid rp.1) (insertAllH rid t ((rid x.1, x.2) :: H)) = some rp.2
    apply ih (x :: L) _ _ hf.2
    intro rp hrp
    rcases List.mem_cons.mp hrp with h1 | h1
    · subst h1; simp [lookupA]
    · have hne : rid x.1 ≠ rid rp.1 := by
        intro heq
        apply hf.1
        show rid x.1 ∈ L.map (fun rp : R × Pl => rid rp.1)
        rw [heq]
        exact List.mem_map_of_mem (f := fun rp : R × Pl => rid rp.1) h1
      simp only [lookupA, hne, if_false]
      exact h rp h1

/-- The laws carry over from routes to (route, handler) pairs. -/
def withPayloadLaws {A : Alg St R Req Cfg Tr Id} {rid : R → Id} {canon : Tr → C}
    (W : AlgLaws A rid canon) :
    AlgLaws (withPayload (Pl := Pl) A rid) (fun rp : R × Pl => rid rp.1) canon where
  Repr S c L := W.Repr S.1 c (L.map (·.1)) ∧ ∀ rp ∈ L, lookupA (rid rp.1) S.2 = some rp.2
  repr_empty c := ⟨W.repr_empty c, by intro rp h; cases h⟩
  repr_insert S c L rp h hf := by
    refine ⟨?_, ?_⟩
    · have := W.repr_insert S.1 c (L.map (·.1)) rp.1 h.1 (by simpa [List.map_map, Function.comp] using hf)
      simpa [withPayload] using this
    · intro x hx
      rcases List.mem_cons.mp hx with h1 | h1
      · subst h1; simp [withPayload, lookupA]
      · have hne : rid rp.1 ≠ rid x.1 := by
          intro heq
          apply hf
          show rid rp.1 ∈ L.map (fun rp : R × Pl => rid rp.1)
          rw [heq]
          exact List.mem_map_of_mem (f := fun rp : R × Pl => rid rp.1) h1
        simp only [withPayload, lookupA, hne, if_false]
        exact h.2 x h1
  repr_remove S c L id h := by
    refine ⟨?_, ?_⟩
    · have := W.repr_remove S.1 c (L.map (·.1)) id h.1
      rw [List.filter_map] at this
      exact this
    · intro x hx
      have hx' := List.mem_filter.mp hx
      have hne : rid x.1 ≠ id := by simpa using hx'.2
      have := lookupA_filter (fun k => decide (k ≠ id)) (rid x.1) (by simpa using hne) S.2
      simp only [withPayload]
      rw [this]
      exact h.2 x hx'.1
  repr_changeSet S c L D h hv := by
    refine ⟨?_, ?_⟩
    · have := W.repr_changeSet S.1 c (L.map (·.1))
        (ChangeSet.mk (D.added.map (·.1)) (D.updated.map (·.1)) D.deleted) h.1 (valid_map rid D L hv)
      rw [live_map]
      simpa [withPayload] using this
    · intro x hx
      unfold ChangeSet.live liveChangeSet at hx
      rw [← insertAll_append (fun rp : R × Pl => rid rp.1)] at hx
      have hbase : ∀ rp ∈ L.filter (fun r => !(D.deleted ++ D.updated.map (fun rp => rid rp.1)).contains (rid r.1)),
          lookupA (rid rp.1)
            (S.2.filter (fun e => !(D.deleted ++ D.updated.map (fun rp => rid rp.1)).contains e.1)) = some rp.2 := by
        intro rp hrp
        have hrp' := List.mem_filter.mp hrp
        rw [lookupA_filter (fun k => !(D.deleted ++ D.updated.map (fun rp => rid rp.1)).contains k)
          (rid rp.1) hrp'.2 S.2]
        exact h.2 rp hrp'.1
      have := lookup_insertAllH rid (D.updated ++ D.added) _ _ hbase hv x hx
      have hH : insertAllH rid (D.updated ++ D.added)
          (S.2.filter (fun e => !(D.deleted ++ D.updated.map (fun rp => rid rp.1)).contains e.1)) =
          insertAllH rid D.added (insertAllH rid D.updated
            (S.2.filter (fun e => !(D.deleted ++ D.updated.map (fun rp => rid rp.1)).contains e.1))) := by
        simp [insertAllH, List.foldl_append]
      rw [hH] at this
      simpa [withPayload] using this
  nodup S c L h := by
    have := W.nodup S.1 c _ h.1
    unfold NodupIds at *
    rw [List.map_map] at this
    exact this
  config S c L h := W.config S.1 c _ h.1
  routes S c L h := by
    have hp := (W.routes S.1 c _ h.1).filterMap
      (fun r => (lookupA (rid r) S.2).map fun p => (r, p))
    rw [filterMap_map_of_left_inv (·.1) _ L (by intro x hx; simp [h.2 x hx])] at hp
    exact hp
  match_nodup S c L h q := by
    have := W.match_nodup S.1 c _ h.1 q
    exact List.Nodup.sublist (map_rid_filterMap_sublist rid S.2 _) this
  match_sub S c L h q x hx := by
    simp only [withPayload, List.mem_filterMap, Option.map_eq_some_iff] at hx
    obtain ⟨r, hr, p, hp, rfl⟩ := hx
    have hrL := W.match_sub S.1 c _ h.1 q r hr
    obtain ⟨rp, hrp, rfl⟩ := List.mem_map.mp hrL
    have := h.2 rp hrp
    rw [hp] at this
    cases this
    exact hrp
  match_perm S S' c L L' h h' hm q := by
    have hm1 : ∀ x, x ∈ L.map (·.1) ↔ x ∈ L'.map (·.1) := by
      intro x
      simp only [List.mem_map]
      constructor
      · rintro ⟨rp, hrp, rfl⟩; exact ⟨rp, (hm rp).mp hrp, rfl⟩
      · rintro ⟨rp, hrp, rfl⟩; exact ⟨rp, (hm rp).mpr hrp, rfl⟩
    have hp := (W.match_perm S.1 S'.1 c _ _ h.1 h'.1 hm1 q).filterMap
      (fun r => (lookupA (rid r) S.2).map fun p => (r, p))
    refine hp.trans ?_
    have : ((A.view S'.1).matchReq q).filterMap (fun r => (lookupA (rid r) S.2).map fun p => (r, p)) =
        ((A.view S'.1).matchReq q).filterMap (fun r => (lookupA (rid r) S'.2).map fun p => (r, p)) := by
      apply filterMap_congr'
      intro r hr
      have hrL := W.match_sub S'.1 c _ h'.1 q r hr
      obtain ⟨rp, hrp, rfl⟩ := List.mem_map.mp hrL
      rw [h'.2 rp hrp, h.2 rp ((hm rp).mpr hrp)]
    simp only [withPayload]
    rw [this]
  trace_canon S S' c L L' h h' hm q := by
    have hm1 : ∀ x, x ∈ L.map (·.1) ↔ x ∈ L'.map (·.1) := by
      intro x
      simp only [List.mem_map]
      constructor
      · rintro ⟨rp, hrp, rfl⟩; exact ⟨rp, (hm rp).mp hrp, rfl⟩
      · rintro ⟨rp, hrp, rfl⟩; exact ⟨rp, (hm rp).mpr hrp, rfl⟩
    exact W.trace_canon S.1 S'.1 c _ _ h.1 h'.1 hm1 q

end

end Rio.Analysis

/-! ### assembly: test-examples -/

namespace Rio.Analysis
open Rio.Loop

section
variable {Rule Req Cfg Tr C Ex Id UId UT Core U M Dom : Type}
variable [DecidableEq Id] [DecidableEq U] [DecidableEq M]
variable {P : Pipe Rule Req Cfg Ex Id UId UT Core U M Dom}
variable {canon : Tr → C} {S S' : View Rule Req Cfg Tr}

theorem testExamplesUnordered_counts_ext (hI : PermInv P) (hE : Equiv canon S S') (hW : View.WF P S)
    (maxHops : Nat) (dom : Dom) :
    (testExamplesUnordered P S maxHops dom).exampleCount = (testExamplesUnordered P S' maxHops dom).exampleCount ∧
    (testExamplesUnordered P S maxHops dom).failureCount = (testExamplesUnordered P S' maxHops dom).failureCount ∧
    (testExamplesUnordered P S maxHops dom).errorCount = (testExamplesUnordered P S' maxHops dom).errorCount := by
  rw [testExamplesUnordered_eq_fold, testExamplesUnordered_eq_fold]
  obtain ⟨a1, a2, a3⟩ := fold_counts (P := P) (events P S maxHops dom) TestOut.init
  obtain ⟨b1, b2, b3⟩ := fold_counts (P := P) (events P S' maxHops dom) TestOut.init
  have hp := events_perm hI hE hW maxHops dom
  rw [a1, a2, a3, b1, b2, b3, hp.countP_eq, hp.countP_eq, hp.countP_eq]
  exact ⟨rfl, rfl, rfl⟩

/-- at most ten rules have a failed example -/
def FailuresBounded (P : Pipe Rule Req Cfg Ex Id UId UT Core U M Dom) (S : View Rule Req Cfg Tr)
    (maxHops : Nat) (dom : Dom) : Prop :=
  ∃ ids : List Id, ids.Nodup ∧ ids.length ≤ 10 ∧
    ∀ ev ∈ events P S maxHops dom, (failureOf P ev).2.2.isSome → P.ruleId ev.1 ∈ ids

/-- at most ten rules have an example whose request cannot be built -/
def ErrorsBounded (P : Pipe Rule Req Cfg Ex Id UId UT Core U M Dom) (S : View Rule Req Cfg Tr)
    (maxHops : Nat) (dom : Dom) : Prop :=
  ∃ ids : List Id, ids.Nodup ∧ ids.length ≤ 10 ∧
    ∀ ev ∈ events P S maxHops dom, (errorOf P ev).2.2.isSome → P.ruleId ev.1 ∈ ids

theorem failures_lookup (maxHops : Nat) (dom : Dom) (hb : FailuresBounded P S maxHops dom) (id : Id) :
    lookupE id (testExamplesUnordered P S maxHops dom).firstTenFailures =
      extendE none (itemsFor id ((events P S maxHops dom).map (failureOf P))) := by
  obtain ⟨ids, hn, hlen, hall⟩ := hb
  rw [testExamplesUnordered_eq_fold, (fold_maps (P := P) (events P S maxHops dom) TestOut.init).1]
  rw [truncMap_eq_fullMap ids hn hlen _ (by
      intro t ht hs
      simp only [List.mem_map] at ht
      obtain ⟨ev, hev, rfl⟩ := ht
      exact hall ev hev hs) _ (by simp [TestOut.init, keysOf]) (by simp [TestOut.init, keysOf]),
    lookupE_fullMap]
  simp [TestOut.init, lookupE]

theorem errors_lookup (maxHops : Nat) (dom : Dom) (hb : ErrorsBounded P S maxHops dom) (id : Id) :
    lookupE id (testExamplesUnordered P S maxHops dom).firstTenErrors =
      extendE none (itemsFor id ((events P S maxHops dom).map (errorOf P))) := by
  obtain ⟨ids, hn, hlen, hall⟩ := hb
  rw [testExamplesUnordered_eq_fold, (fold_maps (P := P) (events P S maxHops dom) TestOut.init).2]
  rw [truncMap_eq_fullMap ids hn hlen _ (by
      intro t ht hs
      simp only [List.mem_map] at ht
      obtain ⟨ev, hev, rfl⟩ := ht
      exact hall ev hev hs) _ (by simp [TestOut.init, keysOf]) (by simp [TestOut.init, keysOf]),
    lookupE_fullMap]
  simp [TestOut.init, lookupE]

theorem failuresBounded_ext (hI : PermInv P) (hE : Equiv canon S S') (hW : View.WF P S) (maxHops : Nat)
    (dom : Dom) (hb : FailuresBounded P S maxHops dom) : FailuresBounded P S' maxHops dom := by
  obtain ⟨ids, hn, hlen, hall⟩ := hb
  exact ⟨ids, hn, hlen, fun ev hev => hall ev ((events_perm hI hE hW maxHops dom).mem_iff.mpr hev)⟩

theorem errorsBounded_ext (hI : PermInv P) (hE : Equiv canon S S') (hW : View.WF P S) (maxHops : Nat)
    (dom : Dom) (hb : ErrorsBounded P S maxHops dom) : ErrorsBounded P S' maxHops dom := by
  obtain ⟨ids, hn, hlen, hall⟩ := hb
  exact ⟨ids, hn, hlen, fun ev hev => hall ev ((events_perm hI hE hW maxHops dom).mem_iff.mpr hev)⟩

theorem testExamplesUnordered_failures_ext (hI : PermInv P) (hE : Equiv canon S S') (hW : View.WF P S)
    (maxHops : Nat) (dom : Dom) (hb : FailuresBounded P S maxHops dom) (id : Id) :
    lookupE id (testExamplesUnordered P S maxHops dom).firstTenFailures =
      lookupE id (testExamplesUnordered P S' maxHops dom).firstTenFailures := by
  rw [failures_lookup maxHops dom hb, failures_lookup maxHops dom (failuresBounded_ext hI hE hW maxHops dom hb)]
  have := itemsFor_events_ext (fun ev : Event Rule Ex Id UId U M =>
    (match ev.2.2 with | .failed f => some f | _ => none)) hI hE hW maxHops dom id
  unfold failureOf
  rw [this]

theorem testExamplesUnordered_errors_ext (hI : PermInv P) (hE : Equiv canon S S') (hW : View.WF P S)
    (maxHops : Nat) (dom : Dom) (hb : ErrorsBounded P S maxHops dom) (id : Id) :
    lookupE id (testExamplesUnordered P S maxHops dom).firstTenErrors =
      lookupE id (testExamplesUnordered P S' maxHops dom).firstTenErrors := by
  rw [errors_lookup maxHops dom hb, errors_lookup maxHops dom (errorsBounded_ext hI hE hW maxHops dom hb)]
  have := itemsFor_events_ext (fun ev : Event Rule Ex Id UId U M =>
    (match ev.2.2 with | .errored msg => some (ev.2.1, msg) | _ => none)) hI hE hW maxHops dom id
  unfold errorOf
  rw [this]

end
end Rio.Analysis

/-! ### test-examples as repaired (rules in id order): plain equality -/

namespace Rio.Analysis
open Rio.Loop

section
variable {Rule Req Cfg Tr C Ex Id UId UT Core U M Dom : Type}
variable [DecidableEq Id] [DecidableEq U] [DecidableEq M]
variable {P : Pipe Rule Req Cfg Ex Id UId UT Core U M Dom}
variable {canon : Tr → C} {S S' : View Rule Req Cfg Tr}

/-- `Ord for String` on ids: a total order (what `sort_by(a.cmp(b))` relies on). -/
structure IdOrder (P : Pipe Rule Req Cfg Ex Id UId UT Core U M Dom) : Prop where
  total : ∀ a b, (P.idLe a b || P.idLe b a) = true
  trans : ∀ a b c, P.idLe a b = true → P.idLe b c = true → P.idLe a c = true
  antisymm : ∀ a b, P.idLe a b = true → P.idLe b a = true → a = b

theorem eq_of_nodup_map {α β : Type} (f : α → β) : ∀ {L : List α}, (L.map f).Nodup →
    ∀ {a b : α}, a ∈ L → b ∈ L → f a = f b → a = b := by
  intro L
  induction L with
  | nil => intro _ a b ha; cases ha
  | cons x t ih =>
    intro hn a b ha hb hf
    rw [List.map_cons, List.nodup_cons] at hn
    rcases List.mem_cons.mp ha with rfl | ha'
    · rcases List.mem_cons.mp hb with rfl | hb'
      · rfl
      · exact absurd (hf ▸ List.mem_map_of_mem (f := f) hb') hn.1
    · rcases List.mem_cons.mp hb with rfl | hb'
      · exact absurd (hf ▸ List.mem_map_of_mem (f := f) ha') hn.1
      · exact ih hn.2 ha' hb' hf

theorem insertById_perm (r : Rule) (L : List Rule) : (insertById P r L).Perm (r :: L) := by
  induction L with
  | nil => exact List.Perm.refl _
  | cons x t ih =>
    unfold insertById
    split
    · exact List.Perm.refl _
    · exact (List.Perm.cons x ih).trans (List.Perm.swap r x t)

theorem sortById_perm_self (L : List Rule) : (sortById P L).Perm L := by
  induction L with
  | nil => exact List.Perm.refl _
  | cons r t ih =>
    show (insertById P r (sortById P t)).Perm (r :: t)
    exact (insertById_perm r _).trans (List.Perm.cons r ih)

theorem insertById_sorted (hO : IdOrder P) (r : Rule) (L : List Rule)
    (h : L.Pairwise fun a b => P.idLe (P.ruleId a) (P.ruleId b) = true) :
    (insertById P r L).Pairwise fun a b => P.idLe (P.ruleId a) (P.ruleId b) = true := by
  induction L with
  | nil => simp [insertById]
  | cons x t ih =>
    rw [List.pairwise_cons] at h
    unfold insertById
    split
    · rename_i hle
      rw [List.pairwise_cons]
      refine ⟨?_, List.pairwise_cons.mpr h⟩
      intro y hy
      rcases List.mem_cons.mp hy with rfl | hy'
      · exact hle
      · exact hO.trans _ _ _ hle (h.1 y hy')
    · rename_i hnle
      have hxr : P.idLe (P.ruleId x) (P.ruleId r) = true := by
        have := hO.total (P.ruleId r) (P.ruleId x)
        simp only [Bool.or_eq_true] at this
        rcases this with h1 | h1
        · exact absurd h1 hnle
        · exact h1
      rw [List.pairwise_cons]
      refine ⟨?_, ih h.2⟩
      intro y hy
      rcases List.mem_cons.mp ((insertById_perm r t).mem_iff.mp hy) with rfl | hy'
      · exact hxr
      · exact h.1 y hy'

theorem sortById_sorted (hO : IdOrder P) (L : List Rule) :
    (sortById P L).Pairwise fun a b => P.idLe (P.ruleId a) (P.ruleId b) = true := by
  induction L with
  | nil => simp [sortById]
  | cons r t ih => exact insertById_sorted hO r _ ih

/-- the id-sorted list of routes is a function of the SET of routes (ids distinct) -/
theorem sortById_perm (hO : IdOrder P) {L L' : List Rule} (hp : L.Perm L') (hn : NodupIds P.ruleId L) :
    sortById P L = sortById P L' := by
  have hperm : (sortById P L).Perm (sortById P L') :=
    (sortById_perm_self L).trans (hp.trans (sortById_perm_self L').symm)
  apply List.Perm.eq_of_pairwise (le := fun a b => P.idLe (P.ruleId a) (P.ruleId b) = true) _
    (sortById_sorted hO L) (sortById_sorted hO L') hperm
  intro a b ha hb hab hba
  have hid := hO.antisymm _ _ hab hba
  have haL : a ∈ L := (sortById_perm_self L).mem_iff.mp ha
  have hbL : b ∈ L := hp.mem_iff.mpr ((sortById_perm_self L').mem_iff.mp hb)
  exact eq_of_nodup_map P.ruleId hn haL hbL hid

theorem testRule_ext (hI : PermInv P) (hE : Equiv canon S S') (hW : View.WF P S) (maxHops : Nat) (dom : Dom) :
    testRule P S maxHops dom = testRule P S' maxHops dom := by
  funext st r
  unfold testRule testRuleWith
  cases P.examples r with
  | none => rfl
  | some exs =>
    have h : ∀ e, outcomeWith P S (loop P S maxHops dom) r e = outcomeWith P S' (loop P S' maxHops dom) r e :=
      fun e => outcome_ext hI hE hW maxHops dom r e
    simp only [h]

/-- **test-examples (as repaired) is a function of the rule set**: the whole output – the three counters and
both `first_ten_*` maps with their truncation – is EQUAL for equivalent routers. -/
theorem testExamples_ext (hO : IdOrder P) (hI : PermInv P) (hE : Equiv canon S S') (hW : View.WF P S)
    (maxHops : Nat) (dom : Dom) : testExamples P S maxHops dom = testExamples P S' maxHops dom := by
  have h : testRuleWith P S (loop P S maxHops dom) = testRuleWith P S' (loop P S' maxHops dom) :=
    testRule_ext hI hE hW maxHops dom
  unfold testExamples testExamplesWith
  rw [sortById_perm hO hE.routes hW.routes, h]

/-- the repaired analysis is the old one run on the id-sorted route list -/
theorem testExamples_eq_unordered (maxHops : Nat) (dom : Dom) :
    testExamples P S maxHops dom =
      testExamplesUnordered P { S with routes := sortById P S.routes } maxHops dom := rfl

end
end Rio.Analysis
