/-
Closed forms of the tokenizer's readers, part 3: end tags, comments, doctype, raw text, text.
-/
import RioModel.Proofs.HtmlClosed2
set_option linter.unusedSimpArgs false
set_option linter.unusedVariables false

namespace Rio.Html
namespace Tokenizer
open Rio.Consts

/-! ### the main loop at `<` + opener -/

/-- what the main loop hands to `dispatchTag` -/
def opened2 (T : Tokenizer) : Tokenizer := T.readByte.1.readByte.1

structure OpenedFacts (T S : Tokenizer) : Prop where
  rawE : S.rawE = T.rawE + 2
  rawS : S.rawS = T.rawS
  err : S.err = false
  buf : S.buf = T.buf
  rawTag : S.rawTag = T.rawTag
  cdata : S.allowCdata = T.allowCdata
  ok : Ok S
  dataS : S.dataS = T.dataS
  dataE : S.dataE = T.dataE

theorem mainLoop_dispatch (T : Tokenizer) (c : Nat) (ok : Ok T) (he : T.err = false)
    (h : Has T T.rawE [60, c]) (hop : isOpener c = true) :
    mainLoop T = dispatchTag (opened2 T) c ∧ OpenedFacts T (opened2 T) := by
  unfold opened2
  obtain ⟨e1, e2, e3, e4⟩ := read_known h.head he
  have hb1 : T.readByte.1.buf[T.readByte.1.rawE]? = some c := by rw [e4, e2]; exact h.tail.head
  obtain ⟨f1, f2, f3, f4⟩ := read_known hb1 e3
  have a1 := readByte_adv ok
  have a2 := readByte_adv a1.ok
  have a12 := a1.trans a2
  refine ⟨?_, ⟨by rw [f2, e2], a12.rawS, f3, a12.buf, a12.rawTag, a12.cdata, a2.ok, by simp, by simp⟩⟩
  rw [mainLoop]
  have hne1 : ¬ T.readByte.1.err = true := by rw [e3]; exact Bool.false_ne_true
  have hne2 : ¬ T.readByte.1.readByte.1.err = true := by rw [f3]; exact Bool.false_ne_true
  rw [dif_neg hne1]
  have h60 : ¬ (T.readByte.2 != 60) = true := by rw [e1]; simp
  rw [if_neg h60]
  simp only []
  rw [dif_neg hne2]
  have hop' : ¬ (!(isAlpha T.readByte.1.readByte.2 || T.readByte.1.readByte.2 == 47 ||
      T.readByte.1.readByte.2 == 33 || T.readByte.1.readByte.2 == 63)) = true := by
    rw [f1]; unfold isOpener at hop; simp [hop]
  rw [if_neg hop', f1]

/-! ### end tags -/

/-- what a token-producing step on state `T` (whose pending span is empty: `raw.start = raw.end`) returns -/
structure PieceM (T t1 : Tokenizer) (k : TokenType) (len : Nat) : Prop where
  token : t1.token = k
  rawS : t1.rawS = T.rawS
  rawE : t1.rawE = T.rawE + len
  err : t1.err = false
  rawTag : t1.rawTag = T.rawTag
  cdata : t1.allowCdata = T.allowCdata
  buf : t1.buf = T.buf

/-- the main loop on `</name>` (any name `read_tag_name` accepts) -/
theorem mainLoop_end_tag2 (T : Tokenizer) (disp : Bytes) (ok : Ok T) (he : T.err = false) (hrs : T.rawS = T.rawE)
    (hn : nameOK2 disp = true) (h : Has T T.rawE ([60, 47] ++ disp ++ [62])) :
    PieceM T (mainLoop T) .endTag ([60, 47] ++ disp ++ [62]).length ∧
    (mainLoop T).dataS = T.rawE + 2 ∧ (mainLoop T).dataE = T.rawE + 2 + disp.length := by
  cases disp with
  | nil => simp [nameOK2] at hn
  | cons c nm =>
    simp only [nameOK2, Bool.and_eq_true, List.all_eq_true] at hn
    obtain ⟨hc, hnm⟩ := hn
    have hx : [60, 47] ++ (c :: nm) ++ [62] = 60 :: 47 :: c :: (nm ++ [62]) := by simp
    rw [hx] at h ⊢
    obtain ⟨hml, o⟩ := mainLoop_dispatch T 47 ok he
      (fun i hi => by have := h i (by simp at hi ⊢; omega); rw [this]; match i, hi with | 0, _ => rfl | 1, _ => rfl)
      (by decide)
    generalize opened2 T = S at *
    have hSc : S.buf[S.rawE]? = some c := by
      rw [o.buf, o.rawE]; exact h.tail.tail.head
    obtain ⟨e1, e2, e3, e4⟩ := read_known hSc o.err
    have a3 := readByte_adv o.ok
    have hnmhas : Has S.readByte.1 S.readByte.1.rawE (nm ++ (attrsOf [] ++ [] ++ TagEnd.gt.text)) := by
      have : Has T (T.rawE + 3) (nm ++ [62]) := by
        have := h.tail.tail.tail; exact this.at (by omega)
      simp only [attrsOf, List.nil_append, List.append_nil, TagEnd.text]
      exact (this.congr (e4.trans o.buf)).at (by rw [e2, o.rawE])
    have run := readTag_run nm [] [] .gt S.readByte.1 false a3.ok (by omega) e3
      hnm (by simp) (by simp) rfl hnmhas
    have a4 := readTag_adv S.readByte.1 false a3.ok (by omega)
    obtain ⟨⟨r1, r2⟩, r3, r4⟩ := run
    rw [hml]
    unfold dispatchTag
    simp only [htmlTagOpenLen]
    rw [if_neg (by rw [o.rawE]; omega), if_neg (by rw [o.rawS, o.rawE, hrs]; omega)]
    have h1 : ¬ isAlpha 47 = true := by decide
    rw [if_neg h1, if_pos (by decide)]
    try simp only []
    rw [if_neg (by rw [e3]; exact Bool.false_ne_true), e1]
    have hc62 : ¬ (c == 62) = true := by
      have := (isAlnum_lt (isAlpha_alnum hc)); simp only [isAlpha, Bool.or_eq_true, Bool.and_eq_true, decide_eq_true_eq] at hc
      simp; omega
    rw [if_neg hc62, if_pos hc, if_neg (by rw [r2]; exact Bool.false_ne_true)]
    have hlen : (60 :: 47 :: c :: (nm ++ [62])).length = 3 + (nm.length + 1) := by simp; omega
    refine ⟨⟨rfl, by show (readTag S.readByte.1 false).rawS = _; rw [(a3.trans a4).rawS, o.rawS],
      by show (readTag S.readByte.1 false).rawE = _; rw [r1, e2, o.rawE, hlen]; simp [attrsOf, TagEnd.text]; omega,
      r2, by show (readTag S.readByte.1 false).rawTag = _; rw [(a3.trans a4).rawTag, o.rawTag],
      by show (readTag S.readByte.1 false).allowCdata = _; rw [(a3.trans a4).cdata, o.cdata],
      by show (readTag S.readByte.1 false).buf = _; rw [(a3.trans a4).buf, o.buf]⟩, ?_, ?_⟩
    · show (readTag S.readByte.1 false).dataS = _; rw [r3, e2, o.rawE]; omega
    · show (readTag S.readByte.1 false).dataE = _; rw [r4, e2, o.rawE]; simp; omega

theorem mainLoop_end_tag (T : Tokenizer) (disp : Bytes) (ok : Ok T) (he : T.err = false) (hrs : T.rawS = T.rawE)
    (hn : nameOK disp = true) (h : Has T T.rawE ([60, 47] ++ disp ++ [62])) :
    PieceM T (mainLoop T) .endTag ([60, 47] ++ disp ++ [62]).length ∧
    (mainLoop T).dataS = T.rawE + 2 ∧ (mainLoop T).dataE = T.rawE + 2 + disp.length :=
  mainLoop_end_tag2 T disp ok he hrs (nameOK2_of_nameOK hn) h

/-- `next` is the main loop when no raw-text context is pending -/
theorem next_mainLoop (t : Tokenizer) (he : t.err = false) (htag : t.rawTag = []) :
    next t = mainLoop { ({ t with rawS := t.rawE, dataS := t.rawE, dataE := t.rawE } : Tokenizer) with
      textIsRaw := false, convertNull := false } := by
  unfold next nextGo
  simp only
  rw [if_neg (by show ¬ t.err = true; rw [he]; exact Bool.false_ne_true),
    if_neg (by show ¬ (t.rawTag != []) = true; rw [htag]; decide)]

/-- **closed form of `next` on an end tag `</name>`** (any name `read_tag_name` accepts) followed by anything -/
theorem end_tag_closed_form2 (t : Tokenizer) (disp : Bytes) (ok : Ok t) (he : t.err = false) (htag : t.rawTag = [])
    (hn : nameOK2 disp = true) (h : Has t t.rawE ([60, 47] ++ disp ++ [62])) :
    Piece t (next t) .endTag ([60, 47] ++ disp ++ [62]).length [] ∧
    (next t).dataS = t.rawE + 2 ∧ (next t).dataE = t.rawE + 2 + disp.length := by
  rw [next_mainLoop t he htag]
  have := mainLoop_end_tag2 { ({ t with rawS := t.rawE, dataS := t.rawE, dataE := t.rawE } : Tokenizer) with
      textIsRaw := false, convertNull := false } disp ⟨ok.le, ok.panic, ok.hang, ok.utf8⟩ he rfl hn (h.congr rfl)
  obtain ⟨p, d1, d2⟩ := this
  exact ⟨⟨p.token, p.rawS, p.rawE, p.err, p.rawTag.trans htag, p.cdata, p.buf⟩, d1, d2⟩

theorem end_tag_closed_form (t : Tokenizer) (disp : Bytes) (ok : Ok t) (he : t.err = false) (htag : t.rawTag = [])
    (hn : nameOK disp = true) (h : Has t t.rawE ([60, 47] ++ disp ++ [62])) :
    Piece t (next t) .endTag ([60, 47] ++ disp ++ [62]).length [] ∧
    (next t).dataS = t.rawE + 2 ∧ (next t).dataE = t.rawE + 2 + disp.length :=
  end_tag_closed_form2 t disp ok he htag (nameOK2_of_nameOK hn) h

/-! ### comments -/

/-- the comment bodies covered by the closed form: no `>` and no `!` (the real terminators are `-->`, `--!>`,
and an initial `>` / `->`; any body without `>` is fine for `-->`, and excluding `!` avoids `--!>`) -/
def commentOK (body : Bytes) : Bool := body.all (fun b => b != 62 && b != 33)

theorem commentGo_close (t : Tokenizer) (d : Nat) (h : Has t t.rawE [45, 45, 62]) (he : t.err = false) :
    Stops t (commentGo t d) 3 ∧ (commentGo t d).dataS = t.dataS ∧ (commentGo t d).dataE = t.rawE := by
  obtain ⟨e1, e2, e3, e4⟩ := read_known h.head he
  have h2 : t.readByte.1.buf[t.readByte.1.rawE]? = some 45 := by rw [e4, e2]; exact h.tail.head
  obtain ⟨f1, f2, f3, f4⟩ := read_known h2 e3
  have h3 : t.readByte.1.readByte.1.buf[t.readByte.1.readByte.1.rawE]? = some 62 := by
    rw [f4, e4, f2, e2]; exact h.tail.tail.head
  obtain ⟨g1, g2, g3, g4⟩ := read_known h3 f3
  rw [commentGo]
  simp only [e3, e1, Bool.false_eq_true, dite_false, if_false, beq_self_eq_true, if_true]
  rw [commentGo]
  simp only [f3, f1, Bool.false_eq_true, dite_false, if_false, beq_self_eq_true, if_true]
  rw [commentGo]
  simp only [g3, g1, Bool.false_eq_true, dite_false, if_false, beq_self_eq_true, if_true,
    show (62 == 45) = false by decide, show d + 1 + 1 ≥ 2 by omega, htmlCommentEndLen]
  have s := setDataEndBack_spec t.readByte.1.readByte.1.readByte.1 3 (by omega)
  exact ⟨⟨by rw [s.2]; omega, by rw [setDataEndBack_err, g3]⟩, by simp, by rw [s.1]; omega⟩

theorem commentGo_run : ∀ (body : Bytes) (d : Nat) (t : Tokenizer), Has t t.rawE (body ++ [45, 45, 62]) →
    commentOK body = true → t.err = false →
    Stops t (commentGo t d) (body.length + 3) ∧ (commentGo t d).dataS = t.dataS ∧
    (commentGo t d).dataE = t.rawE + body.length
  | [], d, t, h, _, he => by simpa using commentGo_close t d h he
  | b :: body, d, t, h, hb, he => by
    obtain ⟨e1, e2, e3, e4⟩ := read_known h.head he
    simp only [commentOK, List.all_cons, Bool.and_eq_true, bne_iff_ne, ne_eq] at hb
    obtain ⟨⟨hb1, hb2⟩, hb3⟩ := hb
    have hh : Has t.readByte.1 t.readByte.1.rawE (body ++ [45, 45, 62]) :=
      ((h.tail).congr e4).at (by rw [e2])
    have ih0 := commentGo_run body 0 t.readByte.1 hh hb3 e3
    have ih1 := commentGo_run body (d + 1) t.readByte.1 hh hb3 e3
    rw [commentGo]
    simp only [e3, e1, Bool.false_eq_true, dite_false, if_false, show (b == 62) = false by simp [hb1],
      show (b == 33) = false by simp [hb2]]
    split
    · obtain ⟨⟨r1, r2⟩, r3, r4⟩ := ih1
      exact ⟨⟨by rw [r1, e2]; simp; omega, r2⟩, by rw [r3]; simp, by rw [r4, e2]; simp; omega⟩
    · obtain ⟨⟨r1, r2⟩, r3, r4⟩ := ih0
      exact ⟨⟨by rw [r1, e2]; simp; omega, r2⟩, by rw [r3]; simp, by rw [r4, e2]; simp; omega⟩

/-! ### comments whose body may contain `>` and `!` -/

/-- `read_comment`'s loop replayed on the body (dash = number of `-` just seen, 2 initially): the body is accepted iff the
loop does not terminate inside it and is in a state from which the final `-->` terminates it.
`-` → dash+1; `>` needs dash < 2; `!` after `--` needs a following byte in the body other than `>` (it is consumed);
everything else resets dash. -/
def cOK : Nat → Bytes → Bool
  | _, [] => true
  | d, b :: rest =>
    if b == 45 then cOK (d + 1) rest
    else if b == 62 then decide (d < 2) && cOK 0 rest
    else if b == 33 then
      if d ≥ 2 then
        match rest with
        | [] => false
        | b2 :: rest2 => b2 != 62 && cOK 0 rest2
      else cOK 0 rest
    else cOK 0 rest

/-- comment bodies covered by `comment_closed_form2`: no `-->` / `--!>` inside, not starting with `>`, `->` or `!>`, not
ending with `--!` -/
def commentOK2 (body : Bytes) : Bool := cOK 2 body

theorem cOK_of_commentOK : ∀ (body : Bytes) (d : Nat), commentOK body = true → cOK d body = true
  | [], _, _ => rfl
  | b :: rest, d, h => by
    simp only [commentOK, List.all_cons, Bool.and_eq_true, bne_iff_ne, ne_eq] at h
    obtain ⟨⟨h1, h2⟩, h3⟩ := h
    have ih1 := cOK_of_commentOK rest (d + 1) (by simpa [commentOK] using h3)
    have ih0 := cOK_of_commentOK rest 0 (by simpa [commentOK] using h3)
    unfold cOK
    simp only [show (b == 62) = false by simp [h1], show (b == 33) = false by simp [h2], Bool.false_eq_true, if_false]
    split
    · exact ih1
    · exact ih0

theorem commentOK2_of_commentOK {body : Bytes} (h : commentOK body = true) : commentOK2 body = true :=
  cOK_of_commentOK body 2 h

theorem commentGo_run2_aux : ∀ (n : Nat) (body : Bytes) (d : Nat) (t : Tokenizer), body.length ≤ n →
    Has t t.rawE (body ++ [45, 45, 62]) → cOK d body = true → t.err = false →
    Stops t (commentGo t d) (body.length + 3) ∧ (commentGo t d).dataS = t.dataS ∧
    (commentGo t d).dataE = t.rawE + body.length := by
  intro n
  induction n with
  | zero =>
    intro body d t hn h _ he
    have : body = [] := List.length_eq_zero_iff.mp (by omega)
    subst this
    simpa using commentGo_close t d h he
  | succ n ih =>
    intro body d t hn h hb he
    cases body with
    | nil => simpa using commentGo_close t d h he
    | cons b rest =>
      have hn' : rest.length ≤ n := by simp at hn; omega
      obtain ⟨e1, e2, e3, e4⟩ := read_known h.head he
      have hh : Has t.readByte.1 t.readByte.1.rawE (rest ++ [45, 45, 62]) := ((h.tail).congr e4).at (by rw [e2])
      have fin : ∀ (x : Tokenizer), (Stops t.readByte.1 x (rest.length + 3) ∧ x.dataS = t.readByte.1.dataS ∧
          x.dataE = t.readByte.1.rawE + rest.length) →
          (Stops t x ((b :: rest).length + 3) ∧ x.dataS = t.dataS ∧ x.dataE = t.rawE + (b :: rest).length) := by
        intro x ⟨⟨r1, r2⟩, r3, r4⟩
        exact ⟨⟨by rw [r1, e2]; simp; omega, r2⟩, by rw [r3]; simp, by rw [r4, e2]; simp; omega⟩
      unfold cOK at hb
      rw [commentGo]
      simp only [e3, e1, Bool.false_eq_true, dite_false, if_false]
      by_cases h45 : (b == 45) = true
      · rw [if_pos h45] at hb ⊢
        exact fin _ (ih rest (d + 1) _ hn' hh hb e3)
      · rw [if_neg h45] at hb ⊢
        by_cases h62 : (b == 62) = true
        · rw [if_pos h62] at hb ⊢
          simp only [Bool.and_eq_true, decide_eq_true_eq] at hb
          rw [if_neg (by omega)]
          exact fin _ (ih rest 0 _ hn' hh hb.2 e3)
        · rw [if_neg h62] at hb ⊢
          by_cases h33 : (b == 33) = true
          · rw [if_pos h33] at hb ⊢
            by_cases hd : d ≥ 2
            · rw [if_pos hd] at hb ⊢
              cases rest with
              | nil => cases hb
              | cons b2 rest2 =>
                simp only [Bool.and_eq_true, bne_iff_ne, ne_eq] at hb
                obtain ⟨f1, f2, f3, f4⟩ := read_known hh.head e3
                have hh2 : Has t.readByte.1.readByte.1 t.readByte.1.readByte.1.rawE (rest2 ++ [45, 45, 62]) :=
                  ((hh.tail).congr f4).at (by rw [f2])
                have i2 := ih rest2 0 _ (by simp at hn'; omega) hh2 hb.2 f3
                simp only [f3, f1, Bool.false_eq_true, dite_false, if_false, show (b2 == 62) = false by simp [hb.1]]
                obtain ⟨⟨r1, r2⟩, r3, r4⟩ := i2
                exact fin _ ⟨⟨by rw [r1, f2]; simp; omega, r2⟩, by rw [r3]; simp, by rw [r4, f2]; simp; omega⟩
            · rw [if_neg hd] at hb ⊢
              exact fin _ (ih rest 0 _ hn' hh hb e3)
          · rw [if_neg h33] at hb ⊢
            exact fin _ (ih rest 0 _ hn' hh hb e3)

theorem commentGo_run2 (body : Bytes) (d : Nat) (t : Tokenizer) (h : Has t t.rawE (body ++ [45, 45, 62]))
    (hb : cOK d body = true) (he : t.err = false) :
    Stops t (commentGo t d) (body.length + 3) ∧ (commentGo t d).dataS = t.dataS ∧
    (commentGo t d).dataE = t.rawE + body.length :=
  commentGo_run2_aux body.length body d t (Nat.le_refl _) h hb he

theorem readComment_run2 (body : Bytes) (t : Tokenizer) (h : Has t t.rawE (body ++ [45, 45, 62]))
    (hb : commentOK2 body = true) (he : t.err = false) :
    Stops t (readComment t) (body.length + 3) ∧ (readComment t).dataS = t.rawE ∧
    (readComment t).dataE = t.rawE + body.length := by
  have r := commentGo_run2 body 2 { t with dataS := t.rawE } (h.congr rfl) hb he
  obtain ⟨⟨r1, r2⟩, r3, r4⟩ := r
  unfold readComment
  simp only
  rw [if_neg (by rw [r3, r4]; show ¬ t.rawE + body.length < t.rawE; omega)]
  exact ⟨⟨r1, r2⟩, r3, r4⟩

/-- the main loop on `<!--body-->` -/
theorem mainLoop_comment2 (T : Tokenizer) (body : Bytes) (ok : Ok T) (he : T.err = false) (hrs : T.rawS = T.rawE)
    (hb : commentOK2 body = true) (h : Has T T.rawE ([60, 33, 45, 45] ++ body ++ [45, 45, 62])) :
    PieceM T (mainLoop T) .comment ([60, 33, 45, 45] ++ body ++ [45, 45, 62]).length ∧
    (mainLoop T).dataS = T.rawE + 4 ∧ (mainLoop T).dataE = T.rawE + 4 + body.length := by
  have hx : [60, 33, 45, 45] ++ body ++ [45, 45, 62] = 60 :: 33 :: 45 :: 45 :: (body ++ [45, 45, 62]) := by simp
  rw [hx] at h ⊢
  obtain ⟨hml, o⟩ := mainLoop_dispatch T 33 ok he
    (fun i hi => by have := h i (by simp at hi ⊢; omega); rw [this]; match i, hi with | 0, _ => rfl | 1, _ => rfl)
    (by decide)
  generalize opened2 T = S at *
  let S' : Tokenizer := { S with dataS := S.rawE }
  have okS' : Ok S' := ⟨o.ok.le, o.ok.panic, o.ok.hang, o.ok.utf8⟩
  have hS1 : S'.buf[S'.rawE]? = some 45 := by
    show S.buf[S.rawE]? = _; rw [o.buf, o.rawE]; exact h.tail.tail.head
  obtain ⟨e1, e2, e3, e4⟩ := read_known hS1 o.err
  have hS2 : S'.readByte.1.buf[S'.readByte.1.rawE]? = some 45 := by
    rw [e4, e2]; show S.buf[S.rawE + 1]? = _; rw [o.buf, o.rawE]; exact h.tail.tail.tail.head
  obtain ⟨f1, f2, f3, f4⟩ := read_known hS2 e3
  have a1 := readByte_adv okS'
  have a2 := readByte_adv a1.ok
  have hbody : Has S'.readByte.1.readByte.1 S'.readByte.1.readByte.1.rawE (body ++ [45, 45, 62]) := by
    have : Has T (T.rawE + 4) (body ++ [45, 45, 62]) := (h.tail.tail.tail.tail).at (by omega)
    refine (this.congr (f4.trans (e4.trans ?_))).at ?_
    · exact o.buf
    · rw [f2, e2]; show S.rawE + 1 + 1 = _; rw [o.rawE]
  obtain ⟨⟨r1, r2⟩, r3, r4⟩ := readComment_run2 body _ hbody hb f3
  have a3 := readComment_adv S'.readByte.1.readByte.1 a2.ok (by rw [f2, e2]; show 3 ≤ S.rawE + 1 + 1; have := o.rawE; omega)
  have a13 := (a1.trans a2).trans a3
  have hmd : S.readMarkupDeclaration = (S'.readByte.1.readByte.1.readComment, TokenType.comment) := by
    unfold readMarkupDeclaration markupGo
    simp only
    rw [if_neg (by rw [e3]; exact Bool.false_ne_true), if_neg (by rw [f3]; exact Bool.false_ne_true),
      if_pos (by rw [e1, f1]; decide)]
  rw [hml]
  unfold dispatchTag
  simp only [htmlTagOpenLen]
  rw [if_neg (by rw [o.rawE]; omega), if_neg (by rw [o.rawS, o.rawE, hrs]; omega)]
  rw [if_neg (by decide : ¬ isAlpha 33 = true), if_neg (by decide : ¬ (33 == 47) = true), if_pos (by decide)]
  try simp only []
  rw [hmd]
  have hlen : (60 :: 33 :: 45 :: 45 :: (body ++ [45, 45, 62])).length = 4 + (body.length + 3) := by simp; omega
  have hre : S'.readByte.1.readByte.1.rawE = T.rawE + 4 := by
    rw [f2, e2]; show S.rawE + 1 + 1 = _; rw [o.rawE]
  refine ⟨⟨rfl, by show (readComment _).rawS = _; rw [a13.rawS]; exact o.rawS,
    by show (readComment _).rawE = _; rw [r1, hre, hlen]; omega,
    r2, by show (readComment _).rawTag = _; rw [a13.rawTag]; exact o.rawTag,
    by show (readComment _).allowCdata = _; rw [a13.cdata]; exact o.cdata,
    by show (readComment _).buf = _; rw [a13.buf]; exact o.buf⟩, ?_, ?_⟩
  · show (readComment _).dataS = _; rw [r3, hre]
  · show (readComment _).dataE = _; rw [r4, hre]

/-- **closed form of `next` on a comment `<!--body-->`** (body may contain `>` and `!`, see `cOK`) followed by anything -/
theorem comment_closed_form2 (t : Tokenizer) (body : Bytes) (ok : Ok t) (he : t.err = false) (htag : t.rawTag = [])
    (hb : commentOK2 body = true) (h : Has t t.rawE ([60, 33, 45, 45] ++ body ++ [45, 45, 62])) :
    Piece t (next t) .comment ([60, 33, 45, 45] ++ body ++ [45, 45, 62]).length [] ∧
    (next t).dataS = t.rawE + 4 ∧ (next t).dataE = t.rawE + 4 + body.length := by
  rw [next_mainLoop t he htag]
  have := mainLoop_comment2 { ({ t with rawS := t.rawE, dataS := t.rawE, dataE := t.rawE } : Tokenizer) with
      textIsRaw := false, convertNull := false } body ⟨ok.le, ok.panic, ok.hang, ok.utf8⟩ he rfl hb (h.congr rfl)
  obtain ⟨p, d1, d2⟩ := this
  exact ⟨⟨p.token, p.rawS, p.rawE, p.err, p.rawTag.trans htag, p.cdata, p.buf⟩, d1, d2⟩

/-- the instances for bodies without `>` and `!` -/
theorem readComment_run (body : Bytes) (t : Tokenizer) (h : Has t t.rawE (body ++ [45, 45, 62]))
    (hb : commentOK body = true) (he : t.err = false) :
    Stops t (readComment t) (body.length + 3) ∧ (readComment t).dataS = t.rawE ∧
    (readComment t).dataE = t.rawE + body.length :=
  readComment_run2 body t h (commentOK2_of_commentOK hb) he

theorem mainLoop_comment (T : Tokenizer) (body : Bytes) (ok : Ok T) (he : T.err = false) (hrs : T.rawS = T.rawE)
    (hb : commentOK body = true) (h : Has T T.rawE ([60, 33, 45, 45] ++ body ++ [45, 45, 62])) :
    PieceM T (mainLoop T) .comment ([60, 33, 45, 45] ++ body ++ [45, 45, 62]).length ∧
    (mainLoop T).dataS = T.rawE + 4 ∧ (mainLoop T).dataE = T.rawE + 4 + body.length :=
  mainLoop_comment2 T body ok he hrs (commentOK2_of_commentOK hb) h

theorem comment_closed_form (t : Tokenizer) (body : Bytes) (ok : Ok t) (he : t.err = false) (htag : t.rawTag = [])
    (hb : commentOK body = true) (h : Has t t.rawE ([60, 33, 45, 45] ++ body ++ [45, 45, 62])) :
    Piece t (next t) .comment ([60, 33, 45, 45] ++ body ++ [45, 45, 62]).length [] ∧
    (next t).dataS = t.rawE + 4 ∧ (next t).dataE = t.rawE + 4 + body.length :=
  comment_closed_form2 t body ok he htag (commentOK2_of_commentOK hb) h

/-! ### doctype -/

/-- `kw` matches a pattern of `(upper, lower)` pairs byte by byte -/
def patMatch : Bytes → List (Nat × Nat) → Bool
  | [], [] => true
  | b :: bs, (c, c') :: ps => (b == c || b == c') && patMatch bs ps
  | _, _ => false

/-- `<!` ++ kw ++ r ++ `>` with `kw` a case variant of `DOCTYPE` and no `>` in `r` -/
def doctypeOK (kw r : Bytes) : Bool := patMatch kw htmlDoctypePat && r.all (· != 62)

theorem declLoop_run : ∀ (kw : Bytes) (pat : List (Nat × Nat)) (t : Tokenizer), Ok t → patMatch kw pat = true →
    Has t t.rawE kw → t.err = false →
    (declLoop t pat).2 = true ∧ Stops t (declLoop t pat).1 kw.length ∧ Ok (declLoop t pat).1
  | [], [], t, ok, _, _, he => by simp [declLoop, Stops, he, ok]
  | [], _ :: _, t, _, hm, _, _ => by simp [patMatch] at hm
  | _ :: _, [], t, _, hm, _, _ => by simp [patMatch] at hm
  | b :: bs, (c, c') :: ps, t, ok, hm, h, he => by
    simp only [patMatch, Bool.and_eq_true] at hm
    obtain ⟨e1, e2, e3, e4⟩ := read_known h.head he
    have ih := declLoop_run bs ps t.readByte.1 (readByte_adv ok).ok hm.2 ((h.tail.congr e4).at (by rw [e2])) e3
    rw [declLoop]
    simp only
    rw [if_neg (by rw [e3]; exact Bool.false_ne_true), e1,
      if_neg (by have := hm.1; simp only [Bool.or_eq_true, beq_iff_eq] at this; rcases this with h | h <;> simp [h])]
    exact ⟨ih.1, ⟨by rw [ih.2.1.1, e2]; simp; omega, ih.2.1.2⟩, ih.2.2⟩

theorem untilCloseAngleGo_run : ∀ (r : Bytes) (t : Tokenizer), (∀ b ∈ r, b ≠ 62) → Has t t.rawE (r ++ [62]) →
    t.err = false →
    Stops t (untilCloseAngleGo t) (r.length + 1) ∧ (untilCloseAngleGo t).dataS = t.dataS ∧
    (untilCloseAngleGo t).dataE = t.rawE + r.length
  | [], t, _, h, he => by
    obtain ⟨e1, e2, e3, e4⟩ := read_known h.head he
    rw [untilCloseAngleGo]
    simp only [e3, e1, Bool.false_eq_true, dite_false, beq_self_eq_true, if_true]
    have s := setDataEndBack_spec t.readByte.1 1 (by omega)
    exact ⟨⟨by rw [s.2, e2]; rfl, by rw [setDataEndBack_err, e3]⟩, by simp, by rw [s.1, e2]; simp⟩
  | b :: r, t, hr, h, he => by
    obtain ⟨e1, e2, e3, e4⟩ := read_known h.head he
    have ih := untilCloseAngleGo_run r t.readByte.1 (fun x hx => hr x (by simp [hx]))
      ((h.tail.congr e4).at (by rw [e2])) e3
    rw [untilCloseAngleGo]
    simp only [e3, e1, Bool.false_eq_true, dite_false, show (b == 62) = false by simp [hr b (by simp)], if_false]
    obtain ⟨⟨r1, r2⟩, r3, r4⟩ := ih
    exact ⟨⟨by rw [r1, e2]; simp; omega, r2⟩, by rw [r3]; simp, by rw [r4, e2]; simp; omega⟩

theorem readUntilCloseAngle_run (r : Bytes) (t : Tokenizer) (hr : ∀ b ∈ r, b ≠ 62) (h : Has t t.rawE (r ++ [62]))
    (he : t.err = false) :
    Stops t (readUntilCloseAngle t) (r.length + 1) ∧ (readUntilCloseAngle t).dataS = t.rawE ∧
    (readUntilCloseAngle t).dataE = t.rawE + r.length :=
  untilCloseAngleGo_run r { t with dataS := t.rawE } hr (h.congr rfl) he

theorem mem_takeWhile_p (p : Nat → Bool) : ∀ (l : Bytes) (b : Nat), b ∈ l.takeWhile p → p b = true
  | [], b, h => by simp at h
  | a :: l, b, h => by
    rw [List.takeWhile_cons] at h
    split at h
    · rcases List.mem_cons.1 h with h | h
      · subst h; assumption
      · exact mem_takeWhile_p p l b h
    · simp at h

theorem mem_dropWhile_mem (p : Nat → Bool) : ∀ (l : Bytes) (b : Nat), b ∈ l.dropWhile p → b ∈ l
  | [], b, h => by simp at h
  | a :: l, b, h => by
    rw [List.dropWhile_cons] at h
    split at h
    · exact List.mem_cons_of_mem _ (mem_dropWhile_mem p l b h)
    · exact h

/-- the bytes of `r ++ ">"` after leading white space start with a non-white-space byte -/
theorem dropWs_head : ∀ (r : Bytes), ∃ d rest, r.dropWhile isWs ++ [62] = d :: rest ∧ isWs d = false
  | [] => ⟨62, [], rfl, by decide⟩
  | a :: r => by
    rw [List.dropWhile_cons]
    split
    · exact dropWs_head r
    · exact ⟨a, r ++ [62], rfl, by simpa using ‹¬ isWs a = true›⟩

theorem declLoop_buf' : ∀ (pat : List (Nat × Nat)) (t : Tokenizer), (declLoop t pat).1.buf = t.buf
  | [], t => rfl
  | (c, c') :: ps, t => by
    rw [declLoop]; simp only
    split
    · exact readByte_buf t
    · split
      · exact readByte_buf t
      · rw [declLoop_buf' ps]; exact readByte_buf t

theorem readDocType_run (kw r : Bytes) (t : Tokenizer) (ok : Ok t) (hok : doctypeOK kw r = true)
    (h : Has t t.rawE (kw ++ r ++ [62])) (he : t.err = false) :
    (readDocType t).2 = true ∧ Stops t (readDocType t).1 (kw.length + r.length + 1) ∧
    (readDocType t).1.dataS = t.rawE + kw.length + (r.takeWhile isWs).length ∧
    (readDocType t).1.dataE = t.rawE + kw.length + r.length := by
  simp only [doctypeOK, Bool.and_eq_true, List.all_eq_true, bne_iff_ne, ne_eq] at hok
  obtain ⟨hkw, hr⟩ := hok
  obtain ⟨l2, l1, okl⟩ := declLoop_run kw htmlDoctypePat t ok hkw h.left.left he
  obtain ⟨d, rest, hd, hdws⟩ := dropWs_head r
  have hsplit : r ++ [62] = r.takeWhile isWs ++ ([d] ++ rest) := by
    rw [List.singleton_append, ← hd, ← List.append_assoc, List.takeWhile_append_dropWhile]
  have hbuf : (declLoop t htmlDoctypePat).1.buf = t.buf := by
    exact declLoop_buf' htmlDoctypePat t
  have h1 : Has (declLoop t htmlDoctypePat).1 (declLoop t htmlDoctypePat).1.rawE (r ++ [62]) := by
    have := h.right; rw [List.append_assoc] at h
    exact (h.right.congr hbuf).at l1.1
  have sk := skipWhiteSpace_run (r.takeWhile isWs) d _ (by rw [hsplit, ← List.append_assoc] at h1; exact h1.left)
    (fun b hb => mem_takeWhile_p isWs r b hb) hdws l1.2
  have sf := (skipWhiteSpace_adv (declLoop t htmlDoctypePat).1 okl).buf
  have h2 : Has (declLoop t htmlDoctypePat).1.skipWhiteSpace (declLoop t htmlDoctypePat).1.skipWhiteSpace.rawE
      (r.dropWhile isWs ++ [62]) := by
    rw [hsplit, List.singleton_append, ← hd] at h1
    exact (h1.right.congr sf).at sk.1
  have ru := readUntilCloseAngle_run (r.dropWhile isWs) _ (fun b hb => hr b (mem_dropWhile_mem isWs r b hb)) h2 sk.2
  unfold readDocType
  simp only
  rw [l2]
  simp only [Bool.not_true, Bool.false_eq_true, if_false]
  rw [if_neg (by rw [sk.2]; exact Bool.false_ne_true)]
  obtain ⟨⟨r1, r2⟩, r3, r4⟩ := ru
  have hlen : r.length = (r.takeWhile isWs).length + (r.dropWhile isWs).length := by
    have := congrArg List.length (List.takeWhile_append_dropWhile (p := isWs) (l := r))
    rw [List.length_append] at this; omega
  refine ⟨rfl, ⟨?_, r2⟩, ?_, ?_⟩
  · show (readUntilCloseAngle _).rawE = _; rw [r1, sk.1, l1.1]; omega
  · show (readUntilCloseAngle _).dataS = _; rw [r3, sk.1, l1.1]
  · show (readUntilCloseAngle _).dataE = _; rw [r4, sk.1, l1.1]; omega

/-- the main loop on `<!DOCTYPE…>` -/
theorem mainLoop_doctype (T : Tokenizer) (kw r : Bytes) (ok : Ok T) (he : T.err = false) (hrs : T.rawS = T.rawE)
    (hok : doctypeOK kw r = true) (h : Has T T.rawE ([60, 33] ++ kw ++ r ++ [62])) :
    PieceM T (mainLoop T) .doctype ([60, 33] ++ kw ++ r ++ [62]).length ∧
    (mainLoop T).dataS = T.rawE + 2 + kw.length + (r.takeWhile isWs).length ∧
    (mainLoop T).dataE = T.rawE + 2 + kw.length + r.length := by
  have hkw : patMatch kw htmlDoctypePat = true := by
    simp only [doctypeOK, Bool.and_eq_true] at hok; exact hok.1
  obtain ⟨k0, k1, kws, rfl, hk0⟩ : ∃ k0 k1 kws, kw = k0 :: k1 :: kws ∧ (k0 = 68 ∨ k0 = 100) := by
    match kw, hkw with
    | [], h => simp [patMatch, htmlDoctypePat] at h
    | [_], h => simp [patMatch, htmlDoctypePat] at h
    | k0 :: k1 :: kws, h =>
      refine ⟨k0, k1, kws, rfl, ?_⟩
      simp only [patMatch, htmlDoctypePat, Bool.and_eq_true, Bool.or_eq_true, beq_iff_eq] at h
      exact h.1
  have hx : [60, 33] ++ (k0 :: k1 :: kws) ++ r ++ [62] = 60 :: 33 :: ((k0 :: k1 :: kws) ++ r ++ [62]) := by simp
  rw [hx] at h ⊢
  obtain ⟨hml, o⟩ := mainLoop_dispatch T 33 ok he
    (fun i hi => by have := h i (by simp at hi ⊢; omega); rw [this]; match i, hi with | 0, _ => rfl | 1, _ => rfl)
    (by decide)
  generalize opened2 T = S at *
  let S' : Tokenizer := { S with dataS := S.rawE }
  have okS' : Ok S' := ⟨o.ok.le, o.ok.panic, o.ok.hang, o.ok.utf8⟩
  have hall : Has S' S'.rawE ((k0 :: k1 :: kws) ++ r ++ [62]) := by
    have : Has T (T.rawE + 2) ((k0 :: k1 :: kws) ++ r ++ [62]) := (h.tail.tail).at (by omega)
    exact (this.congr (show S'.buf = T.buf from o.buf)).at (show S.rawE = _ from o.rawE)
  have hS1 : S'.buf[S'.rawE]? = some k0 := by
    have := hall 0 (by simp); simpa using this
  obtain ⟨e1, e2, e3, e4⟩ := read_known hS1 o.err
  have hS2 : S'.readByte.1.buf[S'.readByte.1.rawE]? = some k1 := by
    rw [e4, e2]; have := hall 1 (by simp); simpa using this
  obtain ⟨f1, f2, f3, f4⟩ := read_known hS2 e3
  have a1 := readByte_adv okS'
  have a2 := readByte_adv a1.ok
  have hur : (S'.readByte.1.readByte.1.unread 2).rawE = S.rawE := by
    rw [unread_rawE_eq 2 (by rw [f2, e2]; omega), f2, e2]; show S.rawE + 1 + 1 - 2 = _; omega
  have hub : (S'.readByte.1.readByte.1.unread 2).buf = S.buf := by
    rw [unread_buf, f4, e4]
  have au : Adv S' (S'.readByte.1.readByte.1.unread 2) :=
    unread_adv 2 (a1.trans a2) (by rw [f2, e2]; omega)
  have hU : Has (S'.readByte.1.readByte.1.unread 2) (S'.readByte.1.readByte.1.unread 2).rawE
      ((k0 :: k1 :: kws) ++ r ++ [62]) := (hall.congr (hub.trans rfl)).at hur
  obtain ⟨d2, ⟨d1, d1e⟩, d3, d4⟩ := readDocType_run (k0 :: k1 :: kws) r _ au.ok hok hU (by rw [unread_err, f3])
  have amd := readMarkupDeclaration_adv S o.ok (by rw [o.rawE]; omega)
  have hmd : S.readMarkupDeclaration = ((S'.readByte.1.readByte.1.unread 2).readDocType.1, TokenType.doctype) := by
    unfold readMarkupDeclaration markupGo
    simp only
    rw [if_neg (by rw [e3]; exact Bool.false_ne_true), if_neg (by rw [f3]; exact Bool.false_ne_true),
      if_neg (by rw [e1]; rcases hk0 with h | h <;> simp [h])]
    unfold markupRest
    simp only
    rw [if_pos d2]
  rw [hml]
  unfold dispatchTag
  simp only [htmlTagOpenLen]
  rw [if_neg (by rw [o.rawE]; omega), if_neg (by rw [o.rawS, o.rawE, hrs]; omega)]
  rw [if_neg (by decide : ¬ isAlpha 33 = true), if_neg (by decide : ¬ (33 == 47) = true), if_pos (by decide)]
  try simp only []
  rw [hmd] at amd ⊢
  have hlen : (60 :: 33 :: ((k0 :: k1 :: kws) ++ r ++ [62])).length = 2 + ((k0 :: k1 :: kws).length + r.length + 1) := by
    simp; omega
  refine ⟨⟨rfl, by show (readDocType _).1.rawS = _; rw [amd.rawS]; exact o.rawS,
    by show (readDocType _).1.rawE = _; rw [d1, hur, o.rawE, hlen]; omega,
    d1e, by show (readDocType _).1.rawTag = _; rw [amd.rawTag]; exact o.rawTag,
    by show (readDocType _).1.allowCdata = _; rw [amd.cdata]; exact o.cdata,
    by show (readDocType _).1.buf = _; rw [amd.buf]; exact o.buf⟩, ?_, ?_⟩
  · show (readDocType _).1.dataS = _; rw [d3, hur, o.rawE]
  · show (readDocType _).1.dataE = _; rw [d4, hur, o.rawE]

/-- **closed form of `next` on a doctype `<!DOCTYPE…>`** followed by anything -/
theorem doctype_closed_form (t : Tokenizer) (kw r : Bytes) (ok : Ok t) (he : t.err = false) (htag : t.rawTag = [])
    (hok : doctypeOK kw r = true) (h : Has t t.rawE ([60, 33] ++ kw ++ r ++ [62])) :
    Piece t (next t) .doctype ([60, 33] ++ kw ++ r ++ [62]).length [] ∧
    (next t).dataS = t.rawE + 2 + kw.length + (r.takeWhile isWs).length ∧
    (next t).dataE = t.rawE + 2 + kw.length + r.length := by
  rw [next_mainLoop t he htag]
  have := mainLoop_doctype { ({ t with rawS := t.rawE, dataS := t.rawE, dataE := t.rawE } : Tokenizer) with
      textIsRaw := false, convertNull := false } kw r ⟨ok.le, ok.panic, ok.hang, ok.utf8⟩ he rfl hok (h.congr rfl)
  obtain ⟨p, d1, d2⟩ := this
  exact ⟨⟨p.token, p.rawS, p.rawE, p.err, p.rawTag.trans htag, p.cdata, p.buf⟩, d1, d2⟩

/-! ### raw text (`<title>`, `<textarea>`, `<style>`, `<script>`, …) -/

/-- the raw-text contents covered by the closed form: no `<` at all (so the script automaton stays in its data state) -/
def rawContentOK (c : Bytes) : Bool := c.all (· != 60)

theorem rawEndTagLoop_run : ∀ (nm : Bytes) (t : Tokenizer), Has t t.rawE nm → t.err = false →
    (rawEndTagLoop t (nm.map lowerByte)).2 = true ∧ Stops t (rawEndTagLoop t (nm.map lowerByte)).1 nm.length
  | [], t, _, he => by simp [rawEndTagLoop, Stops, he]
  | b :: nm, t, h, he => by
    obtain ⟨e1, e2, e3, e4⟩ := read_known h.head he
    have ih := rawEndTagLoop_run nm t.readByte.1 ((h.tail.congr e4).at (by rw [e2])) e3
    have hres : rawEndTagLoop t (List.map lowerByte (b :: nm)) = rawEndTagLoop t.readByte.1 (nm.map lowerByte) := by
      rw [List.map_cons, rawEndTagLoop]
      simp only
      rw [if_neg (by rw [e3]; exact Bool.false_ne_true), e1]
      by_cases hu : isUpper b = true
      · have hl : lowerByte b = b + 32 := by simp [lowerByte, hu]
        rw [hl, if_pos (by simp), if_neg (by omega), if_neg (by simp)]
      · have hl : lowerByte b = b := by simp [lowerByte, hu]
        rw [hl, if_neg (by simp)]
    rw [hres]
    exact ⟨ih.1, by rw [ih.2.1, e2]; simp; omega, ih.2.2⟩

theorem readRawEndTag_run (nm : Bytes) (d : Nat) (t : Tokenizer) (htag : t.rawTag = nm.map lowerByte)
    (h : Has t t.rawE (nm ++ [d])) (hd : isTagEnd d = true) (he : t.err = false) (h2 : 2 ≤ t.rawE) :
    (readRawEndTag t).2 = true ∧ (readRawEndTag t).1.rawE = t.rawE - 2 ∧ (readRawEndTag t).1.err = false := by
  obtain ⟨l2, l1, l1e⟩ := rawEndTagLoop_run nm t h.left he
  have hb : (rawEndTagLoop t (nm.map lowerByte)).1.buf[(rawEndTagLoop t (nm.map lowerByte)).1.rawE]? = some d := by
    rw [rawEndTagLoop_buf, l1]; exact h.right.head
  obtain ⟨e1, e2, e3, e4⟩ := read_known hb l1e
  unfold readRawEndTag
  simp only
  rw [htag, l2]
  simp only [Bool.not_true, Bool.false_eq_true, if_false]
  rw [if_neg (by rw [e3]; exact Bool.false_ne_true), e1, if_pos hd]
  refine ⟨rfl, ?_, by show (unread _ _).err = false; rw [unread_err, e3]⟩
  show (unread _ _).rawE = _
  rw [unread_rawE_eq _ (by rw [e2, l1]; simp; omega), e2, l1]; simp; omega

theorem rawTextGo_run (nm : Bytes) (d : Nat) : ∀ (c : Bytes) (t : Tokenizer), Ok t → rawContentOK c = true →
    t.rawTag = nm.map lowerByte → Has t t.rawE (c ++ ([60, 47] ++ (nm ++ [d]))) → isTagEnd d = true → t.err = false →
    Stops t (rawTextGo t) c.length
  | [], t, ok, _, htag, h, hd, he => by
    obtain ⟨e1, e2, e3, e4⟩ := read_known h.head he
    have hb1 : t.readByte.1.buf[t.readByte.1.rawE]? = some 47 := by rw [e4, e2]; exact h.tail.head
    obtain ⟨f1, f2, f3, f4⟩ := read_known hb1 e3
    have a1 := readByte_adv ok
    have a2 := readByte_adv a1.ok
    have r := readRawEndTag_run nm d t.readByte.1.readByte.1 (by rw [(a1.trans a2).rawTag, htag])
      ((h.tail.tail.congr (f4.trans e4)).at (by rw [f2, e2])) hd f3 (by rw [f2, e2]; omega)
    rw [rawTextGo]
    simp only [e3, e1, f3, f1, Bool.false_eq_true, dite_false, bne_self_eq_false, if_false]
    rw [dif_pos (by rw [r.1]; rfl)]
    exact ⟨by rw [r.2.1, f2, e2]; simp, r.2.2⟩
  | b :: c, t, ok, hc, htag, h, hd, he => by
    obtain ⟨e1, e2, e3, e4⟩ := read_known h.head he
    simp only [rawContentOK, List.all_cons, Bool.and_eq_true, bne_iff_ne, ne_eq] at hc
    have a1 := readByte_adv ok
    have ih := rawTextGo_run nm d c t.readByte.1 a1.ok (by simpa [rawContentOK] using hc.2) (by rw [a1.rawTag, htag])
      ((h.tail.congr e4).at (by rw [e2])) hd e3
    rw [rawTextGo]
    simp only [e3, e1, Bool.false_eq_true, dite_false, show (b != 60) = true by simp [hc.1], if_true]
    exact ⟨by rw [ih.1, e2]; simp; omega, ih.2⟩

theorem scriptGo_run (nm : Bytes) (d : Nat) : ∀ (c : Bytes) (t : Tokenizer), Ok t → rawContentOK c = true →
    t.rawTag = nm.map lowerByte → Has t t.rawE (c ++ ([60, 47] ++ (nm ++ [d]))) → isTagEnd d = true → t.err = false →
    Stops t (scriptGo .data t) c.length
  | [], t, ok, _, htag, h, hd, he => by
    obtain ⟨e1, e2, e3, e4⟩ := read_known h.head he
    have hb1 : t.readByte.1.buf[t.readByte.1.rawE]? = some 47 := by rw [e4, e2]; exact h.tail.head
    obtain ⟨f1, f2, f3, f4⟩ := read_known hb1 e3
    have a1 := readByte_adv ok
    have a2 := readByte_adv a1.ok
    have r := readRawEndTag_run nm d t.readByte.1.readByte.1 (by rw [(a1.trans a2).rawTag, htag])
      ((h.tail.tail.congr (f4.trans e4)).at (by rw [f2, e2])) hd f3 (by rw [f2, e2]; omega)
    rw [scriptGo]
    simp only [e3, e1, Bool.false_eq_true, dite_false, beq_self_eq_true, if_true]
    rw [scriptGo]
    simp only [f3, f1, Bool.false_eq_true, dite_false, beq_self_eq_true, if_true]
    rw [scriptGo]
    try simp only []
    rw [dif_pos (by rw [r.1]; rfl)]
    exact ⟨by rw [r.2.1, f2, e2]; simp, r.2.2⟩
  | b :: c, t, ok, hc, htag, h, hd, he => by
    obtain ⟨e1, e2, e3, e4⟩ := read_known h.head he
    simp only [rawContentOK, List.all_cons, Bool.and_eq_true, bne_iff_ne, ne_eq] at hc
    have a1 := readByte_adv ok
    have ih := scriptGo_run nm d c t.readByte.1 a1.ok (by simpa [rawContentOK] using hc.2) (by rw [a1.rawTag, htag])
      ((h.tail.congr e4).at (by rw [e2])) hd e3
    rw [scriptGo]
    simp only [e3, e1, Bool.false_eq_true, dite_false, show (b == 60) = false by simp [hc.1], if_false]
    exact ⟨by rw [ih.1, e2]; simp; omega, ih.2⟩

/-- `read_raw_or_cdata` on `content </name d` -/
theorem readRawOrCdata_run (nm c : Bytes) (d : Nat) (t : Tokenizer) (ok : Ok t) (hc : rawContentOK c = true)
    (htag : t.rawTag = nm.map lowerByte) (hto : TagOk t.rawTag) (h : Has t t.rawE (c ++ ([60, 47] ++ (nm ++ [d]))))
    (hd : isTagEnd d = true) (he : t.err = false) :
    Stops t (readRawOrCdata t) c.length ∧ (readRawOrCdata t).allowCdata = t.allowCdata := by
  unfold readRawOrCdata
  split
  · rename_i hs
    have hs' : t.rawTag = htmlScript := by simpa using hs
    have a := scriptGo_adv .data t t (Adv.refl ok) (by simp [SS.need]) hs'
    have r := scriptGo_run nm d c t ok hc htag h hd he
    unfold readScript
    exact ⟨⟨r.1, r.2⟩, a.cdata⟩
  · have a := rawTextGo_adv t ok hto
    have r := rawTextGo_run nm d c t ok hc htag h hd he
    exact ⟨⟨r.1, r.2⟩, a.cdata⟩

theorem lowerByte_ge_of_alnum {b : Nat} (h : isAlnum b = true) : 32 ≤ lowerByte b := by
  have : 48 ≤ b := by
    simp only [isAlnum, isAlpha, Bool.or_eq_true, Bool.and_eq_true, decide_eq_true_eq] at h; omega
  unfold lowerByte; split <;> omega

theorem TagOk_lower_of_nameOK {nm : Bytes} (h : nameOK nm = true) : TagOk (nm.map lowerByte) := by
  intro c hc
  obtain ⟨b, hb, rfl⟩ := List.mem_map.1 hc
  cases nm with
  | nil => cases hb
  | cons a nm =>
    simp only [nameOK, Bool.and_eq_true, List.all_eq_true] at h
    rcases List.mem_cons.1 hb with rfl | hb
    · exact lowerByte_ge_of_alnum (isAlpha_alnum h.1)
    · exact lowerByte_ge_of_alnum (h.2 b hb)

/-- the state in which `next` runs its raw-text branch -/
private theorem next_raw_unfold (t : Tokenizer) (he : t.err = false) (hne : t.rawTag ≠ []) (hpl : t.rawTag ≠ htmlPlaintext) :
    next t =
      (let t1 := readRawOrCdata { t with rawS := t.rawE, dataS := t.rawE, dataE := t.rawE }
       if t1.dataE > t1.dataS then { t1 with token := .text, convertNull := true }
       else mainLoop { t1 with textIsRaw := false, convertNull := false }) := by
  have hne' : (t.rawTag != []) = true := by simpa using hne
  have hpl' : (t.rawTag == htmlPlaintext) = false := by simpa using hpl
  unfold next nextGo
  simp only [he, hne', hpl', Bool.false_eq_true, if_false, if_true]

/-- **closed form of `next` on raw text**: in the raw-text context `t.rawTag` (set by the start tag of `<title>`,
`<textarea>`, `<style>`, `<script>`, … — not `<plaintext>`), a non-empty `content` without `<` followed by the matching
end tag `</name` + delimiter is ONE text token, and the context is left -/
theorem rawtext_closed_form (t : Tokenizer) (nm c : Bytes) (d : Nat) (ok : Ok t) (he : t.err = false)
    (htag : t.rawTag = nm.map lowerByte) (hne : t.rawTag ≠ []) (hpl : t.rawTag ≠ htmlPlaintext) (hto : TagOk t.rawTag)
    (hc : rawContentOK c = true) (hcne : c ≠ []) (hd : isTagEnd d = true)
    (h : Has t t.rawE (c ++ [60, 47] ++ nm ++ [d])) :
    Piece t (next t) .text c.length [] ∧ (next t).dataS = t.rawE ∧ (next t).dataE = t.rawE + c.length := by
  rw [next_raw_unfold t he hne hpl]
  have h' : Has t t.rawE (c ++ ([60, 47] ++ (nm ++ [d]))) := by simpa [List.append_assoc] using h
  let T0 : Tokenizer := { t with rawS := t.rawE, dataS := t.rawE, dataE := t.rawE }
  have ok0 : Ok T0 := ⟨ok.le, ok.panic, ok.hang, ok.utf8⟩
  obtain ⟨a0, s1, s2, s3⟩ := readRawOrCdata_spec T0 ok0 hto
  obtain ⟨⟨r1, r2⟩, r3⟩ := readRawOrCdata_run nm c d T0 ok0 hc htag hto (h'.congr rfl) hd he
  have hlen : 0 < c.length := List.length_pos_iff.mpr hcne
  show Piece t (if (readRawOrCdata T0).dataE > (readRawOrCdata T0).dataS then _ else _) _ _ _ ∧ _
  rw [if_pos (by rw [s3, s2, r1]; show t.rawE + c.length > t.rawE; omega)]
  exact ⟨⟨rfl, a0.rawS, r1, r2, s1, r3, a0.buf⟩, s2, by show (readRawOrCdata T0).dataE = _; rw [s3, r1]⟩

/-- **closed form of `next` on an empty raw-text element body**: in the raw-text context, the matching end tag
`</name>` right away is returned as the end tag (no empty text token) -/
theorem rawtext_empty_closed_form (t : Tokenizer) (nm : Bytes) (ok : Ok t) (he : t.err = false)
    (htag : t.rawTag = nm.map lowerByte) (hne : t.rawTag ≠ []) (hpl : t.rawTag ≠ htmlPlaintext)
    (hn : nameOK nm = true) (h : Has t t.rawE ([60, 47] ++ nm ++ [62])) :
    Piece t (next t) .endTag ([60, 47] ++ nm ++ [62]).length [] ∧
    (next t).dataS = t.rawE + 2 ∧ (next t).dataE = t.rawE + 2 + nm.length := by
  rw [next_raw_unfold t he hne hpl]
  have hto : TagOk t.rawTag := htag ▸ TagOk_lower_of_nameOK hn
  have h' : Has t t.rawE ([] ++ ([60, 47] ++ (nm ++ [62]))) := by simpa [List.append_assoc] using h
  let T0 : Tokenizer := { t with rawS := t.rawE, dataS := t.rawE, dataE := t.rawE }
  have ok0 : Ok T0 := ⟨ok.le, ok.panic, ok.hang, ok.utf8⟩
  obtain ⟨a0, s1, s2, s3⟩ := readRawOrCdata_spec T0 ok0 hto
  obtain ⟨⟨r1, r2⟩, r3⟩ := readRawOrCdata_run nm [] 62 T0 ok0 rfl htag hto (h'.congr rfl) (by decide) he
  show Piece t (if (readRawOrCdata T0).dataE > (readRawOrCdata T0).dataS then _ else _) _ _ _ ∧ _
  rw [if_neg (by rw [s3, s2, r1]; show ¬ t.rawE + 0 > t.rawE; omega)]
  generalize readRawOrCdata T0 = t1 at *
  have hre : t1.rawE = t.rawE := by rw [r1]; rfl
  have := mainLoop_end_tag { t1 with textIsRaw := false, convertNull := false } nm
    ⟨a0.ok.le, a0.ok.panic, a0.ok.hang, a0.ok.utf8⟩ r2 (by show t1.rawS = t1.rawE; rw [a0.rawS, hre])
    hn ((h.congr (show t1.buf = t.buf from a0.buf)).at (show t1.rawE = t.rawE from hre))
  obtain ⟨p, d1, d2⟩ := this
  refine ⟨⟨p.token, p.rawS.trans a0.rawS, by rw [p.rawE]; show t1.rawE + _ = _; rw [hre], p.err, p.rawTag.trans s1,
    p.cdata.trans r3, p.buf.trans a0.buf⟩, ?_, ?_⟩
  · rw [d1]; show t1.rawE + 2 = _; rw [hre]
  · rw [d2]; show t1.rawE + 2 + _ = _; rw [hre]

/-! ### text -/

/-- the text runs covered by the closed form: no `<` -/
def textOK (tx : Bytes) : Bool := tx.all (· != 60)

/-- the main loop skips text bytes up to `<` + opener -/
theorem mainLoop_skip : ∀ (tx : Bytes) (T : Tokenizer) (c : Nat), Ok T → T.err = false → textOK tx = true →
    Has T T.rawE (tx ++ [60, c]) → isOpener c = true →
    ∃ S, mainLoop T = dispatchTag S c ∧ S.rawE = T.rawE + tx.length + 2 ∧ S.rawS = T.rawS ∧ S.err = false ∧
      S.buf = T.buf ∧ S.rawTag = T.rawTag ∧ S.allowCdata = T.allowCdata ∧ Ok S ∧ S.dataS = T.dataS
  | [], T, c, ok, he, _, h, hop => by
    obtain ⟨hml, o⟩ := mainLoop_dispatch T c ok he h hop
    exact ⟨opened2 T, hml, by rw [o.rawE]; simp, o.rawS, o.err, o.buf, o.rawTag, o.cdata, o.ok, o.dataS⟩
  | b :: tx, T, c, ok, he, htx, h, hop => by
    obtain ⟨e1, e2, e3, e4⟩ := read_known h.head he
    simp only [textOK, List.all_cons, Bool.and_eq_true, bne_iff_ne, ne_eq] at htx
    have a1 := readByte_adv ok
    obtain ⟨S, i1, i2, i3, i4, i5, i6, i7, i8, i9⟩ := mainLoop_skip tx T.readByte.1 c a1.ok e3
      (by simpa [textOK] using htx.2) ((h.tail.congr e4).at (by rw [e2])) hop
    refine ⟨S, ?_, by rw [i2, e2]; simp; omega, i3.trans a1.rawS, i4, i5.trans e4, i6.trans a1.rawTag,
      i7.trans a1.cdata, i8, by rw [i9]; simp⟩
    rw [mainLoop]
    simp only [e3, e1, Bool.false_eq_true, dite_false, show (b != 60) = true by simp [htx.1], if_true]
    exact i1

/-- **closed form of `next` on a text run**: non-empty text without `<`, followed by `<` and a tag-opening byte
(a letter, `/`, `!` or `?`), is ONE text token -/
theorem text_closed_form (t : Tokenizer) (tx : Bytes) (c : Nat) (ok : Ok t) (he : t.err = false) (htag : t.rawTag = [])
    (htx : textOK tx = true) (hne : tx ≠ []) (hop : isOpener c = true) (h : Has t t.rawE (tx ++ [60, c])) :
    Piece t (next t) .text tx.length [] ∧ (next t).dataS = t.rawE ∧ (next t).dataE = t.rawE + tx.length := by
  rw [next_mainLoop t he htag]
  obtain ⟨S, i1, i2, i3, i4, i5, i6, i7, i8, i9⟩ := mainLoop_skip tx
    { ({ t with rawS := t.rawE, dataS := t.rawE, dataE := t.rawE } : Tokenizer) with textIsRaw := false, convertNull := false }
    c ⟨ok.le, ok.panic, ok.hang, ok.utf8⟩ he htx (h.congr rfl) hop
  have hlen : 0 < tx.length := List.length_pos_iff.mpr hne
  rw [i1]
  unfold dispatchTag
  simp only [htmlTagOpenLen]
  have i2' : S.rawE = t.rawE + tx.length + 2 := i2
  have i3' : S.rawS = t.rawE := i3
  rw [if_neg (by rw [i2']; omega), if_pos (by rw [i2', i3']; omega)]
  exact ⟨⟨rfl, i3', by show S.rawE - 2 = _; rw [i2']; omega, i4, i6.trans htag, i7, i5⟩, i9,
    by show S.rawE - 2 = _; rw [i2']; omega⟩

/-- the main loop runs into the end of the buffer -/
theorem mainLoop_eof : ∀ (tx : Bytes) (T : Tokenizer), T.err = false → textOK tx = true →
    Has T T.rawE tx → T.buf.size = T.rawE + tx.length →
    ∃ S, mainLoop T = finishText S ∧ S.rawE = T.rawE + tx.length ∧ S.rawS = T.rawS ∧ S.err = true ∧
      S.buf = T.buf ∧ S.rawTag = T.rawTag ∧ S.allowCdata = T.allowCdata ∧ S.dataS = T.dataS
  | [], T, he, _, _, hsz => by
    refine ⟨{ T with err := true }, ?_, rfl, rfl, rfl, rfl, rfl, rfl, rfl⟩
    have hr : T.readByte = ({ T with err := true }, 0) := by
      unfold readByte; rw [dif_neg (by simp at hsz; omega)]
    rw [mainLoop]
    simp only [hr, dite_true]
  | b :: tx, T, he, htx, h, hsz => by
    obtain ⟨e1, e2, e3, e4⟩ := read_known h.head he
    simp only [textOK, List.all_cons, Bool.and_eq_true, bne_iff_ne, ne_eq] at htx
    obtain ⟨S, i1, i2, i3, i4, i5, i6, i7, i8⟩ := mainLoop_eof tx T.readByte.1 e3
      (by simpa [textOK] using htx.2) ((h.tail.congr e4).at (by rw [e2])) (by rw [e4, e2, hsz]; simp; omega)
    refine ⟨S, ?_, by rw [i2, e2]; simp; omega, by rw [i3]; unfold readByte; split <;> rfl, i4, i5.trans e4,
      by rw [i6]; unfold readByte; split <;> rfl, by rw [i7]; unfold readByte; split <;> rfl, by rw [i8]; simp⟩
    rw [mainLoop]
    simp only [e3, e1, Bool.false_eq_true, dite_false, show (b != 60) = true by simp [htx.1], if_true]
    exact i1

/-- **closed form of `next` on a text run at the end of the input**: ONE text token, with the error flag set
(the following `next` returns the `ErrorToken`, see `next_of_err`) -/
theorem text_eof_closed_form (t : Tokenizer) (tx : Bytes) (he : t.err = false) (htag : t.rawTag = [])
    (htx : textOK tx = true) (hne : tx ≠ []) (h : Has t t.rawE tx) (hsz : t.buf.size = t.rawE + tx.length) :
    (next t).token = .text ∧ (next t).rawS = t.rawE ∧ (next t).rawE = t.rawE + tx.length ∧ (next t).err = true ∧
    (next t).rawTag = [] ∧ (next t).allowCdata = t.allowCdata ∧ (next t).buf = t.buf ∧
    (next t).dataS = t.rawE ∧ (next t).dataE = t.rawE + tx.length := by
  rw [next_mainLoop t he htag]
  obtain ⟨S, i1, i2, i3, i4, i5, i6, i7, i8⟩ := mainLoop_eof tx
    { ({ t with rawS := t.rawE, dataS := t.rawE, dataE := t.rawE } : Tokenizer) with textIsRaw := false, convertNull := false }
    he htx (h.congr rfl) hsz
  have hlen : 0 < tx.length := List.length_pos_iff.mpr hne
  have i2' : S.rawE = t.rawE + tx.length := i2
  have i3' : S.rawS = t.rawE := i3
  rw [i1]
  unfold finishText
  rw [if_pos (by rw [i2', i3']; omega)]
  exact ⟨rfl, i3', i2', i4, i6.trans htag, i7, i5, i8, i2'⟩

/-- **closed form of `next` at the end of the input** (nothing pending): the `ErrorToken`, empty raw span -/
theorem eof_closed_form (t : Tokenizer) (he : t.err = false) (htag : t.rawTag = []) (hsz : t.buf.size = t.rawE) :
    (next t).token = .error ∧ (next t).rawS = t.rawE ∧ (next t).rawE = t.rawE ∧ (next t).err = true ∧
    (next t).buf = t.buf := by
  rw [next_mainLoop t he htag]
  obtain ⟨S, i1, i2, i3, i4, i5, i6, i7, i8⟩ := mainLoop_eof []
    { ({ t with rawS := t.rawE, dataS := t.rawE, dataE := t.rawE } : Tokenizer) with textIsRaw := false, convertNull := false }
    he rfl (Has.nil _ _) (by simpa using hsz)
  have i2' : S.rawE = t.rawE := i2
  have i3' : S.rawS = t.rawE := i3
  rw [i1]
  unfold finishText
  rw [if_neg (by rw [i2', i3']; omega)]
  exact ⟨rfl, i3', i2', i4, i5⟩

/-- once the error flag is set, `next` returns the `ErrorToken` with an empty raw span, for ever -/
theorem next_of_err (t : Tokenizer) (he : t.err = true) :
    (next t).token = .error ∧ (next t).rawS = t.rawE ∧ (next t).rawE = t.rawE ∧ (next t).err = true ∧
    (next t).buf = t.buf := by
  unfold next nextGo
  simp only
  rw [if_pos (by exact he)]
  exact ⟨rfl, rfl, rfl, he, rfl⟩

/-! ### chaining helpers -/

/-- the fresh tokenizer sees the whole input at position 0 -/
theorem has_new (l : Bytes) : Has (Tokenizer.new l.toArray) 0 l := by
  intro i hi
  show l.toArray[0 + i]? = some l[i]
  simp [hi]

theorem new_facts (l : Bytes) : (Tokenizer.new l.toArray).rawE = 0 ∧ (Tokenizer.new l.toArray).err = false ∧
    (Tokenizer.new l.toArray).rawTag = [] ∧ (Tokenizer.new l.toArray).buf = l.toArray :=
  ⟨rfl, rfl, rfl, rfl⟩

/-- a known stretch of the buffer stays known after a step -/
theorem Piece.has {t t1 : Tokenizer} {k : TokenType} {len : Nat} {tag : List Nat} (pc : Piece t t1 k len tag)
    {p : Nat} {l : Bytes} (h : Has t p l) : Has t1 p l := h.congr pc.buf

/-- the rest of the input after a piece, at the new position -/
theorem Piece.rest {t t1 : Tokenizer} {k : TokenType} {len : Nat} {tag : List Nat} (pc : Piece t t1 k len tag)
    {x rest : Bytes} (hx : x.length = len) (h : Has t t.rawE (x ++ rest)) : Has t1 t1.rawE rest :=
  (h.right.congr pc.buf).at (by rw [pc.rawE, hx])

end Tokenizer
end Rio.Html
