/-
The tokenizer laws of the filter theorems for the STREAM tokenizer (`Tokenize.stream`, i.e.
`Tokenizer::new_fragment(data, last_context)` as used by `HtmlFilterBodyAction::filter` since fe7eac6).
Statements, the executable `view` and its elementary lemmas; the proofs of the laws for the concrete `htmlTokenize` are W5's
(Proofs/HtmlStream7*.lean) except `LosslessS` (Proofs/FilterTok.lean).
-/
import RioModel.Proofs.Filter
import RioModel.Proofs.FilterUtf8
import RioModel.Model.FilterHtml
set_option linter.unusedSimpArgs false

namespace Rio.Filter

/-- a context `new_fragment` accepts (what `read_start_tag` can leave in `raw_tag`), or none -/
def Ctx (c : Bytes) : Prop := c = [] ∨ c ∈ Rio.Consts.htmlFragmentRawTags

/-- `Lossless` for the stream tokenizer -/
def LosslessS (tk : Tokenize) : Prop :=
  ∀ c d, rawsOf (toksOf (tk.stream c d).1) ++ (tk.stream c d).2.1 = d

/-- what one call of `filter` does with the tokens of `stream c d`, as `filterHtml` computes it:
`todo` = the tokens it processes, `all` = the tokens before the first cut one (`todo` plus a held text containing `<`),
`tail` = what it keeps in `last_buffer` (without the pending incomplete character), `rem` = the part of `tail` after
`all` (cut token and remainder), `ctx'` = the new `last_context` -/
structure View where
  todo : List Tok
  all : List Tok
  tail : Bytes
  rem : Bytes
  ctx' : Bytes
  deriving DecidableEq, Repr

def view (tk : Tokenize) (c d : Bytes) : View :=
  let r := tk.stream c d
  let sp := cutSplit r.1
  let th := if sp.2.isEmpty then splitHeld (toksOf sp.1) else (toksOf sp.1, [])
  { todo := th.1, all := toksOf sp.1, tail := th.2 ++ rawsOf (toksOf sp.2) ++ r.2.1,
    rem := rawsOf (toksOf sp.2) ++ r.2.1, ctx' := heldCtx sp.1 sp.2 th.2 r.2.2 }

/-! ### `filterHtml` in terms of `view` -/

theorem rawsOf_cons (t : Tok) (ts : List Tok) : rawsOf (t :: ts) = t.raw ++ rawsOf ts := by
  simp [rawsOf]

theorem rawsOf_append (a b : List Tok) : rawsOf (a ++ b) = rawsOf a ++ rawsOf b := by
  simp [rawsOf]

/-- the token the "held" rule keeps back is a text token at the end of the list -/
theorem splitHeld_cases (ts : List Tok) :
    (splitHeld ts = (ts, [])) ∨
    (∃ t, t.kind = .text ∧ ts = (splitHeld ts).1 ++ [t] ∧ (splitHeld ts).2 = t.raw) := by
  unfold splitHeld
  split
  · rename_i t ht
    split
    · rename_i hc
      right
      obtain ⟨ys, hys⟩ := List.getLast?_eq_some_iff.mp ht
      refine ⟨t, hc.1, ?_, rfl⟩
      simp [hys]
    · left; rfl
  · rename_i ht
    simp at ht
    left; simp [ht]

theorem cutSplit_append (xs : List TokX) : (cutSplit xs).1 ++ (cutSplit xs).2 = xs := by
  unfold cutSplit
  exact List.takeWhile_append_dropWhile

theorem toksOf_append (a b : List TokX) : toksOf (a ++ b) = toksOf a ++ toksOf b := by
  simp [toksOf]

theorem mem_takeWhile_true {α : Type} (p : α → Bool) : ∀ (l : List α) (x : α), x ∈ l.takeWhile p → p x = true
  | [], _, h => by simp at h
  | a :: l, x, h => by
    rw [List.takeWhile_cons] at h
    split at h
    · rename_i hp
      simp only [List.mem_cons] at h
      rcases h with rfl | h
      · exact hp
      · exact mem_takeWhile_true p l x h
    · simp at h

/-- no token before the first cut one is cut -/
theorem cutSplit_pre_notCut (xs : List TokX) : ∀ x ∈ (cutSplit xs).1, isCut x = false := by
  intro x hx
  have := mem_takeWhile_true _ _ _ hx
  simpa using this

section
variable (tk : Tokenize) (ev : Bytes → Bytes → Bool)

/-- `filterHtml` computes exactly `view` -/
theorem filterHtml_view (s : HtmlSt) (x : Bytes) :
    filterHtml tk ev s x =
      match utf8Split (s.last ++ x) with
      | none => none
      | some (data, pending) =>
        some ({ ((view tk s.ctx data).todo.foldl (stepTok tk ev) (s, [])).1 with
                  last := (view tk s.ctx data).tail ++ pending, ctx := (view tk s.ctx data).ctx' },
              ((view tk s.ctx data).todo.foldl (stepTok tk ev) (s, [])).2) := by
  unfold filterHtml view
  cases utf8Split (s.last ++ x) with
  | none => rfl
  | some r =>
    obtain ⟨data, pending⟩ := r
    simp only [List.append_assoc]

/-- either nothing is held back by the "text containing `<`" rule, or the held text is the last token before the rest -/
theorem view_cases (c d : Bytes) :
    ((view tk c d).todo = (view tk c d).all ∧ (view tk c d).tail = (view tk c d).rem) ∨
    (∃ t, t.kind = .text ∧ (view tk c d).all = (view tk c d).todo ++ [t] ∧
      (view tk c d).tail = t.raw ++ (view tk c d).rem) := by
  unfold view
  simp only
  split
  · rcases splitHeld_cases (toksOf (cutSplit (tk.stream c d).1).1) with h | ⟨t, h1, h2, h3⟩
    · left; rw [h]; simp
    · right; exact ⟨t, h1, h2, by rw [h3]; simp⟩
  · left; simp

theorem view_all_rem (hl : LosslessS tk) (c d : Bytes) : rawsOf (view tk c d).all ++ (view tk c d).rem = d := by
  have h := hl c d
  have h2 := cutSplit_append (tk.stream c d).1
  unfold view
  simp only
  rw [← List.append_assoc, ← rawsOf_append, ← toksOf_append, h2]
  exact h

/-- processed tokens followed by the kept tail are the data -/
theorem view_todo_tail (hl : LosslessS tk) (c d : Bytes) : rawsOf (view tk c d).todo ++ (view tk c d).tail = d := by
  have h := view_all_rem tk hl c d
  rcases view_cases tk c d with ⟨h1, h2⟩ | ⟨t, _, h1, h2⟩
  · rw [h1, h2]; exact h
  · rw [h1] at h
    rw [h2]
    rw [rawsOf_append, rawsOf_cons] at h
    simpa [rawsOf, List.append_assoc] using h

theorem view_todo_sub (c d : Bytes) : ∀ t ∈ (view tk c d).todo, t ∈ (view tk c d).all := by
  intro t ht
  rcases view_cases tk c d with ⟨h1, _⟩ | ⟨t', _, h1, _⟩
  · rw [← h1]; exact ht
  · rw [h1]; simp [ht]

theorem view_all_mem (c d : Bytes) : ∀ t ∈ (view tk c d).all, ∃ x ∈ (tk.stream c d).1, x.tok = t := by
  intro t ht
  unfold view at ht
  simp only [toksOf, List.mem_map] at ht
  obtain ⟨x, hx, rfl⟩ := ht
  refine ⟨x, ?_, rfl⟩
  rw [← cutSplit_append (tk.stream c d).1]
  simp [hx]

end

/-- merge adjacent text tokens (what the driver compares) -/
def normText : List Tok → List Tok
  | [] => []
  | t :: ts =>
    match normText ts with
    | [] => [t]
    | t' :: r =>
      if t.kind = .text ∧ t'.kind = .text then { kind := .text, raw := t.raw ++ t'.raw, name := [] } :: r
      else t :: t' :: r


/-- token boundaries are character boundaries (stream tokenizer, accepted contexts) -/
def TokValidS (tk : Tokenize) : Prop :=
  ∀ c d, Ctx c → V d → ∀ x ∈ (tk.stream c d).1, V x.tok.raw

def isTagKindX (k : TokKind) : Bool := k == .startTag || k == .endTag || k == .selfClosing

/-- tag tokens of the stream tokenizer start with `<` and end with `>` -/
def TagSpanS (tk : Tokenize) : Prop :=
  ∀ c d x, x ∈ (tk.stream c d).1 → isTagKindX x.tok.kind = true → IsSpan x.tok.raw

/-- the contexts the stream tokenizer reports are accepted contexts -/
def CtxClosed (tk : Tokenize) : Prop :=
  ∀ c d, Ctx c → (∀ x ∈ (tk.stream c d).1, Ctx x.ctx) ∧ Ctx (tk.stream c d).2.2

/-- **RESTART LAW with a context** (every cut is safe since fe7eac6): for complete valid `a1`, `a'` and an accepted
context `c`, tokenising `a1 ++ a'` in context `c` gives — up to merging of adjacent text tokens, on the tokens before
the first cut one — the tokens the filter processed for `a1` followed by the tokens of `kept tail ++ a'` in the context
the filter remembered; the unprocessed rest is the same; the kept tail starts at a character boundary. -/
def RestartLaw (tk : Tokenize) : Prop :=
  ∀ c a1 a', Ctx c → V a1 → V a' →
    normText (view tk c (a1 ++ a')).all =
      normText ((view tk c a1).todo ++ (view tk (view tk c a1).ctx' ((view tk c a1).tail ++ a')).all) ∧
    (view tk c (a1 ++ a')).rem = (view tk (view tk c a1).ctx' ((view tk c a1).tail ++ a')).rem ∧
    V (view tk c a1).tail ∧ Ctx (view tk c a1).ctx'

end Rio.Filter
