/-
The tokenizer laws of the filter theorems for the STREAM tokenizer (`Tokenize.stream`, i.e.
`Tokenizer::new_fragment(data, last_context)` as used by `HtmlFilterBodyAction::filter` since fe7eac6).
Statements only (plus the executable `view`); the proofs for the concrete `htmlTokenize` are W5's
(Proofs/HtmlStream7*.lean) except `LosslessS` (Proofs/FilterTok.lean).
-/
import RioModel.Proofs.Filter
import RioModel.Proofs.FilterUtf8
import RioModel.Model.FilterHtml
set_option linter.unusedSimpArgs false

namespace Rio.Filter

/-- a context `new_fragment` accepts (what `read_start_tag` can leave in `raw_tag`), or none -/
def Ctx (c : Bytes) : Prop := c = [] ∨ c ∈ Rio.Consts.htmlFragmentRawTags

/-- `Lossless` for the stream tokenizer -/
def LosslessS (tk : Tokenize) : Prop :=
  ∀ c d, rawsOf (toksOf (tk.stream c d).1) ++ (tk.stream c d).2.1 = d

/-- what one call of `filter` does with the tokens of `stream c d`, as `filterHtml` computes it:
`todo` = the tokens it processes, `all` = the tokens before the first cut one (`todo` plus a held text containing `<`),
`tail` = what it keeps in `last_buffer` (without the pending incomplete character), `rem` = the part of `tail` after
`all` (cut token and remainder), `ctx'` = the new `last_context` -/
structure View where
  todo : List Tok
  all : List Tok
  tail : Bytes
  rem : Bytes
  ctx' : Bytes
  deriving DecidableEq, Repr

def view (tk : Tokenize) (c d : Bytes) : View :=
  let r := tk.stream c d
  let sp := cutSplit r.1
  let th := if sp.2.isEmpty then splitHeld (toksOf sp.1) else (toksOf sp.1, [])
  { todo := th.1, all := toksOf sp.1, tail := th.2 ++ rawsOf (toksOf sp.2) ++ r.2.1,
    rem := rawsOf (toksOf sp.2) ++ r.2.1, ctx' := heldCtx sp.1 sp.2 th.2 r.2.2 }

/-- merge adjacent text tokens (what the driver compares) -/
def normText : List Tok → List Tok
  | [] => []
  | t :: ts =>
    match normText ts with
    | [] => [t]
    | t' :: r =>
      if t.kind = .text ∧ t'.kind = .text then { kind := .text, raw := t.raw ++ t'.raw, name := [] } :: r
      else t :: t' :: r


/-- token boundaries are character boundaries (stream tokenizer, accepted contexts) -/
def TokValidS (tk : Tokenize) : Prop :=
  ∀ c d, Ctx c → V d → ∀ x ∈ (tk.stream c d).1, V x.tok.raw

def isTagKindX (k : TokKind) : Bool := k == .startTag || k == .endTag || k == .selfClosing

/-- tag tokens of the stream tokenizer start with `<` and end with `>` -/
def TagSpanS (tk : Tokenize) : Prop :=
  ∀ c d x, x ∈ (tk.stream c d).1 → isTagKindX x.tok.kind = true → IsSpan x.tok.raw

/-- the contexts the stream tokenizer reports are accepted contexts -/
def CtxClosed (tk : Tokenize) : Prop :=
  ∀ c d, Ctx c → (∀ x ∈ (tk.stream c d).1, Ctx x.ctx) ∧ Ctx (tk.stream c d).2.2

/-- **RESTART LAW with a context** (every cut is safe since fe7eac6): for complete valid `a1`, `a'` and an accepted
context `c`, tokenising `a1 ++ a'` in context `c` gives — up to merging of adjacent text tokens, on the tokens before
the first cut one — the tokens the filter processed for `a1` followed by the tokens of `kept tail ++ a'` in the context
the filter remembered; the unprocessed rest is the same; the kept tail starts at a character boundary. -/
def RestartLaw (tk : Tokenize) : Prop :=
  ∀ c a1 a', Ctx c → V a1 → V a' →
    normText (view tk c (a1 ++ a')).all =
      normText ((view tk c a1).todo ++ (view tk (view tk c a1).ctx' ((view tk c a1).tail ++ a')).all) ∧
    (view tk c (a1 ++ a')).rem = (view tk (view tk c a1).ctx' ((view tk c a1).tail ++ a')).rem ∧
    V (view tk c a1).tail ∧ Ctx (view tk c a1).ctx'

end Rio.Filter
