/-
C15, byte level, universal form, SECOND grammar `Simple2` (W13): a verbatim piece of the document (`Node.verb`: a text, a
comment, a declaration — or the VALUE a filter has inserted) may be the serialisation of a whole `Simple` FOREST.

The reference edit inserts the value of a filter as ONE verbatim node `.verb value marks`; the grammar `Simple`
(Proofs/FilterDomUniv.lean) reads a verbatim piece as one text or one `other` token, so the document the SECOND filter of
a chain sees is outside `Simple` as soon as the value holds an element (`<ins>V</ins>`), although the tokenizer reads the
value as start tag, text, end tag.  Here the "how does the tokenizer see a verbatim piece" parameter `vt` of the
token-level theory (Proofs/FilterDom.lean) is instantiated by `vtP`: the tokens of the forest `expandV raw` the piece is
parsed into (a small recursive-descent parser `parseForest`, NOT trusted: its result is used only when it serialises back
to the piece, byte for byte — otherwise, and whenever the piece is a node of `Simple` already, the piece stays as it is).

  `expandL d`                  the document with every verbatim piece replaced by its forest (same bytes: `serializeList_expandL`)
  `Simple2L L d`               := `SimpleL L (expandL d)`;  `SimpleL simpleLaws d → expandL d = d` on recognised documents
                               (`expandL_of_simpleLB`), so `Simple2` is at least as permissive as what `simpleLB` accepts
  `tokensOfList_expandL`       `tokensOfList vtU (expandL d) = tokensOfList vtP d`
  `tokAgree2_of_laws`          `Simple2L`, valid UTF-8, `NoHeld2` ⇒ `TokAgree htmlTokenize vtP d` — so every token-level theorem
                               (`filter_spec`, `filters_compose`) applies with `vt := vtP`, and its conclusion is about the
                               UNCHANGED reference edit `editAllD` (value inserted verbatim)
  `StepsSimple2`, `stepsSimple2B`, `stepsSimple2B_sound`

The domain `InDomain htmlTokenize vtP d f` now looks INSIDE inserted values (a value holding an element named like a path
element of a later filter is outside the domain, as it must be: the real filter would edit it, the reference does not).
-/
import RioModel.Proofs.FilterDomRec
set_option linter.unusedSimpArgs false
set_option linter.unusedVariables false

namespace Rio.Filter
open Rio.Html Rio.Html.Tokenizer Rio.Consts

/-! ### an (untrusted) parser of verbatim pieces into forests -/

def isNameStartB (c : Nat) : Bool := (65 ≤ c && c ≤ 90) || (97 ≤ c && c ≤ 122)

def tagNameByteB (c : Nat) : Bool := !isWs c && c != 47 && c != 62

/-- the first non-white-space byte of the (reversed) text read so far is `=`: a quote opens a quoted value -/
def afterEqB (acc : Bytes) : Bool := (acc.dropWhile isWs).head? == some 61

/-- the attribute text of a tag up to the `>` that ends it (outside quoted values): (attribute text, rest after `>`);
`q` = the open quote (0 = none), `acc` = the text read so far, reversed -/
def scanTag : Bytes → Nat → Bytes → Option (Bytes × Bytes)
  | [], _, _ => none
  | b :: rest, q, acc =>
    if q != 0 then (if b == q then scanTag rest 0 (b :: acc) else scanTag rest q (b :: acc))
    else if b == 62 then some (acc.reverse, rest)
    else if (b == 34 || b == 39) && afterEqB acc then scanTag rest b (b :: acc)
    else scanTag rest 0 (b :: acc)

/-- up to and including the first `-->`: (piece, rest) -/
def splitDashes : Bytes → Option (Bytes × Bytes)
  | [] => none
  | b :: rest =>
    if (b :: rest).take 3 == [45, 45, 62] then some ([45, 45, 62], rest.drop 2)
    else (splitDashes rest).map fun (x, r) => (b :: x, r)

/-- up to and including the first `>`: (piece, rest) -/
def splitGt : Bytes → Option (Bytes × Bytes)
  | [] => none
  | b :: rest => if b == 62 then some ([62], rest) else (splitGt rest).map fun (x, r) => (b :: x, r)

/-- the longest prefix in which no `<` + opener starts (after the first byte): (text, rest) -/
def takeText : Bytes → Bytes × Bytes
  | [] => ([], [])
  | b :: rest => if startsOpenerB (b :: rest) then ([], b :: rest) else ((b :: (takeText rest).1), (takeText rest).2)

/-- a forest up to the end of the bytes or the next end tag: (nodes, rest).  Raw-text elements are not parsed (`none`). -/
def parseGo : Nat → Bytes → Option (List Node × Bytes)
  | 0, _ => none
  | n + 1, bs =>
    match bs with
    | [] => some ([], [])
    | b :: rest =>
      if !startsOpenerB (b :: rest) then
        (parseGo n (takeText rest).2).map fun (ns, r) => (.verb (b :: (takeText rest).1) [] :: ns, r)
      else if rest.head? == some 47 then some ([], bs)
      else if rest.take 3 == [33, 45, 45] then
        match splitDashes (rest.drop 3) with
        | none => none
        | some (x, r) => (parseGo n r).map fun (ns, r') => (.verb ([60, 33, 45, 45] ++ x) [] :: ns, r')
      else if rest.head? == some 33 || rest.head? == some 63 then
        match splitGt rest with
        | none => none
        | some (x, r) => (parseGo n r).map fun (ns, r') => (.verb (60 :: x) [] :: ns, r')
      else if (rest.head?.map isNameStartB).getD false then
        let nm := rest.takeWhile tagNameByteB
        match scanTag (rest.dropWhile tagNameByteB) 0 [] with
        | none => none
        | some (a, after) =>
          if a.getLast? == some 47 then
            (parseGo n after).map fun (ns, r) => (.el (lowerName nm) nm a.dropLast .selfClosing [] :: ns, r)
          else if isVoid (lowerName nm) then
            (parseGo n after).map fun (ns, r) => (.el (lowerName nm) nm a .void [] :: ns, r)
          else if isRawName (lowerName nm) then none
          else
            match parseGo n after with
            | none => none
            | some (cs, r) =>
              if r.take (nm.length + 3) == [60, 47] ++ nm ++ [62] then
                (parseGo n (r.drop (nm.length + 3))).map fun (ns, r') => (.el (lowerName nm) nm a .normal cs :: ns, r')
              else none
      else none

def parseForest (bs : Bytes) : Option (List Node) :=
  match parseGo (bs.length + 1) bs with
  | some (ns, []) => some ns
  | _ => none

/-! ### verbatim pieces as forests -/

/-- the forest a verbatim piece stands for: the piece itself when it is a node of `Simple` (text, comment, declaration) or
when the parser does not return a forest with exactly these bytes -/
def expandV (raw : Bytes) (m : List Bytes) : List Node :=
  if simpleNB (.verb raw m) then [.verb raw m]
  else
    match parseForest raw with
    | some ns => if serializeList ns = raw then ns else [.verb raw m]
    | none => [.verb raw m]

theorem serializeList_expandV (raw : Bytes) (m : List Bytes) : serializeList (expandV raw m) = raw := by
  unfold expandV
  split
  · simp [serializeList, serialize]
  · split
    · split
      · assumption
      · simp [serializeList, serialize]
    · simp [serializeList, serialize]

theorem simpleNB_verb_marks (raw : Bytes) (m m' : List Bytes) : simpleNB (.verb raw m) = simpleNB (.verb raw m') := by
  simp [simpleNB]

/-- how the tokenizer sees a verbatim piece: as the tokens of its forest -/
def vtP (raw : Bytes) : List Tok := tokensOfList vtU (expandV raw [])

theorem vtP_lossless : VtLossless vtP := by
  intro raw
  unfold vtP
  rw [rawsOf_tokensOfList vtU vtU_lossless, serializeList_expandV]

theorem tokensOfList_expandV (raw : Bytes) (m : List Bytes) : tokensOfList vtU (expandV raw m) = vtP raw := by
  unfold vtP expandV
  rw [simpleNB_verb_marks raw m []]
  split
  · simp [tokensOfList, tokensOf]
  · split
    · split
      · rfl
      · simp [tokensOfList, tokensOf]
    · simp [tokensOfList, tokensOf]

mutual
  /-- every verbatim piece outside raw-text elements replaced by its forest -/
  def expandN : Node → List Node
    | .verb raw m => expandV raw m
    | .el nm d a knd cs =>
      match knd with
      | .normal => [.el nm d a .normal (expandL cs)]
      | k => [.el nm d a k cs]
  def expandL : List Node → List Node
    | [] => []
    | n :: ns => expandN n ++ expandL ns
end

mutual
  theorem serializeList_expandN : ∀ n : Node, serializeList (expandN n) = serialize n
    | .verb raw m => by simp [expandN, serializeList_expandV, serialize]
    | .el nm d a knd cs => by
      cases knd with
      | normal => simp [expandN, serializeList, serialize, serializeList_expandL cs]
      | void => simp [expandN, serializeList, serialize]
      | selfClosing => simp [expandN, serializeList, serialize]
      | raw => simp [expandN, serializeList, serialize]
  /-- **the expansion has the same bytes** -/
  theorem serializeList_expandL : ∀ ns : List Node, serializeList (expandL ns) = serializeList ns
    | [] => by simp [expandL]
    | n :: ns => by
      simp [expandL, serializeList_append, serializeList, serializeList_expandN n, serializeList_expandL ns]
end

mutual
  theorem tokensOfList_expandN : ∀ n : Node, tokensOfList vtU (expandN n) = tokensOf vtP n
    | .verb raw m => by simp [expandN, tokensOfList_expandV, tokensOf]
    | .el nm d a knd cs => by
      cases knd with
      | normal => simp [expandN, tokensOfList, tokensOf, tokensOfList_expandL cs]
      | void => simp [expandN, tokensOfList, tokensOf]
      | selfClosing => simp [expandN, tokensOfList, tokensOf]
      | raw => simp [expandN, tokensOfList, tokensOf]
  /-- **the tokens of the expansion (verbatim pieces read by `vtU`) are the tokens of the document read by `vtP`** -/
  theorem tokensOfList_expandL : ∀ ns : List Node, tokensOfList vtU (expandL ns) = tokensOfList vtP ns
    | [] => by simp [expandL, tokensOfList]
    | n :: ns => by
      simp [expandL, tokensOfList_append, tokensOfList, tokensOfList_expandN n, tokensOfList_expandL ns]
end

mutual
  theorem expandN_of_simpleNB : ∀ n : Node, simpleNB n = true → expandN n = [n]
    | .verb raw m, h => by simp [expandN, expandV, h]
    | .el nm d a knd cs, h => by
      cases knd with
      | normal =>
        simp only [simpleNB, Bool.and_eq_true] at h
        simp [expandN, expandL_of_simpleLB cs h.2.2]
      | void => simp [expandN]
      | selfClosing => simp [expandN]
      | raw => simp [expandN]
  /-- **a document the recogniser of `Simple` accepts is its own expansion** -/
  theorem expandL_of_simpleLB : ∀ ns : List Node, simpleLB ns = true → expandL ns = ns
    | [], _ => by simp [expandL]
    | n :: ns, h => by
      simp only [simpleLB, Bool.and_eq_true] at h
      simp [expandL, expandN_of_simpleNB n h.1.1, expandL_of_simpleLB ns h.2]
end

/-! ### the grammar `Simple2` -/

/-- **the grammar `Simple2`**: the document whose verbatim pieces are replaced by the forests they serialise is `Simple` -/
def Simple2L (L : Laws) (doc : List Node) : Prop := SimpleL L (expandL doc)

/-- decidable `Simple2L simpleLaws` -/
def simple2LB (doc : List Node) : Bool := simpleLB (expandL doc)

theorem simple2LB_sound (doc : List Node) (h : simple2LB doc = true) : Simple2L simpleLaws doc :=
  simpleLB_sound (expandL doc) h

/-- the recogniser of `Simple2` accepts what the recogniser of `Simple` accepts -/
theorem simple2LB_of_simpleLB (doc : List Node) (h : simpleLB doc = true) : simple2LB doc = true := by
  unfold simple2LB
  rw [expandL_of_simpleLB doc h]
  exact h

/-- `filter` holds nothing back at the end of the document (tokens as the tokenizer sees them: `vtP`) -/
def NoHeld2 (doc : List Node) : Prop := splitHeld (tokensOfList vtP doc) = (tokensOfList vtP doc, [])

instance (doc : List Node) : Decidable (NoHeld2 doc) := by unfold NoHeld2; infer_instance

theorem noHeld2_iff (doc : List Node) : NoHeld2 doc ↔ NoHeld (expandL doc) := by
  unfold NoHeld2 NoHeld
  rw [tokensOfList_expandL]

/-- **the bridge hypothesis `TokAgree` of the token-level theorems, for `vt := vtP`, on every `Simple2` document** -/
theorem tokAgree2_of_laws (L : Laws) (doc : List Node) (hs : Simple2L L doc)
    (hu : utf8Split (serializeList doc) = some (serializeList doc, [])) (hh : NoHeld2 doc) :
    TokAgree htmlTokenize vtP doc := by
  have hu' : utf8Split (serializeList (expandL doc)) = some (serializeList (expandL doc), []) := by
    rw [serializeList_expandL]; exact hu
  have h := tokAgree_of_laws L (expandL doc) hs hu' ((noHeld2_iff doc).mp hh)
  have e := serializeList_expandL doc
  have t := tokensOfList_expandL doc
  exact ⟨by rw [← e, ← t]; exact h.toks, by rw [← e]; exact h.rest, by rw [← e]; exact h.noCut, hu, hh⟩

/-! ### several filters -/

/-- several filters on `Simple2` documents: every filter in its domain on the document it sees (the reference edit of the
filters before it, values inserted VERBATIM), which is again `Simple2`, valid UTF-8 and not empty -/
def StepsSimple2 (L : Laws) (ev : Bytes → Bytes → Bool) : List Node → List BodyFilter → Prop
  | _, [] => True
  | d, f :: fs =>
    Simple2L L d ∧ utf8Split (serializeList d) = some (serializeList d, []) ∧ NoHeld2 d ∧
    InDomain htmlTokenize vtP d f ∧
    (fs ≠ [] → serializeList (editD (decOf ev) d f) ≠ []) ∧ StepsSimple2 L ev (editD (decOf ev) d f) fs

theorem stepsOK_of_simple2 (L : Laws) (ev : Bytes → Bytes → Bool) :
    ∀ (fs : List BodyFilter) (d : List Node), StepsSimple2 L ev d fs → StepsOK htmlTokenize ev vtP d fs
  | [], _, _ => trivial
  | f :: fs, d, h => by
    obtain ⟨hs, hu, hh, hd, hne, hrest⟩ := h
    exact ⟨hd, tokAgree2_of_laws L d hs hu hh, hne, stepsOK_of_simple2 L ev fs _ hrest⟩

/-- decidable `StepsSimple2 simpleLaws ev` -/
def stepsSimple2B (ev : Bytes → Bytes → Bool) : List Node → List BodyFilter → Bool
  | _, [] => true
  | d, f :: fs =>
    simple2LB d && decide (utf8Split (serializeList d) = some (serializeList d, [])) && decide (NoHeld2 d) &&
    inDomainB htmlTokenize vtP d f &&
    (fs.isEmpty || !(serializeList (editD (decOf ev) d f)).isEmpty) &&
    stepsSimple2B ev (editD (decOf ev) d f) fs

theorem stepsSimple2B_sound (ev : Bytes → Bytes → Bool) : ∀ (fs : List BodyFilter) (d : List Node),
    stepsSimple2B ev d fs = true → StepsSimple2 simpleLaws ev d fs
  | [], _, _ => trivial
  | f :: fs, d, h => by
    unfold stepsSimple2B at h
    simp only [Bool.and_eq_true, Bool.or_eq_true, Bool.not_eq_true', List.isEmpty_eq_false_iff,
      decide_eq_true_eq] at h
    obtain ⟨⟨⟨⟨⟨h1, h2⟩, hh⟩, h3⟩, h4⟩, h5⟩ := h
    refine ⟨simple2LB_sound d h1, h2, hh, inDomainB_sound htmlTokenize vtP h3, ?_, stepsSimple2B_sound ev fs _ h5⟩
    intro hne
    rcases h4 with h4 | h4
    · exact absurd (List.isEmpty_iff.mp h4) hne
    · exact h4

end Rio.Filter
