/-
Basic lemmas about the tree model: induction principle for the nested inductive `Item`, unfolding
lemmas for the mutual functions as list operations, the structural invariant as propositions.
-/
import RioModel.Model.Tree
import RioModel.Proofs.Scan
set_option linter.unusedSimpArgs false
set_option linter.unusedVariables false
set_option linter.unusedSectionVars false

namespace Rio.Tree
open Rio.Scan Rio.Regex

variable {ι V : Type} [DecidableEq ι]

/-! ### Induction principle -/

mutual
theorem Item.ind {motive : Item ι V → Prop} (hE : ∀ ic, motive (.empty ic))
    (hL : ∀ rx vs, motive (.leaf rx vs))
    (hN : ∀ rx cs, (∀ c ∈ cs, motive c) → motive (.node rx cs)) : ∀ t, motive t
  | .empty ic => hE ic
  | .leaf rx vs => hL rx vs
  | .node rx cs => hN rx cs (Item.indL hE hL hN cs)
theorem Item.indL {motive : Item ι V → Prop} (hE : ∀ ic, motive (.empty ic))
    (hL : ∀ rx vs, motive (.leaf rx vs))
    (hN : ∀ rx cs, (∀ c ∈ cs, motive c) → motive (.node rx cs)) :
    ∀ cs : List (Item ι V), ∀ c ∈ cs, motive c
  | [] => by simp
  | c :: cs => fun d hd =>
    (List.mem_cons.1 hd).elim (fun h => h ▸ Item.ind hE hL hN c) (fun h => Item.indL hE hL hN cs d h)
end

/-! ### Constructors -/

def Item.isNode : Item ι V → Bool
  | .node _ _ => true
  | _ => false

def Item.isEmptyCtor : Item ι V → Bool
  | .empty _ => true
  | _ => false

@[simp] theorem regex_empty (ic : Bool) : (Item.empty ic : Item ι V).regex = [] := rfl
@[simp] theorem regex_node (rx cs) : (Item.node rx cs : Item ι V).regex = rx.original := rfl
@[simp] theorem regex_leaf (rx vs) : (Item.leaf rx vs : Item ι V).regex = rx.original := rfl

/-! ### The list-level functions as list operations -/

theorem findL_eq (E : Engine) (cs : List (Item ι V)) (s : List Char) :
    findL E cs s = cs.flatMap (fun c => c.find E s) := by
  induction cs with
  | nil => simp [findL]
  | cons c cs ih => simp [findL, ih]

theorem getL_eq (cs : List (Item ι V)) (p : List Char) :
    getL cs p = cs.flatMap (fun c => c.get p) := by
  induction cs with
  | nil => simp [getL]
  | cons c cs ih => simp [getL, ih]

theorem contentsL_eq (cs : List (Item ι V)) : contentsL cs = cs.flatMap Item.contents := by
  induction cs with
  | nil => simp [contentsL]
  | cons c cs ih => simp [contentsL, ih]

theorem contentsL_append (a b : List (Item ι V)) : contentsL (a ++ b) = contentsL a ++ contentsL b := by
  simp [contentsL_eq]

theorem mem_contentsL {cs : List (Item ι V)} {e : Entry ι V} :
    e ∈ contentsL cs ↔ ∃ c ∈ cs, e ∈ c.contents := by
  simp [contentsL_eq, List.mem_flatMap]

theorem lenL_eq (cs : List (Item ι V)) : lenL cs = (cs.map Item.len).sum := by
  induction cs with
  | nil => simp [lenL]
  | cons c cs ih => simp [lenL, ih]

theorem isEmptyL_eq (cs : List (Item ι V)) : isEmptyL cs = cs.all Item.isEmpty := by
  induction cs with
  | nil => simp [isEmptyL]
  | cons c cs ih => simp [isEmptyL, ih]

theorem invL_iff {ic : Bool} {cs : List (Item ι V)} : invL ic cs = true ↔ ∀ c ∈ cs, c.inv ic = true := by
  induction cs with
  | nil => simp [invL]
  | cons c cs ih => simp [invL, ih]

theorem retainL_eq (cs : List (Item ι V)) (f : ι → V → Option V) :
    retainL cs f = cs.flatMap (fun c => keepNonEmpty (c.retain f)) := by
  induction cs with
  | nil => simp [retainL]
  | cons c cs ih => simp [retainL, ih]

@[simp] theorem contents_empty (ic : Bool) : (Item.empty ic : Item ι V).contents = [] := by simp [Item.contents]
@[simp] theorem contents_node (rx cs) : (Item.node rx cs : Item ι V).contents = contentsL cs := by
  simp [Item.contents]
@[simp] theorem contents_leaf (rx) (vs : List (ι × V)) :
    (Item.leaf rx vs : Item ι V).contents = vs.map fun kv => ⟨rx.original, kv.1, kv.2⟩ := by
  simp [Item.contents]

/-! ### Well-formed `LazyRegex`es -/

@[simp] theorem newLeaf_leafWf (p : List Char) (ic : Bool) : (LazyRegex.newLeaf p ic).leafWf = true := by
  simp [LazyRegex.newLeaf, LazyRegex.leafWf, LazyRegex.consistent]

@[simp] theorem newNode_nodeWf (q : List Char) (ic : Bool) : (LazyRegex.newNode q ic).nodeWf = true := by
  simp [LazyRegex.newNode, LazyRegex.nodeWf, LazyRegex.consistent]

@[simp] theorem newLeaf_ic (p : List Char) (ic : Bool) : (LazyRegex.newLeaf p ic).ic = ic := rfl
@[simp] theorem newNode_ic (q : List Char) (ic : Bool) : (LazyRegex.newNode q ic).ic = ic := rfl
@[simp] theorem newLeaf_original (p : List Char) (ic : Bool) : (LazyRegex.newLeaf p ic).original = p := rfl
@[simp] theorem newNode_original (q : List Char) (ic : Bool) : (LazyRegex.newNode q ic).original = q := rfl

theorem leafWf_iff {rx : LazyRegex} :
    rx.leafWf = true ↔ rx.regex = .leaf rx.original ∧ rx.consistent = true := by
  simp [LazyRegex.leafWf]

theorem nodeWf_iff {rx : LazyRegex} :
    rx.nodeWf = true ↔
      rx.regex = (if rx.original.isEmpty then RxSrc.any else .node rx.original) ∧ rx.consistent = true := by
  simp [LazyRegex.nodeWf]

/-- The stored value of a consistent regex is the one built from its fields. -/
theorem consistent_iff {rx : LazyRegex} :
    rx.consistent = true ↔ ∀ c, rx.compiled = some c → c = ⟨rx.regex, rx.ic⟩ := by
  unfold LazyRegex.consistent
  cases rx.compiled <;> simp

/-! ### Invariant, as propositions -/

/-- The sibling relation of `sibOk`. -/
def Sib (n : Nat) (r r' : List Char) : Prop := commonPrefixCharSize r r' ≤ n ∧ r ≠ r'

theorem Sib.symm {n : Nat} {r r' : List Char} (h : Sib n r r') : Sib n r' r :=
  ⟨by rw [cpcs_comm]; exact h.1, fun e => h.2 e.symm⟩

theorem sibOk_iff {n : Nat} {rs : List (List Char)} : sibOk n rs = true ↔ rs.Pairwise (Sib n) := by
  induction rs with
  | nil => simp [sibOk]
  | cons r rs ih =>
    simp only [sibOk, Bool.and_eq_true, List.all_eq_true, decide_eq_true_eq, List.pairwise_cons, ih, Sib]

theorem inv_empty_iff {ic ic' : Bool} : (Item.empty ic' : Item ι V).inv ic = true ↔ ic' = ic := by
  simp [Item.inv]

theorem inv_leaf_iff {ic : Bool} {rx : LazyRegex} {vs : List (ι × V)} :
    (Item.leaf rx vs : Item ι V).inv ic = true ↔
      rx.leafWf = true ∧ rx.ic = ic ∧ vs ≠ [] ∧ nodupKeys vs = true := by
  simp [Item.inv, and_assoc, List.isEmpty_iff]

theorem inv_node_iff {ic : Bool} {rx : LazyRegex} {cs : List (Item ι V)} :
    (Item.node rx cs : Item ι V).inv ic = true ↔
      rx.nodeWf = true ∧ rx.ic = ic ∧ (scan b0 rx.original).atBoundary = true ∧ 2 ≤ cs.length ∧
      (∀ c ∈ cs, childOk rx.original c = true) ∧
      (cs.map Item.regex).Pairwise (Sib rx.original.length) ∧ (∀ c ∈ cs, c.inv ic = true) := by
  simp [Item.inv, and_assoc, sibOk_iff, invL_iff]

theorem childOk_leaf {q : List Char} {rx : LazyRegex} {vs : List (ι × V)} :
    childOk q (Item.leaf rx vs : Item ι V) = true ↔ BPre q rx.original := by
  simp [childOk, bpre_iff]

theorem childOk_node {q : List Char} {rx : LazyRegex} {cs : List (Item ι V)} :
    childOk q (Item.node rx cs : Item ι V) = true ↔ BPre q rx.original ∧ q.length < rx.original.length := by
  simp [childOk, bpre_iff]

@[simp] theorem childOk_empty {q : List Char} {ic : Bool} : childOk q (Item.empty ic : Item ι V) = false := rfl

theorem childOk_bpre {q : List Char} {c : Item ι V} (h : childOk q c = true) : BPre q c.regex := by
  cases c with
  | empty ic => simp at h
  | leaf rx vs => exact childOk_leaf.1 h
  | node rx cs => exact (childOk_node.1 h).1

theorem childOk_lt {q : List Char} {c : Item ι V} (h : childOk q c = true) (hn : c.isNode = true) :
    q.length < c.regex.length := by
  cases c with
  | empty ic => simp at h
  | leaf rx vs => simp [Item.isNode] at hn
  | node rx cs => exact (childOk_node.1 h).2

theorem childOk_notEmpty {q : List Char} {c : Item ι V} (h : childOk q c = true) : c.isEmptyCtor = false := by
  cases c <;> simp_all [Item.isEmptyCtor]

/-- `childOk` from its three components. -/
theorem childOk_of {q : List Char} {c : Item ι V} (h0 : c.isEmptyCtor = false) (h1 : BPre q c.regex)
    (h2 : c.isNode = true → q.length < c.regex.length) : childOk q c = true := by
  cases c with
  | empty ic => simp [Item.isEmptyCtor] at h0
  | leaf rx vs => exact childOk_leaf.2 h1
  | node rx cs => exact childOk_node.2 ⟨h1, h2 rfl⟩

/-- A node prefix is a scanner boundary. -/
theorem inv_node_boundary {ic : Bool} {c : Item ι V} (h : c.inv ic = true) (hn : c.isNode = true) :
    (scan b0 c.regex).atBoundary = true := by
  cases c with
  | node rx cs => exact (inv_node_iff.1 h).2.2.1
  | _ => simp [Item.isNode] at hn

/-! ### Keys of a leaf map -/

theorem nodupKeys_iff {vs : List (ι × V)} :
    nodupKeys vs = true ↔ vs.Pairwise (fun a b => b.1 ≠ a.1) := by
  induction vs with
  | nil => simp [nodupKeys]
  | cons kv rest ih => simp [nodupKeys, ih]

theorem nodupKeys_iff' {vs : List (ι × V)} : nodupKeys vs = true ↔ (vs.map (·.1)).Nodup := by
  rw [nodupKeys_iff, List.Nodup, List.pairwise_map]
  constructor <;> intro h <;> exact h.imp (fun h e => h e.symm)

theorem keys_upsert (vs : List (ι × V)) (id : ι) (v : V) :
    (upsert vs id v).map (·.1) = if id ∈ vs.map (·.1) then vs.map (·.1) else vs.map (·.1) ++ [id] := by
  induction vs with
  | nil => simp [upsert]
  | cons a rest ih =>
    obtain ⟨k, w⟩ := a
    simp only [upsert]
    by_cases hk : k = id
    · subst hk; simp
    · have hk' : ¬ id = k := fun e => hk e.symm
      simp only [hk, if_false, List.map_cons, ih, List.mem_cons, hk', false_or]
      split <;> simp

theorem nodupKeys_upsert {vs : List (ι × V)} (h : nodupKeys vs = true) (id : ι) (v : V) :
    nodupKeys (upsert vs id v) = true := by
  rw [nodupKeys_iff'] at *
  rw [keys_upsert]
  split
  · exact h
  · next hid =>
    rw [List.nodup_append]
    refine ⟨h, by simp, ?_⟩
    intro a ha b hb
    simp at hb; subst hb
    intro e; subst e; exact hid ha

theorem upsert_ne_nil (vs : List (ι × V)) (id : ι) (v : V) : upsert vs id v ≠ [] := by
  cases vs with
  | nil => simp [upsert]
  | cons a rest =>
    obtain ⟨k, w⟩ := a
    simp only [upsert]; split <;> simp

end Rio.Tree
