/-
W4c: the date / time / week-day / ip primitives TRANSLATED from the source on every run
(`Rio.Consts.genRouteTimeMatch`, `genRouteDateTimeMatch`, `genRouteWeekdayMatch`, `genRouteIpMatchInRange /
NotInRange`; section `w4_translate_time` of Generated/Consts.lean, tools/consts.d/w4_translate.py) are the
hand-written models: W1's `Rio.TimeWindow.Window.matches` / `matchTime` / `matchDateTime` /
`RouteWeekday.matchDateTime` / `Rio.Cidr.RouteIp.matchIp` (Model/TimeWindow.lean, Model/Cidr.lean) and the
router model's `DRange.matchInstant` / `DCond.eval` / `RouteIp.matchIp` (Model/RouterBase.lean, W2).

The translation keeps chrono's values abstract: a bound and `datetime.naive_utc()[.time()]` are `Nat`s whose
order is the order of the chrono values (the models' reading: ns resp. seconds), `datetime.weekday()` is a
value of any type with `==`, `AnyIpCidr::contains` a parameter.
-/
import RioModel.Generated.Consts
import RioModel.Model.TimeWindow
import RioModel.Model.Cidr
import RioModel.Model.RouterBase
set_option linter.unusedSimpArgs false

namespace Rio.TimeGen
open Rio.Consts Rio.TimeWindow

/-- the translated four-way match of `RouteDateTime::match_datetime` is `Window.matches` -/
theorem genRouteDateTimeMatch_eq (w : Window) (t : Nat) :
    genRouteDateTimeMatch w.start w.stop t = w.matches t := by
  obtain ⟨start, stop⟩ := w
  cases start <;> cases stop <;> simp [genRouteDateTimeMatch, Window.matches]

/-- … and so is the one of `RouteTime::match_datetime` -/
theorem genRouteTimeMatch_eq (w : Window) (t : Nat) :
    genRouteTimeMatch w.start w.stop t = w.matches t := by
  obtain ⟨start, stop⟩ := w
  cases start <;> cases stop <;> simp [genRouteTimeMatch, Window.matches]

theorem gen_matchDateTime (w : Window) (t : Nat) :
    genRouteDateTimeMatch w.start w.stop t = matchDateTime w t := genRouteDateTimeMatch_eq w t

theorem gen_matchTime (w : Window) (t : Nat) :
    genRouteTimeMatch w.start w.stop (timeOfDay t) = matchTime w t := genRouteTimeMatch_eq w _

theorem gen_matchWeekday (r : RouteWeekday) (t : Nat) :
    genRouteWeekdayMatch r.days (weekdayOf t) = r.matchDateTime t := rfl

/-- `RouteIp::match_ip`, both arms -/
theorem gen_matchIp (k : Rio.Cidr.RouteIp) (a : Rio.Cidr.IpAddr) :
    k.matchIp a =
      match k with
      | .inRange c => genRouteIpMatchInRange Rio.Cidr.AnyIpCidr.contains c a
      | .notInRange c => genRouteIpMatchNotInRange Rio.Cidr.AnyIpCidr.contains c a := by
  cases k <;> rfl

/-! ### the router model (W2) -/

theorem gen_drange (r : Rio.Router.DRange) (t : Nat) :
    genRouteDateTimeMatch r.start r.stop t = r.matchInstant t ∧
    genRouteTimeMatch r.start r.stop t = r.matchInstant t := by
  obtain ⟨start, stop⟩ := r
  cases start <;> cases stop <;> simp [genRouteDateTimeMatch, genRouteTimeMatch, Rio.Router.DRange.matchInstant]

/-- `DateTimeCondition::match_value` of the router model, over the translated primitives -/
theorem gen_dcond (c : Rio.Router.DCond) (q : Rio.Router.Req) :
    c.eval q =
      match q.createdAt with
      | none => false
      | some t =>
        match c with
        | .dateRange rs => rs.any fun r => genRouteDateTimeMatch r.start r.stop t
        | .timeRange rs => rs.any fun r => genRouteTimeMatch r.start r.stop (Rio.Router.timeOfDay t)
        | .weekdays ws => genRouteWeekdayMatch ws (Rio.Router.weekdayOf t) := by
  unfold Rio.Router.DCond.eval
  cases q.createdAt with
  | none => rfl
  | some t =>
    cases c with
    | dateRange rs => simp only [(gen_drange _ _).1]
    | timeRange rs => simp only [(gen_drange _ _).2]
    | weekdays ws => rfl

theorem gen_router_matchIp (k : Rio.Router.RouteIp) (a : Rio.Router.Ip) :
    k.matchIp a =
      match k with
      | .inRange c => genRouteIpMatchInRange Rio.Router.Cidr.contains c a
      | .notInRange c => genRouteIpMatchNotInRange Rio.Router.Cidr.contains c a := by
  cases k <;> rfl

end Rio.TimeGen
