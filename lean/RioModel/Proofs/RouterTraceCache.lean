/-
Router proofs: the WHOLE explain trace (the `Vec<Trace>` forest of `Router::trace_request`, every node's `matched` /
`executed` / `count` / info / children) is unchanged by `cache`, layer by layer.

`TCache I Repr` is the law "in a represented state, `I.cache limit level` changes neither `I.trace · q` nor `I.len`".
(`len` is part of it because the trace node an enclosing matcher builds for a bucket shows `bucket.len()` as its `count`.)

* innermost (`PathAndQueryMatcher` over the real tree): `PathT.trace` reads the tree only through `Item.trace`, which
  `treeCache` leaves unchanged (`Proofs/TreeTraceCache.lean: trace_treeCache`; invariant and non-empty patterns are part of
  `PTRepr`);
* the five list-shaped outer matchers (DateTime, Header, Method, Ip, Scheme): `trace` reads a bucket only through its key,
  `len` and `trace` (`bobs`), and `cacheAll` – the budget-threading loop over the buckets – preserves exactly that;
* `HostMatcher` over the real tree: its own tree's trace (`trace_treeCache`), the static buckets (`cacheAll`), and the tree's
  buckets, which `cache` warms in iteration order and stores back under their ids: a `retain` that keeps everything, i.e.
  a value map (`retain_some_eq_mapVals`), and `hostTreeTrace` of a value-mapped tree is unchanged when the trace of every
  value is;
* `Router::cache`: the `while prev_cache_limit > 0` loop, any fuel, any limit.
-/
import RioModel.Proofs.RouterTreeTop
import RioModel.Proofs.TreeTraceCache

set_option linter.unusedSimpArgs false
set_option linter.unusedVariables false
set_option linter.unusedSectionVars false

namespace Rio.Router
open Rio.Regex Rio.Tree

/-- In a represented state, `cache` changes neither the trace of any request nor `len`. -/
structure TCache (I : MOps) (Repr : I.M → List Route → Prop) : Prop where
  trace_cache : ∀ m L limit level q, Repr m L → I.trace (I.cache limit level m).1 q = I.trace m q
  len_cache : ∀ m L limit level, Repr m L → I.len (I.cache limit level m).1 = I.len m

/-! ### buckets: what an enclosing matcher's `trace` reads of them -/

section
variable {K : Type} [DecidableEq K] (I : MOps)

/-- key, `len()` and `trace(request)` of a bucket -/
def bobs (q : Req) (e : K × I.M) : K × Nat × List Trace := (e.1, I.len e.2, I.trace e.2 q)

variable {I}

/-- a function of a bucket that depends on `bobs` only -/
def ReadsObs {β : Type} (I : MOps) (q : Req) (f : K × I.M → β) : Prop :=
  ∀ e e', bobs I q e = bobs I q e' → f e = f e'

theorem map_of_bobs {β : Type} (q : Req) (f : K × I.M → β) (hf : ReadsObs I q f) :
    ∀ {m m' : List (K × I.M)}, m'.map (bobs I q) = m.map (bobs I q) → m'.map f = m.map f
  | [], [], _ => rfl
  | [], _ :: _, h => by simp at h
  | _ :: _, [], h => by simp at h
  | e :: m, e' :: m', h => by
    simp only [List.map_cons, List.cons.injEq] at h ⊢
    exact ⟨hf _ _ h.1, map_of_bobs q f hf h.2⟩

theorem filterMap_of_bobs {β : Type} (q : Req) (f : K × I.M → Option β) (hf : ReadsObs I q f)
    {m m' : List (K × I.M)} (h : m'.map (bobs I q) = m.map (bobs I q)) : m'.filterMap f = m.filterMap f := by
  have := congrArg (List.filterMap id) (map_of_bobs q f hf h)
  simpa [List.filterMap_map, Function.comp_def] using this

theorem any_of_bobs (q : Req) (f : K × I.M → Bool) (hf : ReadsObs I q f)
    {m m' : List (K × I.M)} (h : m'.map (bobs I q) = m.map (bobs I q)) : m'.any f = m.any f := by
  have := congrArg (List.any · id) (map_of_bobs q f hf h)
  simpa [List.any_map, Function.comp_def] using this

/-- how `ReadsObs` goals are closed: split both buckets, use the three component equations -/
macro "reads_obs" : tactic =>
  `(tactic| (rintro ⟨k, b⟩ ⟨k', b'⟩ hb
             simp only [bobs, Prod.mk.injEq] at hb
             obtain ⟨hk, hl, ht⟩ := hb
             subst hk
             simp only [hl, ht]))

/-- lists with the same bucket observations have the same keys, and buckets found under a key have the same observations -/
theorem alookup_bobs_congr (q : Req) : ∀ {m m' : List (K × I.M)}, m'.map (bobs I q) = m.map (bobs I q) → ∀ k : K,
    ((alookup k m').isNone = (alookup k m).isNone) ∧
    (∀ b', alookup k m' = some b' → ∃ b, alookup k m = some b ∧ I.trace b' q = I.trace b q ∧ I.len b' = I.len b)
  | [], [], _, k => by simp [alookup]
  | [], _ :: _, h, _ => by simp at h
  | _ :: _, [], h, _ => by simp at h
  | (ka, va) :: l, (ka', va') :: l', h, k => by
    simp only [List.map_cons, List.cons.injEq, bobs, Prod.mk.injEq] at h
    obtain ⟨⟨hk, hl, ht⟩, hrest⟩ := h
    subst hk
    have ih := alookup_bobs_congr q hrest k
    simp only [alookup_cons]
    by_cases e : ka' = k
    · simp only [e, if_true]
      refine ⟨rfl, ?_⟩
      intro b' hb'
      simp only [Option.some.injEq] at hb'
      subst hb'
      exact ⟨va, rfl, ht, hl⟩
    · simp only [e, if_false]
      exact ih

variable (IL : MLaws I) (TC : TCache I IL.Repr)

include TC in
/-- `for matcher in map.values_mut() { new_limit = matcher.cache(new_limit, level) }`: whatever budget reaches which
bucket, no bucket's key, `len` or trace changes. -/
theorem cacheAll_bobs (level : Nat) (q : Req) : ∀ (m : List (K × I.M)) (limit : Nat),
    (∀ e ∈ m, ∃ L, IL.Repr e.2 L) →
    (cacheAll I level m limit).1.map (bobs I q) = m.map (bobs I q) := by
  intro m
  induction m with
  | nil => intro limit _; rfl
  | cons e m ih =>
    obtain ⟨k, b⟩ := e
    intro limit hr
    obtain ⟨L, hL⟩ := hr (k, b) (by simp)
    simp only [cacheAll, List.map_cons]
    rw [ih _ (fun e he => hr e (by simp [he]))]
    simp only [bobs, TC.trace_cache b L limit level q hL, TC.len_cache b L limit level hL]

end

/-! ### the list-shaped outer matchers -/

section
variable {K : Type} [DecidableEq K] {I : MOps} (IL : MLaws I) (TC : TCache I IL.Repr)
  (keysOf : Route → Option (List K))

/-- the layer's `trace` reads its buckets only through `bobs` (and not its `count`) -/
def TraceReadsObs (I : MOps) (tr : LState I K → Req → List Trace) : Prop :=
  ∀ (s s' : LState I K) (q : Req), I.trace s'.any q = I.trace s.any q →
    s'.map.map (bobs I q) = s.map.map (bobs I q) → tr s' q = tr s q

include TC in
theorem lCache_bobs (s : LState I K) (L : List Route) (h : LRepr IL keysOf s L) (limit level : Nat) (q : Req) :
    I.trace (lCache I limit level s).1.any q = I.trace s.any q ∧
    (lCache I limit level s).1.map.map (bobs I q) = s.map.map (bobs I q) := by
  refine ⟨TC.trace_cache _ _ limit level q h.any, ?_⟩
  apply cacheAll_bobs IL TC
  intro e he
  exact ⟨_, h.some e.1 e.2 (alookup_of_mem h.nodup he)⟩

include TC in
/-- An outer matcher whose `trace` reads its buckets through `bobs` inherits the law. -/
theorem outerTCache (mr : LState I K → Req → List Route) (tr : LState I K → Req → List Trace)
    (hobs : TraceReadsObs I tr) : TCache (outerOps I keysOf mr tr) (LRepr IL keysOf) where
  trace_cache := by
    intro s L limit level q h
    obtain ⟨h1, h2⟩ := lCache_bobs IL TC keysOf s L h limit level q
    exact hobs s _ q h1 h2
  len_cache := fun _ _ _ _ _ => rfl

end

/-! #### DateTime / Header: the group loop -/

section
variable {C : Type} [DecidableEq C] {I : MOps}

theorem traceGroups_congr (eval : C → Bool) (q : Req) (kind : String) :
    ∀ (m m' : List (List C × I.M)) (memo : List (C × Bool)) (traces traces' : List Trace),
      traces' = traces → m'.map (bobs I q) = m.map (bobs I q) →
      traceGroups I eval q kind m' memo traces' = traceGroups I eval q kind m memo traces
  | [], [], _, _, _, ht, _ => by rw [ht]
  | [], _ :: _, _, _, _, _, h => by simp at h
  | _ :: _, [], _, _, _, _, h => by simp at h
  | (cs, b) :: m, (cs', b') :: m', memo, traces, traces', ht, h => by
    simp only [List.map_cons, List.cons.injEq, bobs, Prod.mk.injEq] at h
    obtain ⟨⟨hk, hl, htr⟩, hrest⟩ := h
    subst hk ht
    simp only [traceGroups]
    exact traceGroups_congr eval q kind m m' _ _ _ (by rw [hl, htr]) hrest

theorem groupTrace_obs (ev : C → Req → Bool) (kind : String) : TraceReadsObs I (groupTrace (I := I) ev kind) := by
  intro s s' q h1 h2
  unfold groupTrace
  exact traceGroups_congr _ q kind _ _ _ _ _ h1 h2

end

/-! #### Method / Ip / Scheme -/

section
variable {I : MOps}

theorem methodTrace_obs : TraceReadsObs I (Method.trace I) := by
  intro s s' q h1 h2
  unfold Method.trace
  simp only []
  rw [h1, filterMap_of_bobs q _ (by reads_obs) h2, filterMap_of_bobs q _ (by reads_obs) h2,
    any_of_bobs q _ (by reads_obs) h2]

theorem ipTrace_obs : TraceReadsObs I (Ip.trace I) := by
  intro s s' q h1 h2
  unfold Ip.trace
  cases hip : q.ip with
  | none => simp only [h1]
  | some a =>
    simp only []
    rw [h1, map_of_bobs q _ (by reads_obs) h2]

theorem schemeTrace_obs : TraceReadsObs I (Scheme.trace I) := by
  intro s s' q h1 h2
  unfold Scheme.trace
  simp only []
  rw [h1, map_of_bobs q _ (by reads_obs) h2, (alookup_bobs_congr q h2 (q.scheme.getD "")).1]

end

/-! ### the innermost matcher over the real tree -/

section
variable (T : TEnv) (Good : List Char → Prop) (hPS : PrefixSound T.engine Good)

/-- `PathAndQueryMatcher::cache` = `regex_tree_rule.cache(limit, Some(level))`: `trace` reads the tree through
`Item::trace` only. -/
theorem pathTTCache : TCache (pathTOps T) (pathTLaws T Good hPS).Repr where
  trace_cache := by
    intro (s : PathTState) L limit level q (h : PTRepr T Good s L)
    obtain ⟨t', n, h1, heq, _, _⟩ := pathT_cache_ok T limit level s
    show PathT.trace T (PathT.cache T limit level s).1 q = PathT.trace T s q
    rw [heq]
    unfold PathT.trace
    simp only
    rw [trace_treeCache T.engine s.tree h.inv (fun e he => (h.dom e he).2) limit (some level) h1]
  len_cache := by
    intro (s : PathTState) L limit level (h : PTRepr T Good s L)
    obtain ⟨t', n, h1, heq, _, _⟩ := pathT_cache_ok T limit level s
    show (PathT.cache T limit level s).1.count = s.count
    rw [heq]

end

/-! ### `HostMatcher` over the real tree -/

section
variable {I : MOps}

/-- Replacing every stored bucket by one with the same trace does not change the host tree's trace. -/
theorem hostTreeTrace_mapVals (E : Engine) (q : Req) (g : List Char → I.M → I.M) (t : Item (List Char) I.M)
    (hg : ∀ e ∈ t.contents, I.trace (g e.id e.val) q = I.trace e.val q) (s : List Char) :
    hostTreeTrace I q ((t.mapVals g).trace E s) = hostTreeTrace I q (t.trace E s) := by
  induction t using Item.ind with
  | hE ic => rw [mapVals_empty]
  | hL rx vs =>
    rw [mapVals_leaf, trace_leaf, trace_leaf, hostTreeTrace_mk, hostTreeTrace_mk]
    have : ((vs.map fun kv => (kv.1, g kv.1 kv.2)).map (·.2)).flatMap (fun m => I.trace m q) =
        (vs.map (·.2)).flatMap (fun m => I.trace m q) := by
      rw [List.map_map, List.flatMap_map, List.flatMap_map]
      apply flatMap_congr'
      intro kv hkv
      exact hg ⟨rx.original, kv.1, kv.2⟩ (by simp; exact hkv)
    rw [this]; simp
  | hN rx cs ih =>
    rw [mapVals_node, trace_node, trace_node, hostTreeTrace_mk, hostTreeTrace_mk, lenL_map_mapVals]
    cases hm : rx.isMatch E s
    · simp
    · simp only [if_true, List.map_map]
      congr 2
      apply List.map_congr_left
      intro c hc
      exact ih c hc (fun e he => hg e (by simp [mem_contentsL]; exact ⟨c, hc, he⟩))

variable (T : TEnv) (Good : List Char → Prop) (IL : MLaws I) (hPS : PrefixSound T.engine Good)
  (TC : TCache I IL.Repr)

include TC hPS in
/-- `HostMatcher::cache`: own tree, static buckets, the tree's buckets (stored back under their ids), any-host bucket –
none of it changes `HostMatcher::trace`. -/
theorem hostT_trace_cache (s : HostTState I) (L : List Route) (limit level : Nat) (q : Req)
    (h : HTRepr T Good IL s L) : HostT.trace T I (HostT.cache T I limit level s).1 q = HostT.trace T I s q := by
  obtain ⟨t1, n1, h1, hs, hn1⟩ := treeCache_spec T.engine s.tree limit (some level)
  have hc : t1.contents = s.tree.contents := by rw [← contents_strip, hs, contents_strip]
  have hi : t1.inv T.icHost = true := by rw [inv_of_treeCache h1 T.icHost]; exact h.inv
  have hnd := h.repr.nodup
  -- every bucket is represented
  have hstR : ∀ e ∈ s.statics, ∃ L', IL.Repr e.2 L' := by
    intro e he
    have hm : (HKeyG.static e.1, e.2) ∈ (absH s).map := by
      simp only [absH, List.mem_append, staticMap, List.mem_map]
      exact Or.inl ⟨e, he, rfl⟩
    exact ⟨_, h.repr.some _ _ (alookup_of_mem hnd hm)⟩
  have htrR : ∀ e ∈ t1.contents.map (fun e => (e.id, e.val)), ∃ L', IL.Repr e.2 L' := by
    intro e he
    obtain ⟨e0, he0, rfl⟩ := List.mem_map.mp he
    rw [hc] at he0
    have hm : (HKeyG.dyn e0.pat, e0.val) ∈ (absH s).map := by
      simp only [absH, List.mem_append, treeMap, List.mem_map]
      exact Or.inr ⟨e0, he0, rfl⟩
    exact ⟨_, h.repr.some _ _ (alookup_of_mem hnd hm)⟩
  have hst := cacheAll_bobs IL TC level q s.statics n1 hstR
  have hbk := cacheAll_bobs IL TC level q (t1.contents.map (fun e => (e.id, e.val)))
    (cacheAll I level s.statics n1).2 htrR
  -- ids of the tree's buckets are distinct
  have hidn : (akeys (s.tree.contents.map (fun e => (e.id, e.val)))).Nodup := by
    have hkn : (akeys (treeMap s.tree)).Nodup := by
      have h0 : (akeys (staticMap s.statics ++ treeMap s.tree)).Nodup := hnd
      simp only [akeys, List.map_append] at h0
      exact (List.nodup_append.mp h0).2.1
    have : akeys (treeMap s.tree) =
        (akeys (s.tree.contents.map (fun e => (e.id, e.val)))).map (fun k => (HKeyG.dyn k : HK)) := by
      unfold akeys treeMap
      simp only [List.map_map]
      apply List.map_congr_left
      intro x hx
      simp only [Function.comp]
      rw [h.uniq x hx]
    rw [this] at hkn
    exact nodup_of_map_nodup _ _ hkn
  unfold HostT.cache
  simp only [h1, Option.getD_some]
  generalize hrb : cacheAll I level (t1.contents.map (fun e => (e.id, e.val))) (cacheAll I level s.statics n1).2 = rb
    at hbk
  rw [retain_some_eq_mapVals (fun id m => (alookup id rb.1).getD m) t1 hi]
  -- the tree part
  have htree : ∀ hs : List Char,
      hostTreeTrace I q ((t1.mapVals (fun id m => (alookup id rb.1).getD m)).trace T.engine hs) =
        hostTreeTrace I q (s.tree.trace T.engine hs) := by
    intro hs'
    rw [hostTreeTrace_mapVals T.engine q _ t1 ?_ hs',
      trace_treeCache T.engine s.tree h.inv (fun e he => (h.dom e he).2) limit (some level) h1]
    intro e he
    cases hl : alookup e.id rb.1 with
    | none => rfl
    | some b' =>
      obtain ⟨b, hb, htr, _⟩ := (alookup_bobs_congr q hbk e.id).2 b' hl
      rw [hc] at hb he
      have hmem : (e.id, e.val) ∈ s.tree.contents.map (fun e => (e.id, e.val)) :=
        List.mem_map.mpr ⟨e, he, rfl⟩
      rw [alookup_of_mem hidn hmem] at hb
      simp only [Option.some.injEq] at hb
      simp only [Option.getD_some]
      rw [hb]; exact htr
  have hany := TC.trace_cache s.any _ rb.2 level q h.repr.any
  have hstat : (cacheAll I level s.statics n1).1.map (HostT.staticNode I q) = s.statics.map (HostT.staticNode I q) := by
    apply map_of_bobs q _ _ hst
    rintro ⟨k, b⟩ ⟨k', b'⟩ hb
    simp only [bobs, Prod.mk.injEq] at hb
    obtain ⟨hk, hl, ht⟩ := hb
    subst hk
    simp only [HostT.staticNode, hl, ht]
  have hlook : ∀ hh : String, (alookup hh (cacheAll I level s.statics n1).1).isNone = (alookup hh s.statics).isNone :=
    fun hh => (alookup_bobs_congr q hst hh).1
  have hbound : HostT.traceBound T I
      { s with statics := (cacheAll I level s.statics n1).1,
               tree := t1.mapVals (fun id m => (alookup id rb.1).getD m),
               any := (I.cache rb.2 level s.any).1 } q = HostT.traceBound T I s q := by
    unfold HostT.traceBound
    simp only [hstat]
    cases hq : q.host with
    | none => rfl
    | some hh => simp only [htree, hlook]
  unfold HostT.trace
  simp only [hbound, hany]

include TC hPS in
theorem hostTTCache : TCache (hostTOps T I) (hostTLaws T Good IL hPS).Repr where
  trace_cache := fun s L limit level q h => hostT_trace_cache T Good IL hPS TC s L limit level q h
  len_cache := fun _ _ _ _ _ => rfl

end

/-! ### The towers -/

section
variable (E : Env) {P0 : MOps} (PL : MLaws P0) (TP : TCache P0 PL.Repr)

include TP in
theorem dateTimeTC : TCache (dateTimeOps P0) (dateTimeL PL).Repr :=
  outerTCache PL TP DateTime.keysOf _ _ (groupTrace_obs DCond.eval "date_time_group")
include TP in
theorem headerTC : TCache (headerOps E (dateTimeOps P0)) (headerL E PL).Repr :=
  outerTCache (dateTimeL PL) (dateTimeTC PL TP) (Header.keysOf E) _ _ (groupTrace_obs (HCond.eval E) "header_group")
include TP in
theorem methodTC : TCache (methodOps (headerOps E (dateTimeOps P0))) (methodL E PL).Repr :=
  outerTCache (headerL E PL) (headerTC E PL TP) Method.keysOf _ _ methodTrace_obs
include TP in
theorem ipTC : TCache (ipOps (methodOps (headerOps E (dateTimeOps P0)))) (ipL E PL).Repr :=
  outerTCache (methodL E PL) (methodTC E PL TP) Ip.keysOf _ _ ipTrace_obs

end

section
variable (T : TEnv) (Good : List Char → Prop) (hPS : PrefixSound T.engine Good)

/-- The law for the whole tower over the real regex trees (`SchemeMatcher` … `PathAndQueryMatcher`). -/
theorem towerTTCache : TCache (towerTOps T) (towerTLaws T Good hPS).Repr :=
  outerTCache (hostTLaws T Good (innerTLaws T Good hPS) hPS)
    (hostTTCache T Good (innerTLaws T Good hPS) hPS
      (ipTC T.env (pathTLaws T Good hPS) (pathTTCache T Good hPS)))
    Scheme.keysOf _ _ schemeTrace_obs

end

/-! ### `Router::cache` -/

section
variable {O : MOps} (OL : MLaws O) (TC : TCache O OL.Repr)

include TC in
/-- The `while prev_cache_limit > 0` loop, from any loop state, with any fuel. -/
theorem cacheLoop_trace (L : List Route) (q : Req) (fuel : Nat) : ∀ (prev : Int) (level retry : Nat) (m : O.M),
    OL.Repr m L → O.trace (RouterG.cacheLoop O fuel prev level retry m).1 q = O.trace m q := by
  induction fuel with
  | zero => intro prev level retry m h; rfl
  | succ fuel ih =>
    intro prev level retry m h
    unfold RouterG.cacheLoop
    by_cases hp : prev > 0
    · have hr := OL.repr_cache m L prev.toNat level h
      have ht := TC.trace_cache m L prev.toNat level q h
      simp only [hp, if_true]
      split
      · split
        · exact ht
        · rw [ih _ _ _ _ hr, ht]
      · rw [ih _ _ _ _ hr, ht]
    · simp only [hp, if_false]

include TC in
/-- `Router::cache(limit)` changes the explain trace of no request. -/
theorem g_trace_cache (S : RouterG O) (L : List Route) (h : OL.Repr S.matcher L) (limit : Option Nat) (q : Req) :
    RouterG.trace O (RouterG.cache O limit S) q = RouterG.trace O S q :=
  cacheLoop_trace OL TC L q _ _ _ _ _ h

end

end Rio.Router
