/-
Router proofs, part 5: Scheme / Method / Ip / Host layers and the instantiation of the tower.
-/
import RioModel.Proofs.RouterOuter

set_option linter.unusedSimpArgs false
set_option linter.unusedVariables false
set_option linter.unusedSectionVars false

namespace Rio.Router

variable {I : MOps} (IL : MLaws I)

/-! ## DateTime and Header as group layers -/

theorem dateTime_singleKey (r : Route) : (keysL DateTime.keysOf r).length ≤ 1 := by
  unfold keysL DateTime.keysOf
  simp only
  split <;> simp

def dateTimeLaws : MLaws (dateTimeOps I) :=
  groupLaws IL DateTime.keysOf DCond.eval "date_time_group" dateTime_singleKey

theorem header_singleKey (E : Env) (r : Route) : (keysL (Header.keysOf E) r).length ≤ 1 := by
  unfold keysL Header.keysOf
  split <;> simp

def headerLaws (E : Env) : MLaws (headerOps E I) :=
  groupLaws IL (Header.keysOf E) (HCond.eval E) "header_group" (header_singleKey E)

/-! ## SchemeMatcher -/

theorem scheme_match_eq (s : LState I String) (hn : (akeys s.map).Nodup) (q : Req) :
    Scheme.matchReq I s q = I.matchReq s.any q ++ lMatchMap I Scheme.accepts s.map q := by
  unfold Scheme.matchReq lMatchMap Scheme.accepts
  cases hs : q.scheme with
  | none => simp
  | some sc =>
    have : (fun e : String × I.M => if (some sc == some e.1) = true then I.matchReq e.2 q else []) =
        (fun e => if e.1 = sc then I.matchReq e.2 q else []) := by
      funext e
      by_cases h : e.1 = sc
      · simp [h]
      · have : ¬ sc = e.1 := fun h' => h h'.symm
        simp [h, this]
    simp only [this]
    rw [flatMap_select s.map hn sc (fun b => I.matchReq b q)]
    cases alookup sc s.map <;> simp

theorem scheme_singleKey (r : Route) : (keysL Scheme.keysOf r).length ≤ 1 := by
  unfold keysL Scheme.keysOf
  cases r.scheme with
  | none => simp
  | some s => by_cases h : s = "" <;> simp [h]

theorem scheme_key_ne (r : Route) (k : String) (hk : k ∈ keysL Scheme.keysOf r) : k ≠ "" := by
  unfold keysL Scheme.keysOf at hk
  cases hs : r.scheme with
  | none => simp [hs] at hk
  | some s =>
    by_cases h : s = ""
    · simp [hs, h] at hk
    · simp [hs, h] at hk; rw [hk]; exact h

theorem scheme_mem_trace (s : LState I String) (L : List Route)
    (h : LRepr IL Scheme.keysOf s L) (hU : UIds L) (q : Req) (r : Route) :
    r ∈ routesOfList (Scheme.trace I s q) ↔ r ∈ Scheme.matchReq I s q := by
  rw [scheme_match_eq s h.nodup, List.mem_append,
    ← mem_trace_buckets IL Scheme.keysOf Scheme.accepts s L h hU q r,
    ← mem_any_trace IL Scheme.keysOf s L h hU q r]
  unfold Scheme.trace
  have key : r ∈ routesOfList (s.map.map (fun e =>
      if (e.1 == q.scheme.getD "" && q.scheme.getD "" != "") = true
      then Trace.mk true true (I.len e.2) (.other "scheme") (I.trace e.2 q)
      else Trace.mk false false (I.len e.2) (.other "scheme") [])) ↔
      ∃ e ∈ s.map, Scheme.accepts e.1 q = true ∧ r ∈ routesOfList (I.trace e.2 q) := by
    rw [mem_routesOfList_map]
    constructor
    · rintro ⟨e, he, hr⟩
      refine ⟨e, he, ?_⟩
      by_cases hc : (e.1 == q.scheme.getD "" && q.scheme.getD "" != "") = true
      · simp only [hc, if_true, Trace.routes_mk, TInfo.routes, List.nil_append] at hr
        refine ⟨?_, hr⟩
        simp only [Bool.and_eq_true, beq_iff_eq, bne_iff_ne] at hc
        unfold Scheme.accepts
        cases hq : q.scheme with
        | none => rw [hq] at hc; simp at hc
        | some sc => rw [hq] at hc; simp at hc; simp [hc.1]
      · simp [hc, Trace.routes_mk, TInfo.routes] at hr
    · rintro ⟨e, he, ha, hr⟩
      refine ⟨e, he, ?_⟩
      unfold Scheme.accepts at ha
      cases hq : q.scheme with
      | none => rw [hq] at ha; simp at ha
      | some sc =>
        rw [hq] at ha
        simp only [beq_iff_eq, Option.some.injEq] at ha
        -- keys are never the empty string, but the trace guard also holds syntactically here
        by_cases hne : sc = ""
        · -- an empty-string key: the trace skips it, but such a bucket cannot exist
          exfalso
          subst hne
          have hl := alookup_of_mem h.nodup (show (e.1, e.2) ∈ s.map from he)
          have hm := (mem_bucket_trace IL Scheme.keysOf s L h hU q r e.1 e.2 hl).1 hr
          rw [IL.mem_match _ _ q r (h.some e.1 e.2 hl) (hU.filter _), List.mem_filter] at hm
          have hk := hm.1.2
          simp only [inKey, decide_eq_true_eq] at hk
          exact scheme_key_ne r e.1 hk ha.symm
        · have hc : (e.1 == (some sc).getD "" && (some sc).getD "" != "") = true := by
            rw [← ha]; simp [hne]
          simp only [hc, if_true, Trace.routes_mk, TInfo.routes, List.nil_append]
          exact hr
  cases hx : (q.scheme.getD "" != "" && (alookup (q.scheme.getD "") s.map).isNone)
  · simp only [hx, Bool.false_eq_true, if_false, routesOfList_append, List.mem_append, key]
  · simp only [hx, if_true, routesOfList_append, routesOfList_singleton, Trace.routes_mk,
      TInfo.routes, routesOfList_nil, List.append_nil, List.mem_append, key]

end Rio.Router
