/-
Router proofs, part 5: Scheme / Method / Ip / Host layers and the instantiation of the tower.
-/
import RioModel.Proofs.RouterOuter

set_option linter.unusedSimpArgs false
set_option linter.unusedVariables false
set_option linter.unusedSectionVars false

namespace Rio.Router

variable {I : MOps} (IL : MLaws I)

/-! ## DateTime and Header as group layers -/

theorem dateTime_singleKey (r : Route) : (keysL DateTime.keysOf r).length ≤ 1 := by
  unfold keysL DateTime.keysOf
  simp only
  split <;> simp

def dateTimeLaws : MLaws (dateTimeOps I) :=
  groupLaws IL DateTime.keysOf DCond.eval "date_time_group" dateTime_singleKey

theorem header_singleKey (E : Env) (r : Route) : (keysL (Header.keysOf E) r).length ≤ 1 := by
  unfold keysL Header.keysOf
  split <;> simp

def headerLaws (E : Env) : MLaws (headerOps E I) :=
  groupLaws IL (Header.keysOf E) (HCond.eval E) "header_group" (header_singleKey E)

/-! ## SchemeMatcher -/

theorem scheme_match_eq (s : LState I String) (hn : (akeys s.map).Nodup) (q : Req) :
    Scheme.matchReq I s q = I.matchReq s.any q ++ lMatchMap I Scheme.accepts s.map q := by
  unfold Scheme.matchReq lMatchMap Scheme.accepts
  cases hs : q.scheme with
  | none => simp
  | some sc =>
    have : (fun e : String × I.M => if (some sc == some e.1) = true then I.matchReq e.2 q else []) =
        (fun e => if e.1 = sc then I.matchReq e.2 q else []) := by
      funext e
      by_cases h : e.1 = sc
      · simp [h]
      · have : ¬ sc = e.1 := fun h' => h h'.symm
        simp [h, this]
    simp only [this]
    rw [flatMap_select s.map hn sc (fun b => I.matchReq b q)]
    cases alookup sc s.map <;> simp

theorem scheme_singleKey (r : Route) : (keysL Scheme.keysOf r).length ≤ 1 := by
  unfold keysL Scheme.keysOf
  cases r.scheme with
  | none => simp
  | some s => by_cases h : s = "" <;> simp [h]

theorem scheme_key_ne (r : Route) (k : String) (hk : k ∈ keysL Scheme.keysOf r) : k ≠ "" := by
  unfold keysL Scheme.keysOf at hk
  cases hs : r.scheme with
  | none => simp [hs] at hk
  | some s =>
    by_cases h : s = ""
    · simp [hs, h] at hk
    · simp [hs, h] at hk; rw [hk]; exact h

theorem scheme_mem_trace (s : LState I String) (L : List Route)
    (h : LRepr IL Scheme.keysOf s L) (hU : UIds L) (q : Req) (r : Route) :
    r ∈ rawRoutesOfList (Scheme.trace I s q) ↔ r ∈ Scheme.matchReq I s q := by
  rw [scheme_match_eq s h.nodup, List.mem_append,
    ← mem_trace_buckets IL Scheme.keysOf Scheme.accepts s L h hU q r,
    ← mem_any_trace IL Scheme.keysOf s L h hU q r]
  unfold Scheme.trace
  have key : r ∈ rawRoutesOfList (s.map.map (fun e =>
      if (e.1 == q.scheme.getD "" && q.scheme.getD "" != "") = true
      then Trace.mk true true (I.len e.2) (.other "scheme") (I.trace e.2 q)
      else Trace.mk false false (I.len e.2) (.other "scheme") [])) ↔
      ∃ e ∈ s.map, Scheme.accepts e.1 q = true ∧ r ∈ rawRoutesOfList (I.trace e.2 q) := by
    rw [mem_rawRoutesOfList_map]
    constructor
    · rintro ⟨e, he, hr⟩
      refine ⟨e, he, ?_⟩
      by_cases hc : (e.1 == q.scheme.getD "" && q.scheme.getD "" != "") = true
      · simp only [hc, if_true, Trace.rawRoutes_mk, TInfo.routes, List.nil_append] at hr
        refine ⟨?_, hr⟩
        simp only [Bool.and_eq_true, beq_iff_eq, bne_iff_ne] at hc
        unfold Scheme.accepts
        cases hq : q.scheme with
        | none => rw [hq] at hc; simp at hc
        | some sc => rw [hq] at hc; simp at hc; simp [hc.1]
      · simp [hc, Trace.rawRoutes_mk, TInfo.routes] at hr
    · rintro ⟨e, he, ha, hr⟩
      refine ⟨e, he, ?_⟩
      unfold Scheme.accepts at ha
      cases hq : q.scheme with
      | none => rw [hq] at ha; simp at ha
      | some sc =>
        rw [hq] at ha
        simp only [beq_iff_eq, Option.some.injEq] at ha
        -- keys are never the empty string, but the trace guard also holds syntactically here
        by_cases hne : sc = ""
        · -- an empty-string key: the trace skips it, but such a bucket cannot exist
          exfalso
          subst hne
          have hl := alookup_of_mem h.nodup (show (e.1, e.2) ∈ s.map from he)
          have hm := (mem_bucket_trace IL Scheme.keysOf s L h hU q r e.1 e.2 hl).1 hr
          rw [IL.mem_match _ _ q r (h.some e.1 e.2 hl) (hU.filter _), List.mem_filter] at hm
          have hk := hm.1.2
          simp only [inKey, decide_eq_true_eq] at hk
          exact scheme_key_ne r e.1 hk ha.symm
        · have hc : (e.1 == (some sc).getD "" && (some sc).getD "" != "") = true := by
            rw [← ha]; simp [hne]
          simp only [hc, if_true, Trace.rawRoutes_mk, TInfo.routes, List.nil_append]
          exact hr
  cases hx : (q.scheme.getD "" != "" && (alookup (q.scheme.getD "") s.map).isNone)
  · simp only [hx, Bool.false_eq_true, if_false, rawRoutesOfList_append, List.mem_append, key]
  · simp only [hx, if_true, rawRoutesOfList_append, rawRoutesOfList_singleton, Trace.rawRoutes_mk,
      TInfo.routes, rawRoutesOfList_nil, List.append_nil, List.mem_append, key]

def schemeLaws : MLaws (schemeOps I) :=
  outerLaws IL Scheme.keysOf (Scheme.matchReq I) (Scheme.trace I)
    (lSat IL Scheme.keysOf Scheme.accepts)
    (fun L L' r q h => lSat_congr IL Scheme.keysOf Scheme.accepts L L' r q h)
    (by
      intro s L q r h hU
      rw [scheme_match_eq s h.nodup, List.mem_append]
      exact mem_lMatch IL Scheme.keysOf Scheme.accepts s L h hU q r)
    (by
      intro s L q h hU
      rw [scheme_match_eq s h.nodup]
      exact nodup_lMatch IL Scheme.keysOf Scheme.accepts
        (singleAccept_of_singleKey Scheme.keysOf _ scheme_singleKey) s L h hU q)
    (fun s L q r h hU => scheme_mem_trace IL s L h hU q r)

/-! ## MethodMatcher -/

theorem flatMap_append_perm' {α β : Type} (l : List α) (f g : α → List β) :
    (l.flatMap (fun a => f a ++ g a)).Perm (l.flatMap f ++ l.flatMap g) := by
  induction l with
  | nil => simp
  | cons a l ih =>
    simp only [List.flatMap_cons]
    refine (List.Perm.append_left _ ih).trans ?_
    simp only [List.append_assoc]
    refine List.Perm.append_left _ ?_
    rw [← List.append_assoc, ← List.append_assoc]
    exact List.Perm.append_right _ List.perm_append_comm

/-- the `methods.get(request.method())` part of `MethodMatcher::match_request` -/
def Method.onlyPart (I : MOps) (q : Req) (e : MKey × I.M) : List Route :=
  match e.1 with
  | .only m => if m == q.methodStr then I.matchReq e.2 q else []
  | .exclude _ => []

/-- the `exclude_methods` loop of `MethodMatcher::match_request` -/
def Method.exclPart (I : MOps) (q : Req) (e : MKey × I.M) : List Route :=
  match e.1 with
  | .exclude ms => if !ms.contains q.methodStr then I.matchReq e.2 q else []
  | .only _ => []

theorem method_split (q : Req) (e : MKey × I.M) :
    (if Method.accepts e.1 q then I.matchReq e.2 q else []) =
      Method.onlyPart I q e ++ Method.exclPart I q e := by
  unfold Method.accepts Method.onlyPart Method.exclPart
  cases e.1 <;> simp

theorem method_onlyPart_eq (m : List (MKey × I.M)) (hn : (akeys m).Nodup) (q : Req) :
    m.flatMap (Method.onlyPart I q) =
      ((alookup (MKey.only q.methodStr) m).map (fun b => I.matchReq b q)).getD [] := by
  rw [← flatMap_select m hn (MKey.only q.methodStr) (fun b => I.matchReq b q)]
  congr 1; funext e
  unfold Method.onlyPart
  cases hk : e.1 with
  | only x =>
    by_cases h : x = q.methodStr
    · simp [h]
    · simp [h]
  | exclude ms => simp

theorem method_match_perm (s : LState I MKey) (hn : (akeys s.map).Nodup) (q : Req) :
    (Method.matchReq I s q).Perm (I.matchReq s.any q ++ lMatchMap I Method.accepts s.map q) := by
  have h1 : lMatchMap I Method.accepts s.map q =
      s.map.flatMap (fun e => Method.onlyPart I q e ++ Method.exclPart I q e) := by
    unfold lMatchMap; congr 1; funext e; exact method_split q e
  have h2 : Method.matchReq I s q =
      I.matchReq s.any q ++ (s.map.flatMap (Method.onlyPart I q) ++ s.map.flatMap (Method.exclPart I q)) := by
    rw [method_onlyPart_eq s.map hn q]
    have hx : Method.matchReq I s q =
        (match alookup (MKey.only q.methodStr) s.map with
          | some b => I.matchReq s.any q ++ I.matchReq b q
          | none => I.matchReq s.any q) ++ s.map.flatMap (Method.exclPart I q) := rfl
    rw [hx]
    cases alookup (MKey.only q.methodStr) s.map <;> simp
  rw [h1, h2]
  exact List.Perm.append_left _ (flatMap_append_perm' _ _ _).symm

theorem method_singleAccept : SingleAccept Method.keysOf Method.accepts := by
  intro r q k1 k2 h1 h2 a1 a2
  unfold keysL Method.keysOf at h1 h2
  cases hm : r.methods with
  | none => simp [hm] at h1
  | some ms =>
    by_cases he : ms.isEmpty = true
    · simp [hm, he] at h1
    · by_cases hx : r.excludeMethods.isSome = true
      · simp [hm, he, hx] at h1 h2; rw [h1, h2]
      · simp only [hm, he, hx, if_false, Option.getD_some, List.mem_map, Bool.false_eq_true] at h1 h2
        obtain ⟨m1, _, e1⟩ := h1
        obtain ⟨m2, _, e2⟩ := h2
        subst e1; subst e2
        simp only [Method.accepts, beq_iff_eq] at a1 a2
        rw [a1, a2]

theorem method_mem_trace (s : LState I MKey) (L : List Route)
    (h : LRepr IL Method.keysOf s L) (hU : UIds L) (q : Req) (r : Route) :
    r ∈ rawRoutesOfList (Method.trace I s q) ↔ r ∈ Method.matchReq I s q := by
  rw [(method_match_perm s h.nodup q).mem_iff, List.mem_append,
    ← mem_trace_buckets IL Method.keysOf Method.accepts s L h hU q r,
    ← mem_any_trace IL Method.keysOf s L h hU q r]
  unfold Method.trace
  simp only [rawRoutesOfList_append, List.mem_append, mem_rawRoutesOfList_filterMap]
  have hlast : ∀ b : Bool, r ∈ rawRoutesOfList
      (if b = true then [Trace.mk true false 0 (.other "method") []] else []) ↔ False := by
    intro b; cases b <;> simp [rawRoutesOfList_singleton, Trace.rawRoutes_mk, TInfo.routes]
  rw [hlast]
  constructor
  · rintro (((hr | ⟨e, he, t, ht, hr⟩) | ⟨e, he, t, ht, hr⟩) | hf)
    · exact Or.inl hr
    · right
      refine ⟨e, he, ?_⟩
      cases hk : e.1 with
      | only x => simp [hk] at ht
      | exclude ms =>
        simp only [hk, Option.some.injEq] at ht
        cases hc : ms.contains q.methodStr
        · simp only [hc, Bool.not_false, if_true] at ht
          subst ht
          simp only [Trace.rawRoutes_mk, TInfo.routes, List.nil_append] at hr
          exact ⟨by simp only [Method.accepts, hc]; rfl, hr⟩
        · simp only [hc, Bool.not_true, Bool.false_eq_true, if_false] at ht
          subst ht
          simp [Trace.rawRoutes_mk, TInfo.routes] at hr
    · right
      refine ⟨e, he, ?_⟩
      cases hk : e.1 with
      | exclude ms => simp [hk] at ht
      | only x =>
        simp only [hk, Option.some.injEq] at ht
        cases hc : x == q.methodStr
        · simp only [hc, Bool.false_eq_true, if_false] at ht
          subst ht
          simp [Trace.rawRoutes_mk, TInfo.routes] at hr
        · simp only [hc, if_true] at ht
          subst ht
          simp only [Trace.rawRoutes_mk, TInfo.routes, List.nil_append] at hr
          exact ⟨by simp only [Method.accepts, hc], hr⟩
    · exact hf.elim
  · rintro (hr | ⟨e, he, ha, hr⟩)
    · exact Or.inl (Or.inl (Or.inl hr))
    · left
      cases hk : e.1 with
      | only x =>
        right
        simp only [Method.accepts, hk] at ha
        exact ⟨e, he, _, by simp only [hk]; rfl, by
          simp only [ha, if_true, Trace.rawRoutes_mk, TInfo.routes, List.nil_append]; exact hr⟩
      | exclude ms =>
        left; right
        simp only [Method.accepts, hk] at ha
        exact ⟨e, he, _, by simp only [hk]; rfl, by
          simp only [ha, if_true, Trace.rawRoutes_mk, TInfo.routes, List.nil_append]; exact hr⟩

def methodLaws : MLaws (methodOps I) :=
  outerLaws IL Method.keysOf (Method.matchReq I) (Method.trace I)
    (lSat IL Method.keysOf Method.accepts)
    (fun L L' r q h => lSat_congr IL Method.keysOf Method.accepts L L' r q h)
    (by
      intro s L q r h hU
      rw [(method_match_perm s h.nodup q).mem_iff, List.mem_append]
      exact mem_lMatch IL Method.keysOf Method.accepts s L h hU q r)
    (by
      intro s L q h hU
      rw [(method_match_perm s h.nodup q).nodup_iff]
      exact nodup_lMatch IL Method.keysOf Method.accepts method_singleAccept s L h hU q)
    (fun s L q r h hU => method_mem_trace IL s L h hU q r)

/-! ## IpMatcher: the bucket union with the report-once guard -/

/-- the loop of `IpMatcher::match_request` over the buckets -/
def Ip.loop (I : MOps) (a : Ip) (q : Req) (m : List (RouteIp × I.M)) (routes : List Route) : List Route :=
  m.foldl (fun acc e => if e.1.matchIp a then pushNew acc (I.matchReq e.2 q) else acc) routes

theorem ip_loop_spec (L : List Route) (hU : UIds L) (a : Ip) (q : Req) (m : List (RouteIp × I.M))
    (hm : ∀ e ∈ m, ∀ y ∈ I.matchReq e.2 q, y ∈ L) :
    ∀ acc, (∀ y ∈ acc, y ∈ L) → (acc.map (·.id)).Nodup →
      (∀ y ∈ Ip.loop I a q m acc, y ∈ L) ∧ ((Ip.loop I a q m acc).map (·.id)).Nodup ∧
      ∀ x, x ∈ Ip.loop I a q m acc ↔
        x ∈ acc ∨ ∃ e ∈ m, e.1.matchIp a = true ∧ x ∈ I.matchReq e.2 q := by
  induction m with
  | nil => intro acc h1 h2; exact ⟨h1, h2, by simp [Ip.loop]⟩
  | cons e m ih =>
    intro acc h1 h2
    have hm' : ∀ e' ∈ m, ∀ y ∈ I.matchReq e'.2 q, y ∈ L :=
      fun e' he' => hm e' (List.mem_cons_of_mem _ he')
    have he := hm e (List.mem_cons_self ..)
    simp only [Ip.loop, List.foldl_cons]
    by_cases ha : e.1.matchIp a = true
    · simp only [ha, if_true]
      have hmem := fun x => pushNew_mem L hU (I.matchReq e.2 q) x acc h1 he
      have step := ih hm' (pushNew acc (I.matchReq e.2 q))
        (by
          intro y hy
          rcases (hmem y).1 hy with hy | hy
          · exact h1 y hy
          · exact he y hy)
        (pushNew_nodupIds _ _ h2)
      refine ⟨step.1, step.2.1, ?_⟩
      intro x
      have := step.2.2 x
      simp only [Ip.loop] at this
      rw [this, hmem x]
      simp only [List.mem_cons, exists_eq_or_imp, ha, true_and]
      constructor
      · rintro ((h | h) | h)
        · exact Or.inl h
        · exact Or.inr (Or.inl h)
        · exact Or.inr (Or.inr h)
      · rintro (h | h | h)
        · exact Or.inl (Or.inl h)
        · exact Or.inl (Or.inr h)
        · exact Or.inr h
    · simp only [ha, if_false, Bool.false_eq_true]
      have step := ih hm' acc h1 h2
      refine ⟨step.1, step.2.1, ?_⟩
      intro x
      have := step.2.2 x
      simp only [Ip.loop] at this
      rw [this]
      simp only [List.mem_cons, exists_eq_or_imp, ha, false_and, false_or, Bool.false_eq_true]

theorem ip_match_unfold (s : LState I RouteIp) (q : Req) :
    Ip.matchReq I s q =
      match q.ip with
      | none => I.matchReq s.any q
      | some a => Ip.loop I a q s.map (I.matchReq s.any q) := rfl

theorem ip_spec (s : LState I RouteIp) (L : List Route) (h : LRepr IL Ip.keysOf s L) (hU : UIds L)
    (q : Req) :
    (Ip.matchReq I s q).Nodup ∧
    ∀ r, r ∈ Ip.matchReq I s q ↔ (r ∈ I.matchReq s.any q ∨ r ∈ lMatchMap I Ip.accepts s.map q) := by
  have hanyL : ∀ y ∈ I.matchReq s.any q, y ∈ L := by
    intro y hy
    exact ((mem_matchAny IL Ip.keysOf s L h hU q y).1 hy).1
  have hanyN := IL.nodup_match _ _ q h.any (hU.filter _)
  rw [ip_match_unfold]
  cases hq : q.ip with
  | none =>
    refine ⟨hanyN, ?_⟩
    intro r
    have : lMatchMap I Ip.accepts s.map q = [] := by
      unfold lMatchMap Ip.accepts
      simp [hq]
    simp [this]
  | some a =>
    simp only
    have hm : ∀ e ∈ s.map, ∀ y ∈ I.matchReq e.2 q, y ∈ L := by
      intro e he y hy
      have hl := alookup_of_mem h.nodup (show (e.1, e.2) ∈ s.map from he)
      rw [IL.mem_match _ _ q y (h.some e.1 e.2 hl) (hU.filter _), List.mem_filter] at hy
      exact hy.1.1
    have sp := ip_loop_spec L hU a q s.map hm (I.matchReq s.any q) hanyL
      ((hU.mono hanyL).nodup_ids hanyN)
    refine ⟨nodup_of_map_nodup _ _ sp.2.1, ?_⟩
    intro r
    rw [sp.2.2 r]
    have : r ∈ lMatchMap I Ip.accepts s.map q ↔
        ∃ e ∈ s.map, e.1.matchIp a = true ∧ r ∈ I.matchReq e.2 q := by
      unfold lMatchMap Ip.accepts
      simp only [hq, List.mem_flatMap]
      constructor
      · rintro ⟨e, he, hr⟩
        by_cases hc : e.1.matchIp a = true
        · simp only [hc, if_true] at hr; exact ⟨e, he, hc, hr⟩
        · simp [hc] at hr
      · rintro ⟨e, he, hc, hr⟩
        exact ⟨e, he, by simp [hc, hr]⟩
    rw [this]

theorem ip_mem_trace (s : LState I RouteIp) (L : List Route)
    (h : LRepr IL Ip.keysOf s L) (hU : UIds L) (q : Req) (r : Route) :
    r ∈ rawRoutesOfList (Ip.trace I s q) ↔ r ∈ Ip.matchReq I s q := by
  rw [(ip_spec IL s L h hU q).2 r,
    ← mem_trace_buckets IL Ip.keysOf Ip.accepts s L h hU q r,
    ← mem_any_trace IL Ip.keysOf s L h hU q r]
  unfold Ip.trace Ip.accepts
  cases hq : q.ip with
  | none => simp
  | some a =>
    simp only [rawRoutesOfList_append, List.mem_append, mem_rawRoutesOfList_map]
    constructor
    · rintro (hr | ⟨e, he, hr⟩)
      · exact Or.inl hr
      · right
        by_cases hc : e.1.matchIp a = true
        · simp only [hc, if_true, Trace.rawRoutes_mk, TInfo.routes, List.nil_append] at hr
          exact ⟨e, he, hc, hr⟩
        · simp [hc, Trace.rawRoutes_mk, TInfo.routes] at hr
    · rintro (hr | ⟨e, he, hc, hr⟩)
      · exact Or.inl hr
      · right
        exact ⟨e, he, by simp only [hc, if_true, Trace.rawRoutes_mk, TInfo.routes, List.nil_append]; exact hr⟩

def ipLaws : MLaws (ipOps I) :=
  outerLaws IL Ip.keysOf (Ip.matchReq I) (Ip.trace I)
    (lSat IL Ip.keysOf Ip.accepts)
    (fun L L' r q h => lSat_congr IL Ip.keysOf Ip.accepts L L' r q h)
    (by
      intro s L q r h hU
      rw [(ip_spec IL s L h hU q).2 r]
      exact mem_lMatch IL Ip.keysOf Ip.accepts s L h hU q r)
    (fun s L q h hU => (ip_spec IL s L h hU q).1)
    (fun s L q r h hU => ip_mem_trace IL s L h hU q r)

/-! ## HostMatcher: bucket union with the any-host fallback -/

section
variable {P : Type} [DecidableEq P] (H : HostCfg P)

def Host.staticPart (I : MOps) (h : String) (q : Req) (e : HKeyG P × I.M) : List Route :=
  match e.1 with
  | .static s => if s == h then I.matchReq e.2 q else []
  | .dyn _ => []

theorem host_split (q : Req) (h : String) (hq : q.host = some h) (e : HKeyG P × I.M) :
    (if Host.accepts H e.1 q then I.matchReq e.2 q else []) =
      Host.dynPart H I h q e ++ Host.staticPart I h q e := by
  unfold Host.accepts Host.dynPart Host.staticPart
  rw [hq]
  cases e.1 <;> simp

theorem host_staticPart_eq (m : List (HKeyG P × I.M)) (hn : (akeys m).Nodup) (h : String) (q : Req) :
    m.flatMap (Host.staticPart I h q) =
      ((alookup (HKeyG.static h) m).map (fun b => I.matchReq b q)).getD [] := by
  rw [← flatMap_select m hn (HKeyG.static h) (fun b => I.matchReq b q)]
  congr 1; funext e
  unfold Host.staticPart
  cases hk : e.1 with
  | static x =>
    by_cases hx : x = h
    · simp [hx]
    · simp [hx]
  | dyn p => simp

theorem host_bound_perm (s : LState I (HKeyG P)) (hn : (akeys s.map).Nodup) (q : Req) :
    (Host.matchBound H I s q).Perm (lMatchMap I (Host.accepts H) s.map q) := by
  cases hq : q.host with
  | none =>
    have h1 : Host.matchBound H I s q = [] := by unfold Host.matchBound; rw [hq]
    have h2 : lMatchMap I (Host.accepts H) s.map q = [] := by
      unfold lMatchMap Host.accepts; simp [hq]
    rw [h1, h2]
  | some h =>
    have h1 : lMatchMap I (Host.accepts H) s.map q =
        s.map.flatMap (fun e => Host.dynPart H I h q e ++ Host.staticPart I h q e) := by
      unfold lMatchMap; congr 1; funext e; exact host_split H q h hq e
    have h2 : Host.matchBound H I s q =
        s.map.flatMap (Host.dynPart H I h q) ++ s.map.flatMap (Host.staticPart I h q) := by
      rw [host_staticPart_eq s.map hn h q]
      unfold Host.matchBound
      rw [hq]
      rfl
    rw [h1, h2]
    exact (flatMap_append_perm' _ _ _).symm

theorem host_singleKey (r : Route) : (keysL (Host.keysOf H) r).length ≤ 1 := by
  unfold keysL Host.keysOf
  cases r.host with
  | none => simp
  | some sd =>
    cases sd with
    | static h => by_cases e : h = "" <;> simp [e]
    | dyn p => simp

/-- some host-bound route of `L` is fully satisfied by `q` -/
def hostBoundSat (L : List Route) (r : Route) (q : Req) : Bool :=
  (keysL (Host.keysOf H) r).any (fun k =>
    Host.accepts H k q && IL.sat (L.filter (inKey (Host.keysOf H) k)) r q)

/-- `sat` of the host layer: host-bound routes as in every layer; host-less routes additionally
need `always_match_any_host` or that no host-bound route of this matcher is fully satisfied. -/
def hostSat (L : List Route) (r : Route) (q : Req) : Bool :=
  match (Host.keysOf H) r with
  | none =>
    IL.sat (L.filter (isAnyR (Host.keysOf H))) r q &&
      (H.always || !(L.any (fun r' => hostBoundSat IL H L r' q)))
  | some _ => hostBoundSat IL H L r q

theorem isEmpty_iff_forall {α : Type} (l : List α) : l.isEmpty = true ↔ ∀ x, x ∉ l := by
  cases l with
  | nil => simp
  | cons a l =>
    simp only [List.isEmpty_cons, Bool.false_eq_true, false_iff]
    intro h; exact h a (List.mem_cons_self ..)

theorem host_mem_bound (s : LState I (HKeyG P)) (L : List Route) (h : LRepr IL (Host.keysOf H) s L)
    (hU : UIds L) (q : Req) (r : Route) :
    r ∈ Host.matchBound H I s q ↔ r ∈ L ∧ hostBoundSat IL H L r q = true := by
  rw [(host_bound_perm H s h.nodup q).mem_iff, mem_matchMap IL (Host.keysOf H) (Host.accepts H) s L h hU]
  unfold hostBoundSat
  simp only [List.any_eq_true, Bool.and_eq_true]

theorem host_bound_empty (s : LState I (HKeyG P)) (L : List Route) (h : LRepr IL (Host.keysOf H) s L)
    (hU : UIds L) (q : Req) :
    (Host.matchBound H I s q).isEmpty = !(L.any (fun r' => hostBoundSat IL H L r' q)) := by
  rw [Bool.eq_iff_iff, isEmpty_iff_forall]
  simp only [Bool.not_eq_true', List.any_eq_false]
  constructor
  · intro hx r' hr' hs
    exact hx r' ((host_mem_bound IL H s L h hU q r').2 ⟨hr', hs⟩)
  · intro hx r' hr'
    rw [host_mem_bound IL H s L h hU q r'] at hr'
    exact hx r' hr'.1 hr'.2

theorem host_match_unfold (s : LState I (HKeyG P)) (q : Req) :
    Host.matchReq H I s q =
      if H.always || (Host.matchBound H I s q).isEmpty
      then Host.matchBound H I s q ++ I.matchReq s.any q else Host.matchBound H I s q := rfl

theorem host_mem_match (s : LState I (HKeyG P)) (L : List Route) (h : LRepr IL (Host.keysOf H) s L)
    (hU : UIds L) (q : Req) (r : Route) :
    r ∈ Host.matchReq H I s q ↔ r ∈ L ∧ hostSat IL H L r q = true := by
  rw [host_match_unfold, host_bound_empty IL H s L h hU q]
  have hb := host_mem_bound IL H s L h hU q r
  have ha := mem_matchAny IL (Host.keysOf H) s L h hU q r
  unfold hostSat
  cases hk : (Host.keysOf H) r with
  | none =>
    have hnb : hostBoundSat IL H L r q = false := by simp [hostBoundSat, keysL, hk]
    rw [hnb] at hb
    simp only [hk, true_and] at ha
    cases hc : (H.always || !(L.any (fun r' => hostBoundSat IL H L r' q)))
    · simp only [Bool.false_eq_true, if_false, hb, Bool.and_false, and_false]
    · simp only [if_true, List.mem_append, hb, ha, Bool.and_true]
      simp
  | some ks =>
    simp only [hk, false_and, and_false, reduceCtorEq] at ha
    simp only
    cases hc : (H.always || !(L.any (fun r' => hostBoundSat IL H L r' q)))
    · simp only [Bool.false_eq_true, if_false, hb]
    · simp only [if_true, List.mem_append, hb, ha, or_false]

theorem host_nodup_match (s : LState I (HKeyG P)) (L : List Route) (h : LRepr IL (Host.keysOf H) s L)
    (hU : UIds L) (q : Req) : (Host.matchReq H I s q).Nodup := by
  have hB : (Host.matchBound H I s q).Nodup := by
    rw [(host_bound_perm H s h.nodup q).nodup_iff]
    exact nodup_lMatchMap IL (Host.keysOf H) (Host.accepts H)
      (singleAccept_of_singleKey (Host.keysOf H) _ (host_singleKey H)) s L h hU q
  rw [host_match_unfold]
  split
  · rw [List.nodup_append]
    refine ⟨hB, IL.nodup_match _ _ q h.any (hU.filter _), ?_⟩
    intro x hx y hy hxy
    subst hxy
    rw [host_mem_bound IL H s L h hU q x] at hx
    rw [mem_matchAny IL (Host.keysOf H) s L h hU q x] at hy
    have := hx.2
    simp [hostBoundSat, keysL, hy.2.1] at this
  · exact hB

theorem host_staticNode_mem (s : LState I (HKeyG P)) (q : Req) (r : Route) :
    r ∈ rawRoutesOfList (s.map.filterMap (Host.staticNode I q)) ↔
      ∃ e ∈ s.map, ∃ h', e.1 = HKeyG.static h' ∧ q.host = some h' ∧
        r ∈ rawRoutesOfList (I.trace e.2 q) := by
  rw [mem_rawRoutesOfList_filterMap]
  constructor
  · rintro ⟨e, he, t, ht, hr⟩
    unfold Host.staticNode at ht
    cases hk : e.1 with
    | dyn p => simp [hk] at ht
    | static h' =>
      simp only [hk, Option.some.injEq] at ht
      by_cases hc : (q.host == some h') = true
      · simp only [hc, if_true] at ht; subst ht
        simp only [Trace.rawRoutes_mk, TInfo.routes, List.nil_append] at hr
        exact ⟨e, he, h', hk, by simpa using hc, hr⟩
      · simp only [hc, if_false, Bool.false_eq_true] at ht; subst ht
        simp [Trace.rawRoutes_mk, TInfo.routes] at hr
  · rintro ⟨e, he, h', hk, hq, hr⟩
    have hc : (q.host == some h') = true := by simp [hq]
    refine ⟨e, he, Trace.mk true true (I.len e.2) (.other "host_static") (I.trace e.2 q), ?_, ?_⟩
    · unfold Host.staticNode; simp [hk, hc]
    · simp only [Trace.rawRoutes_mk, TInfo.routes, List.nil_append]; exact hr

theorem host_dynNode_mem (s : LState I (HKeyG P)) (q : Req) (hh : String) (r : Route) :
    r ∈ rawRoutesOfList (s.map.filterMap (Host.dynNode H I hh q)) ↔
      ∃ e ∈ s.map, ∃ p, e.1 = HKeyG.dyn p ∧ H.find p hh = true ∧
        r ∈ rawRoutesOfList (I.trace e.2 q) := by
  rw [mem_rawRoutesOfList_filterMap]
  constructor
  · rintro ⟨e, he, t, ht, hr⟩
    unfold Host.dynNode at ht
    cases hk : e.1 with
    | static _ => simp [hk] at ht
    | dyn p =>
      simp only [hk, Option.some.injEq] at ht
      subst ht
      simp only [Trace.rawRoutes_mk, TInfo.routes, List.nil_append] at hr
      by_cases hc : H.find p hh = true
      · simp only [hc, if_true] at hr; exact ⟨e, he, p, hk, hc, hr⟩
      · simp [hc] at hr
  · rintro ⟨e, he, p, hk, hc, hr⟩
    refine ⟨e, he, Trace.mk true true 1 (.other "regex") (I.trace e.2 q), ?_, ?_⟩
    · unfold Host.dynNode; simp [hk, hc]
    · simp only [Trace.rawRoutes_mk, TInfo.routes, List.nil_append]; exact hr

theorem host_traceFor_mem (s : LState I (HKeyG P)) (q : Req) (hh : String) (r : Route) :
    r ∈ rawRoutesOfList (Host.traceFor H I s q hh) ↔
      r ∈ rawRoutesOfList (s.map.filterMap (Host.dynNode H I hh q)) := by
  unfold Host.traceFor
  cases hx : (alookup (HKeyG.static hh) s.map).isNone
  · simp only [Bool.false_eq_true, if_false, rawRoutesOfList_append, rawRoutesOfList_singleton,
      Trace.rawRoutes_mk, TInfo.routes, List.nil_append, List.append_nil, rawRoutesOfList_nil]
  · simp only [if_true, rawRoutesOfList_append, rawRoutesOfList_singleton, Trace.rawRoutes_mk,
      TInfo.routes, List.nil_append, List.append_nil, rawRoutesOfList_nil]

theorem host_traceBound_mem (s : LState I (HKeyG P)) (L : List Route) (h : LRepr IL (Host.keysOf H) s L)
    (hU : UIds L) (q : Req) (r : Route) :
    r ∈ rawRoutesOfList (Host.traceBound H I s q) ↔ r ∈ Host.matchBound H I s q := by
  rw [(host_bound_perm H s h.nodup q).mem_iff,
    ← mem_trace_buckets IL (Host.keysOf H) (Host.accepts H) s L h hU q r]
  unfold Host.traceBound
  rw [rawRoutesOfList_append, List.mem_append, host_staticNode_mem]
  cases hq : q.host with
  | none =>
    simp only [rawRoutesOfList_nil, List.not_mem_nil, or_false]
    unfold Host.accepts
    simp [hq]
  | some hh =>
    simp only
    rw [host_traceFor_mem, host_dynNode_mem]
    unfold Host.accepts
    simp only [hq]
    constructor
    · rintro (⟨e, he, h', hk, hq', hr⟩ | ⟨e, he, p, hk, hc, hr⟩)
      · refine ⟨e, he, ?_, hr⟩
        simp only [Option.some.injEq] at hq'
        simp [hk, hq']
      · exact ⟨e, he, by simp [hk, hc], hr⟩
    · rintro ⟨e, he, hc, hr⟩
      cases hk : e.1 with
      | static s' =>
        left
        simp only [hk, beq_iff_eq] at hc
        exact ⟨e, he, s', hk, by rw [hc], hr⟩
      | dyn p =>
        right
        simp only [hk] at hc
        exact ⟨e, he, p, hk, hc, hr⟩

theorem host_trace_unfold (s : LState I (HKeyG P)) (q : Req) :
    Host.trace H I s q =
      if H.always || (routesOfList (Host.traceBound H I s q)).isEmpty
      then Host.traceBound H I s q ++ I.trace s.any q else Host.traceBound H I s q := rfl

theorem host_mem_trace (s : LState I (HKeyG P)) (L : List Route) (h : LRepr IL (Host.keysOf H) s L)
    (hU : UIds L) (q : Req) (r : Route) :
    r ∈ rawRoutesOfList (Host.trace H I s q) ↔ r ∈ Host.matchReq H I s q := by
  have hb := host_traceBound_mem IL H s L h hU q
  have hraw : ∀ y ∈ rawRoutesOfList (Host.traceBound H I s q), y ∈ L := by
    intro y hy
    exact ((host_mem_bound IL H s L h hU q y).1 ((hb y).1 hy)).1
  have hempty : (routesOfList (Host.traceBound H I s q)).isEmpty = (Host.matchBound H I s q).isEmpty := by
    rw [Bool.eq_iff_iff, isEmpty_iff_forall, isEmpty_iff_forall]
    constructor
    · intro hx x hx2
      exact hx x ((mem_routesOfList_iff L hU _ hraw x).2 ((hb x).2 hx2))
    · intro hx x hx2
      exact hx x ((hb x).1 ((mem_routesOfList_iff L hU _ hraw x).1 hx2))
  rw [host_trace_unfold, host_match_unfold, hempty]
  cases hc : (H.always || (Host.matchBound H I s q).isEmpty)
  · simp only [Bool.false_eq_true, if_false, hb]
  · simp only [if_true, rawRoutesOfList_append, List.mem_append, hb,
      mem_any_trace IL (Host.keysOf H) s L h hU q r]

theorem hostSat_congr (L L' : List Route) (r : Route) (q : Req) (h : ∀ x, x ∈ L ↔ x ∈ L') :
    hostSat IL H L r q = hostSat IL H L' r q := by
  have hf : ∀ p : Route → Bool, ∀ x, x ∈ L.filter p ↔ x ∈ L'.filter p := by
    intro p x; simp only [List.mem_filter, h x]
  have hbs : ∀ r', hostBoundSat IL H L r' q = hostBoundSat IL H L' r' q := by
    intro r'
    unfold hostBoundSat
    congr 1; funext k
    rw [IL.sat_congr _ _ r' q (hf (inKey (Host.keysOf H) k))]
  have hany : L.any (fun r' => hostBoundSat IL H L r' q) = L'.any (fun r' => hostBoundSat IL H L' r' q) := by
    rw [Bool.eq_iff_iff]
    simp only [List.any_eq_true]
    constructor
    · rintro ⟨x, hx, hs⟩; exact ⟨x, (h x).1 hx, by rw [← hbs]; exact hs⟩
    · rintro ⟨x, hx, hs⟩; exact ⟨x, (h x).2 hx, by rw [hbs]; exact hs⟩
  unfold hostSat
  cases hk : (Host.keysOf H) r with
  | none => simp only; rw [IL.sat_congr _ _ r q (hf _), hany]
  | some ks => simp only; exact hbs r

def hostLaws : MLaws (hostOps H I) :=
  outerLaws IL (Host.keysOf H) (Host.matchReq H I) (Host.trace H I)
    (hostSat IL H)
    (fun L L' r q h => hostSat_congr IL H L L' r q h)
    (fun s L q r h hU => host_mem_match IL H s L h hU q r)
    (fun s L q h hU => host_nodup_match IL H s L h hU q)
    (fun s L q r h hU => host_mem_trace IL H s L h hU q r)

end

end Rio.Router
