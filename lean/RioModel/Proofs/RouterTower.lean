/-
Router proofs, part 5: Scheme / Method / Ip / Host layers and the instantiation of the tower.
-/
import RioModel.Proofs.RouterOuter

set_option linter.unusedSimpArgs false
set_option linter.unusedVariables false
set_option linter.unusedSectionVars false

namespace Rio.Router

variable {I : MOps} (IL : MLaws I)

/-! ## DateTime and Header as group layers -/

theorem dateTime_singleKey (r : Route) : (keysL DateTime.keysOf r).length ≤ 1 := by
  unfold keysL DateTime.keysOf
  simp only
  split <;> simp

def dateTimeLaws : MLaws (dateTimeOps I) :=
  groupLaws IL DateTime.keysOf DCond.eval "date_time_group" dateTime_singleKey

theorem header_singleKey (E : Env) (r : Route) : (keysL (Header.keysOf E) r).length ≤ 1 := by
  unfold keysL Header.keysOf
  split <;> simp

def headerLaws (E : Env) : MLaws (headerOps E I) :=
  groupLaws IL (Header.keysOf E) (HCond.eval E) "header_group" (header_singleKey E)

/-! ## SchemeMatcher -/

theorem scheme_match_eq (s : LState I String) (hn : (akeys s.map).Nodup) (q : Req) :
    Scheme.matchReq I s q = I.matchReq s.any q ++ lMatchMap I Scheme.accepts s.map q := by
  unfold Scheme.matchReq lMatchMap Scheme.accepts
  cases hs : q.scheme with
  | none => simp
  | some sc =>
    have : (fun e : String × I.M => if (some sc == some e.1) = true then I.matchReq e.2 q else []) =
        (fun e => if e.1 = sc then I.matchReq e.2 q else []) := by
      funext e
      by_cases h : e.1 = sc
      · simp [h]
      · have : ¬ sc = e.1 := fun h' => h h'.symm
        simp [h, this]
    simp only [this]
    rw [flatMap_select s.map hn sc (fun b => I.matchReq b q)]
    cases alookup sc s.map <;> simp

theorem scheme_singleKey (r : Route) : (keysL Scheme.keysOf r).length ≤ 1 := by
  unfold keysL Scheme.keysOf
  cases r.scheme with
  | none => simp
  | some s => by_cases h : s = "" <;> simp [h]

theorem scheme_key_ne (r : Route) (k : String) (hk : k ∈ keysL Scheme.keysOf r) : k ≠ "" := by
  unfold keysL Scheme.keysOf at hk
  cases hs : r.scheme with
  | none => simp [hs] at hk
  | some s =>
    by_cases h : s = ""
    · simp [hs, h] at hk
    · simp [hs, h] at hk; rw [hk]; exact h

theorem scheme_mem_trace (s : LState I String) (L : List Route)
    (h : LRepr IL Scheme.keysOf s L) (hU : UIds L) (q : Req) (r : Route) :
    r ∈ routesOfList (Scheme.trace I s q) ↔ r ∈ Scheme.matchReq I s q := by
  rw [scheme_match_eq s h.nodup, List.mem_append,
    ← mem_trace_buckets IL Scheme.keysOf Scheme.accepts s L h hU q r,
    ← mem_any_trace IL Scheme.keysOf s L h hU q r]
  unfold Scheme.trace
  have key : r ∈ routesOfList (s.map.map (fun e =>
      if (e.1 == q.scheme.getD "" && q.scheme.getD "" != "") = true
      then Trace.mk true true (I.len e.2) (.other "scheme") (I.trace e.2 q)
      else Trace.mk false false (I.len e.2) (.other "scheme") [])) ↔
      ∃ e ∈ s.map, Scheme.accepts e.1 q = true ∧ r ∈ routesOfList (I.trace e.2 q) := by
    rw [mem_routesOfList_map]
    constructor
    · rintro ⟨e, he, hr⟩
      refine ⟨e, he, ?_⟩
      by_cases hc : (e.1 == q.scheme.getD "" && q.scheme.getD "" != "") = true
      · simp only [hc, if_true, Trace.routes_mk, TInfo.routes, List.nil_append] at hr
        refine ⟨?_, hr⟩
        simp only [Bool.and_eq_true, beq_iff_eq, bne_iff_ne] at hc
        unfold Scheme.accepts
        cases hq : q.scheme with
        | none => rw [hq] at hc; simp at hc
        | some sc => rw [hq] at hc; simp at hc; simp [hc.1]
      · simp [hc, Trace.routes_mk, TInfo.routes] at hr
    · rintro ⟨e, he, ha, hr⟩
      refine ⟨e, he, ?_⟩
      unfold Scheme.accepts at ha
      cases hq : q.scheme with
      | none => rw [hq] at ha; simp at ha
      | some sc =>
        rw [hq] at ha
        simp only [beq_iff_eq, Option.some.injEq] at ha
        -- keys are never the empty string, but the trace guard also holds syntactically here
        by_cases hne : sc = ""
        · -- an empty-string key: the trace skips it, but such a bucket cannot exist
          exfalso
          subst hne
          have hl := alookup_of_mem h.nodup (show (e.1, e.2) ∈ s.map from he)
          have hm := (mem_bucket_trace IL Scheme.keysOf s L h hU q r e.1 e.2 hl).1 hr
          rw [IL.mem_match _ _ q r (h.some e.1 e.2 hl) (hU.filter _), List.mem_filter] at hm
          have hk := hm.1.2
          simp only [inKey, decide_eq_true_eq] at hk
          exact scheme_key_ne r e.1 hk ha.symm
        · have hc : (e.1 == (some sc).getD "" && (some sc).getD "" != "") = true := by
            rw [← ha]; simp [hne]
          simp only [hc, if_true, Trace.routes_mk, TInfo.routes, List.nil_append]
          exact hr
  cases hx : (q.scheme.getD "" != "" && (alookup (q.scheme.getD "") s.map).isNone)
  · simp only [hx, Bool.false_eq_true, if_false, routesOfList_append, List.mem_append, key]
  · simp only [hx, if_true, routesOfList_append, routesOfList_singleton, Trace.routes_mk,
      TInfo.routes, routesOfList_nil, List.append_nil, List.mem_append, key]

def schemeLaws : MLaws (schemeOps I) :=
  outerLaws IL Scheme.keysOf (Scheme.matchReq I) (Scheme.trace I)
    (lSat IL Scheme.keysOf Scheme.accepts)
    (fun L L' r q h => lSat_congr IL Scheme.keysOf Scheme.accepts L L' r q h)
    (by
      intro s L q r h hU
      rw [scheme_match_eq s h.nodup, List.mem_append]
      exact mem_lMatch IL Scheme.keysOf Scheme.accepts s L h hU q r)
    (by
      intro s L q h hU
      rw [scheme_match_eq s h.nodup]
      exact nodup_lMatch IL Scheme.keysOf Scheme.accepts
        (singleAccept_of_singleKey Scheme.keysOf _ scheme_singleKey) s L h hU q)
    (fun s L q r h hU => scheme_mem_trace IL s L h hU q r)

/-! ## MethodMatcher -/

theorem flatMap_append_perm' {α β : Type} (l : List α) (f g : α → List β) :
    (l.flatMap (fun a => f a ++ g a)).Perm (l.flatMap f ++ l.flatMap g) := by
  induction l with
  | nil => simp
  | cons a l ih =>
    simp only [List.flatMap_cons]
    refine (List.Perm.append_left _ ih).trans ?_
    simp only [List.append_assoc]
    refine List.Perm.append_left _ ?_
    rw [← List.append_assoc, ← List.append_assoc]
    exact List.Perm.append_right _ List.perm_append_comm

/-- the `methods.get(request.method())` part of `MethodMatcher::match_request` -/
def Method.onlyPart (I : MOps) (q : Req) (e : MKey × I.M) : List Route :=
  match e.1 with
  | .only m => if m == q.methodStr then I.matchReq e.2 q else []
  | .exclude _ => []

/-- the `exclude_methods` loop of `MethodMatcher::match_request` -/
def Method.exclPart (I : MOps) (q : Req) (e : MKey × I.M) : List Route :=
  match e.1 with
  | .exclude ms => if !ms.contains q.methodStr then I.matchReq e.2 q else []
  | .only _ => []

theorem method_split (q : Req) (e : MKey × I.M) :
    (if Method.accepts e.1 q then I.matchReq e.2 q else []) =
      Method.onlyPart I q e ++ Method.exclPart I q e := by
  unfold Method.accepts Method.onlyPart Method.exclPart
  cases e.1 <;> simp

theorem method_onlyPart_eq (m : List (MKey × I.M)) (hn : (akeys m).Nodup) (q : Req) :
    m.flatMap (Method.onlyPart I q) =
      (match alookup (MKey.only q.methodStr) m with | some b => I.matchReq b q | none => []) := by
  rw [← flatMap_select m hn (MKey.only q.methodStr) (fun b => I.matchReq b q)]
  congr 1; funext e
  unfold Method.onlyPart
  cases hk : e.1 with
  | only x =>
    by_cases h : x = q.methodStr
    · simp [h]
    · simp [h]
  | exclude ms => simp

theorem method_match_perm (s : LState I MKey) (hn : (akeys s.map).Nodup) (q : Req) :
    (Method.matchReq I s q).Perm (I.matchReq s.any q ++ lMatchMap I Method.accepts s.map q) := by
  have h1 : lMatchMap I Method.accepts s.map q =
      s.map.flatMap (fun e => Method.onlyPart I q e ++ Method.exclPart I q e) := by
    unfold lMatchMap; congr 1; funext e; exact method_split q e
  have h2 : Method.matchReq I s q =
      I.matchReq s.any q ++ (s.map.flatMap (Method.onlyPart I q) ++ s.map.flatMap (Method.exclPart I q)) := by
    unfold Method.matchReq
    rw [method_onlyPart_eq s.map hn q]
    simp only
    have : (fun e : MKey × I.M =>
        match e.1 with
        | .exclude ms => if (!ms.contains q.methodStr) = true then I.matchReq e.2 q else []
        | .only _ => []) = Method.exclPart I q := by
      funext e; unfold Method.exclPart; rfl
    rw [this]
    cases alookup (MKey.only q.methodStr) s.map <;> simp
  rw [h1, h2]
  exact List.Perm.append_left _ (flatMap_append_perm' _ _ _).symm

theorem method_singleAccept : SingleAccept Method.keysOf Method.accepts := by
  intro r q k1 k2 h1 h2 a1 a2
  unfold keysL Method.keysOf at h1 h2
  cases hm : r.methods with
  | none => simp [hm] at h1
  | some ms =>
    by_cases he : ms.isEmpty = true
    · simp [hm, he] at h1
    · by_cases hx : r.excludeMethods.isSome = true
      · simp [hm, he, hx] at h1 h2; rw [h1, h2]
      · simp only [hm, he, hx, if_false, Option.getD_some, List.mem_map, Bool.false_eq_true] at h1 h2
        obtain ⟨m1, _, e1⟩ := h1
        obtain ⟨m2, _, e2⟩ := h2
        subst e1; subst e2
        simp only [Method.accepts, beq_iff_eq] at a1 a2
        rw [a1, a2]

theorem method_mem_trace (s : LState I MKey) (L : List Route)
    (h : LRepr IL Method.keysOf s L) (hU : UIds L) (q : Req) (r : Route) :
    r ∈ routesOfList (Method.trace I s q) ↔ r ∈ Method.matchReq I s q := by
  rw [(method_match_perm s h.nodup q).mem_iff, List.mem_append,
    ← mem_trace_buckets IL Method.keysOf Method.accepts s L h hU q r,
    ← mem_any_trace IL Method.keysOf s L h hU q r]
  unfold Method.trace
  simp only [routesOfList_append, List.mem_append, mem_routesOfList_filterMap]
  have hlast : ∀ b : Bool, r ∈ routesOfList
      (if b = true then [Trace.mk true false 0 (.other "method") []] else []) ↔ False := by
    intro b; cases b <;> simp [routesOfList_singleton, Trace.routes_mk, TInfo.routes]
  rw [hlast]
  constructor
  · rintro (((hr | ⟨e, he, t, ht, hr⟩) | ⟨e, he, t, ht, hr⟩) | hf)
    · exact Or.inl hr
    · right
      refine ⟨e, he, ?_⟩
      cases hk : e.1 with
      | only x => simp [hk] at ht
      | exclude ms =>
        simp only [hk, Option.some.injEq] at ht
        cases hc : ms.contains q.methodStr
        · simp only [hc, Bool.not_false, if_true] at ht
          subst ht
          simp only [Trace.routes_mk, TInfo.routes, List.nil_append] at hr
          exact ⟨by simp [Method.accepts, hc], hr⟩
        · simp only [hc, Bool.not_true, Bool.false_eq_true, if_false] at ht
          subst ht
          simp [Trace.routes_mk, TInfo.routes] at hr
    · right
      refine ⟨e, he, ?_⟩
      cases hk : e.1 with
      | exclude ms => simp [hk] at ht
      | only x =>
        simp only [hk, Option.some.injEq] at ht
        cases hc : x == q.methodStr
        · simp only [hc, Bool.false_eq_true, if_false] at ht
          subst ht
          simp [Trace.routes_mk, TInfo.routes] at hr
        · simp only [hc, if_true] at ht
          subst ht
          simp only [Trace.routes_mk, TInfo.routes, List.nil_append] at hr
          exact ⟨by simp [Method.accepts, hc], hr⟩
    · exact hf.elim
  · rintro (hr | ⟨e, he, ha, hr⟩)
    · exact Or.inl (Or.inl (Or.inl hr))
    · left
      cases hk : e.1 with
      | only x =>
        right
        simp only [Method.accepts, hk] at ha
        exact ⟨e, he, _, by simp only [hk]; rfl, by
          simp only [ha, if_true, Trace.routes_mk, TInfo.routes, List.nil_append]; exact hr⟩
      | exclude ms =>
        left; right
        simp only [Method.accepts, hk] at ha
        exact ⟨e, he, _, by simp only [hk]; rfl, by
          simp only [ha, if_true, Trace.routes_mk, TInfo.routes, List.nil_append]; exact hr⟩

def methodLaws : MLaws (methodOps I) :=
  outerLaws IL Method.keysOf (Method.matchReq I) (Method.trace I)
    (lSat IL Method.keysOf Method.accepts)
    (fun L L' r q h => lSat_congr IL Method.keysOf Method.accepts L L' r q h)
    (by
      intro s L q r h hU
      rw [(method_match_perm s h.nodup q).mem_iff, List.mem_append]
      exact mem_lMatch IL Method.keysOf Method.accepts s L h hU q r)
    (by
      intro s L q h hU
      rw [(method_match_perm s h.nodup q).nodup_iff]
      exact nodup_lMatch IL Method.keysOf Method.accepts method_singleAccept s L h hU q)
    (fun s L q r h hU => method_mem_trace IL s L h hU q r)

end Rio.Router
