/-
Helper definitions and lemmas for Props/C08gen2.lean: the TRANSLATED `Node::insert`, `Leaf::new`, `Leaf::insert`
(`Rio.Consts.genNodeInsert`, `genLeafNew`, `genLeafInsert`, generated from src/regex_radix_tree/{node,leaf}.rs by
tools/consts_dev/w23_tree_insert.py) against the hand-written model `Rio.Tree.Item.insert` (Model/Tree.lean).

Representation: the Rust side is `GItem ρ ι V` – an item whose cells are the TRANSLATED `GenLazyRegex ρ` (four Rust fields, `regex`
a string) and whose `HashMap<String, V>` is the association list of the model (`HashMap::new` = `[]`, `HashMap::insert` = `upsert`);
`repI val` maps a model item to it field by field (`LazyRegexGen.toGen val` on every cell).
-/
import RioModel.Generated.Consts
import RioModel.Proofs.LazyRegexGen
import RioModel.Proofs.ScanGen
import RioModel.Proofs.TreeInsert
set_option linter.unusedSimpArgs false
set_option linter.unusedVariables false
set_option linter.unusedSectionVars false

namespace Rio.TreeInsertGen
open Rio.Consts Rio.Regex Rio.Tree Rio.Scan Rio.LazyRegexGen

/-- `item.rs::Item<V>` with the translated cell type: `Empty(ignore_case)`, `Node(Node { regex, children })`,
`Leaf(Leaf { values, regex })`. -/
inductive GItem (ρ ι V : Type) where
  | empty (ic : Bool)
  | node (regex : GenLazyRegex ρ) (children : List (GItem ρ ι V))
  | leaf (values : List (ι × V)) (regex : GenLazyRegex ρ)

variable {ρ ι V : Type} [DecidableEq ι]

/-- `Item::regex()` (item.rs): `""` for `Empty`, `regex.original` otherwise. -/
def GItem.regex : GItem ρ ι V → List Char
  | .empty _ => []
  | .node g _ => g.original
  | .leaf _ g => g.original

mutual
/-- the Rust-side representation of a model item -/
def repI (val : Compiled → ρ) : Item ι V → GItem ρ ι V
  | .empty ic => .empty ic
  | .node rx cs => .node (toGen val rx) (repL val cs)
  | .leaf rx vs => .leaf vs (toGen val rx)
def repL (val : Compiled → ρ) : List (Item ι V) → List (GItem ρ ι V)
  | [] => []
  | c :: cs => repI val c :: repL val cs
end

theorem repL_eq_map (val : Compiled → ρ) (cs : List (Item ι V)) : repL val cs = cs.map (repI val) := by
  induction cs with
  | nil => simp [repL]
  | cons c cs ih => simp [repL, ih]

theorem regex_repI (val : Compiled → ρ) (t : Item ι V) : (repI val t).regex = t.regex := by
  cases t <;> simp [repI, GItem.regex, Item.regex, toGen]

theorem toGen_newNode (val : Compiled → ρ) (q : List Char) (ic : Bool) :
    (genLazyRegexNewNode q ic : GenLazyRegex ρ) = toGen val (LazyRegex.newNode q ic) :=
  (rep_iff val _ _).1 (newNode_rep val q ic)

theorem toGen_newLeaf (val : Compiled → ρ) (p : List Char) (ic : Bool) :
    (genLazyRegexNewLeaf p ic : GenLazyRegex ρ) = toGen val (LazyRegex.newLeaf p ic) :=
  (rep_iff val _ _).1 (newLeaf_rep val p ic)

/-- the translated `Leaf::insert` on the representation (map = association list) -/
def gLeafInsert (vs : List (ι × V)) (g : GenLazyRegex ρ) (p : List Char) (id : ι) (v : V) : GItem ρ ι V :=
  genLeafInsert GItem.node GItem.leaf ([] : List (ι × V)) upsert commonPrefix vs g p id v

/-- the translated `Node::insert` on the representation, recursive call `F` -/
def gNodeInsert (F : GItem ρ ι V → List Char → ι → V → Option (GItem ρ ι V)) (g : GenLazyRegex ρ) (cs : List (GItem ρ ι V))
    (p : List Char) (id : ι) (v : V) : Option (GItem ρ ι V) :=
  genNodeInsert GItem.node GItem.leaf GItem.regex ([] : List (ι × V)) upsert getPrefixWithCharSize F g cs p id v

/-- `Leaf::new` translated = the model's `newLeafItem`. -/
theorem leafNew_eq (val : Compiled → ρ) (p : List Char) (id : ι) (v : V) (ic : Bool) :
    (GItem.leaf (genLeafNew ([] : List (ι × V)) upsert p id v ic : List (ι × V) × GenLazyRegex ρ).1
        (genLeafNew ([] : List (ι × V)) upsert p id v ic : List (ι × V) × GenLazyRegex ρ).2 : GItem ρ ι V)
      = repI val (newLeafItem p id v ic) := by
  simp only [genLeafNew, newLeafItem, repI, upsert, toGen_newLeaf val]

/-- `Leaf::insert` translated = the model's `leafInsert`, for every leaf and every input. -/
theorem leafInsert_eq (val : Compiled → ρ) (rx : LazyRegex) (vs : List (ι × V)) (p : List Char) (id : ι) (v : V) :
    gLeafInsert vs (toGen val rx) p id v = repI val (leafInsert rx vs p id v) := by
  unfold gLeafInsert genLeafInsert leafInsert
  have ho : (toGen val rx).original = rx.original := rfl
  simp only [ho]
  by_cases h : p = rx.original
  · simp [h, toGen, repI]
  · have h1 : (p == rx.original) = false := by simpa using h
    have h2 : (rx.original == p) = false := by simpa using (Ne.symm h)
    simp only [h1, h2, h, if_false, Bool.false_eq_true]
    simp only [repI, repL, upsert, toGen_newLeaf val, toGen_newNode val]
    simp [toGen]

/-- the translated selection loop from index `pre.length` on = the model's `selLoop` on the remaining children -/
theorem loop_eq (val : Compiled → ρ) (p : List Char) (suf pre : List (Item ι V)) (mx : Nat) (item : Option Nat) :
    (genNodeInsertLoop GItem.regex p (repL val (pre ++ suf)) (List.range' pre.length suf.length) (mx, item)).map Prod.snd
      = some (selLoop p (suf.map Item.regex) pre.length mx item) := by
  induction suf generalizing pre mx item with
  | nil => simp [genNodeInsertLoop, selLoop, List.range']
  | cons c suf ih =>
    have hidx : (repL val (pre ++ c :: suf))[pre.length]? = some (repI val c) := by
      rw [repL_eq_map]; simp
    have hre : pre ++ c :: suf = (pre ++ [c]) ++ suf := by simp
    have hlen : pre.length + 1 = (pre ++ [c]).length := by simp
    simp only [List.length_cons, List.range', genNodeInsertLoop, hidx, List.map_cons, selLoop, regex_repI,
      genCommonPrefixCharSize_eq]
    by_cases hc : (decide (commonPrefixCharSize p c.regex > mx) || (item.isNone && (c.regex == p))) = true
    · rw [if_pos hc, if_pos (by simpa using hc)]
      rw [hre, hlen]; exact ih _ _ _
    · rw [if_neg hc, if_neg (by simpa using hc)]
      rw [hre, hlen]; exact ih _ _ _

theorem loop_eq0 (val : Compiled → ρ) (p : List Char) (cs : List (Item ι V)) (mx : Nat) :
    (genNodeInsertLoop GItem.regex p (repL val cs) (List.range (repL val cs).length) (mx, none)).map Prod.snd
      = some (selLoop p (cs.map Item.regex) 0 mx none) := by
  have := loop_eq val p cs [] mx none
  simpa [List.range_eq_range', repL_eq_map] using this

/-- `remove(i)` + `push(child.insert(..))` is the model's `insertAt` -/
theorem insertAt_rep (val : Compiled → ρ) (cs : List (Item ι V)) (i : Nat) (p : List Char) (id : ι) (v : V) (c : Item ι V)
    (h : cs[i]? = some c) :
    repL val (insertAt cs i p id v) = (repL val cs).eraseIdx i ++ [repI val (c.insert p id v)] := by
  induction cs generalizing i with
  | nil => simp at h
  | cons d cs ih =>
    cases i with
    | zero =>
      simp at h; subst h
      simp [insertAt, repL_eq_map]
    | succ i =>
      simp at h
      have := ih i h
      simp only [insertAt, repL, List.eraseIdx_cons_succ, List.cons_append, this]

/-- **One step.**  The translated `Node::insert`, its recursive call answered correctly on the children, is the model's
`Item.insert` on a node – for every node, every child list, every input; the only hypothesis is the char-count one: the node's own
prefix has fewer than 2^32 chars (`chars().count() as u32` truncates). -/
theorem nodeInsert_eq (val : Compiled → ρ) (F : GItem ρ ι V → List Char → ι → V → Option (GItem ρ ι V))
    (rx : LazyRegex) (cs : List (Item ι V)) (p : List Char) (id : ι) (v : V)
    (hlen : rx.original.length < 4294967296)
    (hF : ∀ c ∈ cs, F (repI val c) p id v = some (repI val (c.insert p id v))) :
    gNodeInsert F (toGen val rx) (repL val cs) p id v = some (repI val ((Item.node rx cs).insert p id v)) := by
  unfold gNodeInsert genNodeInsert
  rw [Item.insert]
  have hmod : (toGen val rx).original.length % 4294967296 = rx.original.length := by
    simp only [toGen]; exact Nat.mod_eq_of_lt hlen
  simp only [hmod, genCommonPrefixCharSize_eq]
  have ho : (toGen val rx).original = rx.original := rfl
  have hi : (toGen val rx).ignoreCase = rx.ic := rfl
  simp only [ho, hi]
  by_cases h1 : commonPrefixCharSize p rx.original < rx.original.length
  · simp only [h1, decide_true, if_true]
    simp only [leafNew_eq val, toGen_newNode val, repI, repL]
  · simp only [h1, decide_false, if_false, Bool.false_eq_true]
    have hl := loop_eq0 val p cs rx.original.length
    cases hg : genNodeInsertLoop GItem.regex p (repL val cs) (List.range (repL val cs).length) (rx.original.length, none) with
    | none => simp [hg] at hl
    | some st =>
      obtain ⟨mx', it⟩ := st
      simp only [hg, Option.map_some, Option.some.injEq] at hl
      subst hl
      simp only
      cases hs : selLoop p (cs.map Item.regex) 0 rx.original.length none with
      | none =>
        simp only [leafNew_eq val, repI]
        congr 2
        simp [repL_eq_map]
      | some k =>
        have hk : k < cs.length := by simpa using selLoop_lt hs
        have hget : cs[k]? = some cs[k] := List.getElem?_eq_getElem hk
        have hget' : (repL val cs)[k]? = some (repI val cs[k]) := by
          rw [repL_eq_map]; simp [hget]
        simp only [hget', hF cs[k] (List.getElem_mem hk), repI]
        rw [insertAt_rep val cs k p id v cs[k] hget]

/-! ### the char-count hypothesis is needed: `chars().count() as u32` truncates -/

theorem cpcs_b_replicate (m : Nat) : commonPrefixCharSize ['b'] (List.replicate (m + 1) 'a') = 0 := by
  have h := cpcs_common ['b'] (List.replicate (m + 1) 'a')
  generalize commonPrefixCharSize ['b'] (List.replicate (m + 1) 'a') = k at h
  cases k with
  | zero => rfl
  | succ k =>
    rw [List.replicate_succ, common_cons_succ] at h
    exact absurd h.1 (by decide)

/-- A node whose prefix has a multiple of 2^32 chars (`m + 1` of them): the source computes `max_prefix_size = 0`, does NOT split
and pushes a leaf under the node; the model (untruncated length) splits. -/
theorem nodeInsert_trunc (m : Nat) (hm : (m + 1) % 4294967296 = 0) :
    gNodeInsert (fun _ _ _ _ => none) (toGen (id : Compiled → Compiled) (LazyRegex.newNode (List.replicate (m + 1) 'a') false))
        (repL id ([] : List (Item Nat Nat))) ['b'] 0 0
      ≠ some (repI id ((Item.node (LazyRegex.newNode (List.replicate (m + 1) 'a') false) ([] : List (Item Nat Nat))).insert ['b'] 0 0)) := by
  unfold gNodeInsert genNodeInsert
  rw [Item.insert]
  have ho : (toGen (id : Compiled → Compiled) (LazyRegex.newNode (List.replicate (m + 1) 'a') false)).original
      = List.replicate (m + 1) 'a' := rfl
  have ho' : (LazyRegex.newNode (List.replicate (m + 1) 'a') false).original = List.replicate (m + 1) 'a' := rfl
  simp only [ho, ho', List.length_replicate, hm, genCommonPrefixCharSize_eq, cpcs_b_replicate, Nat.lt_irrefl, decide_false,
    Bool.false_eq_true, if_false, repL, List.length_nil, List.range_zero, genNodeInsertLoop, Nat.zero_lt_succ, if_true]
  intro h
  simp only [Option.some.injEq, repI, repL, GItem.node.injEq] at h
  have := congrArg List.length h.2
  simp at this

/-! ### the whole recursion -/

/-- the enum layer of a `GItem` (the generated one-layer view of `Item<V>`) -/
def GItem.view : GItem ρ ι V → GenItemView ρ (GItem ρ ι V) (List (ι × V))
  | .empty ic => .empty ic
  | .node g cs => .node g cs
  | .leaf vs g => .leaf vs g

/-- The whole insertion, all four functions translated: `Item::insert` (`genItemInsert`, the three-way `match`) dispatching to the
translated `Leaf::new`, `Leaf::insert`, `Node::insert`, whose recursive call is `gInsert` again; recursion depth bounded by `fuel`
(`none` = out of fuel or a panic). -/
def gInsert : Nat → GItem ρ ι V → List Char → ι → V → Option (GItem ρ ι V)
  | 0, _, _, _, _ => none
  | n + 1, t, p, id, v =>
    genItemInsert GItem.leaf ([] : List (ι × V)) upsert
      (fun g cs p id v => gNodeInsert (gInsert n) g cs p id v) (fun vs g p id v => gLeafInsert vs g p id v) t.view p id v

/-- every node prefix in the tree has fewer than 2^32 chars (so `chars().count() as u32` is exact) -/
inductive Small : Item ι V → Prop where
  | empty (ic : Bool) : Small (.empty ic)
  | leaf (rx : LazyRegex) (vs : List (ι × V)) : Small (.leaf rx vs)
  | node (rx : LazyRegex) (cs : List (Item ι V)) (h : rx.original.length < 4294967296) (hc : ∀ c ∈ cs, Small c) :
      Small (.node rx cs)

theorem gInsert_eq (val : Compiled → ρ) (n : Nat) (t : Item ι V) (p : List Char) (id : ι) (v : V)
    (hs : Small t) (hn : sizeOf t < n) :
    gInsert n (repI val t) p id v = some (repI val (t.insert p id v)) := by
  induction n generalizing t with
  | zero => omega
  | succ n ih =>
    cases t with
    | empty ic => simp only [repI, gInsert, GItem.view, genItemInsert, leafNew_eq val, Item.insert]
    | leaf rx vs => simp only [repI, gInsert, GItem.view, genItemInsert, leafInsert_eq val, Item.insert]
    | node rx cs =>
      cases hs with
      | node _ _ hl hc =>
        simp only [repI, gInsert, GItem.view, genItemInsert]
        apply nodeInsert_eq val (gInsert n) rx cs p id v hl
        intro c hcm
        apply ih c (hc c hcm)
        have h1 := List.sizeOf_lt_of_mem hcm
        simp only [Item.node.sizeOf_spec] at hn
        omega

/-! ### `Small` holds on every tree built by inserting patterns shorter than 2^32 chars -/

/-- every node prefix AND every leaf pattern has fewer than 2^32 chars -/
inductive Bounded : Item ι V → Prop where
  | empty (ic : Bool) : Bounded (.empty ic)
  | leaf (rx : LazyRegex) (vs : List (ι × V)) (h : rx.original.length < 4294967296) : Bounded (.leaf rx vs)
  | node (rx : LazyRegex) (cs : List (Item ι V)) (h : rx.original.length < 4294967296) (hc : ∀ c ∈ cs, Bounded c) :
      Bounded (.node rx cs)

theorem bounded_small (t : Item ι V) (h : Bounded t) : Small t := by
  induction t using Item.ind with
  | hE ic => exact Small.empty ic
  | hL rx vs => exact Small.leaf rx vs
  | hN rx cs ih =>
    cases h with
    | node _ _ hl hc => exact Small.node rx cs hl (fun c hm => ih c hm (hc c hm))

theorem getPrefix_length_le (s : List Char) (k : Nat) : (getPrefixWithCharSize s k).length ≤ s.length := by
  unfold getPrefixWithCharSize
  split
  · simp
  · simp [List.length_take]; omega

theorem mem_insertAt {cs : List (Item ι V)} {i : Nat} {p : List Char} {id : ι} {v : V} {d : Item ι V}
    (h : d ∈ insertAt cs i p id v) : d ∈ cs ∨ ∃ c ∈ cs, d = c.insert p id v := by
  induction cs generalizing i with
  | nil => simp [insertAt] at h
  | cons a cs ih =>
    cases i with
    | zero =>
      simp only [insertAt, List.mem_append, List.mem_singleton] at h
      rcases h with h | h
      · exact Or.inl (List.mem_cons_of_mem _ h)
      · exact Or.inr ⟨a, List.mem_cons_self, h⟩
    | succ i =>
      simp only [insertAt, List.mem_cons] at h
      rcases h with h | h
      · exact Or.inl (h ▸ List.mem_cons_self)
      · rcases ih h with h' | ⟨c, hc, e⟩
        · exact Or.inl (List.mem_cons_of_mem _ h')
        · exact Or.inr ⟨c, List.mem_cons_of_mem _ hc, e⟩

theorem bounded_newLeafItem (p : List Char) (id : ι) (v : V) (ic : Bool) (hp : p.length < 4294967296) :
    Bounded (newLeafItem p id v ic) := Bounded.leaf _ _ hp

theorem bounded_insert (t : Item ι V) (p : List Char) (id : ι) (v : V) (h : Bounded t) (hp : p.length < 4294967296) :
    Bounded (t.insert p id v) := by
  induction t using Item.ind with
  | hE ic => rw [insert_empty]; exact bounded_newLeafItem p id v ic hp
  | hL rx vs =>
    cases h with
    | leaf _ _ hl =>
      rw [insert_leaf]; unfold leafInsert
      split
      · exact Bounded.leaf _ _ hl
      · refine Bounded.node _ _ ?_ ?_
        · have := getPrefix_length_le rx.original (commonPrefixCharSize rx.original p)
          simp only [LazyRegex.newNode, commonPrefix]; omega
        · intro c hc
          simp only [List.mem_cons, List.not_mem_nil, or_false] at hc
          rcases hc with rfl | rfl
          · exact Bounded.leaf _ _ hl
          · exact Bounded.leaf _ _ hp
  | hN rx cs ih =>
    cases h with
    | node _ _ hl hc =>
      by_cases hsplit : commonPrefixCharSize p rx.original < rx.original.length
      · rw [insert_node_split hsplit]
        refine Bounded.node _ _ ?_ ?_
        · have := getPrefix_length_le rx.original (commonPrefixCharSize p rx.original)
          simp only [LazyRegex.newNode]; omega
        · intro c hcm
          simp only [List.mem_cons, List.not_mem_nil, or_false] at hcm
          rcases hcm with rfl | rfl
          · exact bounded_newLeafItem p id v rx.ic hp
          · exact Bounded.node rx cs hl hc
      · cases hs : selLoop p (cs.map Item.regex) 0 rx.original.length none with
        | none =>
          rw [insert_node_none hsplit hs]
          refine Bounded.node _ _ hl ?_
          intro c hcm
          simp only [List.mem_append, List.mem_singleton] at hcm
          rcases hcm with hcm | rfl
          · exact hc c hcm
          · exact bounded_newLeafItem p id v rx.ic hp
        | some i =>
          rw [insert_node_some hsplit hs]
          refine Bounded.node _ _ hl ?_
          intro d hd
          rcases mem_insertAt hd with hd | ⟨c, hcm, rfl⟩
          · exact hc d hd
          · exact ih c hcm (hc c hcm)

/-- a history of insertions -/
def insertAll (t : Item ι V) (ops : List (List Char × ι × V)) : Item ι V :=
  ops.foldl (fun t o => t.insert o.1 o.2.1 o.2.2) t

theorem bounded_insertAll (t : Item ι V) (ops : List (List Char × ι × V)) (h : Bounded t)
    (hops : ∀ o ∈ ops, o.1.length < 4294967296) : Bounded (insertAll t ops) := by
  induction ops generalizing t with
  | nil => exact h
  | cons o ops ih =>
    simp only [insertAll, List.foldl_cons]
    exact ih _ (bounded_insert t _ _ _ h (hops o List.mem_cons_self)) (fun o' ho' => hops o' (List.mem_cons_of_mem _ ho'))

end Rio.TreeInsertGen
