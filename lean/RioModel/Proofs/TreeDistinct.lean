/-
Consequence of the invariant: no (pattern, id) is stored twice – in particular every pattern has at most
one leaf.  (This is the part of the tree invariant that failed before the `fix:` commit for D11.)
-/
import RioModel.Proofs.TreeHistory
set_option linter.unusedSimpArgs false
set_option linter.unusedVariables false
set_option linter.unusedSectionVars false

namespace Rio.Tree
open Rio.Scan Rio.Regex

variable {ι V : Type} [DecidableEq ι]

/-- Keys (pattern, id) are pairwise distinct. -/
def KeyNodup (L : List (Entry ι V)) : Prop := L.Pairwise fun a b => ¬(a.pat = b.pat ∧ a.id = b.id)

/-- Entries below two different children of a node have different patterns. -/
theorem cross_distinct {ic : Bool} {q : List Char} {ci cj : Item ι V}
    (hsib : Sib q.length ci.regex cj.regex)
    (hi : childOk q ci = true) (hj : childOk q cj = true)
    (hinvi : ci.inv ic = true) (hinvj : cj.inv ic = true) :
    ∀ e ∈ ci.contents, ∀ e' ∈ cj.contents, e.pat ≠ e'.pat := by
  intro e he e' he' hpat
  have hsel : q.length < commonPrefixCharSize e.pat ci.regex ∨ ci.regex = e.pat := by
    rcases child_pat hinvi he with ⟨_, hp⟩ | ⟨hn, hb⟩
    · exact Or.inr hp.symm
    · left
      rw [cpcs_eq_of_bpre hb]
      exact childOk_lt hi hn
  exact route_unique hsib hj hinvj hsel e' he' hpat.symm

theorem keyNodup_contents {ic : Bool} (t : Item ι V) (h : t.inv ic = true) : KeyNodup t.contents := by
  induction t using Item.ind with
  | hE ic' => simp [KeyNodup]
  | hL rx vs =>
    obtain ⟨_, _, _, h4⟩ := inv_leaf_iff.1 h
    rw [nodupKeys_iff] at h4
    rw [contents_leaf, KeyNodup, List.pairwise_map]
    exact h4.imp fun hab hk => hab hk.2.symm
  | hN rx cs ih =>
    obtain ⟨_, _, _, _, h5, h6, h7⟩ := inv_node_iff.1 h
    rw [contents_node]
    rw [List.pairwise_map] at h6
    have key : ∀ l : List (Item ι V), (∀ c ∈ l, c ∈ cs) →
        l.Pairwise (fun a b => Sib rx.original.length a.regex b.regex) → KeyNodup (contentsL l) := by
      intro l
      induction l with
      | nil => intro _ _; simp [contentsL, KeyNodup]
      | cons c l ihl =>
        intro hsub hpw
        rw [List.pairwise_cons] at hpw
        have hc := hsub c (by simp)
        simp only [contentsL]
        rw [KeyNodup, List.pairwise_append]
        refine ⟨ih c hc (h7 c hc), ihl (fun d hd => hsub d (by simp [hd])) hpw.2, ?_⟩
        intro e he e' he'
        obtain ⟨d, hd, hed⟩ := mem_contentsL.1 he'
        have hdm := hsub d (by simp [hd])
        have := cross_distinct (hpw.1 d hd) (h5 c hc) (h5 d hdm) (h7 c hc) (h7 d hdm) e he e' hed
        exact fun hk => this hk.1
    exact key cs (fun _ h => h) h6

/-- Under `KeyNodup`, `refInsert` is: drop the entry stored under (p, id), add the new one. -/
theorem refInsert_perm_filter' {L : List (Entry ι V)} (h : KeyNodup L) (p : List Char) (id : ι) (v : V) :
    (refInsert L p id v).Perm (⟨p, id, v⟩ :: L.filter fun e => !decide (e.pat = p ∧ e.id = id)) := by
  induction L with
  | nil => simp [refInsert]
  | cons a L ih =>
    rw [KeyNodup, List.pairwise_cons] at h
    simp only [refInsert]
    split
    · next hk =>
      have hrest : (L.filter fun e => !decide (e.pat = p ∧ e.id = id)) = L := by
        rw [List.filter_eq_self]
        intro e he
        have := h.1 e he
        simp only [Bool.not_eq_true', decide_eq_false_iff_not]
        intro hk'; exact this ⟨by rw [hk.1, hk'.1], by rw [hk.2, hk'.2]⟩
      rw [List.filter_cons, hrest]
      simp [hk]
    · next hk =>
      rw [List.filter_cons]
      simp only [hk, decide_false, Bool.not_false, if_true]
      exact (List.Perm.cons a (ih h.2)).trans (List.Perm.swap _ _ _)

end Rio.Tree
