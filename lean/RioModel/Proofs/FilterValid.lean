/-
C04, chains with several html stages: only the FIRST html stage of a chain can fail inside `filter()`.
The output of an html stage is a Rust `String` — in the model: complete valid UTF-8, because it is a concatenation of
raw bytes of tokens of a validated buffer (tokenizer law `TokValid`: token boundaries are character boundaries) and of
configured values (Rust `String`s: hypothesis `V content`).  A later html stage therefore only ever sees complete valid
input, its `last_buffer` stays complete valid, and its UTF-8 prologue never fails.
-/
import RioModel.Proofs.FilterChain
import RioModel.Proofs.FilterUtf8
import RioModel.Proofs.FilterTotal
import RioModel.Proofs.FilterText
set_option linter.unusedSimpArgs false
set_option linter.unusedVariables false

namespace Rio.Filter

/-- tokenizer law: the raw bytes of the tokens of a complete valid buffer are complete valid -/
def TokValid (tk : Tokenize) : Prop := ∀ d, V d → ∀ t ∈ (tk d).1, V t.raw

/-- the tokenizer laws that keep an html stage inside valid UTF-8: token boundaries are character boundaries for both
entry points, and the contexts the stream tokenizer reports are contexts `new_fragment` accepts -/
structure TokValidAll (tk : Tokenize) : Prop where
  plain : TokValid tk
  stream : TokValidS tk
  ctx : CtxClosed tk

theorem V_rawsOf {ts : List Tok} (h : ∀ t ∈ ts, V t.raw) : V (rawsOf ts) := by
  induction ts with
  | nil => exact V_nil
  | cons t ts ih =>
    rw [rawsOf_cons]
    exact V_append (h t (by simp)) (ih fun t' h' => h t' (by simp [h']))

theorem V_rest {tk : Tokenize} (hl : LosslessAll tk) (hv : TokValidAll tk) {d : Bytes} (hd : V d) : V (tk d).2 := by
  have := hl.plain d
  rw [← this] at hd
  exact V_of_append_left hd (V_rawsOf (hv.plain d (by rw [this] at hd; exact hd)))

/-! ### what one call of the html stage keeps and processes is complete valid UTF-8 -/

theorem view_all_V {tk : Tokenize} (hv : TokValidAll tk) {c d : Bytes} (hc : Ctx c) (hd : V d) :
    ∀ t ∈ (view tk c d).all, V t.raw := by
  intro t ht
  obtain ⟨x, hx, rfl⟩ := view_all_mem tk c d t ht
  exact hv.stream c d hc hd x hx

theorem view_rem_V {tk : Tokenize} (hl : LosslessAll tk) (hv : TokValidAll tk) {c d : Bytes} (hc : Ctx c) (hd : V d) :
    V (view tk c d).rem := by
  have h := view_all_rem tk hl.stream c d
  have hd' := hd
  rw [← h] at hd'
  exact V_of_append_left hd' (V_rawsOf (view_all_V hv hc hd))

theorem view_tail_V {tk : Tokenize} (hl : LosslessAll tk) (hv : TokValidAll tk) {c d : Bytes} (hc : Ctx c) (hd : V d) :
    V (view tk c d).tail := by
  rcases view_cases tk c d with ⟨_, h2⟩ | ⟨t, _, h1, h2⟩
  · rw [h2]; exact view_rem_V hl hv hc hd
  · rw [h2]
    exact V_append (view_all_V hv hc hd t (by rw [h1]; simp)) (view_rem_V hl hv hc hd)

theorem heldCtx_ctx (pre post : List TokX) (held ctxE : Bytes) (hpre : ∀ x ∈ pre, Ctx x.ctx)
    (hpost : ∀ x ∈ post, Ctx x.ctx) (he : Ctx ctxE) : Ctx (heldCtx pre post held ctxE) := by
  unfold heldCtx
  cases post with
  | cons x rest => exact hpost x (by simp)
  | nil =>
    simp only
    split
    · exact he
    · cases hg : pre.getLast? with
      | none => simpa using he
      | some x =>
        simp only [Option.map_some, Option.getD_some]
        exact hpre x (List.mem_of_getLast? hg)

theorem view_ctx {tk : Tokenize} (hv : TokValidAll tk) {c : Bytes} (d : Bytes) (hc : Ctx c) : Ctx (view tk c d).ctx' := by
  obtain ⟨h1, h2⟩ := hv.ctx c d hc
  exact heldCtx_ctx _ _ _ _
    (fun x hx => h1 x (by rw [← cutSplit_append (tk.stream c d).1]; simp [hx]))
    (fun x hx => h1 x (by rw [← cutSplit_append (tk.stream c d).1]; simp [hx])) h2

section
variable {tk : Tokenize} (hl : LosslessAll tk) (hv : TokValidAll tk) (ev : Bytes → Bytes → Bool)
include hl hv

omit hl hv in
theorem appendChildGo_V (child : Bytes) (hc : V child) : ∀ (ts : List Tok) (rest : Bytes) (level : Int) (out r : Bytes),
    (∀ t ∈ ts, V t.raw) → V rest → V out → appendChildGo child ts rest level out = some r → V r := by
  intro ts
  induction ts with
  | nil => intro rest level out r _ _ _ h; simp [appendChildGo] at h
  | cons t ts ih =>
    intro rest level out r hts hr ho h
    rw [appendChildGo] at h
    simp only at h
    generalize (if t.kind = TokKind.startTag then (if isVoid t.name = true then level else level + 1) else level) = l1 at h
    have ht := hts t (by simp)
    have hts' : ∀ t' ∈ ts, V t'.raw := fun t' h' => hts t' (by simp [h'])
    by_cases he : t.kind = TokKind.endTag
    · rw [if_pos he] at h
      by_cases hz : l1 - 1 = 0
      · rw [if_pos hz] at h
        injection h with h
        subst h
        exact V_append (V_append (V_append (V_append ho hc) ht) (V_rawsOf hts')) hr
      · rw [if_neg hz] at h
        exact ih _ _ _ _ hts' hr (V_append ho ht) h
    · rw [if_neg he] at h
      exact ih _ _ _ _ hts' hr (V_append ho ht) h

theorem appendChild_V (content child : Bytes) (h1 : V content) (h2 : V child) : V (appendChild tk content child) := by
  unfold appendChild
  cases hg : appendChildGo child (tk content).1 (tk content).2 0 [] with
  | none => simpa [hg] using h1
  | some r =>
    simp only [hg, Option.getD_some]
    exact appendChildGo_V child h2 _ _ _ _ _ (hv.plain content h1) (V_rest hl hv h1) V_nil hg

omit hl hv in
theorem prependChildGo_V (child : Bytes) (hc : V child) : ∀ (ts : List Tok) (rest out r : Bytes),
    (∀ t ∈ ts, V t.raw) → V rest → V out → prependChildGo child ts rest out = some r → V r := by
  intro ts
  induction ts with
  | nil => intro rest out r _ _ _ h; simp [prependChildGo] at h
  | cons t ts ih =>
    intro rest out r hts hr ho h
    rw [prependChildGo] at h
    have ht := hts t (by simp)
    have hts' : ∀ t' ∈ ts, V t'.raw := fun t' h' => hts t' (by simp [h'])
    split at h
    · injection h with h
      subst h
      exact V_append (V_append (V_append (V_append ho ht) hc) (V_rawsOf hts')) hr
    · exact ih _ _ _ hts' hr (V_append ho ht) h

theorem prependChild_V (content child : Bytes) (h1 : V content) (h2 : V child) : V (prependChild tk content child) := by
  unfold prependChild
  cases hg : prependChildGo child (tk content).1 (tk content).2 [] with
  | none => simpa [hg] using h1
  | some r =>
    simp only [hg, Option.getD_some]
    exact prependChildGo_V child h2 _ _ _ _ (hv.plain content h1) (V_rest hl hv h1) V_nil hg

theorem Visitor.leave_V (v : Visitor) (d : Bytes) (hc : V v.content) (hd : V d) :
    V (v.leave tk ev d).1.2.2 ∧ (v.leave tk ev d).2.content = v.content := by
  have hst := v.leave_static tk ev d
  simp only [Visitor.static, Prod.mk.injEq] at hst
  refine ⟨?_, hst.2.2⟩
  unfold Visitor.leave
  cases hk : v.kind <;> simp only [hk]
  · repeat' split
    all_goals first
      | exact hd
      | exact appendChild_V hl hv _ _ hd hc
      | exact V_append hc hd
  · repeat' split
    all_goals first
      | exact hd
      | exact prependChild_V hl hv _ _ hd hc
  · repeat' split
    all_goals first
      | exact hd
      | exact hc

omit hl hv in
theorem Visitor.enter_V (v : Visitor) (d : Bytes) (hc : V v.content) (hd : V d) :
    V (v.enter d).1.2.2.2 ∧ (v.enter d).2.content = v.content := by
  have hst := v.enter_static d
  simp only [Visitor.static, Prod.mk.injEq] at hst
  refine ⟨?_, hst.2.2⟩
  unfold Visitor.enter
  split
  · exact hd
  · cases hk : v.kind <;> simp only [hk]
    · exact hd
    · split
      · exact V_append hd hc
      · exact hd
    · exact hd

/-- valid content and valid buffers -/
def HV (s : HtmlSt) : Prop := V s.visitor.content ∧ ∀ l ∈ s.stack, V l.buffer

omit hl hv in
theorem onStart_V (s : HtmlSt) (name data : Bytes) (hs : HV s) (hd : V data) :
    HV (onStart s name data).1 ∧ V (onStart s name data).2 := by
  rw [onStart_eq]
  by_cases he : s.enter = some name
  · rw [if_pos he]
    simp only
    obtain ⟨e1, e2⟩ := s.visitor.enter_V data hs.1 hd
    by_cases hb : (s.visitor.enter data).1.2.2.1 = true
    · rw [if_pos hb]
      refine ⟨⟨by simpa using e2 ▸ hs.1, ?_⟩, e1⟩
      intro l hl'
      simp at hl'
      rcases hl' with rfl | hl'
      · exact V_nil
      · exact hs.2 l hl'
    · rw [if_neg hb]
      exact ⟨⟨by simpa using e2 ▸ hs.1, hs.2⟩, e1⟩
  · rw [if_neg he]
    exact ⟨hs, hd⟩

theorem onEnd_V (s : HtmlSt) (name data : Bytes) (hs : HV s) (hd : V data) :
    HV (onEnd tk ev s name data).1 ∧ V (onEnd tk ev s name data).2 := by
  rw [onEnd_eq]
  simp only
  have hbuf : V (if topMatches s.stack name = true then topBuffer s.stack ++ data else data) := by
    split
    · apply V_append _ hd
      cases hst : s.stack with
      | nil => exact V_nil
      | cons l rest => exact hs.2 l (by simp [hst])
    · exact hd
  generalize (if topMatches s.stack name = true then topBuffer s.stack ++ data else data) = buffer at hbuf
  obtain ⟨l1, l2⟩ := Visitor.leave_V hl hv ev s.visitor buffer hs.1 hbuf
  have htail : ∀ l ∈ s.stack.tail, V l.buffer := fun l h => hs.2 l (List.mem_of_mem_tail h)
  by_cases hlv : s.leave = some name <;> by_cases htm : topMatches s.stack name = true
  · rw [if_pos hlv, if_pos hlv, if_pos htm]; exact ⟨⟨by simpa using l2 ▸ hs.1, htail⟩, l1⟩
  · rw [if_pos hlv, if_pos hlv, if_neg htm]; exact ⟨⟨by simpa using l2 ▸ hs.1, hs.2⟩, l1⟩
  · rw [if_neg hlv, if_neg hlv, if_pos htm]; exact ⟨⟨hs.1, htail⟩, hbuf⟩
  · rw [if_neg hlv, if_neg hlv, if_neg htm]; exact ⟨hs, hbuf⟩

omit hl hv in
theorem push_V (s : HtmlSt) (out d : Bytes) (hs : HV s) (ho : V out) (hd : V d) :
    HV (push s out d).1 ∧ V (push s out d).2 := by
  unfold push
  cases hst : s.stack with
  | nil => simp only; exact ⟨hs, V_append ho hd⟩
  | cons l rest =>
    simp only
    refine ⟨⟨hs.1, ?_⟩, ho⟩
    intro l' hl'
    simp at hl'
    rcases hl' with rfl | hl'
    · exact V_append (hs.2 l (by simp [hst])) hd
    · exact hs.2 l' (by simp [hst, hl'])

theorem stepTok_V (s : HtmlSt) (out : Bytes) (t : Tok) (hs : HV s) (ho : V out) (ht : V t.raw) :
    HV (stepTok tk ev (s, out) t).1 ∧ V (stepTok tk ev (s, out) t).2 := by
  cases hk : t.kind with
  | startTag =>
    rw [stepTok_start tk ev s out t hk]
    obtain ⟨a1, a2⟩ := onStart_V s t.name t.raw hs ht
    split
    · obtain ⟨b1, b2⟩ := onEnd_V hl hv ev _ t.name _ a1 a2
      exact push_V _ out _ b1 ho b2
    · exact push_V _ out _ a1 ho a2
  | endTag =>
    rw [stepTok_end tk ev s out t hk]
    obtain ⟨b1, b2⟩ := onEnd_V hl hv ev s t.name t.raw hs ht
    exact push_V _ out _ b1 ho b2
  | selfClosing =>
    rw [stepTok_self tk ev s out t hk]
    obtain ⟨a1, a2⟩ := onStart_V s t.name t.raw hs ht
    obtain ⟨b1, b2⟩ := onEnd_V hl hv ev _ t.name _ a1 a2
    exact push_V _ out _ b1 ho b2
  | text =>
    rw [stepTok_other tk ev s out t (by simp [hk, isTagKind])]
    exact push_V s out t.raw hs ho ht
  | other =>
    rw [stepTok_other tk ev s out t (by simp [hk, isTagKind])]
    exact push_V s out t.raw hs ho ht

theorem fold_V (ts : List Tok) : ∀ (s : HtmlSt) (out : Bytes), HV s → V out → (∀ t ∈ ts, V t.raw) →
    HV (ts.foldl (stepTok tk ev) (s, out)).1 ∧ V (ts.foldl (stepTok tk ev) (s, out)).2 := by
  induction ts with
  | nil => intro s out hs ho _; exact ⟨hs, ho⟩
  | cons t ts ih =>
    intro s out hs ho hts
    simp only [List.foldl_cons]
    obtain ⟨a1, a2⟩ := stepTok_V hl hv ev s out t hs ho (hts t (by simp))
    generalize stepTok tk ev (s, out) t = p at a1 a2
    obtain ⟨s1, o1⟩ := p
    exact ih s1 o1 a1 a2 fun t' h' => hts t' (by simp [h'])

/-- **The output of an html stage is complete valid UTF-8** (whatever the input), its buffers stay valid and the
context it remembers is an accepted one. -/
theorem filterHtml_V (s s' : HtmlSt) (x o : Bytes) (hs : HV s) (hc : Ctx s.ctx)
    (h : filterHtml tk ev s x = some (s', o)) : HV s' ∧ Ctx s'.ctx ∧ V o := by
  rw [filterHtml_view] at h
  cases hsp : utf8Split (s.last ++ x) with
  | none => simp [hsp] at h
  | some ap =>
    obtain ⟨data, pending⟩ := ap
    simp only [hsp] at h
    have hd : V data := V_utf8Split hsp
    obtain ⟨f1, f2⟩ := fold_V hl hv ev (view tk s.ctx data).todo s [] hs V_nil
      fun t ht => view_all_V hv hc hd t (view_todo_sub tk s.ctx data t ht)
    generalize (view tk s.ctx data).todo.foldl (stepTok tk ev) (s, []) = fr at h f1 f2
    obtain ⟨sf, outf⟩ := fr
    simp only at h
    injection h with h
    injection h with h1 h2
    subst h1 h2
    exact ⟨f1, view_ctx hv data hc, f2⟩

/-- a stage whose `last_buffer` is complete valid and that is fed complete valid data never fails, and its
`last_buffer` stays complete valid -/
theorem filterHtml_total_of_V (s : HtmlSt) (x : Bytes) (hs : HV s) (hc : Ctx s.ctx) (hlast : V s.last) (hx : V x) :
    ∃ s' o, filterHtml tk ev s x = some (s', o) ∧ HV s' ∧ Ctx s'.ctx ∧ V s'.last ∧ V o := by
  have hd : V (s.last ++ x) := V_append hlast hx
  have hsp := utf8Split_of_V hd
  have hf : ∃ r, filterHtml tk ev s x = some r := by
    rw [filterHtml_view, hsp]
    exact ⟨_, rfl⟩
  obtain ⟨⟨s', o⟩, hf⟩ := hf
  obtain ⟨h1, h2, h3⟩ := filterHtml_V hl hv ev s s' x o hs hc hf
  refine ⟨s', o, hf, h1, h2, ?_, h3⟩
  rw [filterHtml_view, hsp] at hf
  simp only at hf
  injection hf with hf
  injection hf with hf1 _
  subst hf1
  simp only
  exact V_append (view_tail_V hl hv hc hd) V_nil

end

/-! ### chains: only the first html stage can fail inside `do_filter` -/

variable {D E : Type}

/-- a stage downstream of an html stage: valid values and buffers, and a complete valid `last_buffer` -/
def DStage : Stage D E → Prop
  | .html s => (HV s ∧ Ctx s.ctx) ∧ V s.last
  | .text s => V s.content
  | _ => False

def Down (items : List (Stage D E)) : Prop := ∀ st ∈ items, DStage st

/-- text stages, then an html stage, then downstream stages — or text stages only -/
def Shape (items : List (Stage D E)) : Prop :=
  AllText items ∨ ∃ pre h post, items = pre ++ .html h :: post ∧ AllText pre ∧ (HV h ∧ Ctx h.ctx) ∧ Down post

section
variable {tk : Tokenize} (hl : LosslessAll tk) (hv : TokValidAll tk) (ev : Bytes → Bytes → Bool) (codec : Codec D E)
include hl hv

theorem Stage.filter_down (st : Stage D E) (x : Bytes) (hd : DStage st) (hx : V x) :
    ∃ st' o, st.filter tk ev codec x = some (st', o) ∧ DStage st' ∧ V o := by
  cases st with
  | html s =>
    obtain ⟨s', o, h1, h2, h2', h3, h4⟩ := filterHtml_total_of_V hl hv ev s x hd.1.1 hd.1.2 hd.2 hx
    exact ⟨.html s', o, by simp [Stage.filter, h1], ⟨⟨h2, h2'⟩, h3⟩, h4⟩
  | text s =>
    refine ⟨.text (filterText s x).1, (filterText s x).2, rfl, ?_, ?_⟩
    · show V (filterText s x).1.content
      rw [(filterText_action s x).2]; exact hd
    · obtain ⟨a, c, e⟩ := s
      have hc : V c := hd
      cases a <;> cases e <;> simp [filterText] <;> first | exact hx | exact V_nil | exact hc | exact V_append hc hx
  | decode d => exact absurd hd (by simp [DStage])
  | encode e => exact absurd hd (by simp [DStage])

theorem doFilter_down : ∀ (items : List (Stage D E)) (x : Bytes), Down items → V x →
    ∃ items' out, doFilter tk ev codec items x = (items', some out) ∧ Down items' ∧ V out
  | [], x, _, hx => ⟨[], x, rfl, fun _ h => by simp at h, hx⟩
  | st :: rest, x, hd, hx => by
    obtain ⟨st', o, h1, h2, h3⟩ := Stage.filter_down hl hv ev codec st x (hd st (by simp)) hx
    rw [doFilter, h1]
    simp only
    have hrest : Down rest := fun s hs => hd s (by simp [hs])
    by_cases hemp : o.isEmpty = true
    · rw [if_pos hemp]
      refine ⟨st' :: rest, o, rfl, ?_, h3⟩
      intro s hs; simp at hs; rcases hs with rfl | hs
      · exact h2
      · exact hrest s hs
    · rw [if_neg hemp]
      obtain ⟨rest', out, r1, r2, r3⟩ := doFilter_down rest o hrest h3
      rw [r1]
      refine ⟨st' :: rest', out, rfl, ?_, r3⟩
      intro s hs; simp at hs; rcases hs with rfl | hs
      · exact h2
      · exact r2 s hs

/-- one call of `do_filter` on `pre ++ html h :: post` (text stages, an html stage, downstream stages) -/
theorem doFilter_shape : ∀ (pre : List (Stage D E)) (h : HtmlSt) (post : List (Stage D E)) (x : Bytes),
    AllText pre → (HV h ∧ Ctx h.ctx) → Down post →
    (∃ pre' h' post' out, doFilter tk ev codec (pre ++ .html h :: post) x = (pre' ++ .html h' :: post', some out) ∧
        AllText pre' ∧ (HV h' ∧ Ctx h'.ctx) ∧ Down post') ∨
    (∃ pre', doFilter tk ev codec (pre ++ .html h :: post) x = (pre' ++ .html h :: post, none) ∧
        AllText pre' ∧ pre'.map (stageRel (D := D) (E := E)) = pre.map stageRel)
  | [], h, post, x, _, hh, hpost => by
    simp only [List.nil_append]
    rw [doFilter]
    cases hf : filterHtml tk ev h x with
    | none =>
      right
      exact ⟨[], by simp [Stage.filter, hf], fun _ h => by simp at h, rfl⟩
    | some r =>
      obtain ⟨h', o⟩ := r
      obtain ⟨v1a, v1b, v2⟩ := filterHtml_V hl hv ev h h' x o hh.1 hh.2 hf
      have v1 : HV h' ∧ Ctx h'.ctx := ⟨v1a, v1b⟩
      left
      simp only [Stage.filter, hf, Option.map_some]
      by_cases hemp : o.isEmpty = true
      · rw [if_pos hemp]
        exact ⟨[], h', post, o, rfl, fun _ h => by simp at h, v1, hpost⟩
      · rw [if_neg hemp]
        obtain ⟨post', out, r1, r2, r3⟩ := doFilter_down hl hv ev codec post o hpost v2
        rw [r1]
        exact ⟨[], h', post', out, rfl, fun _ h => by simp at h, v1, r2⟩
  | st :: pre, h, post, x, hpre, hh, hpost => by
    obtain ⟨s, rfl⟩ := hpre st (by simp)
    have hpre' : AllText pre := fun st h => hpre st (by simp [h])
    simp only [List.cons_append]
    rw [doFilter]
    simp only [Stage.filter]
    by_cases hemp : (filterText s x).2.isEmpty = true
    · rw [if_pos hemp]
      left
      refine ⟨.text (filterText s x).1 :: pre, h, post, (filterText s x).2, rfl, ?_, hh, hpost⟩
      intro st hst; simp at hst; rcases hst with rfl | hst
      · exact ⟨_, rfl⟩
      · exact hpre' st hst
    · rw [if_neg hemp]
      rcases doFilter_shape pre h post (filterText s x).2 hpre' hh hpost with
        ⟨pre', h', post', out, r1, r2, r3, r4⟩ | ⟨pre', r1, r2, r3⟩
      · left
        rw [r1]
        refine ⟨.text (filterText s x).1 :: pre', h', post', out, rfl, ?_, r3, r4⟩
        intro st hst; simp at hst; rcases hst with rfl | hst
        · exact ⟨_, rfl⟩
        · exact r2 st hst
      · right
        rw [r1]
        refine ⟨.text (filterText s x).1 :: pre', rfl, ?_, ?_⟩
        · intro st hst; simp at hst; rcases hst with rfl | hst
          · exact ⟨_, rfl⟩
          · exact r2 st hst
        · simp [stageRel, textRel_filter, r3]

omit hl hv in
/-- text stages hold nothing: replacing them by text stages with the same relations keeps the invariant -/
theorem Inv_text_prefix : ∀ (pre pre' : List (Stage D E)) (rest : List (Stage D E)) (c e : Bytes),
    AllText pre → AllText pre' → pre'.map (stageRel (D := D) (E := E)) = pre.map stageRel →
    Inv (pre ++ rest) c e → Inv (pre' ++ rest) c e
  | [], [], rest, c, e, _, _, _, h => h
  | [], _ :: _, rest, c, e, _, _, hm, h => by simp at hm
  | _ :: _, [], rest, c, e, _, _, hm, h => by simp at hm
  | st :: pre, st' :: pre', rest, c, e, h1, h2, hm, h => by
    obtain ⟨s, rfl⟩ := h1 st (by simp)
    obtain ⟨s', rfl⟩ := h2 st' (by simp)
    simp only [List.map_cons, List.cons.injEq] at hm
    obtain ⟨m, i1, i2⟩ := h
    refine ⟨m, ?_, Inv_text_prefix pre pre' rest m e (fun st h => h1 st (by simp [h])) (fun st h => h2 st (by simp [h])) hm.2 i2⟩
    rw [hm.1]
    simpa [held] using i1

/-- **`Shape` makes a failure inside `do_filter` harmless**: the failing stage is the first html stage, the stages
before it are text stages. -/
theorem errSafe_shape : ErrSafe tk ev codec (Shape (D := D) (E := E)) := by
  constructor
  · intro items items' x out hp hok hes hd
    rcases hes with hall | ⟨pre, h, post, rfl, h1, h2, h3⟩
    · obtain ⟨i', o', e1, e2, _⟩ := doFilter_text tk ev codec items x hall
      rw [e1] at hd
      injection hd with hd1 _
      subst hd1
      exact Or.inl e2
    · rcases doFilter_shape hl hv ev codec pre h post x h1 h2 h3 with
        ⟨pre', h', post', out', r1, r2, r3, r4⟩ | ⟨pre', r1, _, _⟩
      · rw [r1] at hd
        injection hd with hd1 _
        subst hd1
        exact Or.inr ⟨pre', h', post', rfl, r2, r3, r4⟩
      · rw [r1] at hd
        injection hd with _ hd2
        simp at hd2
  · intro items items' x c e hp hok hes hinv hd
    rcases hes with hall | ⟨pre, h, post, rfl, h1, h2, h3⟩
    · obtain ⟨i', o', e1, _, _⟩ := doFilter_text tk ev codec items x hall
      rw [e1] at hd
      injection hd with _ hd2
      simp at hd2
    · rcases doFilter_shape hl hv ev codec pre h post x h1 h2 h3 with
        ⟨pre', h', post', out', r1, _, _, _⟩ | ⟨pre', r1, r2, r3⟩
      · rw [r1] at hd
        injection hd with _ hd2
        simp at hd2
      · rw [r1] at hd
        injection hd with hd1 _
        subst hd1
        refine ⟨?_, by simp [r3], Inv_text_prefix pre pre' _ c e h1 r2 r3 hinv⟩
        intro st hst
        simp only [List.mem_append, List.mem_cons] at hst
        rcases hst with hst | rfl | hst
        · obtain ⟨s, rfl⟩ := r2 st hst; rfl
        · rfl
        · exact hp st (by simp [hst])

end

end Rio.Filter
