/-
`Item.insert` preserves the structural invariant — for every inserted string (no hypothesis on the
pattern: the scanner always cuts at one of its own boundaries).
-/
import RioModel.Proofs.TreeBasic
set_option linter.unusedSimpArgs false
set_option linter.unusedVariables false
set_option linter.unusedSectionVars false

namespace Rio.Tree
open Rio.Scan Rio.Regex

variable {ι V : Type} [DecidableEq ι]

/-! ### The selection loop of `Node::insert` -/

theorem selLoop_some_isSome (p : List Char) (rs : List (List Char)) (i mx k : Nat) :
    (selLoop p rs i mx (some k)).isSome = true := by
  induction rs generalizing i mx k with
  | nil => simp [selLoop]
  | cons r rs ih =>
    simp only [selLoop]
    split
    · exact ih _ _ _
    · exact ih _ _ _

/-- No child selected: no child shares more than `mx` with `p` and none has `regex() == p`. -/
theorem selLoop_none {p : List Char} {rs : List (List Char)} {i mx : Nat}
    (h : selLoop p rs i mx none = none) :
    ∀ r ∈ rs, commonPrefixCharSize p r ≤ mx ∧ r ≠ p := by
  induction rs generalizing i with
  | nil => simp
  | cons r rs ih =>
    simp only [selLoop] at h
    split at h
    · have := selLoop_some_isSome p rs (i + 1) (commonPrefixCharSize p r) i
      rw [h] at this; simp at this
    · next hc =>
      simp only [Option.isNone_none, Bool.true_and, Bool.or_eq_true, decide_eq_true_eq, beq_iff_eq, not_or] at hc
      intro r' hr'
      rcases List.mem_cons.1 hr' with rfl | hr'
      · exact ⟨by omega, hc.2⟩
      · exact ih h r' hr'

/-- A selected child: either it was already selected, or it is the child at a position of the list that
shares more than `mx0` with `p` or has `regex() == p`. -/
theorem selLoop_some {p : List Char} {rs : List (List Char)} {i mx mx0 k : Nat} {item : Option Nat}
    (h : selLoop p rs i mx item = some k) (hmx : mx0 ≤ mx) (hpp : mx0 ≤ commonPrefixCharSize p p) :
    item = some k ∨ ∃ pre r post, rs = pre ++ r :: post ∧ k = i + pre.length ∧
      (mx0 < commonPrefixCharSize p r ∨ r = p) := by
  induction rs generalizing i mx item with
  | nil => simp [selLoop] at h; exact Or.inl h
  | cons r rs ih =>
    simp only [selLoop] at h
    split at h
    · next hc =>
      have hsel : mx0 < commonPrefixCharSize p r ∨ r = p := by
        simp only [Bool.or_eq_true, decide_eq_true_eq, Bool.and_eq_true, beq_iff_eq] at hc
        rcases hc with hc | ⟨_, hc⟩
        · left; omega
        · right; exact hc
      have hmx' : mx0 ≤ commonPrefixCharSize p r := by
        rcases hsel with h1 | h1
        · omega
        · rw [h1]; exact hpp
      rcases ih h hmx' with h1 | ⟨pre, r', post, e, hk, hs⟩
      · right
        refine ⟨[], r, rs, rfl, ?_, hsel⟩
        simp at h1 ⊢; omega
      · right
        exact ⟨r :: pre, r', post, by simp [e], by simp; omega, hs⟩
    · rcases ih h hmx with h1 | ⟨pre, r', post, e, hk, hs⟩
      · exact Or.inl h1
      · right
        exact ⟨r :: pre, r', post, by simp [e], by simp; omega, hs⟩

/-- The index returned by the loop is in range (so `Vec::remove` does not panic). -/
theorem selLoop_lt {p : List Char} {rs : List (List Char)} {mx k : Nat}
    (h : selLoop p rs 0 mx none = some k) : k < rs.length := by
  -- take mx0 = 0
  rcases selLoop_some (mx0 := 0) h (Nat.zero_le _) (Nat.zero_le _) with h1 | ⟨pre, r, post, e, hk, _⟩
  · simp at h1
  · subst e; simp; omega

/-! ### `insertAt` -/

theorem insertAt_append (pre : List (Item ι V)) (c : Item ι V) (post : List (Item ι V))
    (p : List Char) (id : ι) (v : V) :
    insertAt (pre ++ c :: post) pre.length p id v = pre ++ post ++ [c.insert p id v] := by
  induction pre with
  | nil => simp [insertAt]
  | cons a pre ih => simp [insertAt, ih]

/-! ### The three cases of `Node::insert` -/

theorem insert_node_split {rx : LazyRegex} {cs : List (Item ι V)} {p : List Char} {id : ι} {v : V}
    (h : commonPrefixCharSize p rx.original < rx.original.length) :
    (Item.node rx cs).insert p id v =
      .node (LazyRegex.newNode (getPrefixWithCharSize rx.original (commonPrefixCharSize p rx.original)) rx.ic)
        [newLeafItem p id v rx.ic, .node rx cs] := by
  rw [Item.insert]; simp [h]

theorem insert_node_some {rx : LazyRegex} {cs : List (Item ι V)} {p : List Char} {id : ι} {v : V} {i : Nat}
    (h : ¬ commonPrefixCharSize p rx.original < rx.original.length)
    (hs : selLoop p (cs.map Item.regex) 0 rx.original.length none = some i) :
    (Item.node rx cs).insert p id v = .node rx (insertAt cs i p id v) := by
  rw [Item.insert]; simp [h, hs]

theorem insert_node_none {rx : LazyRegex} {cs : List (Item ι V)} {p : List Char} {id : ι} {v : V}
    (h : ¬ commonPrefixCharSize p rx.original < rx.original.length)
    (hs : selLoop p (cs.map Item.regex) 0 rx.original.length none = none) :
    (Item.node rx cs).insert p id v = .node rx (cs ++ [newLeafItem p id v rx.ic]) := by
  rw [Item.insert]; simp [h, hs]

theorem insert_leaf (rx : LazyRegex) (vs : List (ι × V)) (p : List Char) (id : ι) (v : V) :
    (Item.leaf rx vs).insert p id v = leafInsert rx vs p id v := by
  rw [Item.insert]

theorem insert_empty (ic : Bool) (p : List Char) (id : ι) (v : V) :
    (Item.empty ic : Item ι V).insert p id v = newLeafItem p id v ic := by
  rw [Item.insert]

/-- Decomposition of the "descend" case: the selected child `c` sits at position `i`, it shares more
than the node prefix with `p` (or has the same regex), and it moves to the end. -/
theorem insert_node_descend {rx : LazyRegex} {cs : List (Item ι V)} {p : List Char} {id : ι} {v : V} {i : Nat}
    (hq : BPre rx.original p)
    (hs : selLoop p (cs.map Item.regex) 0 rx.original.length none = some i) :
    ∃ pre c post, cs = pre ++ c :: post ∧
      (rx.original.length < commonPrefixCharSize p c.regex ∨ c.regex = p) ∧
      insertAt cs i p id v = pre ++ post ++ [c.insert p id v] := by
  have hpp : rx.original.length ≤ commonPrefixCharSize p p := le_cpcs_of_bpre hq hq
  rcases selLoop_some hs (Nat.le_refl _) hpp with h1 | ⟨pre, r, post, e, hk, hsel⟩
  · simp at h1
  · obtain ⟨cpre, crest, rfl, hpre, hrest⟩ := List.map_eq_append_iff.1 e
    obtain ⟨c, cpost, rfl, hc, hpost⟩ := List.map_eq_cons_iff.1 hrest
    refine ⟨cpre, c, cpost, rfl, by rw [hc]; exact hsel, ?_⟩
    have : i = cpre.length := by simp at hk; rw [hk, ← hpre]; simp
    rw [this, insertAt_append]

/-! ### Shape of the result of an insertion relative to the item it was applied to -/

theorem insert_not_emptyCtor (t : Item ι V) (p : List Char) (id : ι) (v : V) :
    (t.insert p id v).isEmptyCtor = false := by
  cases t with
  | empty ic => simp [insert_empty, newLeafItem, Item.isEmptyCtor]
  | leaf rx vs =>
    rw [insert_leaf]; unfold leafInsert; split <;> simp [Item.isEmptyCtor]
  | node rx cs =>
    rw [Item.insert]
    split
    · simp [Item.isEmptyCtor]
    · split <;> simp [Item.isEmptyCtor]

/-- Either the item keeps its `regex()` and its kind, or it becomes a node whose prefix is the scanner's
common prefix with `p`, strictly inside the old `regex()` / different from the old leaf pattern. -/
theorem insert_regex_cases {ic : Bool} (c : Item ι V) (hc : c.inv ic = true) (hne : c.isEmptyCtor = false)
    (p : List Char) (id : ι) (v : V) :
    ((c.insert p id v).regex = c.regex ∧ (c.insert p id v).isNode = c.isNode) ∨
    ((c.insert p id v).isNode = true ∧
      (c.insert p id v).regex = c.regex.take (commonPrefixCharSize p c.regex) ∧
      c.regex ≠ p ∧ (c.isNode = true → commonPrefixCharSize p c.regex < c.regex.length)) := by
  cases c with
  | empty ic' => simp [Item.isEmptyCtor] at hne
  | leaf rx vs =>
    rw [insert_leaf]; unfold leafInsert
    split
    · left; simp [Item.isNode]
    · next hp =>
      right
      refine ⟨rfl, ?_, fun e => hp e.symm, by simp [Item.isNode]⟩
      simp [LazyRegex.newNode, commonPrefix_eq, cpcs_comm p]
  | node rx cs =>
    by_cases hsplit : commonPrefixCharSize p rx.original < rx.original.length
    · right
      rw [insert_node_split hsplit]
      refine ⟨rfl, by simp [LazyRegex.newNode, getPrefix_eq_take], ?_, fun _ => hsplit⟩
      intro e
      have hb := (inv_node_iff.1 hc).2.2.1
      have : commonPrefixCharSize p rx.original = rx.original.length := by
        simp only [regex_node] at e
        rw [← e]; exact cpcs_eq_of_bpre ⟨List.prefix_refl _, hb⟩
      omega
    · left
      cases hs : selLoop p (cs.map Item.regex) 0 rx.original.length none with
      | none => rw [insert_node_none hsplit hs]; simp [Item.isNode]
      | some i => rw [insert_node_some hsplit hs]; simp [Item.isNode]

/-! ### Invariant of fresh leaves -/

theorem inv_newLeafItem (p : List Char) (id : ι) (v : V) (ic : Bool) :
    (newLeafItem p id v ic).inv ic = true := by
  simp [newLeafItem, inv_leaf_iff, nodupKeys]

@[simp] theorem regex_newLeafItem (p : List Char) (id : ι) (v : V) (ic : Bool) :
    (newLeafItem p id v ic).regex = p := rfl

/-! ### Sibling relation under a change of one child -/

/-- Replacing a sibling's regex by a boundary prefix of it that is longer than the node prefix keeps the
sibling relation. -/
theorem sib_take {n : Nat} {r ri : List Char} {k : Nat} (h : Sib n r ri) (hk : n < k)
    (hb : BPre (ri.take k) ri) (hkl : k ≤ ri.length) : Sib n r (ri.take k) := by
  refine ⟨Nat.le_trans (cpcs_mono_right (List.take_prefix _ _)) h.1, ?_⟩
  intro e
  -- then r is a boundary prefix of ri, so the scanner finds all of it
  have h1 : commonPrefixCharSize ri r = r.length := cpcs_eq_of_bpre (by rw [e]; exact hb)
  have h2 : r.length = k := by rw [e, List.length_take]; omega
  have := h.1
  rw [cpcs_comm] at this
  omega

/-! ### `insert` preserves the invariant -/

theorem inv_insert {ic : Bool} (t : Item ι V) (p : List Char) (id : ι) (v : V)
    (h : t.inv ic = true) : (t.insert p id v).inv ic = true := by
  induction t using Item.ind with
  | hE ic' =>
    rw [insert_empty]
    have : ic' = ic := inv_empty_iff.1 h
    subst this; exact inv_newLeafItem _ _ _ _
  | hL rx vs =>
    obtain ⟨h1, h2, h3, h4⟩ := inv_leaf_iff.1 h
    rw [insert_leaf]; unfold leafInsert
    split
    · exact inv_leaf_iff.2 ⟨h1, h2, upsert_ne_nil _ _ _, nodupKeys_upsert h4 _ _⟩
    · next hp =>
      have hl := commonPrefix_bpre_left rx.original p
      have hr := commonPrefix_bpre_right rx.original p
      rw [inv_node_iff]
      refine ⟨newNode_nodeWf _ _, h2, hl.2, by simp, ?_, ?_, ?_⟩
      · intro c hc
        simp only [List.mem_cons, List.not_mem_nil, or_false] at hc
        rcases hc with rfl | rfl
        · exact childOk_leaf.2 hl
        · exact childOk_leaf.2 hr
      · simp only [List.map_cons, List.map_nil, regex_leaf, List.pairwise_cons, List.mem_cons,
          List.not_mem_nil, or_false, forall_eq, false_imp_iff, implies_true, List.Pairwise.nil, and_true]
        refine ⟨?_, fun e => hp e.symm⟩
        simp [LazyRegex.newNode, LazyRegex.newLeaf, commonPrefix_length]
      · intro c hc
        simp only [List.mem_cons, List.not_mem_nil, or_false] at hc
        rcases hc with rfl | rfl
        · exact h
        · rw [← h2]; exact inv_newLeafItem p id v rx.ic
  | hN rx cs ih =>
    obtain ⟨h1, h2, h3, h4, h5, h6, h7⟩ := inv_node_iff.1 h
    have hleaf : (newLeafItem p id v rx.ic).inv ic = true := by
      rw [← h2]; exact inv_newLeafItem p id v rx.ic
    by_cases hsplit : commonPrefixCharSize p rx.original < rx.original.length
    · -- split above this node
      rw [insert_node_split hsplit, inv_node_iff]
      have hb1 := take_cpcs_bpre p rx.original
      have hb2 := take_cpcs_bpre' p rx.original
      have hlen : (rx.original.take (commonPrefixCharSize p rx.original)).length
          = commonPrefixCharSize p rx.original := by
        rw [List.length_take]; omega
      refine ⟨newNode_nodeWf _ _, h2, ?_, by simp, ?_, ?_, ?_⟩
      · simpa [LazyRegex.newNode, getPrefix_eq_take] using hb1.2
      · intro c hc
        simp only [List.mem_cons, List.not_mem_nil, or_false] at hc
        rcases hc with rfl | rfl
        · simp only [newLeafItem, LazyRegex.newNode, LazyRegex.newLeaf, getPrefix_eq_take]
          exact childOk_leaf.2 hb2
        · simp only [LazyRegex.newNode, getPrefix_eq_take]
          exact childOk_node.2 ⟨hb1, by rw [hlen]; exact hsplit⟩
      · simp only [List.map_cons, List.map_nil, regex_newLeafItem, regex_node, List.pairwise_cons,
          List.mem_cons, List.not_mem_nil, or_false, forall_eq, false_imp_iff, implies_true,
          List.Pairwise.nil, and_true]
        refine ⟨?_, ?_⟩
        · simp [LazyRegex.newNode, getPrefix_eq_take, hlen]
        · intro e
          have : commonPrefixCharSize p rx.original = rx.original.length := by
            rw [e]; exact cpcs_eq_of_bpre ⟨List.prefix_refl _, h3⟩
          omega
      · intro c hc
        simp only [List.mem_cons, List.not_mem_nil, or_false] at hc
        rcases hc with rfl | rfl
        · exact hleaf
        · exact h
    · -- the node prefix is a boundary prefix of p
      have hps : commonPrefixCharSize p rx.original = rx.original.length := by
        have := cpcs_le_right p rx.original; omega
      have hq : BPre rx.original p := ⟨prefix_of_cpcs_eq hps, h3⟩
      cases hs : selLoop p (cs.map Item.regex) 0 rx.original.length none with
      | none =>
        rw [insert_node_none hsplit hs, inv_node_iff]
        have hnone := selLoop_none hs
        refine ⟨h1, h2, h3, by simp; omega, ?_, ?_, ?_⟩
        · intro c hc
          rcases List.mem_append.1 hc with hc | hc
          · exact h5 c hc
          · simp only [List.mem_cons, List.not_mem_nil, or_false] at hc
            subst hc
            exact childOk_leaf.2 hq
        · rw [List.map_append, List.pairwise_append]
          refine ⟨h6, by simp, ?_⟩
          intro r hr r' hr'
          simp only [List.map_cons, List.map_nil, regex_newLeafItem, List.mem_cons, List.not_mem_nil,
            or_false] at hr'
          subst hr'
          have := hnone r hr
          exact ⟨by rw [cpcs_comm]; exact this.1, this.2⟩
        · intro c hc
          rcases List.mem_append.1 hc with hc | hc
          · exact h7 c hc
          · simp only [List.mem_cons, List.not_mem_nil, or_false] at hc
            subst hc; exact hleaf
      | some i =>
        rw [insert_node_some hsplit hs]
        obtain ⟨pre, c, post, hcs, hsel, hat⟩ := insert_node_descend (id := id) (v := v) hq hs
        rw [hat, inv_node_iff]
        subst hcs
        have hcmem : c ∈ pre ++ c :: post := by simp
        have hcinv := h7 c hcmem
        have hcok := h5 c hcmem
        have hcne := childOk_notEmpty hcok
        have hcpre := childOk_bpre hcok
        have hc'inv := ih c hcmem hcinv
        -- the new child
        have hnew : childOk rx.original (c.insert p id v) = true ∧
            ∀ r, Sib rx.original.length r c.regex → Sib rx.original.length r (c.insert p id v).regex := by
          rcases insert_regex_cases c hcinv hcne p id v with ⟨hr, hn⟩ | ⟨hn, hr, hne, hlt⟩
          · refine ⟨childOk_of (insert_not_emptyCtor _ _ _ _) (by rw [hr]; exact hcpre) ?_, ?_⟩
            · intro hn'; rw [hr]; rw [hn] at hn'; exact childOk_lt hcok hn'
            · intro r hsib; rw [hr]; exact hsib
          · -- the child's prefix became `take k c.regex` with k > |q|
            have hk : rx.original.length < commonPrefixCharSize p c.regex := by
              rcases hsel with hsel | hsel
              · exact hsel
              · exact absurd hsel hne
            have hkl := cpcs_le_right p c.regex
            have hb := take_cpcs_bpre p c.regex
            refine ⟨childOk_of (insert_not_emptyCtor _ _ _ _) ?_ ?_, ?_⟩
            · rw [hr]
              refine ⟨?_, h3⟩
              rw [List.prefix_take_iff]
              exact ⟨hcpre.1, by omega⟩
            · intro _; rw [hr, List.length_take]; omega
            · intro r hsib; rw [hr]; exact sib_take hsib hk hb hkl
        have hpw : ((pre ++ c :: post).map Item.regex).Pairwise (Sib rx.original.length) := h6
        rw [List.map_append, List.map_cons, List.pairwise_append] at hpw
        obtain ⟨hp1, hp2, hp3⟩ := hpw
        rw [List.pairwise_cons] at hp2
        refine ⟨h1, h2, h3, by simp at h4 ⊢; omega, ?_, ?_, ?_⟩
        · intro d hd
          simp only [List.mem_append, List.mem_cons, List.not_mem_nil, or_false] at hd
          rcases hd with (hd | hd) | hd
          · exact h5 d (by simp [hd])
          · exact h5 d (by simp [hd])
          · subst hd; exact hnew.1
        · rw [List.map_append, List.map_append, List.pairwise_append]
          refine ⟨?_, by simp, ?_⟩
          · rw [List.pairwise_append]
            refine ⟨hp1, hp2.2, ?_⟩
            intro a ha b hb
            exact hp3 a ha b (List.mem_cons_of_mem _ hb)
          · intro a ha b hb
            simp only [List.map_cons, List.map_nil, List.mem_cons, List.not_mem_nil, or_false] at hb
            subst hb
            apply hnew.2
            rcases List.mem_append.1 ha with ha | ha
            · exact hp3 a ha _ List.mem_cons_self
            · exact (hp2.1 a ha).symm
        · intro d hd
          simp only [List.mem_append, List.mem_cons, List.not_mem_nil, or_false] at hd
          rcases hd with (hd | hd) | hd
          · exact h7 d (by simp [hd])
          · exact h7 d (by simp [hd])
          · subst hd; exact hc'inv

end Rio.Tree
