/-
C10 helpers: the regex engine as a parameter.  A pattern produced by `MarkerString::new` is a token list
(`Proofs/MarkerRegex`); the engine is assumed to implement the concatenation of the languages of the tokens
(`EngineLaws`, DESIGN §3).  From that: instantiations match, a match is a decomposition, delimiter-separated
instantiations decompose uniquely (so a rejected value does not match and the captures are the instantiation).
-/
import RioModel.Proofs.MarkerRegex
import RioModel.Model.MarkerSpec
set_option linter.unusedSimpArgs false

namespace Rio.Marker

/-- `s` splits along the tokens: a literal token consumes one char equal to it up to `ceq` (equality, or
equality up to case when the regex is built case-insensitively), a group token consumes a string accepted by
its expression (`L re v`).  `vs` = the consumed group values in order. -/
inductive Decomp (L : Str → Str → Prop) (ceq : Char → Char → Bool) : List Tok → Str → List (Str × Str) → Prop
  | nil : Decomp L ceq [] [] []
  | lit {c d ts s vs} : ceq c d = true → Decomp L ceq ts s vs → Decomp L ceq (.lit c :: ts) (d :: s) vs
  | grp {n re ts v s vs} : L re v → Decomp L ceq ts s vs → Decomp L ceq (.grp n re :: ts) (v ++ s) ((n, v) :: vs)

/-- What is assumed of the `regex` crate about the pattern built from ONE token list `ts`, for one
case-sensitivity setting: `full p s` = `^p$` matches `s`, `search p s` = `p` matches somewhere in `s`, `caps p s` =
the named groups of the match of `^p$`.  `L` is the language of the marker expressions under that setting.
In the capturing pattern only the FIRST group of a name is a named group (`renderCapture`), so the captured value
of a repeated marker is the value consumed by its first group: `vs.lookup n`. -/
structure EngineLaws (L : Str → Str → Prop) (ceq : Char → Char → Bool)
    (full search : Str → Str → Bool) (caps : Str → Str → Option (List (Str × Str))) (ts : List Tok) : Prop where
  full_iff : ∀ s, full (renderRegex ts) s = true ↔ ∃ vs, Decomp L ceq ts s vs
  search_iff : ∀ s, search (renderRegex ts) s = true ↔ ∃ a mid b vs, s = a ++ mid ++ b ∧ Decomp L ceq ts mid vs
  /-- the engine returns the groups of SOME decomposition (which one is its business) -/
  caps_sound : ∀ s m, caps (renderCapture ts) s = some m →
    ∃ vs, Decomp L ceq ts s vs ∧ ∀ n, m.lookup n = vs.lookup n
  caps_complete : ∀ s, (∃ vs, Decomp L ceq ts s vs) → (caps (renderCapture ts) s).isSome = true
  /-- the result is a map: every group name once -/
  caps_nodup : ∀ s m, caps (renderCapture ts) s = some m → (names m).Nodup

/-- The same laws at ONE haystack `s`: what the theorems about a given request actually use (so that they can be
discharged for a concrete engine and request by evaluation). -/
structure EngineLawsAt (L : Str → Str → Prop) (ceq : Char → Char → Bool)
    (full search : Str → Str → Bool) (caps : Str → Str → Option (List (Str × Str))) (ts : List Tok) (s : Str) :
    Prop where
  full_iff : full (renderRegex ts) s = true ↔ ∃ vs, Decomp L ceq ts s vs
  search_iff : search (renderRegex ts) s = true ↔ ∃ a mid b vs, s = a ++ mid ++ b ∧ Decomp L ceq ts mid vs
  caps_sound : ∀ m, caps (renderCapture ts) s = some m → ∃ vs, Decomp L ceq ts s vs ∧ ∀ n, m.lookup n = vs.lookup n
  caps_complete : (∃ vs, Decomp L ceq ts s vs) → (caps (renderCapture ts) s).isSome = true
  caps_nodup : ∀ m, caps (renderCapture ts) s = some m → (names m).Nodup

theorem EngineLaws.at_ {L : Str → Str → Prop} {ceq : Char → Char → Bool} {full search : Str → Str → Bool}
    {caps : Str → Str → Option (List (Str × Str))} {ts : List Tok}
    (laws : EngineLaws L ceq full search caps ts) (s : Str) : EngineLawsAt L ceq full search caps ts s :=
  ⟨laws.full_iff s, laws.search_iff s, laws.caps_sound s, laws.caps_complete s, laws.caps_nodup s⟩

/-! ### unanchored search derived from the anchored match -/

/-- All infixes of `s`. -/
def infixes (s : Str) : List Str :=
  (List.range (s.length + 1)).flatMap fun a => (List.range (s.length - a + 1)).map fun k => (s.drop a).take k

/-- `p` matches somewhere in `s` = `^p$` matches some infix of `s` (what `Regex::is_match` means for a pattern
without anchors or look-around). -/
def searchOf (full : Str → Str → Bool) (p s : Str) : Bool := (infixes s).any (full p)

theorem mem_infixes (s mid : Str) : mid ∈ infixes s ↔ ∃ a b, s = a ++ mid ++ b := by
  simp only [infixes, List.mem_flatMap, List.mem_range, List.mem_map]
  constructor
  · rintro ⟨a, _, k, _, rfl⟩
    refine ⟨s.take a, (s.drop a).drop k, ?_⟩
    rw [List.append_assoc, List.take_append_drop, List.take_append_drop]
  · rintro ⟨a, b, rfl⟩
    refine ⟨a.length, by simp; omega, mid.length, by simp; omega, ?_⟩
    simp

/-- If `full` satisfies the matching law on every haystack, `searchOf full` satisfies the search law. -/
theorem searchOf_iff (L : Str → Str → Prop) (ceq : Char → Char → Bool) (full : Str → Str → Bool) (ts : List Tok)
    (hfull : ∀ s, full (renderRegex ts) s = true ↔ ∃ vs, Decomp L ceq ts s vs) (s : Str) :
    searchOf full (renderRegex ts) s = true ↔ ∃ a mid b vs, s = a ++ mid ++ b ∧ Decomp L ceq ts mid vs := by
  simp only [searchOf, List.any_eq_true]
  constructor
  · rintro ⟨mid, hmem, hf⟩
    obtain ⟨a, b, rfl⟩ := (mem_infixes s mid).mp hmem
    obtain ⟨vs, hvs⟩ := (hfull mid).mp hf
    exact ⟨a, mid, b, vs, rfl, hvs⟩
  · rintro ⟨a, mid, b, vs, rfl, hvs⟩
    exact ⟨mid, (mem_infixes _ mid).mpr ⟨a, b, rfl⟩, (hfull mid).mpr ⟨vs, hvs⟩⟩

theorem decomp_inst (L : Str → Str → Prop) (ceq : Char → Char → Bool) (hrefl : ∀ c, ceq c c = true)
    (ts : List Tok) (v : Str → Str) (hacc : ∀ n re, Tok.grp n re ∈ ts → L re (v n)) :
    Decomp L ceq ts (instOf ts v) (groupValues ts v) := by
  induction ts with
  | nil => exact .nil
  | cons tk ts ih =>
    have ih' := ih (fun n re h => hacc n re (List.mem_cons_of_mem _ h))
    cases tk with
    | lit c =>
      simp only [instOf, List.flatMap_cons, groupValues, groupNames] at ih' ⊢
      exact .lit (hrefl c) ih'
    | grp n re =>
      simp only [instOf, List.flatMap_cons, groupValues, groupNames, List.map_cons] at ih' ⊢
      exact .grp (hacc n re (by simp)) ih'

/-- Delimiter-separated for the instantiation `v`: every group is the last token, or is followed by a literal
`d` that is matched by no char of the group's instantiated value nor of any string its expression accepts. -/
def Delimited (L : Str → Str → Prop) (ceq : Char → Char → Bool) (v : Str → Str) : List Tok → Prop
  | [] => True
  | .lit _ :: ts => Delimited L ceq v ts
  | .grp _ _ :: [] => True
  | .grp n re :: .lit d :: ts =>
    (∀ x ∈ v n, ceq d x = false) ∧ (∀ w, L re w → ∀ x ∈ w, ceq d x = false) ∧ Delimited L ceq v (.lit d :: ts)
  | .grp _ _ :: .grp _ _ :: _ => False

/-- Two strings without a `d`-like char, each followed by a `d`-like char, that start the same string, are equal. -/
theorem split_unique (P : Char → Bool) (a b x y : Str) (c d : Char) (ha : ∀ z ∈ a, P z = false)
    (hb : ∀ z ∈ b, P z = false) (hc : P c = true) (hd : P d = true) (h : a ++ c :: x = b ++ d :: y) :
    a = b ∧ x = y := by
  induction a generalizing b with
  | nil =>
    cases b with
    | nil => simp at h; exact ⟨rfl, h.2⟩
    | cons e es =>
      simp at h
      have := hb e (by simp)
      rw [← h.1, hc] at this; simp at this
  | cons e es ih =>
    cases b with
    | nil =>
      simp at h
      have := ha e (by simp)
      rw [h.1, hd] at this; simp at this
    | cons f fs =>
      simp at h
      obtain ⟨rfl, h⟩ := h
      have := ih fs (fun z hz => ha z (List.mem_cons_of_mem _ hz)) (fun z hz => hb z (List.mem_cons_of_mem _ hz)) h
      exact ⟨by rw [this.1], this.2⟩

theorem decomp_nil_inv {L : Str → Str → Prop} {ceq : Char → Char → Bool} {s : Str} {vs : List (Str × Str)}
    (h : Decomp L ceq [] s vs) : s = [] ∧ vs = [] := by
  cases h; exact ⟨rfl, rfl⟩

theorem decomp_lit_inv {L : Str → Str → Prop} {ceq : Char → Char → Bool} {c : Char} {ts : List Tok} {s : Str}
    {vs : List (Str × Str)} (h : Decomp L ceq (.lit c :: ts) s vs) :
    ∃ d s', s = d :: s' ∧ ceq c d = true ∧ Decomp L ceq ts s' vs := by
  generalize htk : Tok.lit c :: ts = tks at h
  cases h with
  | nil => simp at htk
  | lit hc hrest => simp at htk; obtain ⟨rfl, rfl⟩ := htk; exact ⟨_, _, rfl, hc, hrest⟩
  | grp hw hrest => simp at htk

theorem decomp_grp_inv {L : Str → Str → Prop} {ceq : Char → Char → Bool} {n re : Str} {ts : List Tok} {s : Str}
    {vs : List (Str × Str)} (h : Decomp L ceq (.grp n re :: ts) s vs) :
    ∃ w s' vs', s = w ++ s' ∧ vs = (n, w) :: vs' ∧ L re w ∧ Decomp L ceq ts s' vs' := by
  generalize htk : Tok.grp n re :: ts = tks at h
  cases h with
  | nil => simp at htk
  | lit hc hrest => simp at htk
  | grp hw hrest => simp at htk; obtain ⟨⟨rfl, rfl⟩, rfl⟩ := htk; exact ⟨_, _, _, rfl, rfl, hw, hrest⟩

theorem instOf_cons_lit (c : Char) (ts : List Tok) (v : Str → Str) : instOf (.lit c :: ts) v = c :: instOf ts v := by
  simp [instOf]

theorem instOf_cons_grp (n re : Str) (ts : List Tok) (v : Str → Str) :
    instOf (.grp n re :: ts) v = v n ++ instOf ts v := by
  simp [instOf]

theorem instOf_nil (v : Str → Str) : instOf [] v = [] := rfl

/-- A delimiter-separated instantiation decomposes in exactly one way: into itself (and then every value is
accepted). -/
theorem decomp_unique (L : Str → Str → Prop) (ceq : Char → Char → Bool) (hrefl : ∀ c, ceq c c = true)
    (v : Str → Str) (ts : List Tok)
    (hd : Delimited L ceq v ts) (vs : List (Str × Str)) (h : Decomp L ceq ts (instOf ts v) vs) :
    vs = groupValues ts v ∧ ∀ n re, Tok.grp n re ∈ ts → L re (v n) := by
  induction ts generalizing vs with
  | nil =>
    have := decomp_nil_inv h
    simp [this.2, groupValues, groupNames]
  | cons tk ts ih =>
    cases tk with
    | lit c =>
      rw [instOf_cons_lit] at h
      obtain ⟨d, s', heq, hc, hrest⟩ := decomp_lit_inv h
      simp only [List.cons.injEq] at heq
      obtain ⟨rfl, rfl⟩ := heq
      simp only [Delimited] at hd
      have := ih hd vs hrest
      refine ⟨by simpa [groupValues, groupNames] using this.1, ?_⟩
      intro n re hm
      rcases List.mem_cons.mp hm with h1 | h1
      · simp at h1
      · exact this.2 n re h1
    | grp n re =>
      rw [instOf_cons_grp] at h
      obtain ⟨w, s', vs', heq, rfl, hw, hrest⟩ := decomp_grp_inv h
      cases ts with
      | nil =>
        obtain ⟨rfl, rfl⟩ := decomp_nil_inv hrest
        simp only [instOf_nil, List.append_nil] at heq
        refine ⟨by simp [groupValues, groupNames, heq], ?_⟩
        intro n' re' hm
        simp at hm
        obtain ⟨rfl, rfl⟩ := hm
        rw [heq]; exact hw
      | cons tk2 ts2 =>
        cases tk2 with
        | grp n2 re2 => simp [Delimited] at hd
        | lit d =>
          simp only [Delimited] at hd
          obtain ⟨hdv, hdL, hdrest⟩ := hd
          obtain ⟨d', s'', rfl, hcd, hrest2⟩ := decomp_lit_inv hrest
          rw [instOf_cons_lit] at heq
          have hsplit := split_unique (fun z => ceq d z) (v n) w (instOf ts2 v) s'' d d'
            hdv (hdL w hw) (hrefl d) hcd heq
          obtain ⟨hvw, hss⟩ := hsplit
          have hdd : d = d' := by
            rw [hvw] at heq
            have := List.append_cancel_left heq
            simp at this; exact this.1
          subst hdd
          have hrest' : Decomp L ceq (.lit d :: ts2) (instOf (.lit d :: ts2) v) vs' := by
            rw [instOf_cons_lit, hss]; exact .lit hcd hrest2
          have := ih hdrest vs' hrest'
          refine ⟨?_, ?_⟩
          · rw [this.1, ← hvw]; simp [groupValues, groupNames]
          · intro n' re' hm
            rcases List.mem_cons.mp hm with h1 | h1
            · simp at h1
              obtain ⟨rfl, rfl⟩ := h1
              rw [hvw]; exact hw
            · exact this.2 n' re' h1

/-! ### a weaker delimiter condition: the language OR the rest of the instantiated string avoids the delimiter -/

/-- Like `Delimited`, but a group followed by the literal `d` may have ANY language (an "anything" marker `.+?`,
`.*`) provided `d` does not occur in the rest of the instantiated string after that literal (the common shapes
`/@a/rest`, `/@a/@id`, `@sub.example`): the value side is always required (`d` not in the group's own value). -/
def DelimitedOr (L : Str → Str → Prop) (ceq : Char → Char → Bool) (v : Str → Str) : List Tok → Prop
  | [] => True
  | .lit _ :: ts => DelimitedOr L ceq v ts
  | .grp _ _ :: [] => True
  | .grp n re :: .lit d :: ts =>
    (∀ x ∈ v n, ceq d x = false) ∧
    ((∀ w, L re w → ∀ x ∈ w, ceq d x = false) ∨ (∀ x ∈ instOf ts v, ceq d x = false)) ∧
    DelimitedOr L ceq v (.lit d :: ts)
  | .grp _ _ :: .grp _ _ :: _ => False

theorem delimitedOr_of_delimited (L : Str → Str → Prop) (ceq : Char → Char → Bool) (v : Str → Str) (ts : List Tok)
    (h : Delimited L ceq v ts) : DelimitedOr L ceq v ts := by
  induction ts with
  | nil => trivial
  | cons tk ts ih =>
    cases tk with
    | lit c => simp only [Delimited] at h; simp only [DelimitedOr]; exact ih h
    | grp n re =>
      cases ts with
      | nil => trivial
      | cons tk2 ts2 =>
        cases tk2 with
        | grp n2 re2 => simp [Delimited] at h
        | lit d =>
          simp only [Delimited] at h
          simp only [DelimitedOr]
          exact ⟨h.1, Or.inl h.2.1, ih h.2.2⟩

/-- `a` has no `d`-like char and nothing after the first `d`-like char has one: the split is forced. -/
theorem split_unique_or (P : Char → Bool) (a b x y : Str) (c d : Char) (ha : ∀ z ∈ a, P z = false)
    (hx : ∀ z ∈ x, P z = false) (hd : P d = true) (h : a ++ c :: x = b ++ d :: y) :
    a = b ∧ x = y := by
  induction a generalizing b with
  | nil =>
    cases b with
    | nil => simp at h; exact ⟨rfl, h.2⟩
    | cons e es =>
      simp at h
      have : d ∈ x := by rw [h.2]; simp
      rw [hx d this] at hd; simp at hd
  | cons e es ih =>
    cases b with
    | nil =>
      simp at h
      have := ha e (by simp)
      rw [h.1, hd] at this; simp at this
    | cons f fs =>
      simp at h
      obtain ⟨rfl, h⟩ := h
      have := ih fs (fun z hz => ha z (List.mem_cons_of_mem _ hz)) h
      exact ⟨by rw [this.1], this.2⟩

/-- Unique decomposition under the weaker condition. -/
theorem decomp_unique_or (L : Str → Str → Prop) (ceq : Char → Char → Bool) (hrefl : ∀ c, ceq c c = true)
    (v : Str → Str) (ts : List Tok)
    (hd : DelimitedOr L ceq v ts) (vs : List (Str × Str)) (h : Decomp L ceq ts (instOf ts v) vs) :
    vs = groupValues ts v ∧ ∀ n re, Tok.grp n re ∈ ts → L re (v n) := by
  induction ts generalizing vs with
  | nil =>
    have := decomp_nil_inv h
    simp [this.2, groupValues, groupNames]
  | cons tk ts ih =>
    cases tk with
    | lit c =>
      rw [instOf_cons_lit] at h
      obtain ⟨d, s', heq, hc, hrest⟩ := decomp_lit_inv h
      simp only [List.cons.injEq] at heq
      obtain ⟨rfl, rfl⟩ := heq
      simp only [DelimitedOr] at hd
      have := ih hd vs hrest
      refine ⟨by simpa [groupValues, groupNames] using this.1, ?_⟩
      intro n re hm
      rcases List.mem_cons.mp hm with h1 | h1
      · simp at h1
      · exact this.2 n re h1
    | grp n re =>
      rw [instOf_cons_grp] at h
      obtain ⟨w, s', vs', heq, rfl, hw, hrest⟩ := decomp_grp_inv h
      cases ts with
      | nil =>
        obtain ⟨rfl, rfl⟩ := decomp_nil_inv hrest
        simp only [instOf_nil, List.append_nil] at heq
        refine ⟨by simp [groupValues, groupNames, heq], ?_⟩
        intro n' re' hm
        simp at hm
        obtain ⟨rfl, rfl⟩ := hm
        rw [heq]; exact hw
      | cons tk2 ts2 =>
        cases tk2 with
        | grp n2 re2 => simp [DelimitedOr] at hd
        | lit d =>
          simp only [DelimitedOr] at hd
          obtain ⟨hdv, hdL, hdrest⟩ := hd
          obtain ⟨d', s'', rfl, hcd, hrest2⟩ := decomp_lit_inv hrest
          rw [instOf_cons_lit] at heq
          have hsplit : v n = w ∧ instOf ts2 v = s'' := by
            rcases hdL with hL | hR
            · exact split_unique (fun z => ceq d z) (v n) w (instOf ts2 v) s'' d d'
                hdv (hL w hw) (hrefl d) hcd heq
            · exact split_unique_or (fun z => ceq d z) (v n) w (instOf ts2 v) s'' d d' hdv hR hcd heq
          obtain ⟨hvw, hss⟩ := hsplit
          have hdd : d = d' := by
            rw [hvw] at heq
            have := List.append_cancel_left heq
            simp at this; exact this.1
          subst hdd
          have hrest' : Decomp L ceq (.lit d :: ts2) (instOf (.lit d :: ts2) v) vs' := by
            rw [instOf_cons_lit, hss]; exact .lit hcd hrest2
          have := ih hdrest vs' hrest'
          refine ⟨?_, ?_⟩
          · rw [this.1, ← hvw]; simp [groupValues, groupNames]
          · intro n' re' hm
            rcases List.mem_cons.mp hm with h1 | h1
            · simp at h1
              obtain ⟨rfl, rfl⟩ := h1
              rw [hvw]; exact hw
            · exact this.2 n' re' h1

theorem decomp_names {L : Str → Str → Prop} {ceq : Char → Char → Bool} {ts : List Tok} {s : Str}
    {vs : List (Str × Str)} (h : Decomp L ceq ts s vs) : names vs = groupNames ts := by
  induction h with
  | nil => rfl
  | lit _ _ ih => simpa [groupNames] using ih
  | grp _ _ ih => simp only [names, List.map_cons, groupNames] at ih ⊢; rw [ih]

/-! ### `HashMap::extend` on an empty map -/

theorem lookup_append' {β : Type} (a b : List (Str × β)) (n : Str) :
    (a ++ b).lookup n = (a.lookup n).or (b.lookup n) := by
  induction a with
  | nil => simp
  | cons p ps ih =>
    obtain ⟨k, v⟩ := p
    simp only [List.cons_append, List.lookup_cons]
    cases n == k <;> simp [ih]

theorem lookup_filter_ne {β : Type} (acc : List (Str × β)) (k n : Str) :
    (acc.filter fun e => e.1 != k).lookup n = if n = k then none else acc.lookup n := by
  induction acc with
  | nil => simp
  | cons p ps ih =>
    obtain ⟨a, v⟩ := p
    by_cases hak : a = k
    · subst hak
      simp only [List.filter_cons, bne_self_eq_false, Bool.false_eq_true, if_false, ih, List.lookup_cons]
      by_cases hn : n = a
      · simp [hn]
      · have : (n == a) = false := by simpa using hn
        simp [hn, this]
    · have : (a != k) = true := by simpa using hak
      simp only [List.filter_cons, this, if_true, List.lookup_cons, ih]
      by_cases hn : n = a
      · subst hn; simp [hak]
      · have : (n == a) = false := by simpa using hn
        simp [this]

theorem lookup_extendMap (acc kv : List (Str × Str)) (hnd : (names kv).Nodup) (n : Str) :
    (extendMap acc kv).lookup n = (kv.lookup n).or (acc.lookup n) := by
  induction kv generalizing acc with
  | nil => simp [extendMap]
  | cons p ps ih =>
    obtain ⟨k, v⟩ := p
    simp only [names, List.map_cons, List.nodup_cons] at hnd
    have hstep : extendMap acc ((k, v) :: ps) = extendMap ((acc.filter fun e => e.1 != k) ++ [(k, v)]) ps := by
      simp [extendMap]
    rw [hstep, ih _ hnd.2, lookup_append', lookup_filter_ne]
    simp only [List.lookup_cons]
    by_cases hn : n = k
    · subst hn
      have hnot : ps.lookup n = none := by
        cases hl : ps.lookup n with
        | none => rfl
        | some w =>
          have := mem_of_lookup_eq_some hl
          exact absurd (List.mem_map.mpr ⟨(n, w), this, rfl⟩) hnd.1
      simp [hnot]
    · have : (n == k) = false := by simpa using hn
      simp [hn, this]

theorem lookup_extendMap_nil (kv : List (Str × Str)) (hnd : (names kv).Nodup) (n : Str) :
    (extendMap [] kv).lookup n = kv.lookup n := by
  rw [lookup_extendMap [] kv hnd]; cases kv.lookup n <;> simp

/-! ### a capture list as a map -/

/-- Keep the first entry of every name. -/
def dedupKeys : List (Str × Str) → List (Str × Str)
  | [] => []
  | p :: ps => p :: (dedupKeys ps).filter (fun e => e.1 != p.1)

theorem lookup_dedupKeys (vs : List (Str × Str)) (n : Str) : (dedupKeys vs).lookup n = vs.lookup n := by
  induction vs with
  | nil => rfl
  | cons p ps ih =>
    obtain ⟨k, v⟩ := p
    simp only [dedupKeys, List.lookup_cons, lookup_filter_ne, ih]
    by_cases hn : n = k
    · simp [hn]
    · have : (n == k) = false := by simpa using hn
      simp [this, hn]

theorem nodup_names_dedupKeys (vs : List (Str × Str)) : (names (dedupKeys vs)).Nodup := by
  induction vs with
  | nil => simp [dedupKeys, names]
  | cons p ps ih =>
    obtain ⟨k, v⟩ := p
    simp only [dedupKeys, names, List.map_cons, List.nodup_cons]
    constructor
    · intro h
      obtain ⟨q, hq, hqk⟩ := List.mem_map.mp h
      have := (List.mem_filter.mp hq).2
      simp at this
      exact this hqk
    · have hsub : List.Sublist (((dedupKeys ps).filter (fun e => e.1 != k)).map (·.1)) ((dedupKeys ps).map (·.1)) :=
        List.Sublist.map _ List.filter_sublist
      exact List.Nodup.sublist hsub ih

end Rio.Marker
