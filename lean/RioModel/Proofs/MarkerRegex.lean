/-
C10 helpers: `MarkerString::new` computes the token view.  The guarded sequential replace over the escaped
template equals the rendering of the parsed template with every reference filled by `(?:re)` / `(?P<name>re)`.
-/
import RioModel.Proofs.Marker
set_option linter.unusedSimpArgs false

namespace Rio.Marker

theorem mem_of_lookup_eq_some {β : Type} {l : List (Str × β)} {n : Str} {w : β} (h : l.lookup n = some w) :
    (n, w) ∈ l := by
  induction l with
  | nil => simp at h
  | cons p ps ih =>
    obtain ⟨k, v⟩ := p
    simp only [List.lookup_cons] at h
    by_cases hk : n = k
    · subst hk; simp at h; subst h; simp
    · have : (n == k) = false := by simpa using hk
      simp only [this] at h
      exact List.mem_cons_of_mem _ (ih h)

/-! ### plain strings and escaping -/

def Plain (s : Str) : Prop := ∀ c ∈ s, isMeta c = false ∧ c ≠ '@'

theorem plainName_iff (n : Str) : plainName n = true ↔ Plain n := by
  simp [plainName, Plain, List.all_eq_true]

theorem Plain.noAt {s : Str} (h : Plain s) : '@' ∉ s := fun e => (h _ e).2 rfl

theorem Plain.tail {c : Char} {s : Str} (h : Plain (c :: s)) : Plain s :=
  fun d hd => h d (List.mem_cons_of_mem _ hd)

theorem Plain.of_append_right {a b : Str} (h : Plain (a ++ b)) : Plain b :=
  fun d hd => h d (List.mem_append_right _ hd)

theorem escape_plain {s : Str} (h : Plain s) : escape s = s := by
  induction s with
  | nil => rfl
  | cons c cs ih =>
    have hc := (h c (by simp)).1
    simp only [escape, List.flatMap_cons, escChar, hc] at ih ⊢
    simp [ih h.tail]

theorem escape_append (a b : Str) : escape (a ++ b) = escape a ++ escape b := by
  simp [escape]

theorem escChar_noAt (c : Char) (h : c ≠ '@') : '@' ∉ escChar c := by
  unfold escChar
  split <;> simp [Ne.symm h]

theorem isMeta_at : isMeta '@' = false := by decide

/-- Escaping commutes with parsing when the names are plain. -/
theorem escape_eq_render (ns : List Str) (hns : ∀ n ∈ ns, Plain n) (t : Str) :
    escape t = render escChar (parse ns t) := by
  induction t using parse_induction ns with
  | hnil => simp [parse_nil, render, escape]
  | hlit c cs hc ih =>
    rw [parse_lit _ _ _ hc, render_cons, ← ih]
    simp [escape, Item.render]
  | href cs n hl ih =>
    rw [parse_ref _ _ _ hl, render_cons, ← ih]
    obtain ⟨hn, r, hr⟩ := longest_some hl
    have : cs.drop n.length = r := by rw [← hr]; simp
    rw [this, ← hr]
    have e1 : escape ('@' :: (n ++ r)) = '@' :: (escape n ++ escape r) := by
      simp [escape, escChar, isMeta_at]
    rw [e1, escape_plain (hns n hn)]
    simp [Item.render]
  | hstray cs hl ih =>
    rw [parse_stray _ _ hl, render_cons, ← ih]
    simp [escape, Item.render, escChar, isMeta_at]

/-! ### maximality of the parsed references -/

/-- Every reference of the list is to the longest name that fits, every stray `@` is followed by no name. -/
def MaxP (ns : List Str) : List Item → Prop
  | [] => True
  | .ref n :: post => (∀ m ∈ ns, m <+: n ++ render idEsc post → blen m ≤ blen n) ∧ MaxP ns post
  | .stray :: post => (∀ m ∈ ns, ¬ m <+: render idEsc post) ∧ MaxP ns post
  | _ :: post => MaxP ns post

theorem parse_maxP (ns : List Str) (t : Str) : MaxP ns (parse ns t) := by
  induction t using parse_induction ns with
  | hnil => simp [parse_nil, MaxP]
  | hlit c cs hc ih => rw [parse_lit _ _ _ hc]; simpa [MaxP] using ih
  | href cs n hl ih =>
    rw [parse_ref _ _ _ hl]
    simp only [MaxP]
    refine ⟨?_, ih⟩
    rw [render_parse]
    obtain ⟨_, r, hr⟩ := longest_some hl
    have : n ++ cs.drop n.length = cs := by rw [← hr]; simp
    rw [this]
    exact longest_max hl
  | hstray cs hl ih =>
    rw [parse_stray _ _ hl]
    simp only [MaxP]
    refine ⟨?_, ih⟩
    rw [render_parse]
    exact longest_none hl

/-- A plain prefix of the final regex text lies in unescaped literal chars: it is a prefix of the template. -/
theorem plain_prefix_transfer (vs : List (Str × Str)) (hvals : ∀ p ∈ vs, ∃ r, p.2 = '(' :: r)
    (is : List Item) (hnotxt : ∀ x, Item.txt x ∉ is) (s : Str) (hs : Plain s)
    (h : s <+: render escChar (is.map (fill vs))) : s <+: render idEsc is := by
  have headMeta : ∀ (s : Str), Plain s → ∀ (d : Char) (r r' : Str), (isMeta d = true ∨ d = '@') →
      s <+: d :: r → s <+: r' := by
    intro s hs d r r' hd hx
    cases s with
    | nil => exact List.nil_prefix
    | cons c cs =>
      have hc : c = d := by
        obtain ⟨t, ht⟩ := hx
        simp at ht; exact ht.1
      have := hs c (by simp)
      rcases hd with hd | hd
      · rw [hc, hd] at this; simp at this
      · exact absurd (hc.trans hd) this.2
  induction is generalizing s with
  | nil => simpa [render_nil] using h
  | cons i is ih =>
    have ih' := ih (fun x hx => hnotxt x (List.mem_cons_of_mem _ hx))
    rw [List.map_cons, render_cons] at h
    rw [render_cons]
    cases i with
    | lit c =>
      simp only [fill, Item.render, idEsc] at h ⊢
      by_cases hc : isMeta c = true
      · simp only [escChar, hc, if_true, List.cons_append, List.nil_append] at h
        exact headMeta s hs '\\' _ _ (Or.inl (by decide)) h
      · have hc' : isMeta c = false := by simpa using hc
        simp only [escChar, hc', Bool.false_eq_true, if_false, List.cons_append, List.nil_append] at h
        simp only [List.cons_append, List.nil_append]
        cases s with
        | nil => exact List.nil_prefix
        | cons d ds =>
          rw [List.cons_prefix_cons] at h ⊢
          exact ⟨h.1, ih' ds hs.tail h.2⟩
    | txt x => exact absurd (by simp) (hnotxt x)
    | stray =>
      simp only [fill, Item.render, List.cons_append, List.nil_append] at h
      exact headMeta s hs '@' _ _ (Or.inr rfl) h
    | ref n =>
      simp only [fill] at h
      cases hl : vs.lookup n with
      | none =>
        simp only [hl, Item.render, List.cons_append] at h
        exact headMeta s hs '@' _ _ (Or.inr rfl) h
      | some w =>
        simp only [hl, Item.render] at h
        have hw : ∃ r, w = '(' :: r := by
          have : (n, w) ∈ vs := mem_of_lookup_eq_some hl
          exact hvals _ this
        obtain ⟨r, rfl⟩ := hw
        exact headMeta s hs '(' _ _ (Or.inl (by decide)) (by simpa using h)

/-- With plain names and inserted texts that start with `(`, the no-join condition holds by construction. -/
theorem noJoinP_of_plain (vs : List (Str × Str)) (hnames : ∀ p ∈ vs, Plain p.1)
    (hvals : ∀ p ∈ vs, ∃ r, p.2 = '(' :: r) (is : List Item) (hnotxt : ∀ x, Item.txt x ∉ is)
    (hmax : MaxP (names vs) is) : NoJoinP escChar vs is := by
  have hplain : ∀ m ∈ names vs, Plain m := by
    intro m hm
    simp only [names, List.mem_map] at hm
    obtain ⟨p, hp, rfl⟩ := hm
    exact hnames p hp
  induction is with
  | nil => simp [NoJoinP]
  | cons i is ih =>
    have hnotxt' : ∀ x, Item.txt x ∉ is := fun x hx => hnotxt x (List.mem_cons_of_mem _ hx)
    cases i with
    | lit c => simp only [MaxP] at hmax; simp only [NoJoinP]; exact ih hnotxt' hmax
    | txt x => exact absurd (by simp) (hnotxt x)
    | stray =>
      simp only [MaxP] at hmax
      simp only [NoJoinP]
      refine ⟨?_, ih hnotxt' hmax.2⟩
      intro m hm hp
      exact hmax.1 m hm (plain_prefix_transfer vs hvals is hnotxt' m (hplain m hm) hp)
    | ref n =>
      simp only [MaxP] at hmax
      simp only [NoJoinP]
      refine ⟨?_, ih hnotxt' hmax.2⟩
      intro m hm hnm hne hp
      obtain ⟨s, rfl⟩ := hnm
      have hs : Plain s := (hplain _ hm).of_append_right
      have h2 : s <+: render escChar (is.map (fill vs)) := (List.prefix_append_right_inj n).mp hp
      have h3 := plain_prefix_transfer vs hvals is hnotxt' s hs h2
      have h4 := hmax.1 (n ++ s) hm ((List.prefix_append_right_inj n).mpr h3)
      have := blen_lt_of_prefix_ne (List.prefix_append n s) hne
      omega

/-! ### the guarded fold of `MarkerString::new` -/

def regexVal (m : Str × Str) : Str × Str := (m.1, groupRegex m.2)
def captureVal (m : Str × Str) : Str × Str := (m.1, groupCapture m.1 m.2)

theorem render_append (esc : Char → Str) (a b : List Item) : render esc (a ++ b) = render esc a ++ render esc b := by
  simp [render]

theorem containsSub1_hit (p : Char) (ps a b : Str) : containsSub1 p ps (a ++ p :: (ps ++ b)) = true := by
  induction a with
  | nil =>
    have : pre ps (ps ++ b) = true := pre_iff.mpr (List.prefix_append _ _)
    simp [containsSub1, this]
  | cons c cs ih => simp [containsSub1, ih]

theorem contains_of_ref_mem (esc : Char → Str) (m : Str) (is : List Item) (h : Item.ref m ∈ is) :
    containsSub (fmt m) (render esc is) = true := by
  obtain ⟨l₁, l₂, rfl⟩ := List.append_of_mem h
  rw [render_append, render_cons]
  simp only [fmt, containsSub, Item.render, List.cons_append]
  exact containsSub1_hit _ _ _ _

theorem map_fill1_of_not_mem (m w : Str) (is : List Item) (h : Item.ref m ∉ is) : is.map (fill1 m w) = is := by
  induction is with
  | nil => rfl
  | cons i is ih =>
    have h1 : Item.ref m ∉ is := fun e => h (List.mem_cons_of_mem _ e)
    rw [List.map_cons, ih h1]
    cases i with
    | ref n =>
      have : n ≠ m := by intro e; subst e; exact h (by simp)
      simp [fill1, this]
    | _ => simp [fill1]

theorem mem_map_fill1_ref (m w n : Str) (is : List Item) :
    Item.ref n ∈ is.map (fill1 m w) ↔ Item.ref n ∈ is ∧ n ≠ m := by
  constructor
  · intro h
    obtain ⟨i, hi, he⟩ := List.mem_map.mp h
    cases i with
    | lit c => simp [fill1] at he
    | txt s => simp [fill1] at he
    | stray => simp [fill1] at he
    | ref n' =>
      simp only [fill1] at he
      split at he
      · simp at he
      · rename_i hne
        simp at he; subst he; exact ⟨hi, hne⟩
  · rintro ⟨h, hne⟩
    exact List.mem_map.mpr ⟨.ref n, h, by simp [fill1, hne]⟩

theorem clean_map_fill1 (esc : Char → Str) (m w : Str) (hw : '@' ∉ w) (is : List Item) (h : Clean esc is) :
    Clean esc (is.map (fill1 m w)) := by
  refine ⟨?_, ?_, ?_⟩
  · intro c hc
    obtain ⟨i, hi, he⟩ := List.mem_map.mp hc
    cases i with
    | lit c' => simp [fill1] at he; subst he; exact h.lit _ hi
    | txt s => simp [fill1] at he
    | stray => simp [fill1] at he
    | ref n => simp only [fill1] at he; split at he <;> simp at he
  · intro s hs
    obtain ⟨i, hi, he⟩ := List.mem_map.mp hs
    cases i with
    | lit c' => simp [fill1] at he
    | txt s' => simp [fill1] at he; subst he; exact h.txt _ hi
    | stray => simp [fill1] at he
    | ref n =>
      simp only [fill1] at he
      split at he
      · simp at he; subst he; exact hw
      · simp at he
  · intro n hn
    exact h.ref n ((mem_map_fill1_ref m w n is).mp hn).1

theorem sorted_map {β γ : Type} (f : Str × β → Str × γ) (hf : ∀ p, (f p).1 = p.1) (l : List (Str × β))
    (h : Sorted l) : Sorted (l.map f) := by
  unfold Sorted at h ⊢
  rw [List.pairwise_map]
  exact h.imp (by intro a b hab; rw [hf a, hf b]; exact hab)

theorem names_map {β γ : Type} (f : Str × β → Str × γ) (hf : ∀ p, (f p).1 = p.1) (l : List (Str × β)) :
    names (l.map f) = names l := by
  simp [names, List.map_map, Function.comp_def, hf]

theorem groupRegex_noAt (re : Str) (h : '@' ∉ re) : '@' ∉ groupRegex re := by
  simp [groupRegex, h]

theorem groupCapture_noAt (n re : Str) (hn : '@' ∉ n) (h : '@' ∉ re) : '@' ∉ groupCapture n re := by
  simp [groupCapture, h, hn]

/-- The loop of `MarkerString::new` in the item view: both strings are renderings of item lists with the same
open references; processing the (sorted) markers fills the references of both, and the `contains` guard only
skips markers that are not referenced. -/
theorem foldl_buildStep (l : List (Str × Str)) (isR isC : List Item) (used : List Str)
    (hsorted : Sorted l) (hnames : ∀ p ∈ l, '@' ∉ p.1) (hre : ∀ p ∈ l, '@' ∉ p.2)
    (hcleanR : Clean escChar isR) (hcleanC : Clean escChar isC)
    (hrefsR : ∀ n, Item.ref n ∈ isR → n ∈ names l)
    (hsame : ∀ n, Item.ref n ∈ isR ↔ Item.ref n ∈ isC)
    (hnjR : NoJoinP escChar (l.map regexVal) isR) (hnjC : NoJoinP escChar (l.map captureVal) isC) :
    (l.foldl buildStep ⟨render escChar isR, render escChar isC, used⟩).regex
        = render escChar (isR.map (fill (l.map regexVal))) ∧
    (l.foldl buildStep ⟨render escChar isR, render escChar isC, used⟩).capture
        = render escChar (isC.map (fill (l.map captureVal))) := by
  induction l generalizing isR isC used with
  | nil =>
    simp only [List.foldl_nil, List.map_nil]
    rw [show (fill []) = id from funext fill_nil]; simp
  | cons p rest ih =>
    obtain ⟨m, re⟩ := p
    have hm : '@' ∉ m := hnames (m, re) (by simp)
    have hr : '@' ∉ re := hre (m, re) (by simp)
    have hrefsC : ∀ n, Item.ref n ∈ isC → n ∈ names ((m, re) :: rest) := fun n hn => hrefsR n ((hsame n).mpr hn)
    have hsR : Sorted (((m, re) :: rest).map regexVal) := sorted_map regexVal (fun _ => rfl) _ hsorted
    have hsC : Sorted (((m, re) :: rest).map captureVal) := sorted_map captureVal (fun _ => rfl) _ hsorted
    have hsepR := sep_of_noJoin escChar m (groupRegex re) (rest.map regexVal) isR
      (by simpa [regexVal] using hsR) hm
      (by intro n hn; have := hrefsR n hn; simpa [names, regexVal, List.map_map, Function.comp_def] using this)
      (by simpa [regexVal] using hnjR)
    have hsepC := sep_of_noJoin escChar m (groupCapture m re) (rest.map captureVal) isC
      (by simpa [captureVal] using hsC) hm
      (by intro n hn; have := hrefsC n hn; simpa [names, captureVal, List.map_map, Function.comp_def] using this)
      (by simpa [captureVal] using hnjC)
    have hR := replace_render escChar m (groupRegex re) isR hcleanR hsepR
    have hC := replace_render escChar m (groupCapture m re) isC hcleanC hsepC
    -- the state after this marker, whatever the guard says
    have hstep : ∃ used', buildStep ⟨render escChar isR, render escChar isC, used⟩ (m, re) =
        ⟨render escChar (isR.map (fill1 m (groupRegex re))), render escChar (isC.map (fill1 m (groupCapture m re))), used'⟩ := by
      by_cases hg : containsSub (fmt m) (render escChar isR) = true
      · refine ⟨used ++ [m], ?_⟩
        simp only [buildStep]
        rw [if_pos hg]
        simp only [fmt, strReplace]
        rw [hR, hC]
      · refine ⟨used, ?_⟩
        have hnR : Item.ref m ∉ isR := fun e => hg (contains_of_ref_mem escChar m isR e)
        have hnC : Item.ref m ∉ isC := fun e => hnR ((hsame m).mpr e)
        simp only [buildStep]
        rw [if_neg hg, map_fill1_of_not_mem _ _ _ hnR, map_fill1_of_not_mem _ _ _ hnC]
    obtain ⟨used', hstep⟩ := hstep
    rw [List.foldl_cons, hstep]
    have hrest := ih (isR.map (fill1 m (groupRegex re))) (isC.map (fill1 m (groupCapture m re))) used'
      (List.pairwise_cons.mp hsorted).2
      (fun p hp => hnames p (List.mem_cons_of_mem _ hp)) (fun p hp => hre p (List.mem_cons_of_mem _ hp))
      (clean_map_fill1 escChar m _ (groupRegex_noAt re hr) isR hcleanR)
      (clean_map_fill1 escChar m _ (groupCapture_noAt m re hm hr) isC hcleanC)
      (by
        intro n hn
        obtain ⟨h1, h2⟩ := (mem_map_fill1_ref _ _ _ _).mp hn
        have := hrefsR n h1
        simp only [names, List.map_cons, List.mem_cons] at this
        rcases this with h | h
        · exact absurd h h2
        · exact h)
      (by
        intro n
        rw [mem_map_fill1_ref, mem_map_fill1_ref, hsame n])
      (by
        have := noJoin_step escChar m (groupRegex re) (rest.map regexVal) isR (by simpa [regexVal] using hnjR)
        exact this)
      (by
        have := noJoin_step escChar m (groupCapture m re) (rest.map captureVal) isC (by simpa [captureVal] using hnjC)
        exact this)
    rw [hrest.1, hrest.2]
    constructor
    · rw [List.map_cons, show regexVal (m, re) = (m, groupRegex re) from rfl, map_fill_cons]
    · rw [List.map_cons, show captureVal (m, re) = (m, groupCapture m re) from rfl, map_fill_cons]

/-! ### assembling `build` -/

theorem maxP_congr (ns ns' : List Str) (h : ∀ m, m ∈ ns' → m ∈ ns) (is : List Item) (hm : MaxP ns is) :
    MaxP ns' is := by
  induction is with
  | nil => simp [MaxP]
  | cons i is ih =>
    cases i with
    | lit c => simp only [MaxP] at hm ⊢; exact ih hm
    | txt s => simp only [MaxP] at hm ⊢; exact ih hm
    | stray => simp only [MaxP] at hm ⊢; exact ⟨fun m hm' => hm.1 m (h m hm'), ih hm.2⟩
    | ref n => simp only [MaxP] at hm ⊢; exact ⟨fun m hm' => hm.1 m (h m hm'), ih hm.2⟩

theorem insertByLen_map {β γ : Type} (f : Str × β → Str × γ) (hf : ∀ p, (f p).1 = p.1) (x : Str × β)
    (l : List (Str × β)) : insertByLen (f x) (l.map f) = (insertByLen x l).map f := by
  induction l with
  | nil => simp [insertByLen]
  | cons y ys ih =>
    simp only [List.map_cons, insertByLen, hf]
    split
    · simp
    · simp [ih]

theorem sortByLen_map {β γ : Type} (f : Str × β → Str × γ) (hf : ∀ p, (f p).1 = p.1) (l : List (Str × β)) :
    sortByLen (l.map f) = (sortByLen l).map f := by
  induction l with
  | nil => simp [sortByLen]
  | cons x xs ih => simp only [List.map_cons, sortByLen, ih, insertByLen_map f hf]

theorem lookup_map_regexVal (ms : List (Str × Str)) (n : Str) :
    (ms.map regexVal).lookup n = (ms.lookup n).map groupRegex := by
  induction ms with
  | nil => simp
  | cons p ps ih =>
    obtain ⟨k, v⟩ := p
    simp only [List.map_cons, regexVal, List.lookup_cons]
    cases h : n == k <;> simp [ih, regexVal]

theorem lookup_map_captureVal (ms : List (Str × Str)) (n : Str) :
    (ms.map captureVal).lookup n = (ms.lookup n).map (groupCapture n) := by
  induction ms with
  | nil => simp
  | cons p ps ih =>
    obtain ⟨k, v⟩ := p
    simp only [List.map_cons, captureVal, List.lookup_cons]
    cases h : n == k with
    | false => simp [ih, captureVal]
    | true =>
      have : n = k := by simpa using h
      simp [this]

theorem lookup_isSome_of_mem_names {β : Type} (ms : List (Str × β)) (n : Str) (h : n ∈ names ms) :
    ∃ v, ms.lookup n = some v := by
  induction ms with
  | nil => simp [names] at h
  | cons p ps ih =>
    obtain ⟨k, v⟩ := p
    simp only [List.lookup_cons]
    cases hk : n == k with
    | true => exact ⟨v, rfl⟩
    | false =>
      have hne : n ≠ k := by simpa using hk
      simp only [names, List.map_cons, List.mem_cons] at h
      rcases h with h | h
      · exact absurd h hne
      · exact ih h

/-- Rendering the filled items = rendering the tokens. -/
theorem render_fill_eq_tokens (ms : List (Str × Str)) (is : List Item)
    (hrefs : ∀ n, Item.ref n ∈ is → n ∈ names ms) (hnotxt : ∀ x, Item.txt x ∉ is) :
    render escChar (is.map (fill (ms.map regexVal))) = renderRegex (is.map (tokOf ms)) ∧
    render escChar (is.map (fill (ms.map captureVal))) = renderCapture (is.map (tokOf ms)) := by
  induction is with
  | nil => simp [render, renderRegex, renderCapture]
  | cons i is ih =>
    have ih' := ih (fun n hn => hrefs n (List.mem_cons_of_mem _ hn)) (fun x hx => hnotxt x (List.mem_cons_of_mem _ hx))
    simp only [List.map_cons, render_cons, renderRegex, renderCapture, List.flatMap_cons]
    simp only [renderRegex, renderCapture] at ih'
    rw [ih'.1, ih'.2]
    cases i with
    | lit c => simp [fill, Item.render, tokOf, Tok.regex, Tok.capture]
    | txt x => exact absurd (by simp) (hnotxt x)
    | stray => simp [fill, Item.render, tokOf, Tok.regex, Tok.capture, escChar, isMeta_at]
    | ref n =>
      obtain ⟨re, hre⟩ := lookup_isSome_of_mem_names ms n (hrefs n (by simp))
      simp [fill, lookup_map_regexVal, lookup_map_captureVal, hre, Item.render, tokOf, Tok.regex, Tok.capture]

/-- `MarkerString::new` computes the token view (both regexes). -/
theorem build_eq_tokens (t : Str) (ms : List (Str × Str))
    (hplain : ∀ p ∈ ms, Plain p.1) (hre : ∀ p ∈ ms, '@' ∉ p.2) :
    (build t ms).regex = renderRegex (tokens t ms) ∧ (build t ms).capture = renderCapture (tokens t ms) := by
  have hnsPlain : ∀ n ∈ names ms, Plain n := by
    intro n hn
    simp only [names, List.mem_map] at hn
    obtain ⟨p, hp, rfl⟩ := hn
    exact hplain p hp
  let is := parse (names ms) t
  have hesc : escape t = render escChar is := escape_eq_render (names ms) hnsPlain t
  have hclean : Clean escChar is := by
    refine ⟨?_, ?_, ?_⟩
    · intro c hc; exact escChar_noAt c (parse_lit_ne_at _ _ c hc)
    · intro s hs; exact absurd hs (parse_no_txt _ _ s)
    · intro n hn; exact (hnsPlain n (parse_refs _ _ n hn)).noAt
  have hrefs : ∀ n, Item.ref n ∈ is → n ∈ names ms := parse_refs _ _
  have hmax : MaxP (names ms) is := parse_maxP _ _
  have hnjR : NoJoinP escChar ((sortByLen ms).map regexVal) is := by
    apply noJoinP_of_plain
    · intro p hp
      obtain ⟨q, hq, rfl⟩ := List.mem_map.mp hp
      exact hplain q ((mem_sortByLen q ms).mp hq)
    · intro p hp
      obtain ⟨q, hq, rfl⟩ := List.mem_map.mp hp
      exact ⟨_, rfl⟩
    · exact parse_no_txt _ _
    · apply maxP_congr (names ms) _ _ is hmax
      intro m hm
      rw [names_map regexVal (fun _ => rfl)] at hm
      exact (mem_names_sortByLen ms m).mp hm
  have hnjC : NoJoinP escChar ((sortByLen ms).map captureVal) is := by
    apply noJoinP_of_plain
    · intro p hp
      obtain ⟨q, hq, rfl⟩ := List.mem_map.mp hp
      exact hplain q ((mem_sortByLen q ms).mp hq)
    · intro p hp
      obtain ⟨q, hq, rfl⟩ := List.mem_map.mp hp
      exact ⟨_, rfl⟩
    · exact parse_no_txt _ _
    · apply maxP_congr (names ms) _ _ is hmax
      intro m hm
      rw [names_map captureVal (fun _ => rfl)] at hm
      exact (mem_names_sortByLen ms m).mp hm
  have h := foldl_buildStep (sortByLen ms) is is [] (sorted_sortByLen ms)
    (fun p hp => (hplain p ((mem_sortByLen p ms).mp hp)).noAt)
    (fun p hp => hre p ((mem_sortByLen p ms).mp hp))
    hclean hclean (fun n hn => (mem_names_sortByLen ms n).mpr (hrefs n hn)) (fun _ => Iff.rfl) hnjR hnjC
  have hfR : fill ((sortByLen ms).map regexVal) = fill (ms.map regexVal) := by
    rw [← sortByLen_map regexVal (fun _ => rfl), fill_sortByLen]
  have hfC : fill ((sortByLen ms).map captureVal) = fill (ms.map captureVal) := by
    rw [← sortByLen_map captureVal (fun _ => rfl), fill_sortByLen]
  have htok := render_fill_eq_tokens ms is hrefs (parse_no_txt _ _)
  unfold build
  rw [hesc, h.1, h.2, hfR, hfC]
  exact htok

end Rio.Marker
